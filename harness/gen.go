package main

import (
	"fmt"
	"reflect"
	"sort"
	"strings"
	"time"

	"github.com/mfcochauxlaberge/jsonapi"
)

// ---------- kinds ----------

var kindGoType = map[int]reflect.Type{
	jsonapi.AttrTypeString: reflect.TypeOf(""),
	jsonapi.AttrTypeInt:    reflect.TypeOf(int(0)),
	jsonapi.AttrTypeInt8:   reflect.TypeOf(int8(0)),
	jsonapi.AttrTypeInt16:  reflect.TypeOf(int16(0)),
	jsonapi.AttrTypeInt32:  reflect.TypeOf(int32(0)),
	jsonapi.AttrTypeInt64:  reflect.TypeOf(int64(0)),
	jsonapi.AttrTypeUint:   reflect.TypeOf(uint(0)),
	jsonapi.AttrTypeUint8:  reflect.TypeOf(uint8(0)),
	jsonapi.AttrTypeUint16: reflect.TypeOf(uint16(0)),
	jsonapi.AttrTypeUint32: reflect.TypeOf(uint32(0)),
	jsonapi.AttrTypeUint64: reflect.TypeOf(uint64(0)),
	jsonapi.AttrTypeBool:   reflect.TypeOf(false),
	jsonapi.AttrTypeTime:   reflect.TypeOf(time.Time{}),
	jsonapi.AttrTypeBytes:  reflect.TypeOf([]byte{}),
}

func goTypeOf(kind int, nullable bool) reflect.Type {
	t := kindGoType[kind]
	if nullable {
		return reflect.PtrTo(t)
	}
	return t
}

// ---------- value encoding (must match Jsonapi/Driver/Value.lean) ----------

func sxTime(t time.Time) string {
	_, off := t.Zone()
	return lst("t", fmt.Sprint(t.Unix()), itoa(t.Nanosecond()), itoa(off))
}

func sxBytes(b []byte) string {
	if b == nil {
		return lst("bs", "nil")
	}
	return lst("bs", hx(string(b)))
}

func sxInt(i int64) string   { return lst("i", fmt.Sprint(i)) }
func sxUint(u uint64) string { return lst("i", fmt.Sprint(u)) }

func ptrSx(kind int, isNil bool, pay func() string) string {
	if isNil {
		return lst("ptr", itoa(kind), "nil")
	}
	return lst("ptr", itoa(kind), pay())
}

// sxVal encodes a Go value as the model's GoVal.
func sxVal(v any) string {
	val := func(kind int, pay string) string { return lst("val", itoa(kind), pay) }
	switch x := v.(type) {
	case nil:
		return "nil"
	case string:
		return val(jsonapi.AttrTypeString, lst("s", hx(x)))
	case int:
		return val(jsonapi.AttrTypeInt, sxInt(int64(x)))
	case int8:
		return val(jsonapi.AttrTypeInt8, sxInt(int64(x)))
	case int16:
		return val(jsonapi.AttrTypeInt16, sxInt(int64(x)))
	case int32:
		return val(jsonapi.AttrTypeInt32, sxInt(int64(x)))
	case int64:
		return val(jsonapi.AttrTypeInt64, sxInt(x))
	case uint:
		return val(jsonapi.AttrTypeUint, sxUint(uint64(x)))
	case uint8:
		return val(jsonapi.AttrTypeUint8, sxUint(uint64(x)))
	case uint16:
		return val(jsonapi.AttrTypeUint16, sxUint(uint64(x)))
	case uint32:
		return val(jsonapi.AttrTypeUint32, sxUint(uint64(x)))
	case uint64:
		return val(jsonapi.AttrTypeUint64, sxUint(x))
	case bool:
		return val(jsonapi.AttrTypeBool, lst("b", b01(x)))
	case time.Time:
		return val(jsonapi.AttrTypeTime, sxTime(x))
	case []byte:
		return val(jsonapi.AttrTypeBytes, sxBytes(x))
	case *string:
		return ptrSx(jsonapi.AttrTypeString, x == nil, func() string { return lst("s", hx(*x)) })
	case *int:
		return ptrSx(jsonapi.AttrTypeInt, x == nil, func() string { return sxInt(int64(*x)) })
	case *int8:
		return ptrSx(jsonapi.AttrTypeInt8, x == nil, func() string { return sxInt(int64(*x)) })
	case *int16:
		return ptrSx(jsonapi.AttrTypeInt16, x == nil, func() string { return sxInt(int64(*x)) })
	case *int32:
		return ptrSx(jsonapi.AttrTypeInt32, x == nil, func() string { return sxInt(int64(*x)) })
	case *int64:
		return ptrSx(jsonapi.AttrTypeInt64, x == nil, func() string { return sxInt(*x) })
	case *uint:
		return ptrSx(jsonapi.AttrTypeUint, x == nil, func() string { return sxUint(uint64(*x)) })
	case *uint8:
		return ptrSx(jsonapi.AttrTypeUint8, x == nil, func() string { return sxUint(uint64(*x)) })
	case *uint16:
		return ptrSx(jsonapi.AttrTypeUint16, x == nil, func() string { return sxUint(uint64(*x)) })
	case *uint32:
		return ptrSx(jsonapi.AttrTypeUint32, x == nil, func() string { return sxUint(uint64(*x)) })
	case *uint64:
		return ptrSx(jsonapi.AttrTypeUint64, x == nil, func() string { return sxUint(*x) })
	case *bool:
		return ptrSx(jsonapi.AttrTypeBool, x == nil, func() string { return lst("b", b01(*x)) })
	case *time.Time:
		return ptrSx(jsonapi.AttrTypeTime, x == nil, func() string { return sxTime(*x) })
	case *[]byte:
		return ptrSx(jsonapi.AttrTypeBytes, x == nil, func() string { return sxBytes(*x) })
	case []string:
		return lst("strs", hxs(x))
	default:
		return lst("other", "1")
	}
}

// sxResView encodes what the library can read from a Resource.
func sxResView(r jsonapi.Resource) string {
	attrs := r.Attrs()
	rels := r.Rels()
	ak := make([]string, 0, len(attrs))
	for k := range attrs {
		ak = append(ak, k)
	}
	sort.Strings(ak)
	rk := make([]string, 0, len(rels))
	for k := range rels {
		rk = append(rk, k)
	}
	sort.Strings(rk)
	as := make([]string, len(ak))
	vs := make([]string, 0, len(ak)+len(rk))
	for i, k := range ak {
		as[i] = lst(hx(k), sxAttr(attrs[k]))
		vs = append(vs, lst(hx(k), sxVal(r.Get(k))))
	}
	rs := make([]string, len(rk))
	for i, k := range rk {
		rs[i] = lst(hx(k), sxRel(rels[k]))
		vs = append(vs, lst(hx(k), sxVal(r.Get(k))))
	}
	sort.Strings(vs) // by hex key: same order as the driver's sort by key
	id, _ := r.Get("id").(string)
	return lst(hx(r.GetType().Name), hx(id), lst(as...), lst(rs...), lst(vs...))
}

// ---------- value generation ----------

var strPool = []string{"", "a", "b", "ab", "abc", "a\x00", "\x00", "é", "日本", "<>&", " ", "\"q\"", "a b", "z", "A", "<nil>", "~", "\xff", "10", "9"}
var bytesPool = [][]byte{{}, {1}, {2}, {1, 2}, {2, 1}, {1, 2, 3}, {1, 3}, {0}, {255}, {255, 0}, {0, 255}, []byte("hello"), {1, 2, 2}, {2, 1, 1}}

var intBounds = map[int][2]int64{
	jsonapi.AttrTypeInt:   {-1 << 63, 1<<63 - 1},
	jsonapi.AttrTypeInt8:  {-128, 127},
	jsonapi.AttrTypeInt16: {-32768, 32767},
	jsonapi.AttrTypeInt32: {-1 << 31, 1<<31 - 1},
	jsonapi.AttrTypeInt64: {-1 << 63, 1<<63 - 1},
}
var uintMax = map[int]uint64{
	jsonapi.AttrTypeUint:   1<<64 - 1,
	jsonapi.AttrTypeUint8:  255,
	jsonapi.AttrTypeUint16: 65535,
	jsonapi.AttrTypeUint32: 1<<32 - 1,
	jsonapi.AttrTypeUint64: 1<<64 - 1,
}

func genInt(r *Rng, kind int) int64 {
	b := intBounds[kind]
	switch r.IntN(8) {
	case 0:
		return b[0]
	case 1:
		return b[1]
	case 2:
		return b[0] + int64(r.IntN(3))
	case 3:
		return b[1] - int64(r.IntN(3))
	case 4:
		return 0
	case 5:
		return int64(r.IntN(5)) - 2
	default:
		span := uint64(b[1]) - uint64(b[0])
		return int64(uint64(b[0]) + r.Uint64()%span)
	}
}

func genUint(r *Rng, kind int) uint64 {
	m := uintMax[kind]
	switch r.IntN(8) {
	case 0:
		return 0
	case 1:
		return m
	case 2:
		return m - uint64(r.IntN(3))
	case 3:
		return uint64(r.IntN(4))
	case 4:
		if m > 1<<63 {
			return 1<<63 + uint64(r.IntN(5)) - 2
		}
		return m / 2
	default:
		if m == 1<<64-1 {
			return r.Uint64()
		}
		return r.Uint64() % (m + 1)
	}
}

var zoneOffsets = []int{0, 0, 3600, -3600, 19800, -34200, 86340, -86340, 60}

func genTime(r *Rng) time.Time {
	var sec int64
	switch r.IntN(8) {
	case 0:
		sec = -62135596800 // year 1
	case 1:
		sec = 253402300799 // 9999-12-31T23:59:59Z
	case 2:
		sec = 0
	case 3:
		sec = int64(r.IntN(5)) - 2
	case 4:
		sec = 1517630706
	default:
		sec = -62135596800 + int64(r.Uint64()%uint64(253402300799+62135596800))
	}
	nsec := int64(0)
	switch r.IntN(5) {
	case 0:
		nsec = 1
	case 1:
		nsec = 999999999
	case 2:
		nsec = 500000000
	case 3:
		nsec = int64(r.IntN(1000000000))
	}
	off := zoneOffsets[r.IntN(len(zoneOffsets))]
	t := time.Unix(sec, nsec)
	if off == 0 {
		return t.UTC()
	}
	lt := t.In(time.FixedZone("", off))
	if y := lt.Year(); y < 1 || y > 9999 { // outside the domain of time.Time.MarshalJSON
		return t.UTC()
	}
	return lt
}

func genStr(r *Rng) string {
	if r.chance(1, 6) {
		n := r.IntN(6)
		b := make([]byte, n)
		for i := range b {
			b[i] = byte("ab\x00z~A9 ,é"[r.IntN(10)])
		}
		return string(b)
	}
	return strPool[r.IntN(len(strPool))]
}

func genBytes(r *Rng) []byte {
	if r.chance(1, 6) {
		n := r.IntN(5)
		b := make([]byte, n)
		for i := range b {
			b[i] = byte(r.IntN(4))
		}
		return b
	}
	src := bytesPool[r.IntN(len(bytesPool))]
	out := make([]byte, len(src))
	copy(out, src)
	return out
}

// genVal returns a value of exactly the Go type of (kind, nullable).
// nilChance is the probability (num/den) of a nil pointer for nullable kinds.
func genVal(r *Rng, kind int, nullable bool) any {
	if nullable && r.chance(1, 4) {
		return reflect.Zero(goTypeOf(kind, true)).Interface()
	}
	var v any
	switch kind {
	case jsonapi.AttrTypeString:
		v = genStr(r)
	case jsonapi.AttrTypeInt:
		v = int(genInt(r, kind))
	case jsonapi.AttrTypeInt8:
		v = int8(genInt(r, kind))
	case jsonapi.AttrTypeInt16:
		v = int16(genInt(r, kind))
	case jsonapi.AttrTypeInt32:
		v = int32(genInt(r, kind))
	case jsonapi.AttrTypeInt64:
		v = genInt(r, kind)
	case jsonapi.AttrTypeUint:
		v = uint(genUint(r, kind))
	case jsonapi.AttrTypeUint8:
		v = uint8(genUint(r, kind))
	case jsonapi.AttrTypeUint16:
		v = uint16(genUint(r, kind))
	case jsonapi.AttrTypeUint32:
		v = uint32(genUint(r, kind))
	case jsonapi.AttrTypeUint64:
		v = genUint(r, kind)
	case jsonapi.AttrTypeBool:
		v = r.bool()
	case jsonapi.AttrTypeTime:
		v = genTime(r)
	case jsonapi.AttrTypeBytes:
		v = genBytes(r)
		if r.chance(1, 8) {
			v = []byte(nil) // a nil slice, by value or behind a non-nil pointer
		}
	}
	if !nullable {
		return v
	}
	p := reflect.New(kindGoType[kind])
	p.Elem().Set(reflect.ValueOf(v))
	return p.Interface()
}

// ---------- types and resources ----------

var fieldNames = []string{"a", "b", "c", "ab", "a_b", "name", "x", "y", "many", "manys", "one", "n1", "n2", "n3", "n4", "n5",
	"type", "links", "meta", "data", "attributes", "relationships", "self", "related", "ID", "Id", // these ten: names of JSON:API members, legal as field names
	"n,omitempty", "opt,string"} // a json tag is taken whole as the field's name, options included
var idPool = []string{"1", "2", "3", "10", "a", "b", "abc", "id", "x y", "é", "", "0", "9", "z", "a/b", "..", "a%2Fb", "1e3", "null", "01"}

type genTypeOpts struct {
	name     string
	maxAttrs int
	maxRels  int
	kinds    []int // nil = all
	targets  []string
}

// genTyp builds a well-formed Type (through the API) with random attributes and relationships.
func genTyp(r *Rng, o genTypeOpts) jsonapi.Type {
	t := jsonapi.Type{Name: o.name}
	names := r.Perm(len(fieldNames))
	na := r.IntN(o.maxAttrs + 1)
	nr := r.IntN(o.maxRels + 1)
	i := 0
	for ; i < na && i < len(names); i++ {
		kind := 1 + r.IntN(14)
		if len(o.kinds) > 0 {
			kind = o.kinds[r.IntN(len(o.kinds))]
		}
		// written into the maps directly: the generator must not depend on the editing API
		// of the code under test (names are distinct by construction)
		if t.Attrs == nil {
			t.Attrs = map[string]jsonapi.Attr{}
		}
		t.Attrs[fieldNames[names[i]]] = jsonapi.Attr{Name: fieldNames[names[i]], Type: kind, Nullable: r.bool()}
	}
	targets := o.targets
	if len(targets) == 0 {
		targets = []string{o.name}
	}
	for j := 0; j < nr && i < len(names); j, i = j+1, i+1 {
		rel := jsonapi.Rel{FromType: o.name, FromName: fieldNames[names[i]], ToOne: r.bool(), ToType: targets[r.IntN(len(targets))]}
		if r.chance(1, 3) {
			// names an inverse: any field name, often the name of one of this type's own
			// attributes (the inverse lives in the target type: no clash)
			rel.ToName = fieldNames[r.IntN(len(fieldNames))]
			if an := sortedKeys(t.Attrs); len(an) > 0 && r.bool() {
				rel.ToName = an[r.IntN(len(an))]
			}
			if strings.Contains(rel.ToName, ",") {
				rel.ToName = "inv" // an api tag cannot spell an inverse name with a comma
			}
		}
		if t.Rels == nil {
			t.Rels = map[string]jsonapi.Rel{}
		}
		t.Rels[rel.FromName] = rel
	}
	if t.Attrs == nil {
		t.Attrs = map[string]jsonapi.Attr{}
	}
	if t.Rels == nil {
		t.Rels = map[string]jsonapi.Rel{}
	}
	// a two-way pair within the type itself (parent / children): two of its relationships
	// that are each other's inverse
	if ks := sortedKeys(t.Rels); len(ks) >= 2 && r.chance(1, 4) && !strings.Contains(ks[0], ",") && !strings.Contains(ks[1], ",") {
		a, b := t.Rels[ks[0]], t.Rels[ks[1]]
		a.ToType, a.ToName, a.FromType = o.name, b.FromName, o.name
		b.ToType, b.ToName, b.FromType = o.name, a.FromName, o.name
		b.ToOne, b.FromOne = a.FromOne, a.ToOne
		t.Rels[ks[0]], t.Rels[ks[1]] = a, b
	}
	return t
}

// putAttr / putRel / putType build schemas and types by writing the maps and the slice
// directly: the generators must not depend on the editing API of the code under test
// (a field whose name is taken, or an unnamed one, is skipped, as the API would).
func putAttr(t *jsonapi.Type, a jsonapi.Attr) {
	if _, ok := t.Attrs[a.Name]; ok || a.Name == "" {
		return
	}
	if _, ok := t.Rels[a.Name]; ok {
		return
	}
	if t.Attrs == nil {
		t.Attrs = map[string]jsonapi.Attr{}
	}
	t.Attrs[a.Name] = a
}

func putRel(t *jsonapi.Type, rel jsonapi.Rel) {
	if _, ok := t.Attrs[rel.FromName]; ok || rel.FromName == "" || rel.ToType == "" {
		return
	}
	if _, ok := t.Rels[rel.FromName]; ok {
		return
	}
	if t.Rels == nil {
		t.Rels = map[string]jsonapi.Rel{}
	}
	t.Rels[rel.FromName] = rel
}

func putType(s *jsonapi.Schema, t jsonapi.Type) {
	for i := range s.Types {
		if s.Types[i].Name == t.Name {
			return
		}
	}
	if t.Name == "" {
		return
	}
	s.Types = append(s.Types, t)
}

func sortedKeys[V any](m map[string]V) []string {
	ks := make([]string, 0, len(m))
	for k := range m {
		ks = append(ks, k)
	}
	sort.Strings(ks)
	return ks
}

// structTypeFor builds, with reflect.StructOf, the struct a user would declare for typ.
func structTypeFor(typ jsonapi.Type) reflect.Type {
	return structTypeForID(typ, (len(typ.Attrs)+2*len(typ.Rels))%3)
}

// structTypeForID: idMode 0 a plain string ID, 1 an ID promoted from an embedded struct, 2 an
// ID of a defined string type
func structTypeForID(typ jsonapi.Type, idMode int) reflect.Type {
	idField := reflect.StructField{
		Name: "ID", Type: reflect.TypeOf(""),
		Tag: reflect.StructTag(fmt.Sprintf(`json:"id" api:"%s"`, typ.Name)),
	}
	fields := []reflect.StructField{idField}
	if idMode == 1 {
		// a third of the shapes declare the ID in an embedded struct (a common Base type):
		// the library finds it with FieldByName and it behaves like a directly declared ID
		fields = []reflect.StructField{{Name: "Base", Type: reflect.StructOf([]reflect.StructField{idField}), Anonymous: true}}
	}
	if idMode == 2 {
		// another third declare the ID with a defined string type (type UserID string): the
		// library reads and writes it through its kind, like a plain string
		idField.Type = reflect.TypeOf(namedStr(""))
		fields = []reflect.StructField{idField}
	}
	n := 0
	// decoy: a field of the same Go type carrying the same json tag but no api tag, declared
	// just before the real one (plain data of the user's struct, e.g. kept for another
	// encoder): it is no field of the resource and nothing may read or write it
	decoy := func(name string, ft reflect.Type, before bool) {
		// declared just before the real field, or (every other decoy) just after it
		if (len(name)+n)%4 == 2 && before == ((len(name)+n)%16 < 8) {
			if (len(name)+n)%8 == 6 {
				// ... or of another Go type (e.g. an amount in cents next to its decimal text)
				if ft.Kind() == reflect.Int64 {
					ft = reflect.TypeOf("")
				} else {
					ft = reflect.TypeOf(int64(0))
				}
			}
			fields = append(fields, reflect.StructField{
				Name: fmt.Sprintf("D%d", n), Type: ft,
				Tag: reflect.StructTag(fmt.Sprintf(`json:"%s"`, name)),
			})
		}
	}
	for _, k := range sortedKeys(typ.Attrs) {
		a := typ.Attrs[k]
		n++
		decoy(a.Name, goTypeOf(a.Type, a.Nullable), true)
		fields = append(fields, reflect.StructField{
			Name: fmt.Sprintf("F%d", n), Type: goTypeOf(a.Type, a.Nullable),
			Tag: reflect.StructTag(fmt.Sprintf(`json:"%s" api:"attr"`, a.Name)),
		})
		decoy(a.Name, goTypeOf(a.Type, a.Nullable), false)
	}
	for _, k := range sortedKeys(typ.Rels) {
		rel := typ.Rels[k]
		n++
		ft := reflect.TypeOf("")
		if !rel.ToOne {
			ft = reflect.TypeOf([]string{})
		}
		tag := "rel," + rel.ToType
		if rel.ToName != "" {
			tag += "," + rel.ToName
		}
		decoy(rel.FromName, ft, true)
		fields = append(fields, reflect.StructField{
			Name: fmt.Sprintf("F%d", n), Type: ft,
			Tag: reflect.StructTag(fmt.Sprintf(`json:"%s" api:"%s"`, rel.FromName, tag)),
		})
		decoy(rel.FromName, ft, false)
	}
	return reflect.StructOf(fields)
}

// newSoft / newWrapped create an empty resource of the type.
func newSoft(typ jsonapi.Type) *jsonapi.SoftResource {
	t := typ.Copy()
	return &jsonapi.SoftResource{Type: &t}
}

// renamedType: typ with every field renamed (same definitions, same number of fields).
func renamedType(typ jsonapi.Type, suffix string) jsonapi.Type {
	t := jsonapi.Type{Name: typ.Name, Attrs: map[string]jsonapi.Attr{}, Rels: map[string]jsonapi.Rel{}}
	for _, a := range typ.Attrs {
		a.Name += suffix
		t.Attrs[a.Name] = a
	}
	for _, rel := range typ.Rels {
		rel.FromName += suffix
		t.Rels[rel.FromName] = rel
	}
	return t
}

// newSoftVia creates an empty soft resource of the type the ways user code can: the struct
// literal, Type.New() on a type value that descends (Copy, rename, one more field) from a
// type which already created resources, or SetType on a resource that lived as another type
// (as many fields under other names, all set) - whatever its past, it is now an empty
// resource of typ.
func newSoftVia(r *Rng, typ jsonapi.Type, o *Out) *jsonapi.SoftResource {
	switch r.IntN(5) {
	case 0:
		o.stat("soft.via-type-new")
		pre := typ.Copy()
		pre.Name = "pre"
		dropped := ""
		if ks := sortedKeys(pre.Attrs); len(ks) > 0 {
			dropped = ks[r.IntN(len(ks))]
			delete(pre.Attrs, dropped)
		}
		_ = pre.New()
		_ = pre.New()
		t2 := pre.Copy()
		if r.bool() {
			t2 = pre
			t2.Attrs = map[string]jsonapi.Attr{}
			for k, a := range pre.Attrs {
				t2.Attrs[k] = a
			}
		}
		t2.Name = typ.Name
		if dropped != "" {
			t2.Attrs[dropped] = typ.Attrs[dropped]
		}
		if sr, ok := t2.New().(*jsonapi.SoftResource); ok {
			return sr
		}
		return newSoft(typ)
	case 1:
		o.stat("soft.via-settype")
		old := renamedType(typ, "~")
		old.Name = "old"
		sr := newSoft(old)
		fill(sr, "old-id", genFieldVals(r, old))
		t := typ.Copy()
		sr.SetType(&t)
		sr.SetID("")
		return sr
	case 2:
		// the application edited the type the resource points to, directly, after the
		// resource had been used: every field gave way to one of another name (as many
		// fields as before)
		o.stat("soft.via-type-edited-in-place")
		t := renamedType(typ, "~")
		t.Name = typ.Name
		sr := &jsonapi.SoftResource{Type: &t}
		fill(sr, "old-id", genFieldVals(r, t))
		for _, f := range t.Fields() {
			_ = sr.Get(f)
		}
		for k := range t.Attrs {
			delete(t.Attrs, k)
		}
		for k := range t.Rels {
			delete(t.Rels, k)
		}
		for k, a := range typ.Attrs {
			t.Attrs[k] = a
		}
		for k, rel := range typ.Rels {
			t.Rels[k] = rel
		}
		sr.SetID("")
		return sr
	default:
		return newSoft(typ)
	}
}

// newSoftShrunk: a soft resource that got all its values while its type still had one more
// attribute and one more relationship, and then lost those two fields (RemoveField, or
// SetType to the smaller type): what it holds for the remaining fields is what was set.
func newSoftShrunk(r *Rng, typ jsonapi.Type, id string, vals map[string]any, o *Out) *jsonapi.SoftResource {
	big := typ.Copy()
	big.Attrs["gone~a"] = jsonapi.Attr{Name: "gone~a", Type: jsonapi.AttrTypeString}
	big.Rels["gone~r"] = jsonapi.Rel{FromType: typ.Name, FromName: "gone~r", ToOne: false, ToType: typ.Name}
	sr := &jsonapi.SoftResource{Type: &big}
	fill(sr, id, vals)
	sr.Set("gone~a", "x")
	sr.Set("gone~r", []string{"y"})
	if r.bool() {
		sr.RemoveField("gone~a")
		sr.RemoveField("gone~r")
	} else {
		t := typ.Copy()
		sr.SetType(&t)
	}
	o.stat("soft.shrunk")
	return sr
}

func newWrapped(typ jsonapi.Type) *jsonapi.Wrapper {
	return jsonapi.Wrap(reflect.New(structTypeFor(typ)).Interface())
}

// fieldVals: random well-typed values for every field of the type.
func genFieldVals(r *Rng, typ jsonapi.Type) map[string]any {
	vals := map[string]any{}
	for _, k := range sortedKeys(typ.Attrs) {
		a := typ.Attrs[k]
		vals[k] = genVal(r, a.Type, a.Nullable)
	}
	for _, k := range sortedKeys(typ.Rels) {
		rel := typ.Rels[k]
		if rel.ToOne {
			vals[k] = idPool[r.IntN(len(idPool))]
		} else {
			n := r.IntN(4)
			ids := make([]string, n)
			for i := range ids {
				ids[i] = idPool[r.IntN(len(idPool))]
			}
			if n == 0 && r.bool() {
				ids = nil // an empty to-many is a nil or an empty slice
			}
			vals[k] = ids
		}
	}
	return vals
}

// cloneVal deep-copies a generated value so that two resources never share slices.
func cloneVal(v any) any {
	switch x := v.(type) {
	case []byte:
		if x == nil {
			return []byte(nil)
		}
		return append([]byte{}, x...)
	case *[]byte:
		if x == nil {
			return x
		}
		c := append([]byte{}, (*x)...)
		if *x == nil {
			c = nil
		}
		return &c
	case []string:
		if x == nil {
			return []string(nil)
		}
		return append([]string{}, x...)
	default:
		rv := reflect.ValueOf(v)
		if rv.IsValid() && rv.Kind() == reflect.Ptr && !rv.IsNil() {
			p := reflect.New(rv.Elem().Type())
			p.Elem().Set(rv.Elem())
			return p.Interface()
		}
		return v
	}
}

// newWrappedLiteral builds the struct the way user code does - as a literal, every field
// written directly, the ID included - and wraps it (no Set call is involved).
func newWrappedLiteral(typ jsonapi.Type, id string, vals map[string]any) *jsonapi.Wrapper {
	sv := reflect.New(structTypeFor(typ)).Elem()
	sv.FieldByName("ID").SetString(id)
	for i := 0; i < sv.NumField(); i++ {
		k := sv.Type().Field(i).Tag.Get("json")
		v, ok := vals[k]
		if !ok || sv.Type().Field(i).Anonymous || sv.Type().Field(i).Name == "ID" {
			continue
		}
		if sv.Type().Field(i).Tag.Get("api") == "" {
			// a decoy holds data of its own
			switch sv.Field(i).Interface().(type) {
			case string:
				sv.Field(i).SetString("decoy")
			case []string:
				sv.Field(i).Set(reflect.ValueOf([]string{"decoy"}))
			case []byte:
				sv.Field(i).Set(reflect.ValueOf([]byte("decoy")))
			case int64:
				sv.Field(i).SetInt(7)
			}
			continue
		}
		rv := reflect.ValueOf(cloneVal(v))
		if rv.IsValid() && rv.Type() == sv.Field(i).Type() {
			sv.Field(i).Set(rv)
		}
	}
	return jsonapi.Wrap(sv.Addr().Interface())
}

func fill(res jsonapi.Resource, id string, vals map[string]any) {
	res.Set("id", id)
	for _, k := range sortedKeys(vals) {
		res.Set(k, cloneVal(vals[k]))
	}
}

// guard runs f under recover and reports whether it panicked.
func guard(f func()) (panicked bool, msg string) {
	defer func() {
		if e := recover(); e != nil {
			panicked = true
			msg = fmt.Sprint(e)
		}
	}()
	f()
	return
}
