package main

import (
	"time"

	"github.com/mfcochauxlaberge/jsonapi"
)

// ---- filter encoding (matches Jsonapi/Driver/Filter.lean) ----

func sxFilter(f *jsonapi.Filter) string {
	if fs, ok := f.Val.([]*jsonapi.Filter); ok && (f.Op == "and" || f.Op == "or") {
		cs := make([]string, len(fs))
		for i := range fs {
			cs[i] = sxFilter(fs[i])
		}
		return lst("node", b01(f.Op == "and"), lst(cs...))
	}
	return lst("leaf", hx(f.Field), hx(f.Op), sxVal(f.Val))
}

var cmpOps = []string{"=", "!=", "<", "<=", ">", ">="}

// genLeaf: a well-typed comparison on a field of typ; related picks the filter's value
// close to the resource's value (equal, adjacent, shared prefix) half of the time.
func genLeaf(r *Rng, typ jsonapi.Type, vals map[string]any, o *Out) *jsonapi.Filter {
	fields := fieldsIndep(typ)
	if len(fields) == 0 {
		return &jsonapi.Filter{Op: "and", Val: []*jsonapi.Filter{}}
	}
	name := fields[r.IntN(len(fields))]
	op := cmpOps[r.IntN(len(cmpOps))]
	if r.chance(1, 12) {
		op = []string{"~", "==", "", "lt", "IN", "=<"}[r.IntN(6)]
		o.stat("op.unknown")
	}
	if a, ok := typ.Attrs[name]; ok {
		var v any
		switch r.IntN(4) {
		case 0:
			v = cloneVal(vals[name]) // equal
			o.stat("pair.equal")
		case 1:
			v = nearVal(r, vals[name], a)
			o.stat("pair.near")
		default:
			v = genVal(r, a.Type, a.Nullable)
			o.stat("pair.random")
		}
		if a.Type == jsonapi.AttrTypeString && !a.Nullable && r.chance(1, 6) {
			ids := []string{genStr(r), genStr(r)}
			if r.bool() {
				ids = append(ids, vals[name].(string))
			}
			o.stat("op.in")
			return &jsonapi.Filter{Field: name, Op: "in", Val: ids}
		}
		o.stat("kind." + kindNameIndep(a.Type, a.Nullable))
		o.stat("op." + op)
		return &jsonapi.Filter{Field: name, Op: op, Val: v}
	}
	rel := typ.Rels[name]
	if rel.ToOne {
		id := idPool[r.IntN(len(idPool))]
		if r.bool() {
			id = vals[name].(string)
		}
		if r.chance(1, 3) {
			o.stat("op.in")
			return &jsonapi.Filter{Field: name, Op: "in", Val: []string{idPool[r.IntN(len(idPool))], id}}
		}
		o.stat("rel.toone")
		return &jsonapi.Filter{Field: name, Op: op, Val: id}
	}
	cur := vals[name].([]string)
	if r.chance(1, 3) {
		id := idPool[r.IntN(len(idPool))]
		if len(cur) > 0 && r.bool() {
			id = cur[r.IntN(len(cur))]
		}
		o.stat("op.has")
		return &jsonapi.Filter{Field: name, Op: "has", Val: id}
	}
	var ids []string
	switch r.IntN(3) {
	case 0: // same set, permuted
		ids = append([]string{}, cur...)
		r.Shuffle(len(ids), func(i, j int) { ids[i], ids[j] = ids[j], ids[i] })
	case 1:
		ids = append([]string{}, cur...)
		if len(ids) > 0 {
			ids[r.IntN(len(ids))] = idPool[r.IntN(len(idPool))]
		}
	default:
		for i := r.IntN(4); i > 0; i-- {
			ids = append(ids, idPool[r.IntN(len(idPool))])
		}
	}
	if ids == nil && r.bool() { // an empty set is given as a nil or as an empty slice
		ids = []string{}
	}
	o.stat("rel.tomany")
	return &jsonapi.Filter{Field: name, Op: op, Val: ids}
}

// nearVal: a value of the same Go type adjacent to v (±1, shared prefix, extra byte).
func nearVal(r *Rng, v any, a jsonapi.Attr) any {
	c := cloneVal(v)
	switch x := c.(type) {
	case string:
		return tweakStr(r, x)
	case *string:
		if x != nil {
			s := tweakStr(r, *x)
			return &s
		}
	case []byte:
		return tweakBytes(r, x)
	case *[]byte:
		if x != nil {
			b := tweakBytes(r, *x)
			return &b
		}
	case time.Time:
		// the same instant in another zone, or an adjacent instant
		switch r.IntN(3) {
		case 0:
			return x.In(time.FixedZone("", 7200))
		case 1:
			return x.UTC()
		default:
			return x.Add(time.Nanosecond)
		}
	case *time.Time:
		if x != nil {
			var y time.Time
			switch r.IntN(3) {
			case 0:
				y = x.In(time.FixedZone("", -3600))
			case 1:
				y = x.UTC()
			default:
				y = x.Add(-time.Nanosecond)
			}
			return &y
		}
	case int8:
		if r.bool() && x < 127 {
			return x + 1
		} else if x > -128 {
			return x - 1
		}
	case int64:
		if x < 1<<63-1 {
			return x + 1
		}
	case uint64:
		if x > 0 {
			return x - 1
		}
	case int:
		if x > -1<<63 {
			return x - 1
		}
	}
	return genVal(r, a.Type, a.Nullable)
}

func tweakStr(r *Rng, s string) string {
	switch r.IntN(4) {
	case 0:
		return s + "a"
	case 1:
		if len(s) > 0 {
			return s[:len(s)-1]
		}
		return "\x00"
	case 2:
		if len(s) > 0 {
			b := []byte(s)
			b[len(b)-1]++
			return string(b)
		}
		return "a"
	default:
		return "a" + s
	}
}

func tweakBytes(r *Rng, b []byte) []byte {
	out := append([]byte{}, b...)
	switch r.IntN(4) {
	case 0:
		return append(out, 0)
	case 1:
		if len(out) > 0 {
			return out[:len(out)-1]
		}
		return []byte{0}
	case 2:
		if len(out) > 1 {
			out[0], out[1] = out[1], out[0]
		}
		return out
	default:
		if len(out) > 0 {
			out[len(out)-1]++
		}
		return out
	}
}

func genFilterTree(r *Rng, typ jsonapi.Type, vals map[string]any, depth int, o *Out) *jsonapi.Filter {
	if depth <= 0 || r.chance(2, 3) {
		return genLeaf(r, typ, vals, o)
	}
	n := r.IntN(4)
	fs := make([]*jsonapi.Filter, n)
	for i := range fs {
		fs[i] = genFilterTree(r, typ, vals, depth-1, o)
	}
	op := "and"
	if r.bool() {
		op = "or"
	}
	o.stat("op." + op)
	return &jsonapi.Filter{Op: op, Val: fs}
}

func evalFilter(f *jsonapi.Filter, res jsonapi.Resource) string {
	var ok bool
	p, _ := guard(func() { ok = f.IsAllowed(res) })
	if p {
		return "panic"
	}
	return "ok:" + b01(ok)
}

// filter suite: each case = (type, values, filter tree); evaluated on a soft resource and
// on a wrapped struct holding the same values.
func suiteFilter(r *Rng, n int, thorough bool, o *Out) {
	for c := 0; c < n; c++ {
		typ := genTyp(r, genTypeOpts{name: "t", maxAttrs: 4, maxRels: 2})
		vals := genFieldVals(r, typ)
		depth := 0
		if r.chance(1, 4) {
			depth = 1 + r.IntN(3)
		}
		untouched := r.chance(1, 6)
		if untouched {
			// resources nobody ever set a field of: every field holds its zero value, also in
			// a soft resource that just came to this type from another one
			for k := range vals {
				if a, ok := typ.Attrs[k]; ok {
					vals[k] = zeroIndep(a.Type, a.Nullable)
				} else if typ.Rels[k].ToOne {
					vals[k] = ""
				} else {
					vals[k] = []string{}
				}
			}
			o.stat("res.untouched")
		}
		f := genFilterTree(r, typ, vals, depth, o)
		fs := sxFilter(f)
		soft := newSoft(typ)
		wr := newWrapped(typ)
		if untouched {
			soft = newSoftVia(r, typ, o)
		} else {
			fill(soft, "1", vals)
			fill(wr, "1", vals)
		}
		// encode before evaluating: checkSlice sorts lists in place
		opS := lst("filter", "eval", sxResView(soft), fs)
		opW := lst("filter", "eval", sxResView(wr), fs)
		var evS, evW jsonapi.Resource = soft, wr
		if !untouched && r.chance(1, 4) {
			// the filter is asked about COPIES of the resources just encoded: a copy holds
			// the source's values, so the verdicts are the source's
			guard(func() { evS = soft.Copy() })
			guard(func() { evW = wr.Copy() })
			o.stat("res.copied-before-filter")
		}
		outS := evalFilter(f, evS)
		outW := evalFilter(f, evW)
		pv := "ok"
		if outS != outW {
			pv = "FAIL:verdict depends on the resource implementation (soft " + outS + ", wrapped " + outW + ")"
		}
		o.emit(opS, outS, pv)
		o.emit(opW, outW, pv)
	}
}

func init() {
	suites["filter"] = suiteFilter
}
