package main

import (
	"fmt"
	"reflect"
	"strings"

	"github.com/mfcochauxlaberge/jsonapi"
)

type specRow struct {
	id   string
	vals map[string]string // canonical sx of the stored value
}

// Go dynamic type of v equals the declared type of attribute a
func hasAttrGoType(v any, a jsonapi.Attr) bool {
	// (decided here, not by asking the library's own GetAttrType)
	gt, ok := kindGoType[a.Type]
	return ok && gt != nil && v != nil && reflect.TypeOf(v) == goTypeOf(a.Type, a.Nullable)
}

// dblPtrRes: Get(name) returns **T where the attribute holds *T.
type dblPtrRes struct {
	jsonapi.Resource
	name string
}

func (d dblPtrRes) Get(k string) any {
	v := d.Resource.Get(k)
	if rv := reflect.ValueOf(v); k == d.name && v != nil && rv.Kind() == reflect.Ptr {
		pp := reflect.New(rv.Type())
		pp.Elem().Set(rv)
		return pp.Interface()
	}
	return v
}

func colDump(sc *jsonapi.SoftCollection) string {
	items := make([]string, sc.Len())
	for i := range items {
		items[i] = sxResView(sc.At(i))
	}
	return sxType(sc.GetType()) + " " + lst(items...)
}

func suiteCollection(r *Rng, n int, thorough bool, o *Out) {
	kinds := []int{jsonapi.AttrTypeString, jsonapi.AttrTypeInt, jsonapi.AttrTypeBytes, jsonapi.AttrTypeBool, jsonapi.AttrTypeUint8, jsonapi.AttrTypeTime}
	names := []string{"a", "b", "c", "d"}
	genSmallType := func(name string) jsonapi.Type {
		t := jsonapi.Type{Name: name, Attrs: map[string]jsonapi.Attr{}, Rels: map[string]jsonapi.Rel{}}
		for _, nm := range names {
			switch r.IntN(4) {
			case 0:
				putAttr(&t, jsonapi.Attr{Name: nm, Type: kinds[r.IntN(len(kinds))], Nullable: r.bool()})
			case 1:
				putRel(&t, jsonapi.Rel{FromType: name, FromName: nm, ToOne: r.bool(), ToType: "t"})
			}
		}
		return t
	}
	for c := 0; c < n; c++ {
		sc := &jsonapi.SoftCollection{}
		typ := genSmallType("t")
		tc := typ.Copy()
		sc.SetType(&tc)
		var rows []specRow
		cur := copyTypeIndep(typ) // the oracle's idea of the current type (its own copy, not Type.Copy's)
		o.emit(lst("col", "reset", sxType(typ)), colDump(sc), "ok")
		// a scripted beginning in an eighth of the cases: the same ID added twice (or three
		// times), removed, looked up, removed and looked up again - the collection is the
		// plain list, whatever it keeps beside it
		var script []int
		forcedID := ""
		if r.chance(1, 8) {
			script = [][]int{{0, 0, 4, 9, 4, 9}, {0, 0, 0, 4, 9, 8, 4, 9, 4, 9}, {0, 5, 0, 4, 9, 0, 9}}[r.IntN(3)]
			forcedID = idPool[r.IntN(6)]
			o.stat("scripted-duplicates")
		}
		for h := 1 + r.IntN(10) + len(script); h > 0; h-- {
			var op, obs, pv string
			pv = "ok"
			panicked := false
			k := r.IntN(10)
			if len(script) > 0 {
				k, script = script[0], script[1:]
			} else {
				forcedID = ""
			}
			pickID := func() string {
				id := idPool[r.IntN(6)]
				if forcedID != "" {
					id = forcedID
				}
				return id
			}
			switch {
			case k < 4: // Add
				rt := genSmallType("t")
				if r.chance(1, 3) {
					rt = copyTypeIndep(cur) // the collection's own type
				}
				vals := genFieldVals(r, rt)
				var res jsonapi.Resource
				if sc.Type != nil && r.chance(1, 5) {
					// a soft resource that shares the collection's own *Type object
					rt = copyTypeIndep(cur)
					vals = genFieldVals(r, rt)
					sr := &jsonapi.SoftResource{}
					sr.SetType(sc.Type)
					res = sr
					o.stat("add.soft-sharing-type-pointer")
				} else if r.bool() {
					res = newSoft(rt)
					o.stat("add.soft")
				} else {
					res = newWrapped(rt)
					o.stat("add.wrapped")
				}
				id := pickID()
				fill(res, id, vals)
				if r.chance(1, 8) {
					// an application's own Resource whose Get hands out a pointer to the pointer
					// for one nullable attribute: not the attribute's Go type, so not stored
					for _, an := range sortedKeys(rt.Attrs) {
						if rt.Attrs[an].Nullable {
							res = dblPtrRes{res, an}
							o.stat("add.pointer-to-pointer-value")
							break
						}
					}
				}
				op = lst("col", "add", sxResView(res))
				panicked, _ = guard(func() { sc.Add(res) })
				// oracle: the type gains the fields it lacks; a value is kept when it has the
				// Go type the collection's definition of that name asks for
				row := specRow{id: id, vals: map[string]string{}}
				free := func(nm string) bool {
					_, isA := cur.Attrs[nm]
					_, isR := cur.Rels[nm]
					return !isA && !isR
				}
				keep := func(nm string, v any) {
					if ca, ok := cur.Attrs[nm]; ok {
						if hasAttrGoType(v, ca) {
							row.vals[nm] = canonSx(v)
						} else if v == nil && ca.Nullable {
							row.vals[nm] = "nil"
						} else {
							o.stat("add.ill-typed-dropped")
						}
					} else if cr, ok := cur.Rels[nm]; ok {
						_, isS := v.(string)
						_, isL := v.([]string)
						if (isS && cr.ToOne) || (isL && !cr.ToOne) {
							row.vals[nm] = canonSx(v)
						} else {
							o.stat("add.ill-typed-dropped")
						}
					}
				}
				// what the argument holds is what the generator wrote into it (vals), not what
				// the argument's own Get says; only the deliberately odd getter of dblPtrRes
				// is followed (on the written value)
				given := func(nm string) any {
					v := cloneVal(vals[nm])
					if d, ok := res.(dblPtrRes); ok && nm == d.name && v != nil && reflect.ValueOf(v).Kind() == reflect.Ptr {
						pp := reflect.New(reflect.TypeOf(v))
						pp.Elem().Set(reflect.ValueOf(v))
						return pp.Interface()
					}
					return v
				}
				for _, an := range sortedKeys(rt.Attrs) {
					if free(an) {
						cur.Attrs[an] = rt.Attrs[an]
						o.stat("add.extends-type")
					}
					keep(an, given(an))
				}
				for _, rn := range sortedKeys(rt.Rels) {
					if free(rn) {
						cur.Rels[rn] = rt.Rels[rn]
					}
					keep(rn, given(rn))
				}
				rows = append(rows, row)
				// a later Set on the argument must not alter the snapshot
				if !panicked && r.chance(1, 3) {
					for _, an := range sortedKeys(rt.Attrs) {
						a := rt.Attrs[an]
						res.Set(an, genVal(r, a.Type, a.Nullable))
					}
					res.Set("id", "changed")
				}
			case k == 4:
				id := pickID()
				op = lst("col", "remove", hx(id))
				panicked, _ = guard(func() { sc.Remove(id) })
				for i := range rows {
					if rows[i].id == id {
						rows = append(rows[:i:i], rows[i+1:]...)
						o.stat("remove.hit")
						break
					}
				}
			case k == 5:
				a := jsonapi.Attr{Name: names[r.IntN(len(names))], Type: kinds[r.IntN(len(kinds))], Nullable: r.bool()}
				validKind := true
				if r.chance(1, 8) {
					// a kind that is none of the fourteen, nullable or not: never accepted
					a.Type = []int{0, 15, 99}[r.IntN(3)]
					validKind = false
					o.stat("addattr.invalid-kind")
				}
				op = lst("col", "addattr", sxAttr(a))
				var err error
				panicked, _ = guard(func() { err = sc.AddAttr(a) })
				_, isA := cur.Attrs[a.Name]
				_, isR := cur.Rels[a.Name]
				if (err == nil) != (!isA && !isR && validKind) {
					pv = "FAIL:AddAttr result"
				}
				if !isA && !isR && validKind {
					cur.Attrs[a.Name] = a
				}
			case k == 6:
				rel := jsonapi.Rel{FromType: "t", FromName: names[r.IntN(len(names))], ToOne: r.bool(), ToType: "t"}
				op = lst("col", "addrel", sxRel(rel))
				var err error
				panicked, _ = guard(func() { err = sc.AddRel(rel) })
				// (the result is judged against the oracle's type, as AddAttr's is; the
				// oracle's type then follows the expectation, not the call's answer)
				if (err == nil) != free2(cur, rel.FromName) {
					pv = "FAIL:AddRel result"
				}
				if free2(cur, rel.FromName) {
					cur.Rels[rel.FromName] = rel
				}
			case k == 7:
				// a type that may drop and add fields; a name kept from the current type keeps
				// its definition (redefining a stored field's kind is outside the domain)
				nt := genSmallType("t")
				for nm := range nt.Attrs {
					if !free2(cur, nm) {
						delete(nt.Attrs, nm)
					}
				}
				for nm := range nt.Rels {
					if !free2(cur, nm) {
						delete(nt.Rels, nm)
					}
				}
				for nm, a := range cur.Attrs {
					if r.bool() {
						nt.Attrs[nm] = a
					}
				}
				for nm, rel := range cur.Rels {
					if r.bool() {
						nt.Rels[nm] = rel
					}
				}
				op = lst("col", "settype", sxType(nt))
				t2 := nt.Copy()
				panicked, _ = guard(func() { sc.SetType(&t2) })
				cur = copyTypeIndep(nt)
				for i := range rows {
					for f := range rows[i].vals {
						_, isA := cur.Attrs[f]
						_, isR := cur.Rels[f]
						if !isA && !isR {
							delete(rows[i].vals, f)
						}
					}
				}
				o.stat("settype")
			case k == 8:
				i := r.IntN(len(rows)+4) - 2
				op = lst("col", "at", itoa(i))
				var res jsonapi.Resource
				panicked, _ = guard(func() { res = sc.At(i) })
				if !panicked {
					if res == nil || fmt.Sprint(res) == "<nil>" {
						obs = "nil"
						if i >= 0 && i < len(rows) {
							pv = "FAIL:At in range returned nil"
						}
					} else {
						obs = sxResView(res)
						if i < 0 || i >= len(rows) {
							pv = "FAIL:At out of range returned a resource"
						}
					}
				}
			default:
				id := pickID()
				op = lst("col", "resource", hx(id))
				var res jsonapi.Resource
				panicked, _ = guard(func() { res = sc.Resource(id, nil) })
				want := -1
				for i := range rows {
					if rows[i].id == id {
						want = i
						break
					}
				}
				if !panicked {
					if res == nil || fmt.Sprint(res) == "<nil>" {
						obs = "nil"
						if want >= 0 {
							pv = "FAIL:Resource did not find a stored ID"
						}
					} else {
						obs = sxResView(res)
						if want < 0 || res.Get("id") != rows[want].id {
							pv = "FAIL:Resource returned the wrong element"
						}
					}
				}
			}
			if panicked {
				o.emit(op, "panic", "FAIL:panic")
				break
			}
			// every read runs the elements' lazy check(): half of the mutating steps are
			// not followed by any read, so that effects that only show without one are seen
			if obs == "" && r.bool() {
				o.emit("(col quiet "+op[5:], "-", "na")
				o.stat("quiet")
				continue
			}
			if obs == "" {
				obs = colDump(sc)
			}
			// the collection agrees with the plain ordered list
			if pv == "ok" {
				pv = colVerdict(sc, rows, cur)
			}
			o.emit(op, obs, pv)
		}
	}
}

func free2(t jsonapi.Type, nm string) bool {
	_, isA := t.Attrs[nm]
	_, isR := t.Rels[nm]
	return !isA && !isR
}

func colVerdict(sc *jsonapi.SoftCollection, rows []specRow, cur jsonapi.Type) string {
	if sc.Len() != len(rows) {
		return fmt.Sprintf("FAIL:Len is %d, the list has %d", sc.Len(), len(rows))
	}
	ct := sc.GetType()
	if strings.Join(ct.Fields(), ",") != strings.Join(fieldsIndep(cur), ",") {
		return fmt.Sprintf("FAIL:collection fields %v, expected %v", ct.Fields(), fieldsIndep(cur))
	}
	for i, row := range rows {
		res := sc.At(i)
		if res.Get("id") != row.id {
			return fmt.Sprintf("FAIL:element %d has id %v, expected %s", i, res.Get("id"), row.id)
		}
		rt := res.GetType()
		if strings.Join(rt.Fields(), ",") != strings.Join(fieldsIndep(cur), ",") {
			return fmt.Sprintf("FAIL:element %d exposes fields %v, the collection has %v", i, rt.Fields(), fieldsIndep(cur))
		}
		for _, f := range fieldsIndep(cur) {
			want, ok := row.vals[f]
			if !ok {
				if a, isA := cur.Attrs[f]; isA {
					want = canonSx(zeroIndep(a.Type, a.Nullable))
				} else if cur.Rels[f].ToOne {
					want = sxVal("")
				} else {
					want = sxVal([]string{})
				}
			}
			if got := canonSx(res.Get(f)); got != want {
				return fmt.Sprintf("FAIL:element %d field %s reads %s, expected %s", i, f, got, want)
			}
		}
	}
	return "ok"
}

func init() { suites["collection"] = suiteCollection }
