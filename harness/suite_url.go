package main

import (
	"encoding/json"
	"fmt"
	"net/url"
	"reflect"
	"sort"
	"strings"

	"github.com/mfcochauxlaberge/jsonapi"
)

// ---------- schema for URL suites: small name alphabet, prefix-related relationship names ----------

var urlRelNames = []string{"many", "manys", "one", "r", "r.x", "a"}
var urlAttrNames = []string{"name", "n", "age", "b", "c", "ISBN", "Name", "first name"} // mixed case: bytewise order is not alphabetical order

func genURLSchema(r *Rng, o *Out) *jsonapi.Schema {
	s := &jsonapi.Schema{}
	names := []string{"as", "bs", "cs"}
	if r.chance(1, 6) {
		names[r.IntN(3)] = "od]t" // a type name with a closing bracket: fields[od]t]=...
	}
	if r.chance(1, 5) {
		names[r.IntN(3)] = []string{"t", "x", "a-type_with.a.long-name"}[r.IntN(3)] // one character; long
	}
	n := 1 + r.IntN(3)
	for i := 0; i < n; i++ {
		t := jsonapi.Type{Name: names[i]}
		bare := r.chance(1, 12) // a type without any field
		if bare {
			o.stat("schema.fieldless-type")
		}
		for _, a := range urlAttrNames {
			if !bare && r.bool() {
				putAttr(&t, jsonapi.Attr{Name: a, Type: 1 + r.IntN(14), Nullable: r.bool()})
			}
		}
		for _, rn := range urlRelNames {
			if !bare && r.chance(1, 2) {
				target := names[r.IntN(n)]
				if r.chance(1, 10) {
					target = "ghost" // not in the schema: C07 speaks of every schema
					o.stat("schema.dangling-rel")
				}
				rel := jsonapi.Rel{FromType: names[i], FromName: rn, ToOne: r.bool(), ToType: target}
				if r.chance(1, 3) {
					// one half of a two-way relationship (the other half may or may not exist)
					rel.ToName = urlRelNames[r.IntN(len(urlRelNames))]
					rel.FromOne = r.bool()
				}
				putRel(&t, rel)
			}
		}
		putType(s, t)
	}
	return s
}

// ---------- raw URL grammar ----------

var idFrags = []string{"1", "abc", ".", "..", "%2E%2E", "...", "a..b", "a%3Fb", "a%2Fb", "x%20y", "%C3%A9", "a+b", "meta", "relationships", "a%26b", "a%23b", "%25", "a%252Fb", "%2541", "%25zz"} // the last three: IDs that are themselves percent-encoded text

func genPath(r *Rng, s *jsonapi.Schema, o *Out) string {
	tn := func() string {
		if r.chance(1, 10) {
			return "nope"
		}
		return s.Types[r.IntN(len(s.Types))].Name
	}
	rel := func() string {
		if r.chance(1, 8) {
			return "nope"
		}
		return urlRelNames[r.IntN(len(urlRelNames))]
	}
	id := func() string { return idFrags[r.IntN(len(idFrags))] }
	switch r.IntN(10) {
	case 0:
		return ""
	case 1:
		return "/"
	case 2, 3, 4:
		return "/" + tn()
	case 5:
		return "/" + tn() + "/" + id()
	case 6:
		return "/" + tn() + "/" + id() + "/" + rel()
	case 7:
		return "/" + tn() + "/" + id() + "/relationships/" + rel()
	case 8:
		return "/" + tn() + "//" + id() + "/" + rel() + "/"
	default:
		if r.bool() {
			// longer than the four JSON:API shapes, with relationship names at several
			// positions (every function that looks at the path must look at the same fragment)
			parts := []string{tn(), id(), rel(), rel(), rel()}
			if r.bool() {
				parts = []string{tn(), id(), "relationships", rel(), rel()}
			}
			return "/" + strings.Join(parts[:4+r.IntN(2)], "/")
		}
		parts := []string{tn(), id(), "x", "y", rel(), "meta"}
		return "/" + strings.Join(parts[:1+r.IntN(6)], "/")
	}
}

var filterVals = []string{"", "label", "%5Cu0020%7Bx", "+%7Bx", "%20%7B%22f%22%3A1%7D", "%C2%A0%7Bx", "%09%7B", "x%7B", "%5Cu007ba", "%5Cu007b%22f%22", "%5Cu007bx", "%5Cu007b", "%5Cu007b%22a%22%3A1", "a%26b", "a%23b", "a%5Cb", "a%22b", "a+b", "%7B%7D", "%7B", "a%25", "%7B%22f%22%3A%22name%22%2C%22o%22%3A%22%3D%22%2C%22v%22%3A%22x%26y%22%7D",
	"%7B%22o%22%3A%22and%22%2C%22v%22%3A%5B%7B%22f%22%3A%22n%22%2C%22o%22%3A%22%3C%22%2C%22v%22%3A1%7D%2C%7B%22o%22%3A%22or%22%2C%22v%22%3A%5B%5D%7D%5D%7D",
	"%7B%22o%22%3A%22and%22%2C%22v%22%3A1%7D", "x%0Ay", "%E9",
	"%7B%22f%22%3A%22name%22%2C%22o%22%3A%22%3D%22%2C%22v%22%3A%22a%FFb%22%7D", "ring%5Cu0007", "a%5Cu000bb", "a%7Fb", "%5Cu001f", "tab%5Ct", "nl%5Cn"} // the last six: control characters, which Go and JSON escape differently
var pageVals = []string{"", "1", "10", "007", "-1", "abc", "a%26b", "+7", "a%23", "1e3", "9223372036854775808"}

func genQuery(r *Rng, s *jsonapi.Schema, o *Out) []string {
	var ps []string
	tn := func() string {
		if r.chance(1, 10) {
			return "nope"
		}
		return s.Types[r.IntN(len(s.Types))].Name
	}
	list := func(pool []string, n int) string {
		items := []string{}
		for i := 0; i < n; i++ {
			switch r.IntN(8) {
			case 0:
				items = append(items, "")
			case 1:
				items = append(items, "unknown")
			default:
				items = append(items, pool[r.IntN(len(pool))])
			}
		}
		return strings.Join(items, ",")
	}
	fieldPool := append(append([]string{"id"}, urlAttrNames...), urlRelNames...)
	incPool := []string{"many", "manys", "one", "r", "many.one", "many.many", "one.r", "r.x", "many.nope", "nope", "many.one.many", ".", "many..one", "a"}
	sortPool := []string{"id", "-id", "name", "-name", "n", "age", "-age", "b", "-", "nope", "-nope", "many", "--name", "--id", "---age", "--", "name-", "-n", "%20", "+", "%09", "%20name", "ISBN", "-Name"}
	for k := r.IntN(6); k > 0; k-- {
		switch r.IntN(8) {
		case 0, 1:
			ps = append(ps, "fields["+tn()+"]="+list(fieldPool, r.IntN(4)))
			o.stat("param.fields")
		case 2:
			rules := list(sortPool, r.IntN(5))
			if r.chance(1, 5) { // the same valid rule several times: more rules than attributes
				one := []string{"id", "name", "-n", "age", "-id"}[r.IntN(5)]
				rules = strings.TrimSuffix(strings.Repeat(one+",", 2+r.IntN(5)), ",")
				o.stat("param.sort-repeated")
			}
			ps = append(ps, "sort="+rules)
			o.stat("param.sort")
		case 3:
			inc := list(incPool, r.IntN(4))
			if r.chance(1, 3) {
				// names where one is a string prefix of the other without being a path prefix
				pair := [][]string{{"many", "manys"}, {"r", "r.x"}, {"many", "many.one", "manys"}, {"a", "a"}}[r.IntN(4)]
				inc = strings.Join(pair, ",")
				if r.bool() {
					inc = list(incPool, 1) + "," + inc
				}
				o.stat("param.include-prefix-names")
			}
			ps = append(ps, "include="+inc)
			o.stat("param.include")
		case 4:
			ps = append(ps, "page["+[]string{"number", "size", "foo", "", "a%26", "a%5Db", "cursor%5Bafter%5D"}[r.IntN(7)]+"]="+pageVals[r.IntN(len(pageVals))])
			o.stat("param.page")
		case 5:
			ps = append(ps, "filter="+filterVals[r.IntN(len(filterVals))])
			o.stat("param.filter")
		case 6:
			ps = append(ps, []string{"bogus=1", "fields[]=a", "page[]=1", "fields=x", "sort", "%zz=1", "a=%zz", "filter"}[r.IntN(8)])
			o.stat("param.other")
		default:
			ps = append(ps, "fields%5B"+tn()+"%5D="+list(fieldPool, 2))
		}
	}
	return ps
}

// ---------- C07 oracle ----------

func commaItems(vs []string) []string {
	var out []string
	for _, v := range vs {
		for _, it := range strings.Split(v, ",") {
			if it != "" {
				out = append(out, it)
			}
		}
	}
	return out
}

func validChain(s *jsonapi.Schema, resType, path string) bool {
	cur := resType
	for _, w := range strings.Split(path, ".") {
		t, _ := lookupTypeIndep(s, cur)
		rel, ok := t.Rels[w]
		if t.Name == "" || !ok || !hasTypeIndep(s, rel.ToType) {
			return false
		}
		cur = rel.ToType
	}
	return true
}

func c07Verdict(u *jsonapi.URL, s *jsonapi.Schema, q url.Values) string {
	// (types are looked up in the schema's own list and a type's fields are the sorted names
	// of its maps: oracle_indep.go - not Schema.HasType / GetType / Type.Fields)
	if !hasTypeIndep(s, u.ResType) {
		return "resource type " + u.ResType + " is not in the schema"
	}
	requested := map[string][]string{}
	for name, vs := range q {
		if strings.HasPrefix(name, "fields[") && strings.HasSuffix(name, "]") && len(name) > 8 && len(vs) > 0 && vs[0] != "" {
			requested[name[7:len(name)-1]] = commaItems(vs[:1])
		}
	}
	for t, fs := range u.Params.Fields {
		typ, _ := lookupTypeIndep(s, t)
		if typ.Name == "" {
			return "field selection for " + t + ", which is not a schema type"
		}
		seen := map[string]bool{}
		for _, f := range fs {
			if seen[f] {
				return "duplicate field " + f
			}
			seen[f] = true
			if f != "id" && !inList(fieldsIndep(typ), f) {
				return "field " + f + " is not a field of " + t
			}
		}
		valid := 0
		for _, f := range requested[t] {
			if f == "id" || inList(fieldsIndep(typ), f) {
				valid++
			}
		}
		if valid == 0 {
			got := append([]string{}, fs...)
			sort.Strings(got)
			if strings.Join(got, ",") != strings.Join(fieldsIndep(typ), ",") {
				return "no valid selection for " + t + " but the entry is not all of its fields"
			}
		}
	}
	// inclusion paths
	var kept []string
	for _, path := range u.Params.Include {
		cur := u.ResType
		names := []string{}
		for _, rel := range path {
			t, _ := lookupTypeIndep(s, cur)
			got, ok := t.Rels[rel.FromName]
			if t.Name == "" || !ok || got != rel || !hasTypeIndep(s, rel.ToType) {
				return "inclusion path " + strings.Join(names, ".") + "." + rel.FromName + " is not a chain of relationships of the schema"
			}
			names = append(names, rel.FromName)
			cur = rel.ToType
		}
		if len(path) == 0 {
			return "empty inclusion path"
		}
		kept = append(kept, strings.Join(names, "."))
	}
	req := commaItems(q["include"])
	for _, p := range req {
		if !validChain(s, u.ResType, p) {
			continue
		}
		if inList(kept, p) {
			continue
		}
		extended := false
		for _, p2 := range req {
			if strings.HasPrefix(p2, p+".") {
				extended = true
			}
		}
		if !extended {
			return "valid requested inclusion " + p + " was dropped"
		}
	}
	if u.IsCol {
		typ, _ := lookupTypeIndep(s, u.ResType)
		var want []string
		for _, rule := range commaItems(q["sort"]) {
			name := strings.TrimPrefix(rule, "-")
			if _, ok := typ.Attrs[name]; ok || name == "id" {
				want = append(want, rule)
			}
		}
		rules := u.Params.SortingRules
		if len(rules) < len(want) || strings.Join(rules[:len(want)], ",") != strings.Join(want, ",") {
			return fmt.Sprintf("sorting rules %v do not start with the caller's valid rules %v", rules, want)
		}
		hasID := false
		for _, rule := range rules {
			name := strings.TrimPrefix(rule, "-")
			if name == "id" {
				hasID = true
			} else if _, ok := typ.Attrs[name]; !ok {
				return "sorting rule " + rule + " is neither id nor an attribute"
			}
		}
		if !hasID {
			return "sorting rules without id"
		}
	}
	return ""
}

// ---------- C08 oracle ----------

func selectionOf(u *jsonapi.URL) string {
	ks := sortedKeys(u.Params.Fields)
	var parts []string
	for _, k := range ks {
		fs := append([]string{}, u.Params.Fields[k]...)
		sort.Strings(fs)
		if len(fs) > 0 {
			parts = append(parts, k+"="+strings.Join(fs, ","))
		}
	}
	return strings.Join(parts, ";")
}

func filterJSON(f *jsonapi.Filter) string {
	if f == nil {
		return ""
	}
	b, _ := json.Marshal(f)
	return string(b)
}

func c08Verdict(u *jsonapi.URL, s *jsonapi.Schema) (string, string) {
	str := ""
	if p, msg := guard(func() { str = u.String() }); p {
		return "String() panicked: " + msg, ""
	}
	var u2 *jsonapi.URL
	var err error
	if p, msg := guard(func() { u2, err = jsonapi.NewURLFromRaw(s, str) }); p {
		return "re-parsing String() panicked: " + msg, str
	}
	if err != nil {
		return "String() " + str + " does not parse: " + err.Error(), str
	}
	switch {
	case !reflect.DeepEqual(u.Fragments, u2.Fragments):
		return fmt.Sprintf("fragments %q became %q", u.Fragments, u2.Fragments), str
	case u.ResType != u2.ResType || u.ResID != u2.ResID || u.Rel != u2.Rel || u.IsCol != u2.IsCol:
		return "resource type / ID / relationship differ", str
	case selectionOf(u) != selectionOf(u2):
		return "field selection " + selectionOf(u) + " became " + selectionOf(u2), str
	case strings.Join(u.Params.SortingRules, ",") != strings.Join(u2.Params.SortingRules, ","):
		return "sorting rules differ", str
	case u.IsCol && !samePage(u.Params.Page, u2.Params.Page):
		return fmt.Sprintf("page parameters %v became %v", u.Params.Page, u2.Params.Page), str
	case u.Params.FilterLabel != u2.Params.FilterLabel:
		return fmt.Sprintf("filter label %q became %q", u.Params.FilterLabel, u2.Params.FilterLabel), str
	case filterJSON(u.Params.Filter) != filterJSON(u2.Params.Filter):
		return "filter tree differs", str
	}
	str2 := ""
	guard(func() { str2 = u2.String() })
	if str2 != str {
		return "String() of the re-parsed URL is " + str2 + ", not " + str, str
	}
	return "", str
}

// what url.Parse / Query() / the filter decoders give for the raw string (delegated)
func sxParsed(raw string) string {
	pu, err := url.Parse(raw)
	if err != nil {
		return "none"
	}
	q := pu.Query()
	names := make([]string, 0, len(q))
	for k := range q {
		names = append(names, k)
	}
	sort.Strings(names)
	vals := make([]string, len(names))
	for i, k := range names {
		vals[i] = lst(hx(k), hxs(q[k]))
	}
	ld, fd := "err", "err"
	if v := q.Get("filter"); v != "" {
		var label string
		if json.Unmarshal([]byte("\""+v+"\""), &label) == nil {
			ld = lst("ok", hx(label))
		}
		f := &jsonapi.Filter{}
		if json.Unmarshal([]byte(v), f) == nil {
			if b, err := json.Marshal(f); err == nil {
				fd = lst("ok", hx(string(b)))
			}
		}
	}
	return lst(hx(pu.Path), lst(vals...), ld, fd)
}

func sxPage(m map[string]any) string {
	ks := sortedKeys(m)
	items := make([]string, len(ks))
	for i, k := range ks {
		switch v := m[k].(type) {
		case int:
			items[i] = lst(hx(k), lst("int", itoa(v)))
		default:
			items[i] = lst(hx(k), lst("str", hx(fmt.Sprint(v))))
		}
	}
	return lst(items...)
}

func sxURL(u *jsonapi.URL) string {
	incs := make([]string, len(u.Params.Include))
	for i, path := range u.Params.Include {
		rs := make([]string, len(path))
		for j := range path {
			rs[j] = sxRel(path[j])
		}
		incs[i] = lst(rs...)
	}
	filter := "none"
	if u.Params.Filter != nil {
		filter = hx(filterJSON(u.Params.Filter))
	}
	return lst(hxs(u.Fragments), b01(u.IsCol), hx(u.ResType), hx(u.ResID), sxRel(u.Rel), sxFieldsMap(u.Params.Fields),
		hxs(u.Params.SortingRules), sxPage(u.Params.Page), hx(u.Params.FilterLabel), filter, lst(incs...))
}

func suiteURL(r *Rng, n int, thorough bool, o *Out) {
	for c := 0; c < n; c++ {
		s := genURLSchema(r, o)
		path := genPath(r, s, o)
		ps := genQuery(r, s, o)
		raw := path
		if len(ps) > 0 {
			raw += "?" + strings.Join(ps, "&")
		}
		var u *jsonapi.URL
		var err error
		p, msg := guard(func() { u, err = jsonapi.NewURLFromRaw(s, raw) })
		// tag: some field selection entry is for a type that has no field at all
		tags := []string{"tags"}
		if u != nil {
			for t := range u.Params.Fields {
				for i := range s.Types { // a type OF THE SCHEMA without fields (read from the schema's own list)
					if s.Types[i].Name == t && len(s.Types[i].Attrs)+len(s.Types[i].Rels) == 0 && !strings.Contains(strings.Join(tags, " "), "nofields") {
						tags = append(tags, "nofields")
					}
				}
			}
		}
		labelBody := ""
		dump := ""
		if u != nil {
			lb, _ := json.Marshal(u.Params.FilterLabel)
			labelBody = string(lb[1 : len(lb)-1])
			// handed over as json.Marshal wrote it: the rewrite of a leading '{' to \u007b that
			// URL.String does is part of the model (rewriteBrace in Model/Url.lean)
			dump = sxURL(u) // before String(), which sorts the field lists in place
		}
		op := lst("url", "parse", lst(tags...), sxSchema(s), hx(raw), sxParsed(raw), hx(labelBody))
		switch {
		case p:
			o.stat("res.panic")
			o.emit(op, "panic", "FAIL[C07]:C07 parsing "+raw+" panicked: "+msg)
			continue
		case (err != nil) == (u != nil):
			o.emit(op, "both", "FAIL[C07]:C07 neither or both of URL and error")
			continue
		case err != nil:
			o.stat("res.err")
			o.emit(op, "err", "ok")
			continue
		}
		o.stat("res.ok")
		pu, _ := url.Parse(raw)
		var v verdicts
		if m := c07Verdict(u, s, pu.Query()); m != "" {
			v.fail("C07", m)
		}
		if r.chance(1, 3) {
			// the same SimpleURL handed to NewURL twice (and to the schema it was made for):
			// the second URL is the first one
			var su jsonapi.SimpleURL
			var e0, e1, e2 error
			var a, b *jsonapi.URL
			if p0, _ := guard(func() {
				su, e0 = jsonapi.NewSimpleURL(pu)
				if e0 == nil {
					a, e1 = jsonapi.NewURL(s, su)
					b, e2 = jsonapi.NewURL(s, su)
				}
			}); p0 {
				v.fail("C07", "C07 NewSimpleURL / NewURL panicked")
			} else if e0 == nil && ((e1 == nil) != (e2 == nil) || (e1 == nil && sxURL(a) != sxURL(b))) {
				v.fail("C07", "C07 the same SimpleURL gives two different URLs when handed to NewURL twice")
				v.fail("C08", "C08 the URL built a second time from the same SimpleURL does not have the first one's String()")
			}
			o.stat("simpleurl.used-twice")
		}
		str := ""
		{
			var m string
			m, str = c08Verdict(u, s)
			if m != "" {
				v.fail("C08", m)
			}
		}
		// canonical form: permute differently named parameters and list items, add empty items
		if !v.failed("C08") && len(ps) > 1 {
			names := map[string]bool{}
			distinct := true
			for _, prm := range ps {
				nm := strings.SplitN(prm, "=", 2)[0]
				if un, e := url.QueryUnescape(nm); e == nil {
					nm = un
				}
				if names[nm] {
					distinct = false
				}
				names[nm] = true
			}
			if distinct {
				ps2 := append([]string{}, ps...)
				r.Shuffle(len(ps2), func(i, j int) { ps2[i], ps2[j] = ps2[j], ps2[i] })
				for i, prm := range ps2 {
					kv := strings.SplitN(prm, "=", 2)
					if len(kv) == 2 && (strings.HasPrefix(kv[0], "fields") || kv[0] == "include") {
						items := strings.Split(kv[1], ",")
						r.Shuffle(len(items), func(a, b int) { items[a], items[b] = items[b], items[a] })
						if r.bool() {
							items = append(items, "")
						}
						ps2[i] = kv[0] + "=" + strings.Join(items, ",")
					}
				}
				raw2 := path + "?" + strings.Join(ps2, "&")
				var u2 *jsonapi.URL
				var err2 error
				guard(func() { u2, err2 = jsonapi.NewURLFromRaw(s, raw2) })
				if err2 != nil || u2 == nil {
					v.fail("C08", "permuted URL "+raw2+" is rejected")
				} else {
					s2 := ""
					guard(func() { s2 = u2.String() })
					if s2 != str {
						v.fail("C08", raw+" and "+raw2+" have different String(): "+str+" / "+s2)
					}
				}
				o.stat("canonical.checked")
			}
		}
		if str == "" {
			guard(func() { str = u.String() })
		}
		o.emit(op, "ok "+dump+" "+hx(str), v.String())
		// the modelled url.Parse/Query on String()'s grammar against the real one
		reparse := "none"
		if pu2, e := url.Parse(str); e == nil {
			q := pu2.Query()
			ks := make([]string, 0, len(q))
			for k := range q {
				ks = append(ks, k)
			}
			sort.Strings(ks)
			vs := make([]string, len(ks))
			for i, k := range ks {
				vs[i] = lst(hx(k), hxs(q[k]))
			}
			reparse = lst(hx(pu2.Path), lst(vs...))
		}
		o.emit(lst("url", "reparse", hx(str)), reparse, "na")
	}
}

func init() { suites["url"] = suiteURL }

// samePage: same keys with the same values of the same Go types (a nil and an
// empty map are the same set of page parameters).
func samePage(a, b map[string]interface{}) bool {
	if len(a) != len(b) {
		return false
	}
	for k, v := range a {
		w, ok := b[k]
		if !ok || !reflect.DeepEqual(v, w) {
			return false
		}
	}
	return true
}
