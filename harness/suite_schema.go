package main

import (
	"fmt"
	"reflect"
	"sort"
	"strings"

	"github.com/mfcochauxlaberge/jsonapi"
)

// ---- printing (must match Jsonapi/Driver/Schema.lean) ----

func sxRel(r jsonapi.Rel) string {
	return lst(hx(r.FromType), hx(r.FromName), b01(r.ToOne), hx(r.ToType), hx(r.ToName), b01(r.FromOne))
}

func sxAttr(a jsonapi.Attr) string {
	return lst(hx(a.Name), itoa(a.Type), b01(a.Nullable))
}

func sxType(t jsonapi.Type) string {
	ak := make([]string, 0, len(t.Attrs))
	for k := range t.Attrs {
		ak = append(ak, k)
	}
	sort.Strings(ak)
	as := make([]string, len(ak))
	for i, k := range ak {
		as[i] = lst(hx(k), sxAttr(t.Attrs[k]))
	}
	rk := make([]string, 0, len(t.Rels))
	for k := range t.Rels {
		rk = append(rk, k)
	}
	sort.Strings(rk)
	rs := make([]string, len(rk))
	for i, k := range rk {
		rs[i] = lst(hx(k), sxRel(t.Rels[k]))
	}
	return lst(hx(t.Name), lst(as...), lst(rs...))
}

func sxSchema(s *jsonapi.Schema) string {
	ts := make([]string, len(s.Types))
	for i := range s.Types {
		ts[i] = sxType(s.Types[i])
	}
	return lst(ts...)
}

func resClass(err error, panicked bool) string {
	switch {
	case panicked:
		return "panic"
	case err != nil:
		return "err"
	default:
		return "ok"
	}
}

// ---- generators ----

var schemaNames = []string{"", "a", "b", "ab", "a_b", "c", "bc", "b_c", "_", "id", "t", "u", "a ", " b"} // names are byte strings: white space is not trimmed
var typeNames = []string{"", "a", "b", "ab", "a_b", "t"}

func genRel(r *Rng) jsonapi.Rel {
	return jsonapi.Rel{
		FromType: r.pick(typeNames), FromName: r.pick(schemaNames), ToOne: r.bool(),
		ToType: r.pick(typeNames), ToName: r.pick(schemaNames), FromOne: r.bool(),
	}
}

func genAttr(r *Rng) jsonapi.Attr {
	ty := 1 + r.IntN(14)
	if r.chance(1, 8) {
		ty = []int{0, 15, 99, -1}[r.IntN(4)]
	}
	return jsonapi.Attr{Name: r.pick(schemaNames), Type: ty, Nullable: r.bool()}
}

// A well-formed Type value built through the type's own editing methods.
func genType(r *Rng, name string) jsonapi.Type {
	t := jsonapi.Type{Name: name}
	for i := r.IntN(4); i > 0; i-- {
		if r.bool() {
			_ = t.AddAttr(genAttr(r))
		} else {
			rel := genRel(r)
			if r.chance(2, 3) {
				rel.FromType = name
			}
			_ = t.AddRel(rel)
		}
	}
	return t
}

// ---- C14 oracle, evaluated on the real schema ----

func schemaInv(s *jsonapi.Schema) string {
	seen := map[string]bool{}
	for _, t := range s.Types {
		if t.Name == "" {
			return "empty type name"
		}
		if seen[t.Name] {
			return "duplicate type name " + t.Name
		}
		seen[t.Name] = true
		fields := map[string]bool{}
		for k, a := range t.Attrs {
			if a.Name == "" {
				return "empty attr name"
			}
			if k != a.Name {
				return "attr key != name"
			}
			if a.Type < 1 || a.Type > 14 {
				return fmt.Sprintf("invalid attr kind %d", a.Type)
			}
			if fields[a.Name] {
				return "duplicate field " + a.Name
			}
			fields[a.Name] = true
		}
		for k, rel := range t.Rels {
			if rel.FromName == "" {
				return "empty rel name"
			}
			if k != rel.FromName {
				return "rel key != name"
			}
			if rel.ToType == "" {
				return "empty target type"
			}
			if fields[rel.FromName] {
				return "duplicate field " + rel.FromName
			}
			fields[rel.FromName] = true
		}
	}
	for _, n := range typeNames {
		inList := false
		for _, t := range s.Types {
			if t.Name == n {
				inList = true
			}
		}
		if s.HasType(n) != inList {
			return "HasType disagrees with list for " + n
		}
		g := s.GetType(n)
		if inList && g.Name != n || !inList && g.Name != "" {
			return "GetType disagrees with list for " + n
		}
	}
	return ""
}

func fieldUsed(t jsonapi.Type, n string) bool {
	for _, a := range t.Attrs {
		if a.Name == n {
			return true
		}
	}
	for _, r := range t.Rels {
		if r.FromName == n {
			return true
		}
	}
	return false
}

func suiteSchema14(r *Rng, n int, thorough bool, o *Out) {
	for c := 0; c < n; c++ {
		s := &jsonapi.Schema{}
		o.emit("(schema reset)", "ok", "na")
		hlen := 1 + r.IntN(14)
		for h := 0; h < hlen; h++ {
			before := sxSchema(s)
			var (
				op       string
				err      error
				mustNoop bool
				mustOK   bool
				twoWay   *jsonapi.Rel
			)
			kind := r.IntN(9)
			if len(s.Types) < 2 && r.chance(1, 2) {
				kind = 0
			}
			panicked := false
			func() {
				defer func() {
					if e := recover(); e != nil {
						panicked = true
					}
				}()
				switch kind {
				case 0:
					t := genType(r, r.pick(typeNames))
					op = lst("schema", "addtype", sxType(t))
					o.stat("op.addtype")
					err = s.AddType(t)
				case 1:
					nm := r.pick(typeNames)
					op = lst("schema", "removetype", hx(nm))
					o.stat("op.removetype")
					mustNoop = !hasTypeIndep(s, nm) // (the schema's own list, not HasType)
					if !mustNoop {
						for i := range s.Types {
							if s.Types[i].Name == nm {
								if i == len(s.Types)-1 {
									o.stat("removetype.last")
								} else {
									o.stat("removetype.notlast")
								}
							}
						}
					}
					s.RemoveType(nm)
				case 2:
					nm, a := r.pick(typeNames), genAttr(r)
					op = lst("schema", "addattr", hx(nm), sxAttr(a))
					o.stat("op.addattr")
					err = s.AddAttr(nm, a)
				case 3:
					nm, a := r.pick(typeNames), r.pick(schemaNames)
					op = lst("schema", "removeattr", hx(nm), hx(a))
					o.stat("op.removeattr")
					tnm, _ := lookupTypeIndep(s, nm)
					_, has := tnm.Attrs[a]
					mustNoop = !has
					s.RemoveAttr(nm, a)
				case 4:
					nm, rel := r.pick(typeNames), genRel(r)
					op = lst("schema", "addrel", hx(nm), sxRel(rel))
					o.stat("op.addrel")
					err = s.AddRel(nm, rel)
				case 5:
					nm, a := r.pick(typeNames), r.pick(schemaNames)
					op = lst("schema", "removerel", hx(nm), hx(a))
					o.stat("op.removerel")
					tnm, _ := lookupTypeIndep(s, nm)
					_, has := tnm.Rels[a]
					mustNoop = !has
					s.RemoveRel(nm, a)
				default:
					rel := genRel(r)
					if len(s.Types) > 0 && r.chance(3, 4) {
						rel.FromType = s.Types[r.IntN(len(s.Types))].Name
						rel.ToType = s.Types[r.IntN(len(s.Types))].Name
					}
					op = lst("schema", "addtwoway", sxRel(rel))
					o.stat("op.addtwoway")
					ft, _ := lookupTypeIndep(s, rel.FromType)
					tt, _ := lookupTypeIndep(s, rel.ToType)
					selfInv := rel.FromType == rel.ToType && rel.FromName == rel.ToName
					if ft.Name != "" && tt.Name != "" && rel.FromName != "" && rel.ToName != "" &&
						!fieldUsed(ft, rel.FromName) && !fieldUsed(tt, rel.ToName) && !selfInv {
						mustOK = true
						twoWay = &rel
						if rel.FromType == rel.ToType {
							o.stat("twoway.sametype")
						}
						if n := rel.Normalize(); n != rel {
							o.stat("twoway.nonnormalised")
						} else {
							o.stat("twoway.normalised")
						}
					}
					err = s.AddTwoWayRel(rel)
				}
			}()
			after := sxSchema(s)
			pv := "ok"
			switch {
			case panicked:
				pv = "FAIL:panic"
			case err != nil && before != after:
				pv = "FAIL:error but schema changed"
			case mustNoop && before != after:
				pv = "FAIL:removing something absent changed the schema"
			case mustOK && err != nil:
				pv = "FAIL:two-way relationship with existing types and free names refused"
			}
			if pv == "ok" && twoWay != nil {
				inv := invertIndep(*twoWay) // the inverse as the property describes it, not Rel.Invert's
				ta, _ := lookupTypeIndep(s, twoWay.FromType)
				tb, _ := lookupTypeIndep(s, twoWay.ToType)
				a, okA := ta.Rels[twoWay.FromName]
				b, okB := tb.Rels[twoWay.ToName]
				if !okA || !okB || a != *twoWay || b != inv {
					pv = "FAIL:two-way relationship: sides do not hold the relationship and its inverse"
				}
			}
			if pv == "ok" {
				if m := schemaInv(s); m != "" {
					pv = "FAIL:invariant: " + m
				}
			}
			if err != nil {
				o.stat("res.err")
			} else {
				o.stat("res.ok")
			}
			o.emit(op, resClass(err, panicked)+" "+after, pv)
			if panicked {
				break
			}
		}
	}
}

// ---- C15 ----

// Independent reading of the property: is relationship rel of type t offending?
func offending(s *jsonapi.Schema, t jsonapi.Type, rel jsonapi.Rel) bool {
	var target *jsonapi.Type
	for i := range s.Types {
		if s.Types[i].Name == rel.ToType {
			target = &s.Types[i]
			break
		}
	}
	if target == nil || rel.ToType == "" {
		return true
	}
	if rel.ToName == "" {
		return false
	}
	if rel.FromType != t.Name {
		return true
	}
	for _, inv := range target.Rels {
		if inv.FromName == rel.ToName && inv.ToName == rel.FromName && inv.ToType == t.Name {
			return false
		}
	}
	return true
}

// Builds a coherent schema (through the API) and then plants faults.
func genCheckSchema(r *Rng, o *Out) *jsonapi.Schema {
	s := &jsonapi.Schema{}
	names := []string{"a", "b", "ab", "t"}
	nt := 1 + r.IntN(3)
	for i := 0; i < nt; i++ {
		_ = s.AddType(jsonapi.Type{Name: names[i]})
	}
	tn := func() string { return s.Types[r.IntN(len(s.Types))].Name }
	for i := r.IntN(5); i > 0; i-- {
		rel := jsonapi.Rel{FromType: tn(), FromName: r.pick(schemaNames), ToOne: r.bool(), ToType: tn(), ToName: r.pick(schemaNames), FromOne: r.bool()}
		if r.bool() {
			rel.ToName = ""
			_ = s.AddRel(rel.FromType, rel)
		} else {
			_ = s.AddTwoWayRel(rel)
		}
	}
	// plant faults directly in the maps
	for f := r.IntN(3); f > 0; f-- {
		ti := r.IntN(len(s.Types))
		t := &s.Types[ti]
		if t.Rels == nil {
			t.Rels = map[string]jsonapi.Rel{}
		}
		keys := make([]string, 0, len(t.Rels))
		for k := range t.Rels {
			keys = append(keys, k)
		}
		sort.Strings(keys)
		if len(keys) == 0 {
			continue
		}
		k := keys[r.IntN(len(keys))]
		rel := t.Rels[k]
		switch r.IntN(6) {
		case 0:
			// a target that is no type of the schema, some of them near misses
			rel.ToType = []string{"nonexistent", strings.ToUpper(tn()), tn() + " ", "", strings.Title(tn())}[r.IntN(5)]
			o.stat("fault.dangling")
		case 1:
			rel.ToName = r.pick(schemaNames)
			o.stat("fault.misnamed")
		case 2:
			rel.FromType = r.pick(typeNames)
			o.stat("fault.fromtype")
		case 3:
			rel.ToType = tn()
			o.stat("fault.mistyped")
		case 4:
			// break the other side: point the inverse somewhere else
			for oi := range s.Types {
				for ok2, orel := range s.Types[oi].Rels {
					if orel.FromName == rel.ToName && orel.ToName == rel.FromName {
						orel.ToType = tn()
						s.Types[oi].Rels[ok2] = orel
					}
				}
			}
			o.stat("fault.inverse-mistyped")
		case 5:
			delete(t.Rels, k)
			o.stat("fault.removed")
			continue
		}
		t.Rels[k] = rel
	}
	// not a fault: a relationship stored under a map key that is not its name (hand-built
	// types; the property speaks of relationships, not of map keys)
	if r.chance(1, 4) {
		t := &s.Types[r.IntN(len(s.Types))]
		keys := make([]string, 0, len(t.Rels))
		for k := range t.Rels {
			keys = append(keys, k)
		}
		sort.Strings(keys)
		if len(keys) > 0 {
			k := keys[r.IntN(len(keys))]
			rel := t.Rels[k]
			delete(t.Rels, k)
			t.Rels["key-"+k] = rel
			o.stat("rekeyed")
		}
	}
	return s
}

// collidingCheckSchema: two relationships of different types whose (type, name) pairs read
// the same once joined ("a_b"+"c" / "a"+"b_c", "ab"+"c" / "a"+"bc"), both naming the same
// inverse of the same target; the target reciprocates one of them, both, or none. The types
// are listed in a random order.
func collidingCheckSchema(r *Rng, o *Out) *jsonapi.Schema {
	pairs := [][2][2]string{{{"a_b", "c"}, {"a", "b_c"}}, {{"ab", "c"}, {"a", "bc"}}, {{"a_", "b"}, {"a", "_b"}}}
	p := pairs[r.IntN(len(pairs))]
	if r.bool() {
		p[0], p[1] = p[1], p[0]
	}
	toOne := r.bool()
	mk := func(from [2]string) jsonapi.Type {
		t := jsonapi.Type{Name: from[0], Attrs: map[string]jsonapi.Attr{}, Rels: map[string]jsonapi.Rel{}}
		t.Rels[from[1]] = jsonapi.Rel{FromType: from[0], FromName: from[1], ToOne: toOne, ToType: "d", ToName: "e"}
		return t
	}
	d := jsonapi.Type{Name: "d", Attrs: map[string]jsonapi.Attr{}, Rels: map[string]jsonapi.Rel{}}
	switch r.IntN(4) {
	case 0, 1: // reciprocates the first only
		d.Rels["e"] = jsonapi.Rel{FromType: "d", FromName: "e", ToType: p[0][0], ToName: p[0][1], FromOne: toOne}
	case 2: // reciprocates neither
	case 3: // points at a type that is not there
		d.Rels["e"] = jsonapi.Rel{FromType: "d", FromName: "e", ToType: "zz", ToName: p[0][1], FromOne: toOne}
	}
	types := []jsonapi.Type{mk(p[0]), mk(p[1]), d}
	s := &jsonapi.Schema{}
	for _, i := range r.Perm(3) {
		putType(s, types[i])
	}
	o.stat("check.colliding-names")
	return s
}

// twinsCheckSchema: a hand-built type holding, under two different map keys, two
// relationships with the same name that reciprocate two different relationships of another
// type (legal for a hand-built Type: Check looks at the relationships, not at the keys);
// consistent, or with one of the four ends bent.
func twinsCheckSchema(r *Rng, o *Out) *jsonapi.Schema {
	a := jsonapi.Type{Name: "a", Attrs: map[string]jsonapi.Attr{}, Rels: map[string]jsonapi.Rel{
		"x": {FromType: "a", FromName: "x", ToOne: true, ToType: "d", ToName: "e"},
		"y": {FromType: "a", FromName: "y", ToOne: false, ToType: "d", ToName: "e"},
	}}
	d := jsonapi.Type{Name: "d", Attrs: map[string]jsonapi.Attr{}, Rels: map[string]jsonapi.Rel{
		"k1": {FromType: "d", FromName: "e", ToType: "a", ToName: "x", FromOne: true},
		"k2": {FromType: "d", FromName: "e", ToType: "a", ToName: "y", FromOne: false},
	}}
	switch r.IntN(6) {
	case 0:
		rel := d.Rels["k2"]
		rel.ToName = "z"
		d.Rels["k2"] = rel
	case 1:
		delete(d.Rels, "k1")
	case 2, 3:
		// one twin sits under the key that is its name and is a plain one-way relationship;
		// the one that points back to a.x sits under another key (consistent)
		d.Rels = map[string]jsonapi.Rel{
			"e":  {FromType: "d", FromName: "e", ToType: "a"},
			"k1": {FromType: "d", FromName: "e", ToType: "a", ToName: "x", FromOne: true},
		}
		delete(a.Rels, "y")
	case 4:
		// the relationship a.x names as its inverse exists only as a map KEY: the
		// relationship stored under "e" has no name (a literal may leave FromName out),
		// so nothing named e points back and both ends offend
		d.Rels = map[string]jsonapi.Rel{
			"e": {FromType: "d", FromName: "", ToType: "a", ToName: "x", FromOne: true},
		}
		delete(a.Rels, "y")
		o.stat("check.unnamed-under-key")
	}
	s := &jsonapi.Schema{}
	if r.bool() {
		putType(s, a)
		putType(s, d)
	} else {
		putType(s, d)
		putType(s, a)
	}
	o.stat("check.twins")
	return s
}

func suiteSchema15(r *Rng, n int, thorough bool, o *Out) {
	for c := 0; c < n; c++ {
		s := genCheckSchema(r, o)
		if r.chance(1, 8) {
			s = collidingCheckSchema(r, o)
		} else if r.chance(1, 10) {
			s = twinsCheckSchema(r, o)
		}
		before := sxSchema(s)
		nOff := 0
		for _, t := range s.Types {
			for _, rel := range t.Rels {
				if offending(s, t, rel) {
					nOff++
				}
			}
		}
		var errs []error
		panicked := false
		func() {
			defer func() {
				if e := recover(); e != nil {
					panicked = true
				}
			}()
			errs = s.Check()
		}()
		pv := "ok"
		switch {
		case panicked:
			pv = "FAIL:panic"
		case sxSchema(s) != before:
			pv = "FAIL:Check modified the schema"
		case (len(errs) == 0) != (nOff == 0):
			pv = fmt.Sprintf("FAIL:%d errors for %d offending relationships", len(errs), nOff)
		case len(errs) < nOff:
			pv = fmt.Sprintf("FAIL:%d errors for %d offending relationships", len(errs), nOff)
		}
		if nOff == 0 {
			o.stat("check.clean")
		} else {
			o.stat("check.offending")
		}
		obs := "panic"
		if !panicked {
			obs = itoa(len(errs))
		}
		o.emit(lst("schema", "check", before), obs, pv)
	}
}

// ---- C16 ----

func suiteSchema16(r *Rng, n int, thorough bool, o *Out) {
	// relationship values
	for c := 0; c < n; c++ {
		rel := genRel(r)
		if r.chance(1, 4) {
			// adversarial: concatenations coincide
			pairs := [][4]string{{"ab", "c", "a", "bc"}, {"a", "bc", "ab", "c"}, {"a_b", "c", "a", "b_c"}, {"a", "b_c", "a_b", "c"}, {"a", "b", "a", "b"}, {"a", "", "a", "b"}, {"A", "x", "a", "x"}, {"a", "X", "a", "x"}, {"Item", "peer", "item", "peer"}}
			p := pairs[r.IntN(len(pairs))]
			rel.FromType, rel.FromName, rel.ToType, rel.ToName = p[0], p[1], p[2], p[3]
		}
		nr := rel.Normalize()
		inv := rel.Invert()
		pv := "ok"
		twoWay := rel.ToName != "" && rel.FromName != ""
		selfInv := rel.FromType == rel.ToType && rel.FromName == rel.ToName
		switch {
		case inv != invertIndep(rel):
			pv = "FAIL:the inverse is not the relationship seen from its other end"
		case inv.Invert() != rel:
			pv = "FAIL:invert twice"
		case nr.Normalize() != nr:
			pv = "FAIL:normalize not idempotent"
		case nr != rel && nr != inv:
			pv = "FAIL:normalize is neither the relationship nor its inverse"
		case rel.ToName == "" && nr != rel:
			pv = "FAIL:one-way relationship changed"
		case twoWay && !selfInv && inv.Normalize() != nr:
			pv = "FAIL:relationship and inverse normalise differently"
		case twoWay && !selfInv && inv.String() != rel.String():
			pv = "FAIL:relationship and inverse have different names"
		}
		if twoWay && !selfInv {
			o.stat("rel.twoway")
		} else {
			o.stat("rel.other")
		}
		o.emit(lst("schema", "norm", sxRel(rel)), lst(sxRel(nr), hx(rel.String()), sxRel(inv)), pv)
	}
	// coherent schemas, built in two different orders
	for c := 0; c < n/4+1; c++ {
		names := []string{"a", "ab", "a_b", "b"}
		nt := 1 + r.IntN(4)
		type relop struct {
			two bool
			rel jsonapi.Rel
		}
		var ops []relop
		for i := r.IntN(7); i > 0; i-- {
			rel := jsonapi.Rel{FromType: names[r.IntN(nt)], FromName: r.pick(schemaNames), ToOne: r.bool(), ToType: names[r.IntN(nt)], ToName: r.pick(schemaNames), FromOne: r.bool()}
			two := r.bool()
			if !two {
				rel.ToName = ""
			}
			ops = append(ops, relop{two, rel})
		}
		if r.chance(1, 8) {
			// a relationship that is its own inverse (friends <-> friends)
			t, nm, one := names[r.IntN(nt)], r.pick(schemaNames), r.bool()
			// (one AddRel: the relationship is both halves of its pair)
			ops = append(ops, relop{false, jsonapi.Rel{FromType: t, FromName: nm, ToOne: one, ToType: t, ToName: nm, FromOne: one}})
			o.stat("rels.self-inverse")
		}
		if r.chance(1, 4) {
			// two one-way relationships whose type_name strings coincide and whose
			// other components are equal: only the (type, name) pair tells them apart
			nt = 4
			to, one := names[r.IntN(nt)], r.bool()
			pair := [][2]string{{"a", "b_c"}, {"a_b", "c"}}
			if r.bool() {
				pair[0], pair[1] = pair[1], pair[0]
			}
			for _, p := range pair {
				ops = append(ops, relop{false, jsonapi.Rel{FromType: p[0], FromName: p[1], ToOne: one, ToType: to}})
			}
			o.stat("rels.collidingpair")
		}
		// probe: the relationships are also listed while the schema is being built (after
		// the types and after every edit); a listing must never depend on an earlier one
		build := func(typeOrder []int, opOrder []int, probe bool) *jsonapi.Schema {
			s := &jsonapi.Schema{}
			for _, i := range typeOrder {
				_ = s.AddType(jsonapi.Type{Name: names[i]})
			}
			if probe {
				_ = s.Rels()
			}
			// the set of relationships must not depend on the order: apply ops
			// in the same order (an op can fail because of an earlier one), but
			// types were added in another order.
			for _, i := range opOrder {
				if ops[i].two {
					_ = s.AddTwoWayRel(ops[i].rel)
				} else {
					_ = s.AddRel(ops[i].rel.FromType, ops[i].rel)
				}
				if probe {
					_ = s.Rels()
				}
			}
			return s
		}
		ord := make([]int, nt)
		for i := range ord {
			ord[i] = i
		}
		opOrd := make([]int, len(ops))
		for i := range opOrd {
			opOrd[i] = i
		}
		probe := r.bool()
		if probe {
			o.stat("rels.listed-while-building")
		}
		s1 := build(ord, opOrd, probe)
		perm := r.Perm(nt)
		s2 := build(perm, opOrd, false)
		// a third build: every two-way pair is added half by half with AddRel; when every
		// edit succeeds both ways the listing is the same as with AddTwoWayRel
		allOK := true
		s3 := &jsonapi.Schema{}
		for _, i := range ord {
			_ = s3.AddType(jsonapi.Type{Name: names[i]})
		}
		chk := &jsonapi.Schema{}
		for _, i := range ord {
			_ = chk.AddType(jsonapi.Type{Name: names[i]})
		}
		for _, i := range opOrd {
			if ops[i].two {
				// the two halves of the pair (either order: the listing may not depend on it),
				// written down here rather than by Normalize / Invert
				r1 := ops[i].rel
				r2 := invertIndep(r1)
				e1 := s3.AddRel(r1.FromType, r1)
				e2 := s3.AddRel(r2.FromType, r2)
				if r1 == r2 {
					e2 = nil // a self-inverse pair is one relationship
				}
				if e1 != nil || e2 != nil || chk.AddTwoWayRel(ops[i].rel) != nil {
					allOK = false
				}
			} else {
				e := s3.AddRel(ops[i].rel.FromType, ops[i].rel)
				if e != nil || chk.AddRel(ops[i].rel.FromType, ops[i].rel) != nil {
					allOK = false
				}
			}
		}
		rels1 := s1.Rels()
		rels2 := s2.Rels()
		pv := "ok"
		if !coherentIndep(s1) { // the clause's domain, by C15's own reading, not by asking Check
			pv = "na"
			o.stat("rels.incoherent")
		} else {
			o.stat("rels.coherent")
			// every one-way relationship listed once as itself, every two-way pair once by one
			// of its two ends, nothing else (stated without Normalize: relsListingVerdict)
			if m := relsListingVerdict(s1, rels1); m != "" {
				pv = "FAIL:" + m
			}
			// counted independently of Normalize: one entry per one-way relationship and one
			// per two-way pair, a pair being two (type, name) ends naming each other
			ends := countEnds(s1)
			if pv == "ok" && len(rels1) != len(ends) {
				pv = fmt.Sprintf("FAIL:%d relationships listed for %d one-way relationships and two-way pairs", len(rels1), len(ends))
			}
			if !reflect.DeepEqual(rels1, rels2) {
				pv = "FAIL:Rels() depends on the order in which types were added"
			}
			if allOK && !reflect.DeepEqual(rels1, s3.Rels()) {
				pv = "FAIL:Rels() differs between a schema built with AddTwoWayRel and the same schema built half by half with AddRel"
			}
			for k := 0; k < 8 && pv == "ok"; k++ {
				if !reflect.DeepEqual(s1.Rels(), rels1) {
					pv = "FAIL:Rels() differs between calls"
				}
			}
		}
		rs := make([]string, len(rels1))
		for i := range rels1 {
			rs[i] = sxRel(rels1[i])
		}
		o.emit(lst("schema", "rels", sxSchema(s1)), lst(rs...), pv)
		// a fourth build, as struct-built types declare them: BuildType leaves FromOne false,
		// each side of a two-way pair only knows its own ToOne. Every pair is added half by
		// half with AddRel, both halves with FromOne cleared; the listing must still hold one
		// entry per one-way relationship and one per pair, the entry of a pair carrying the
		// ToOne of its two sides
		all4 := true
		s4 := &jsonapi.Schema{}
		for _, i := range ord {
			_ = s4.AddType(jsonapi.Type{Name: names[i]})
		}
		for _, i := range opOrd {
			if ops[i].two {
				// the two halves of the pair (either order: the listing may not depend on it),
				// written down here rather than by Normalize / Invert
				r1 := ops[i].rel
				r2 := invertIndep(r1)
				self := r1 == r2
				r1.FromOne, r2.FromOne = false, false
				e1 := s4.AddRel(r1.FromType, r1)
				e2 := s4.AddRel(r2.FromType, r2)
				if self {
					e2 = nil // a self-inverse pair is one relationship
				}
				if e1 != nil || e2 != nil {
					all4 = false
				}
			} else {
				rel := ops[i].rel
				if rel.ToName != "" {
					rel.FromOne = false // (the relationship that is its own inverse)
				}
				if s4.AddRel(rel.FromType, rel) != nil {
					all4 = false
				}
			}
		}
		rels4 := s4.Rels()
		pv4 := "na"
		if all4 && coherentIndep(s4) {
			pv4 = "ok"
			o.stat("rels.struct-like")
			ends4 := countEnds(s4)
			if len(rels4) != len(ends4) {
				pv4 = fmt.Sprintf("FAIL:struct-like schema: %d relationships listed for %d one-way relationships and two-way pairs", len(rels4), len(ends4))
			}
			for _, t := range s4.Types {
				for _, rel := range t.Rels {
					if rel.ToName == "" || pv4 != "ok" {
						continue
					}
					seen := 0
					for _, x := range rels4 {
						if x.FromType == rel.FromType && x.FromName == rel.FromName && x.ToType == rel.ToType && x.ToName == rel.ToName {
							seen++
							if x.ToOne != rel.ToOne {
								pv4 = fmt.Sprintf("FAIL:struct-like schema: the entry of %s does not carry the ToOne of %s.%s", x.String(), rel.FromType, rel.FromName)
							}
						}
						if x.FromType == rel.ToType && x.FromName == rel.ToName && x.ToType == rel.FromType && x.ToName == rel.FromName {
							seen++
							if x.FromOne != rel.ToOne {
								pv4 = fmt.Sprintf("FAIL:struct-like schema: the entry of %s does not carry as FromOne the ToOne of %s.%s", x.String(), rel.FromType, rel.FromName)
							}
						}
					}
					if seen == 0 && pv4 == "ok" {
						pv4 = fmt.Sprintf("FAIL:struct-like schema: no entry for %s.%s", rel.FromType, rel.FromName)
					}
				}
			}
			if pv4 == "ok" && !reflect.DeepEqual(s4.Rels(), rels4) {
				pv4 = "FAIL:struct-like schema: Rels() differs between calls"
			}
		}
		rs4 := make([]string, len(rels4))
		for i := range rels4 {
			rs4[i] = sxRel(rels4[i])
		}
		o.emit(lst("schema", "rels", sxSchema(s4)), lst(rs4...), pv4)
	}
}

// countEnds counts, independently of Normalize, one entry per one-way relationship and one per
// two-way pair, a pair being two (type, name) ends naming each other
func countEnds(s *jsonapi.Schema) map[string]bool {
	ends := map[string]bool{}
	for _, t := range s.Types {
		for _, rel := range t.Rels {
			a := rel.FromType + "\x00" + rel.FromName
			if rel.ToName == "" {
				ends["1 "+a] = true
				continue
			}
			b := rel.ToType + "\x00" + rel.ToName
			if b < a {
				a, b = b, a
			}
			ends["2 "+a+"\x01"+b] = true
		}
	}
	return ends
}

func init() {
	suites["schema14"] = suiteSchema14
	suites["schema15"] = suiteSchema15
	suites["schema16"] = suiteSchema16
	_ = strings.Join
}
