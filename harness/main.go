// corr: the Go side of the correspondence check (T2). For a suite it generates
// cases from one PRNG state, runs the real library in-process and writes one
// line per operation:  <op sx> TAB <observation> TAB <property verdict>
// The same op lines are fed to the Lean driver (jmodel) by bin/check, which
// diffs the observations.
package main

import (
	"bufio"
	"fmt"
	"os"
	"runtime"
	"sort"
	"strconv"
	"strings"
)

type Out struct {
	w     *bufio.Writer
	lines int
	stats map[string]int
}

// emit writes one op line. pv is "ok", "na" or "FAIL:<reason>".
func (o *Out) emit(op, obs, pv string) {
	fmt.Fprintf(o.w, "%s\t%s\t%s\n", op, obs, pv)
	o.lines++
}

func (o *Out) stat(k string) { o.stats[k]++ }

type suiteFn func(r *Rng, n int, thorough bool, o *Out)

var suites = map[string]suiteFn{}

// runGuarded runs a suite; if the real code panics in a call the suite does not guard, or
// hands the harness a value of a Go type the suite's own assertions do not expect, the
// suite stops there and the case is reported as a failing input (a panic or a wrongly typed
// value is a misbehaviour of the code under test on a generated input, never a reason to
// lose the run).
func runGuarded(fn suiteFn, r *Rng, n int, thorough bool, o *Out) {
	defer func() {
		if e := recover(); e != nil {
			buf := make([]byte, 4096)
			buf = buf[:runtime.Stack(buf, false)]
			where := ""
			for _, l := range strings.Split(string(buf), "\n") {
				if strings.Contains(l, "/repo/") || strings.Contains(l, "/verif/harness/suite_") {
					where += " " + strings.TrimSpace(l)
				}
			}
			msg := strings.NewReplacer("\t", " ", "\n", " ").Replace(fmt.Sprint(e) + where)
			o.stat("harness.crash")
			o.emit(lst("harness", "crash", itoa(o.lines)), "panic", "FAIL:running the real code on the case after line "+itoa(o.lines)+" panicked outside a guarded call: "+msg)
		}
	}()
	fn(r, n, thorough, o)
}

func main() {
	if len(os.Args) >= 5 && os.Args[1] == "racer" {
		racerMain()
		return
	}
	if len(os.Args) < 5 {
		fmt.Fprintln(os.Stderr, "usage: corr <suite> <seed> <n> <outfile> [thorough]")
		os.Exit(2)
	}
	suite := os.Args[1]
	seed, _ := strconv.ParseUint(os.Args[2], 10, 64)
	n, _ := strconv.Atoi(os.Args[3])
	f, err := os.Create(os.Args[4])
	if err != nil {
		fmt.Fprintln(os.Stderr, err)
		os.Exit(2)
	}
	defer f.Close()
	thorough := len(os.Args) > 5 && os.Args[5] == "thorough"
	fn, ok := suites[suite]
	if !ok {
		fmt.Fprintln(os.Stderr, "unknown suite", suite)
		os.Exit(2)
	}
	o := &Out{w: bufio.NewWriterSize(f, 1<<20), stats: map[string]int{}}
	runGuarded(fn, newRng(seed, suite), n, thorough, o)
	o.w.Flush()
	// distribution of what was generated, for the evidence file
	keys := make([]string, 0, len(o.stats))
	for k := range o.stats {
		keys = append(keys, k)
	}
	sort.Strings(keys)
	for _, k := range keys {
		fmt.Printf("stat %s %d\n", k, o.stats[k])
	}
	fmt.Printf("lines %d\n", o.lines)
}
