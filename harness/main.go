// corr: the Go side of the correspondence check (T2). For a suite it generates
// cases from one PRNG state, runs the real library in-process and writes one
// line per operation:  <op sx> TAB <observation> TAB <property verdict>
// The same op lines are fed to the Lean driver (jmodel) by bin/check, which
// diffs the observations.
package main

import (
	"bufio"
	"fmt"
	"os"
	"sort"
	"strconv"
)

type Out struct {
	w     *bufio.Writer
	lines int
	stats map[string]int
}

// emit writes one op line. pv is "ok", "na" or "FAIL:<reason>".
func (o *Out) emit(op, obs, pv string) {
	fmt.Fprintf(o.w, "%s\t%s\t%s\n", op, obs, pv)
	o.lines++
}

func (o *Out) stat(k string) { o.stats[k]++ }

type suiteFn func(r *Rng, n int, thorough bool, o *Out)

var suites = map[string]suiteFn{}

func main() {
	if len(os.Args) >= 5 && os.Args[1] == "racer" {
		racerMain()
		return
	}
	if len(os.Args) < 5 {
		fmt.Fprintln(os.Stderr, "usage: corr <suite> <seed> <n> <outfile> [thorough]")
		os.Exit(2)
	}
	suite := os.Args[1]
	seed, _ := strconv.ParseUint(os.Args[2], 10, 64)
	n, _ := strconv.Atoi(os.Args[3])
	f, err := os.Create(os.Args[4])
	if err != nil {
		fmt.Fprintln(os.Stderr, err)
		os.Exit(2)
	}
	defer f.Close()
	thorough := len(os.Args) > 5 && os.Args[5] == "thorough"
	fn, ok := suites[suite]
	if !ok {
		fmt.Fprintln(os.Stderr, "unknown suite", suite)
		os.Exit(2)
	}
	o := &Out{w: bufio.NewWriterSize(f, 1<<20), stats: map[string]int{}}
	fn(newRng(seed, suite), n, thorough, o)
	o.w.Flush()
	// distribution of what was generated, for the evidence file
	keys := make([]string, 0, len(o.stats))
	for k := range o.stats {
		keys = append(keys, k)
	}
	sort.Strings(keys)
	for _, k := range keys {
		fmt.Printf("stat %s %d\n", k, o.stats[k])
	}
	fmt.Printf("lines %d\n", o.lines)
}
