package main

import (
	"hash/fnv"
	mrand "math/rand"
	"math/rand/v2"
)

// All random choices of a suite derive from one PCG seeded by (VERIF_SEED, suite).
type Rng struct{ *rand.Rand }

func newRng(seed uint64, suite string) *Rng {
	h := fnv.New64a()
	h.Write([]byte(suite))
	return &Rng{rand.New(rand.NewPCG(seed, h.Sum64()))}
}

func (r *Rng) pick(l []string) string   { return l[r.IntN(len(l))] }
func (r *Rng) chance(num, den int) bool { return r.IntN(den) < num }
func (r *Rng) bool() bool               { return r.IntN(2) == 0 }

// newStdRand derives a math/rand (v1) generator, for APIs that want one (big.Int.Rand).
func newStdRand(r *Rng) *mrand.Rand { return mrand.New(mrand.NewSource(int64(r.Uint64() >> 1))) }
