package main

import (
	"bytes"
	"encoding/json"
	"fmt"
	"reflect"
	"sort"
	"strings"

	"github.com/mfcochauxlaberge/jsonapi"
)

// valid UTF-8 only: encoding/json replaces invalid bytes (not the library's doing)
var mStrPool = []string{"", "a", "b", "ab", "s1", "1", "1s", "a\x00", "é", "日本", "<>&", " ", "\"q\"", "a b", " ", "\\", "/", "x/y", "😀", "\t", "null"}
var prefixes = []string{"", "/", "/api", "/api/", "https://example.org", "https://example.org/v1/", "x y", "<p>"}

func utf8ify(v any) any {
	switch x := v.(type) {
	case string:
		return strings.ToValidUTF8(x, "?")
	case *string:
		if x != nil {
			s := strings.ToValidUTF8(*x, "?")
			return &s
		}
	}
	return v
}

func genMeta(r *Rng, depth int) map[string]any {
	m := map[string]any{}
	for i := r.IntN(3); i > 0; i-- {
		k := mStrPool[1+r.IntN(len(mStrPool)-1)]
		switch r.IntN(6) {
		case 0:
			m[k] = mStrPool[r.IntN(len(mStrPool))]
		case 1:
			m[k] = r.IntN(1000) - 500
			if r.chance(1, 6) {
				// whole numbers beyond the int64 range (JSON numbers have no width), each one a
				// float64 exactly: encoding/json reads numbers in an `any` as float64
				m[k] = []any{1e19, float64(1 << 63), -1e19}[r.IntN(3)]
			}
		case 2:
			m[k] = r.bool()
		case 3:
			m[k] = nil
		case 4:
			if depth > 0 {
				m[k] = genMeta(r, depth-1)
			} else {
				m[k] = "leaf"
			}
		default:
			m[k] = []any{1, "two", false}
		}
	}
	return m
}

func metaSx(m map[string]any) string {
	if len(m) == 0 {
		return "(o)"
	}
	b, _ := json.Marshal(m)
	s, _ := jsonSx(b)
	return s
}

func sxFieldsMap(m map[string][]string) string {
	ks := sortedKeys(m)
	items := make([]string, len(ks))
	for i, k := range ks {
		items[i] = lst(hx(k), hxs(m[k]))
	}
	return lst(items...)
}

func genSelection(r *Rng, names []string) []string {
	var out []string
	for _, n := range names {
		if r.chance(2, 3) {
			out = append(out, n)
		}
	}
	switch r.IntN(6) {
	case 0:
		out = append(out, "unknown")
	case 1:
		out = append(out, "id")
	case 2:
		if len(out) > 0 {
			out = append(out, out[0])
		}
	}
	r.Shuffle(len(out), func(i, j int) { out[i], out[j] = out[j], out[i] })
	if out == nil && r.bool() {
		out = []string{}
	}
	return out
}

func snapshot(res jsonapi.Resource) map[string]string {
	m := map[string]string{"id": sxVal(res.Get("id"))}
	t := res.GetType()
	for _, f := range fieldsIndep(t) {
		v := res.Get(f)
		if ids, ok := v.([]string); ok { // order of to-many IDs may change
			c := append([]string{}, ids...)
			sort.Strings(c)
			v = c
		}
		m[f] = sxVal(v)
	}
	return m
}

// resTruth: what the generator wrote into a resource - the type it was created with, its ID and,
// for every field, the value written (the kind's zero for a field never set). The oracles
// compare the output with this, not with what the resource's own GetType / Get say.
type resTruth struct {
	typ  jsonapi.Type
	id   string
	vals map[string]any
}

// zeroFieldIndep: the zero value of a field of the type (attribute: zeroIndep; to-one: "";
// to-many: an empty list).
func zeroFieldIndep(t jsonapi.Type, name string) any {
	if a, ok := t.Attrs[name]; ok {
		return zeroIndep(a.Type, a.Nullable)
	}
	if t.Rels[name].ToOne {
		return ""
	}
	return []string{}
}

// checkResourceObject: C03/C04 clauses on one resource object of the output tree.
// truth, when the generator knows it, is what was written into the resource (for a wrapped
// struct: what the struct's own fields hold): type, ID and related IDs are compared with it
// rather than with what the resource's getters say (only a resource the generator has no
// record of - truth nil - is asked).
func checkResourceObject(v *verdicts, n *jnode, res jsonapi.Resource, prepath string, fields []string, relData map[string][]string, truth *resTruth) {
	related := func(name string) any {
		if truth != nil {
			if t, ok := truth.vals[name]; ok {
				return t
			}
		}
		return res.Get(name)
	}
	if n == nil || n.kind != 'o' {
		v.fail("C03,C04", "resource object is not an object")
		return
	}
	var typ jsonapi.Type
	var id string
	if truth != nil {
		typ, id = truth.typ, truth.id
	} else {
		typ = res.GetType()
		id = res.Get("id").(string)
	}
	if t := n.get("type"); t == nil || t.kind != 's' || t.text != typ.Name {
		v.fail("C03", "type member")
	}
	if t := n.get("id"); t == nil || t.kind != 's' || t.text != id {
		v.fail("C03", "id member")
	}
	want := prepath
	if !strings.HasSuffix(want, "/") {
		want += "/"
	}
	self := n.get("links").get("self")
	if self == nil || self.kind != 's' {
		v.fail("C03", "self link missing")
	} else if id != "" && typ.Name != "" {
		if self.text != want+typ.Name+"/"+id {
			v.fail("C03", "self link is "+self.text)
		}
	} else if !strings.HasPrefix(self.text, want) {
		v.fail("C03", "self link without prefix")
	}
	in := func(l []string, s string) bool {
		for _, x := range l {
			if x == s {
				return true
			}
		}
		return false
	}
	// attributes: exactly the selected attributes of the type
	attrs := n.get("attributes")
	for name := range typ.Attrs {
		has := attrs.get(name) != nil
		if has != in(fields, name) {
			v.fail("C04", fmt.Sprintf("attribute %q present=%v selected=%v", name, has, in(fields, name)))
		}
	}
	if attrs != nil {
		for _, k := range attrs.keys {
			if _, ok := typ.Attrs[k]; !ok {
				v.fail("C04", "attribute "+k+" is not an attribute of the type")
			}
		}
	}
	rels := n.get("relationships")
	for name, rel := range typ.Rels {
		ro := rels.get(name)
		if (ro != nil) != in(fields, name) {
			v.fail("C04", fmt.Sprintf("relationship %q present=%v selected=%v", name, ro != nil, in(fields, name)))
		}
		if ro == nil {
			continue
		}
		l := ro.get("links")
		if l.get("self") == nil || l.get("related") == nil {
			v.fail("C03", "relationship links")
		}
		data := ro.get("data")
		if (data != nil) != in(relData[typ.Name], name) {
			v.fail("C04", fmt.Sprintf("relationship %q data present=%v requested=%v", name, data != nil, in(relData[typ.Name], name)))
		}
		if data == nil {
			continue
		}
		if rel.ToOne {
			rid, _ := related(name).(string)
			if rid == "" {
				if data.kind != 'n' {
					v.fail("C04", "empty to-one is not null")
				}
			} else if data.kind != 'o' || data.get("id") == nil || data.get("id").kind != 's' || data.get("type") == nil || data.get("type").kind != 's' || len(data.keys) != 2 {
				v.fail("C03,C04", "to-one data is not one type/id identifier")
			} else if data.get("id").text != rid || data.get("type").text != rel.ToType {
				v.fail("C04", "to-one identifier is not the related ID with the target type")
			}
		} else {
			held, _ := related(name).([]string)
			ids := append([]string{}, held...)
			sort.Strings(ids)
			if data.kind != 'a' {
				v.fail("C03,C04", "to-many data is not an array")
				continue
			}
			if len(data.items) != len(ids) {
				v.fail("C04", "to-many data is not the list of related IDs")
			}
			got := []string{}
			for _, it := range data.items {
				if it.kind != 'o' || it.get("id") == nil || it.get("type") == nil || it.get("type").kind != 's' || it.get("id").kind != 's' || len(it.keys) != 2 {
					v.fail("C03,C04", "to-many element is not a type/id identifier")
					continue
				}
				if it.get("type").text != rel.ToType {
					v.fail("C04", "to-many identifier without the target type")
				}
				got = append(got, it.get("id").text)
			}
			sort.Strings(got)
			if strings.Join(got, "\x00") != strings.Join(ids, "\x00") {
				v.fail("C04", "to-many IDs differ")
			}
		}
	}
	if rels != nil {
		for _, k := range rels.keys {
			if _, ok := typ.Rels[k]; !ok {
				v.fail("C04", "relationship "+k+" is not a relationship of the type")
			}
		}
	}
}

// delegRes: an application's own Resource implementation - a struct that has an exported
// string field ID of its own (here holding something else than the resource's ID) and
// hands every method of the interface to another resource.
type delegRes struct {
	ID string
	jsonapi.Resource
}

func genMarshalRes(r *Rng, typ jsonapi.Type, o *Out) (jsonapi.Resource, *resTruth) {
	res, vals, id := genMarshalRes0(r, typ, o)
	truth := &resTruth{typ: typ, id: id, vals: vals}
	if _, soft := res.(*jsonapi.SoftResource); soft && r.chance(1, 6) {
		o.stat("res.own-implementation")
		return &delegRes{ID: "not-the-id", Resource: res}, truth
	}
	return res, truth
}

// genMarshalRes0 returns the resource, the values written into it and the ID it was given.
func genMarshalRes0(r *Rng, typ jsonapi.Type, o *Out) (jsonapi.Resource, map[string]any, string) {
	vals := genFieldVals(r, typ)
	for k, v := range vals {
		vals[k] = utf8ify(v)
	}
	for k, rel := range typ.Rels {
		if rel.ToOne {
			vals[k] = mStrPool[r.IntN(len(mStrPool))]
		} else {
			var ids []string
			for i := r.IntN(4); i > 0; i-- {
				ids = append(ids, mStrPool[r.IntN(len(mStrPool))])
			}
			if ids == nil && r.bool() {
				ids = []string{}
			}
			vals[k] = ids
		}
	}
	var res jsonapi.Resource
	if r.bool() {
		o.stat("res.soft")
		if r.chance(1, 5) {
			id := mStrPool[r.IntN(len(mStrPool))]
			return newSoftShrunk(r, typ, id, vals, o), vals, id
		}
		sr := newSoftVia(r, typ, o)
		res = sr
		if r.chance(1, 3) {
			// only some of the fields are ever set: the others read their zero value
			o.stat("res.soft-partly-set")
			id := mStrPool[r.IntN(len(mStrPool))]
			sr.SetID(id)
			for _, k := range sortedKeys(vals) {
				if r.bool() {
					sr.Set(k, cloneVal(vals[k]))
				} else {
					vals[k] = zeroFieldIndep(typ, k) // (the harness's own zero, not GetZeroValue's)
				}
			}
			return res, vals, id
		}
	} else {
		o.stat("res.wrapped")
		if r.bool() {
			o.stat("res.struct-literal")
			id := mStrPool[r.IntN(len(mStrPool))]
			return newWrappedLiteral(typ, id, vals), vals, id
		}
		res = newWrapped(typ)
	}
	id := mStrPool[r.IntN(len(mStrPool))]
	fill(res, id, vals)
	return res, vals, id
}

func suiteMarshal(r *Rng, n int, thorough bool, o *Out) {
	reps := 4
	if thorough {
		reps = 30
	}
	for c := 0; c < n; c++ {
		tname := []string{"t", "articles", "a_b", "é"}[r.IntN(4)]
		typ := genTyp(r, genTypeOpts{name: tname, maxAttrs: 5, maxRels: 3, targets: []string{"t", "u"}})
		if r.chance(1, 3) {
			// hand-built relationships whose FromType is not the owning type's name
			for k, rel := range typ.Rels {
				rel.FromType = []string{"", "other"}[r.IntN(2)]
				typ.Rels[k] = rel
			}
			o.stat("rels.foreign-fromtype")
		}
		res, truth := genMarshalRes(r, typ, o)
		var meta map[string]any
		if r.chance(1, 4) {
			meta = genMeta(r, 1)
			if mh, ok := res.(jsonapi.MetaHolder); ok {
				mh.SetMeta(meta)
			} else {
				meta = nil // an implementation without meta
			}
		}
		prepath := prefixes[r.IntN(len(prefixes))]
		fields := genSelection(r, fieldsIndep(typ))
		relData := map[string][]string{}
		if r.chance(3, 4) {
			relData[tname] = genSelection(r, sortedKeys(typ.Rels))
		}
		if r.chance(1, 4) {
			relData["other"] = []string{"x"}
		}
		if r.chance(1, 3) { // C01's case: every field and every relationship's data
			fields = append([]string{}, fieldsIndep(typ)...)
			relData[tname] = sortedKeys(typ.Rels)
			r.Shuffle(len(fields), func(i, j int) { fields[i], fields[j] = fields[j], fields[i] })
		}
		op := lst("marshal", "res", sxResView(res), hx(prepath), hxs(fields), sxFieldsMap(relData), metaSx(meta))
		before := snapshot(res)
		var out []byte
		p, msg := guard(func() { out = jsonapi.MarshalResource(res, prepath, fields, relData) })
		if p {
			o.emit(op, "panic", "FAIL:MarshalResource panicked: "+msg)
			continue
		}
		obs, tree := jsonSx(out)
		var v verdicts
		if tree == nil || strings.HasPrefix(obs, "duplicate") {
			v.fail("C03", "output is not valid JSON without duplicate keys")
		} else {
			checkResourceObject(&v, tree, res, prepath, fields, relData, truth)
		}
		// C01: unmarshal what was written against a schema holding the type; selected fields
		// come back with the same value, the others zero (all selected: the whole resource)
		// the schema to unmarshal against: for a wrapped struct the type built from the struct
		// (so that what comes back is a wrapped struct again), else the soft type
		sch := &jsonapi.Schema{}
		backed := false
		if _, isW := res.(*jsonapi.Wrapper); isW && !strings.Contains(fmt.Sprint(typ.Rels), "other") {
			if bt, err := jsonapi.BuildType(reflect.New(structTypeFor(typ)).Interface()); err == nil && sxType(stripNewFunc(bt)) == sxType(typ) {
				putType(sch, bt)
				backed = true
				o.stat("roundtrip.into-struct")
			}
		}
		if !backed {
			putType(sch, typ.Copy())
		}
		schTypes := []stype{{typ: typ, backed: backed}}
		if r.chance(1, 3) {
			schTypes = append(schTypes, schemaWithPast(sch, o))
		}
		obsU, pvU, back := runUnmarshalRes("UnmarshalResource", out, sch, false)
		switch {
		case back == nil && strings.HasPrefix(pvU, "FAIL"):
			v.fail("C01", "unmarshaling the marshaled resource: "+pvU)
		case back == nil:
			v.fail("C01", "the marshaled resource is rejected")
		default:
			if m := sameResource(res, back, fields, relData[tname], truth); m != "" {
				v.fail("C01", "round trip: "+m)
			}
		}
		if len(fields) >= len(fieldsIndep(typ)) {
			o.stat("roundtrip.all-fields")
		}
		// C11: repeat, and permute the order-irrelevant parts
		for k := 0; k < reps; k++ {
			f2 := append([]string{}, fields...)
			r.Shuffle(len(f2), func(i, j int) { f2[i], f2[j] = f2[j], f2[i] })
			rd2 := map[string][]string{}
			for t, l := range relData {
				l2 := append([]string{}, l...)
				r.Shuffle(len(l2), func(i, j int) { l2[i], l2[j] = l2[j], l2[i] })
				rd2[t] = l2
			}
			for name, rel := range typ.Rels {
				if !rel.ToOne {
					ids := append([]string{}, res.Get(name).([]string)...)
					r.Shuffle(len(ids), func(i, j int) { ids[i], ids[j] = ids[j], ids[i] })
					res.Set(name, ids)
				}
			}
			var out2 []byte
			guard(func() { out2 = jsonapi.MarshalResource(res, prepath, f2, rd2) })
			if !bytes.Equal(out, out2) {
				v.fail("C11", "output changes between calls or under reordering of lists")
			}
		}
		after := snapshot(res)
		for k, x := range before {
			if after[k] != x {
				v.fail("C11", "marshaling changed what is read from the resource ("+k+")")
			}
		}
		pv := v.String()
		o.emit(op, obs, pv)
		emitJSONText(o, out, obs, tree)
		// the unmarshaling half of the round trip, against the model's UnmarshalResource
		o.emit(lst("unm", "res", sxSSchema(schTypes), sxResSke(out)), obsU, "na")
	}
}

func init() { suites["marshal"] = suiteMarshal }
