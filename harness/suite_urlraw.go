package main

import (
	"encoding/json"
	"net/url"
	"sort"
	"strings"

	"github.com/mfcochauxlaberge/jsonapi"
)

// The `urlraw` suite (C07): net/url on ARBITRARY raw strings, inside the model
// (lean/Jsonapi/Spec/UrlFull.lean, lean/Jsonapi/Model/UrlRaw.lean). The real code and the
// model are given the SAME RAW STRING:
//
//	(urlraw parse x<raw>)                         url.Parse(raw): err, or u.Path and u.Query()
//	(urlraw url <tags> <schema> x<raw> ld fd x<lb>)  jsonapi.NewURLFromRaw(schema, raw)
//
// Nothing decoded by net/url is handed over. `ld`/`fd` are encoding/json's decodes of the
// filter parameter (the model uses its own JSON codec when the value is inside the domain on
// which that codec is validated, the handed-over decode otherwise); `lb` is the JSON body of the
// resulting label, as in the `url` suite.
//
// Raw strings: the url suite's own grammar (genPath/genQuery), plain or decorated with a
// scheme, an authority, a fragment, ';' separators, control and non-ASCII bytes; URLs put
// together from pools of schemes, userinfo, hosts (IPv6 literals and zones), ports, paths,
// query pieces and fragments with every kind of valid and invalid percent escape; byte
// strings drawn from a URL-flavoured alphabet and from all 256 bytes; long strings.

var rawSchemes = []string{"", "", "", "http:", "https:", "HTTP:", "a+b-c.d:", "a1:", "1a:", "+a:", ":", "a b:", "\xc3\xa9:", "ht%74p:", "x:", "mailto:", "a:b:", "-:", "a_b:", "a/b:", "a?b:"}
var rawSlashes = []string{"", "", "//", "//", "//", "///", "////", "/"}
var rawUserinfo = []string{"", "", "", "u@", "u:p@", "u:p:q@", "@", ":@", "u%41@", "u%zz@", "u%4@", "u%@", "\xc3\xa9@", "u%C3%A9@", "a@b@", "u[@", "u p@", "u;=&$!*'(),+~._-@", "u:%zz@", "u%zz:p@", "u%:p@", "u^@", "u#@", "u?@", "u\\@", "%@", "u:p%2@"}
var rawHosts = []string{"", "h", "example.com", "EXAMPLE.com", "h%C3%A9", "h\xc3\xa9", "h\xff", "h%41", "h%25", "h%2", "h%", "h%zz", "h%8", "h%80", "h%7F", "h%FF", "h x", "h{", "h<>\"", "h!$&'()*+,;=", "h|", "h\\", "h^", "h`", "h}", "h~_-.", "h[", "h]", "a[b]",
	"[::1]", "[::1", "::1]", "[]", "[", "]", "[[::1]]", "[fe80::1%25en0]", "[fe80::1%25%41]", "[fe80::1%25%7B]", "[fe80::1%25%20x]", "[fe80::1%25%C3]", "[fe80::1%2541]", "[fe80::1%en0]", "[fe80::1%25]", "[a]]", "[a]b", "[\xc3\xa9]", "[a%C3]", "[a%41]", "[%25]", "[a%25b%25c]", "[a%25 b]", "[a%25{]", "[a%25%zz]", "[a%25%2]", "[a%zz%25b]", "[a%25b%2525]", "[a%25b%5D]", "[a%25b%5B]", "[a b%25c]", "[%2525]", "[a%2", "[a%25b", "x%25y", "[::1]%25", "[a%25b]%41", "[a%25b]\xc3\xa9"}
var rawPorts = []string{"", "", "", ":", ":80", ":080", ":80x", ":-1", ":8 0", ":80:81", ":%38", ":\xef\xbc\x98", "::", ":65536000000000000000000"}
var rawPaths = []string{"", "", "/", "/as", "/as/1", "/as/1/many", "/bs/abc/relationships/one", "as", "as/1", "a:b", "a/b:c", "/a:b", ":", "a:", "./a:b", "/%41s", "/as/%41", "/%zz", "/%4", "/%", "/as%", "/a%2Fb", "/as/a+b", "/as/a b", "/as/\xc3\xa9", "/as/%C3%A9", "/as/\xff", "/\x01", "/as\x7f", "/as\x00", "/as\t", "/as\n", "/a;b", "/as;x=1", "*", "*/a", "//as", "/as//1/", "/as/[x]", "/as/a@b", "/as/{}|\\^`<>\"", "/as/%25", "/as/%2541", "/as/%00", "/as/%7f", "/as/%3F", "/as/%23", "/as/%2f"}
var rawPieces = []string{"a=1", "a=2", "b=1", "a", "=", "=x", "a=", "a=b=c", "a+b=c+d", "a%20=%41", "a%2B=%2b", "a=%zz", "%zz=1", "a=%4", "a=%", "%=1", "a%4=1", "a;b=1", "a=1;b=2", ";", ";=;", "a=;", "%3B=%3b", "a=\xc3\xa9", "\xff=\xfe", "a=\x01", "a=\x7f", "a= b", " =", "a=?", "?", "a=/", "a=:", "a=@", "a=[]", "[=]", "a=%00", "a=%7F", "%00=", "a=%26", "a=%3D", "a%3Db=c", "a%26b=c", "a=%23", "a=%25", "a=%2525",
	"fields[as]=name", "fields[as]=name,n,age", "fields[bs]=id", "fields%5Bas%5D=name", "fields%5bas%5d=n", "fields[as]=", "fields[]=a", "fields[as=name", "fields%5Bas]=b",
	"sort=id", "sort=-name,age", "sort=", "sort", "sort=name&sort=n", "include=many", "include=many.one,r", "include=", "page[size]=1", "page[number]=2", "page%5Bsize%5D=10", "page[size]=x", "page[size]=", "filter=x", "filter=", "filter", "filter=%7B%7D", "filter=%7B%22f%22%3A%22name%22%2C%22o%22%3A%22%3D%22%2C%22v%22%3A%22x%22%7D", "filter=a+b", "filter=a%20b", "filter=%7Bx", "filter={}", "filter=%5Cu007bx", "filter=%5Cu007b", "filter=%5Cu007b%22a%22%3A1", "filter=%5Cu007Ba", "filter=lab&filter=other", "bogus=1"}
var rawFrags = []string{"", "", "", "#", "#f", "#%41", "#%zz", "#%4", "#%", "#a#b", "##", "#\x01", "#\x7f", "#\xc3\xa9", "#\xff", "#?x=1", "#/p", "#a b", "#a;b", "#a%zzb", "#%00"}

const rawAlphabet = "/:?#[]@%;&=+ .-_~*!$'(),abzAZ019fF{}|\\^`<>\"\x00\x01\x1f\x7f\x80\xc3\xa9\xff"

func rawRandomBytes(r *Rng, n int, all bool) string {
	b := make([]byte, n)
	for i := range b {
		if all {
			b[i] = byte(r.IntN(256))
		} else {
			b[i] = rawAlphabet[r.IntN(len(rawAlphabet))]
		}
	}
	return string(b)
}

// a percent escape: valid (any byte, either case) or one of the malformed shapes
func rawEscape(r *Rng) string {
	const hexd = "0123456789abcdefABCDEF"
	switch r.IntN(8) {
	case 0:
		return "%"
	case 1:
		return "%" + string(hexd[r.IntN(len(hexd))])
	case 2:
		return "%" + string(hexd[r.IntN(len(hexd))]) + "g"
	case 3:
		return "%z" + string(hexd[r.IntN(len(hexd))])
	default:
		return "%" + string(hexd[r.IntN(len(hexd))]) + string(hexd[r.IntN(len(hexd))])
	}
}

// rawSprinkle inserts k random escapes / special bytes at random positions of s
func rawSprinkle(r *Rng, s string, k int) string {
	for ; k > 0; k-- {
		at := r.IntN(len(s) + 1)
		ins := rawEscape(r)
		if r.chance(1, 3) {
			ins = string(rawAlphabet[r.IntN(len(rawAlphabet))])
		}
		s = s[:at] + ins + s[at:]
	}
	return s
}

func genRawAssembled(r *Rng, o *Out) string {
	var b strings.Builder
	b.WriteString(r.pick(rawSchemes))
	sl := r.pick(rawSlashes)
	b.WriteString(sl)
	if sl == "//" || r.chance(1, 6) {
		b.WriteString(r.pick(rawUserinfo))
		b.WriteString(r.pick(rawHosts))
		b.WriteString(r.pick(rawPorts))
	}
	b.WriteString(r.pick(rawPaths))
	if r.chance(2, 3) {
		b.WriteString("?")
		k := r.IntN(5)
		for i := 0; i < k; i++ {
			if i > 0 {
				b.WriteString([]string{"&", "&", "&", "&", "&", ";", "&&", "&;&"}[r.IntN(8)])
			}
			b.WriteString(r.pick(rawPieces))
		}
		if r.chance(1, 8) {
			b.WriteString("?")
		}
	}
	b.WriteString(r.pick(rawFrags))
	return b.String()
}

// the raw string of one case, and the schema it is parsed against
func genRaw(r *Rng, s *jsonapi.Schema, o *Out) string {
	switch m := r.IntN(20); {
	case m < 7:
		// the url suite's grammar, plain or decorated
		path := genPath(r, s, o)
		ps := genQuery(r, s, o)
		sep := "&"
		if r.chance(1, 10) {
			sep = ";"
			o.stat("raw.semicolon-separators")
		}
		raw := path
		if len(ps) > 0 || r.chance(1, 10) {
			raw += "?" + strings.Join(ps, sep)
		}
		switch r.IntN(12) {
		case 0:
			raw = []string{"http://example.com", "//h", "HTTPS://u:p@h:80", "x://[::1]:8080", "a+b://h%C3%A9", "//", "x://"}[r.IntN(7)] + raw
			o.stat("raw.grammar+authority")
		case 1:
			raw = []string{"http:", "x:", "a1+-.:"}[r.IntN(3)] + raw
			o.stat("raw.grammar+scheme")
		case 2:
			raw += r.pick(rawFrags)
			o.stat("raw.grammar+fragment")
		case 3:
			raw = rawSprinkle(r, raw, 1+r.IntN(2))
			o.stat("raw.grammar+sprinkled")
		case 4:
			raw = strings.TrimPrefix(raw, "/")
			o.stat("raw.grammar-rootless")
		case 5:
			raw = "/" + raw
			o.stat("raw.grammar+slash")
		default:
			o.stat("raw.grammar")
		}
		return raw
	case m < 14:
		o.stat("raw.assembled")
		raw := genRawAssembled(r, o)
		if r.chance(1, 6) {
			raw = rawSprinkle(r, raw, 1+r.IntN(3))
		}
		return raw
	case m < 17:
		o.stat("raw.alphabet-bytes")
		// a prefix that takes the random bytes into the authority, the zone, the query or the fragment
		pre := []string{"", "", "", "//", "//[", "x://", "//u@", "//[a%25", "x://[::1]", "//h:", "?", "/?a=", "#", "/as?", "x:"}[r.IntN(15)]
		return pre + rawRandomBytes(r, r.IntN(24), false)
	case m < 18:
		o.stat("raw.any-bytes")
		return rawRandomBytes(r, r.IntN(12), true)
	case m < 19:
		// empty components
		o.stat("raw.empty-components")
		return []string{"", "?", "#", "?#", "//", "//?", "//#", "///", ":", "a:", "a:?", "a:#", "a://", "a:///", "a://@", "a://:", "a://@:", "//@/", "/?&", "/?=", "/?&=&", "?=", "?&", "&", "=", "%", "*", "*?", "*#", "//[]", "//[]:", "a:?x=1", "a:b?x=1#f", "?x=1", "#?x=1"}[r.IntN(35)]
	default:
		// long strings (every recursion of the model must survive them)
		o.stat("raw.long")
		unit := []string{"/as", "a", "%41", "x=1&", "a=%zz&", "/", "+", ";", "%C3%A9", "fields[as]=name&"}[r.IntN(10)]
		pre := []string{"/as?", "/", "http://h/", "//h", "", "?", "#", "a:"}[r.IntN(8)]
		return pre + strings.Repeat(unit, 200+r.IntN(3000))
	}
}

func sxValues(q url.Values) string {
	ks := make([]string, 0, len(q))
	for k := range q {
		ks = append(ks, k)
	}
	sort.Strings(ks)
	vs := make([]string, len(ks))
	for i, k := range ks {
		vs[i] = lst(hx(k), hxs(q[k]))
	}
	return lst(vs...)
}

// encoding/json's two decodes of the filter parameter (what simple_url.go computes)
func sxFilterDecodes(q url.Values) (string, string) {
	ld, fd := "err", "err"
	if v := q.Get("filter"); v != "" {
		var label string
		if json.Unmarshal([]byte("\""+v+"\""), &label) == nil {
			ld = lst("ok", hx(label))
		}
		f := &jsonapi.Filter{}
		if json.Unmarshal([]byte(v), f) == nil {
			if b, err := json.Marshal(f); err == nil {
				fd = lst("ok", hx(string(b)))
			}
		}
	}
	return ld, fd
}

func suiteURLRaw(r *Rng, n int, thorough bool, o *Out) {
	for c := 0; c < n; c++ {
		s := genURLSchema(r, o)
		raw := genRaw(r, s, o)

		// ---- op 1: url.Parse + Query() ----
		var pu *url.URL
		var perr error
		var q url.Values
		op := lst("urlraw", "parse", hx(raw))
		if p, msg := guard(func() {
			pu, perr = url.Parse(raw)
			if perr == nil {
				q = pu.Query()
			}
		}); p {
			o.emit(op, "panic", "FAIL[C07]:C07 url.Parse / Query panicked on "+hx(raw)+": "+msg)
			continue
		}
		if perr != nil {
			o.stat("parse.err")
			o.emit(op, "err", "ok")
		} else {
			o.stat("parse.ok")
			switch {
			case pu.Opaque != "":
				o.stat("parse.ok.opaque")
			case pu.Host != "" || pu.User != nil:
				o.stat("parse.ok.authority")
			case pu.Scheme != "":
				o.stat("parse.ok.scheme")
			}
			if pu.Fragment != "" {
				o.stat("parse.ok.fragment")
			}
			if strings.Contains(pu.RawQuery, ";") {
				o.stat("parse.ok.semicolon")
			}
			if len(q) > 0 {
				o.stat("parse.ok.values")
			}
			o.emit(op, "ok "+hx(pu.Path)+" "+sxValues(q), "ok")
		}

		// ---- op 2: the whole NewURLFromRaw on the raw string ----
		var u *jsonapi.URL
		var err error
		p, msg := guard(func() { u, err = jsonapi.NewURLFromRaw(s, raw) })
		ld, fd := sxFilterDecodes(q)
		labelBody, dump := "", ""
		if u != nil {
			lb, _ := json.Marshal(u.Params.FilterLabel)
			labelBody = string(lb[1 : len(lb)-1])
			// handed over as json.Marshal wrote it: the rewrite of a leading '{' to \u007b that
			// URL.String does is part of the model (rewriteBrace in Model/Url.lean)
			dump = sxURL(u) // before String(), which sorts the field lists in place
		}
		op2 := lst("urlraw", "url", lst("tags"), sxSchema(s), hx(raw), ld, fd, hx(labelBody))
		switch {
		case p:
			o.stat("url.panic")
			o.emit(op2, "panic", "FAIL[C07]:C07 parsing "+hx(raw)+" panicked: "+msg)
		case (err != nil) == (u != nil):
			o.emit(op2, "both", "FAIL[C07]:C07 neither or both of URL and error")
		case err != nil:
			if perr != nil {
				o.stat("url.err.parse")
			} else {
				o.stat("url.err.library")
			}
			o.emit(op2, "err", "ok")
		default:
			o.stat("url.ok")
			var v verdicts
			if perr != nil {
				v.fail("C07", "a URL is returned for a raw string url.Parse rejects")
			} else if m := c07Verdict(u, s, q); m != "" {
				v.fail("C07", m)
			}
			str := ""
			if sp, smsg := guard(func() { str = u.String() }); sp {
				v.fail("C08", "String() panicked: "+smsg)
			}
			o.emit(op2, "ok "+dump+" "+hx(str), v.String())
		}
	}
}

func init() { suites["urlraw"] = suiteURLRaw }
