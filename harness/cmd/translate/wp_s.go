// wp_s.go: the rules added by work package S (Schema.Check, Schema.buildRels, Schema.Rels,
// Type.Copy). The reading conventions are stated in the header of main.go (paragraph "Slices of
// errors, maps with struct keys, sort.Slice, locals of type Type"); main.go calls the hooks
// wpsType, wpsExpr, wpsEffect, wpsAssigned, wpsDropInner and wpsPrelude, nothing else.
//
// Rules added with the repaired `Schema.buildRels` (reading conventions, trusted; they belong to
// the same paragraph of the header):
//
//	a, b := e1, e2   (also `=`; as many right sides as left sides, all left sides variables) is
//	            `a := e1; b := e2` when no right side contains a call and none mentions a variable
//	            of the left side: then the simultaneous assignment and the sequence are the same.
//	range copy  `for _, v := range xs { … v.f = e … }`: the range value variable is a COPY of the
//	            element and a store into a field of it changes that copy only. The loop is read as
//	            `var v T; for _, v' := range xs { v = v'; … }` - literally what Go specified before
//	            1.22 (one variable for the loop) and the same as the per-iteration variable of 1.22
//	            as long as no closure captures v and its address is not taken, which is checked.
//	            v is then an ordinary local that the loop carries: `v.f = e` is
//	            `let v_ := { v_ with f := e }`, a read of v is `v_`; the value v has after the loop
//	            is not visible in Go and is not used.
package main

import (
	"go/ast"
	"go/token"
	"go/types"
	"strings"
)

func init() {
	// buildRels before Rels: a call needs its callee translated
	targets = append(targets, "Schema.Check", "Schema.buildRels", "Schema.Rels", "Type.Copy")
}

// ---------- types ----------

// keyedMap: a map whose key type is one of the model's structures with decidable equality
// (Go's == on a struct of strings and bools is field-wise equality)
func keyedMap(t types.Type) (*types.Map, bool) {
	m, ok := t.Underlying().(*types.Map)
	if !ok {
		return nil, false
	}
	n, ok := m.Key().(*types.Named)
	if !ok || !(isPkgNamed(n, "Rel") || isPkgNamed(n, "Attr")) {
		return nil, false
	}
	return m, true
}

func emptyStruct(t types.Type) bool {
	st, ok := t.Underlying().(*types.Struct)
	return ok && st.NumFields() == 0
}

// wpsType: `struct{}` is `Unit`; `map[K]V` with K = Rel / Attr is `List (K × V)` (header: keyed maps)
func wpsType(t types.Type, n ast.Node) (string, bool) {
	if _, isNamed := t.(*types.Named); !isNamed && emptyStruct(t) {
		return "Unit", true
	}
	if _, isMap := t.(*types.Map); isMap {
		if m, ok := keyedMap(t); ok {
			return "List (" + leanType(m.Key(), n) + " × " + leanType(m.Elem(), n) + ")", true
		}
	}
	return "", false
}

// ---------- expressions ----------

// the closure of the sort.Slice call being translated: the slice and the two index parameters,
// with the Lean names their elements have
type sortCtx struct {
	xs       types.Object
	xtext    string
	i, j     types.Object
	ei, ej   string
	lo, hi   token.Pos
	enclosed *sortCtx
}

var wpsSort *sortCtx

func (x *tr) wpsExpr(e ast.Expr) (string, bool) {
	switch v := e.(type) {
	case *ast.CompositeLit:
		t := info.Types[v].Type
		if _, isNamed := t.(*types.Named); !isNamed && emptyStruct(t) && len(v.Elts) == 0 {
			return "()", true
		}
		if _, ok := keyedMap(t); ok && len(v.Elts) != 0 {
			fail(v, "literal of a map with struct keys that is not empty")
		}
	case *ast.IndexExpr:
		if c := wpsSort; c != nil {
			if xid, ok := v.X.(*ast.Ident); ok && info.Uses[xid] == c.xs {
				if k, ok := v.Index.(*ast.Ident); ok {
					switch info.Uses[k] {
					case c.i:
						return c.ei, true
					case c.j:
						return c.ej, true
					}
				}
				fail(v, "the slice being sorted is read in the comparison other than at the two indices")
			}
		}
		if _, ok := keyedMap(info.Types[v.X].Type); ok {
			fail(v, "read of an entry of a map with struct keys")
		}
	case *ast.Ident:
		if c := wpsSort; c != nil {
			switch info.Uses[v] {
			case c.i, c.j:
				fail(v, "an index of the comparison of sort.Slice is used other than to read the slice being sorted")
			case c.xs:
				fail(v, "the slice being sorted is used in the comparison other than by xs[i], xs[j]")
			}
		}
	case *ast.SelectorExpr:
		if v.Sel.Name == "NewFunc" && structOf(info.Types[v.X].Type) == "Type" {
			fail(v, "selector NewFunc")
		}
	}
	return "", false
}

// ---------- statements ----------

var wpsUsesMapSet bool

// localMapLiteral: obj is a local variable whose only assignment in the function is its
// declaration `m := map[K]V{…}` - so it is never nil
func (x *tr) localMapLiteral(obj types.Object) bool {
	v, isVar := obj.(*types.Var)
	if !isVar || v.IsField() || v.Pos() < x.fn.Body.Pos() || v.Pos() > x.fn.Body.End() {
		return false
	}
	declared, other := false, false
	ast.Inspect(x.fn.Body, func(n ast.Node) bool {
		switch a := n.(type) {
		case *ast.AssignStmt:
			for i, l := range a.Lhs {
				id, isId := l.(*ast.Ident)
				if !isId || info.ObjectOf(id) != obj {
					continue
				}
				if a.Tok == token.DEFINE && info.Defs[id] == obj && len(a.Lhs) == len(a.Rhs) {
					if _, isLit := a.Rhs[i].(*ast.CompositeLit); isLit {
						declared = true
						continue
					}
				}
				other = true
			}
		case *ast.UnaryExpr:
			if id, isId := a.X.(*ast.Ident); isId && a.Op == token.AND && info.Uses[id] == obj {
				other = true // its address is taken
			}
		}
		return true
	})
	return declared && !other
}

// sortSliceCall: st is `sort.Slice(xs, func(i, j int) bool { return E })` on a local slice variable
func sortSliceCall(st ast.Stmt) (call *ast.CallExpr, xs *ast.Ident, ok bool) {
	es, isE := st.(*ast.ExprStmt)
	if !isE {
		return nil, nil, false
	}
	call, isCall := es.X.(*ast.CallExpr)
	if !isCall || pkgCall(call) != "sort.Slice" || len(call.Args) != 2 {
		return nil, nil, false
	}
	xs, _ = call.Args[0].(*ast.Ident)
	return call, xs, true
}

// newFuncCopy: `a.NewFunc = b.NewFunc` between two values of the struct Type
func newFuncCopy(st ast.Stmt) bool {
	as, ok := st.(*ast.AssignStmt)
	if !ok || as.Tok != token.ASSIGN || len(as.Lhs) != 1 || len(as.Rhs) != 1 {
		return false
	}
	isNF := func(e ast.Expr) bool {
		sel, ok := e.(*ast.SelectorExpr)
		if !ok || sel.Sel.Name != "NewFunc" || structOf(info.Types[sel.X].Type) != "Type" {
			return false
		}
		_, isId := sel.X.(*ast.Ident)
		return isId
	}
	return isNF(as.Lhs[0]) && isNF(as.Rhs[0])
}

func (x *tr) wpsEffect(st ast.Stmt, ind string) (string, bool) {
	// header: locals of type Type - the field NewFunc is not part of the model's Typ
	if newFuncCopy(st) {
		return "", true
	}
	// header: sort.Slice
	if call, xs, ok := sortSliceCall(st); ok {
		if xs == nil {
			fail(st, "sort.Slice on something else than a local variable")
		}
		obj := info.Uses[xs]
		v, isVar := obj.(*types.Var)
		if !isVar || v.IsField() || x.nilable[obj] || x.owned[obj] != 0 || (x.recvObj != nil && obj == x.recvObj) ||
			v.Pos() < x.fn.Body.Pos() || v.Pos() > x.fn.Body.End() {
			fail(st, "sort.Slice on something else than a local slice variable")
		}
		if _, isSl := v.Type().Underlying().(*types.Slice); !isSl {
			fail(st, "sort.Slice on something else than a slice")
		}
		for _, o := range append([]loopSave{{slice: x.loopSlice}}, x.outer...) {
			if o.slice != "" && mentions(o.slice, xs.Name) {
				fail(st, "sort.Slice on %s, which is being ranged over", xs.Name)
			}
		}
		lit, isLit := call.Args[1].(*ast.FuncLit)
		if !isLit {
			fail(st, "the comparison of sort.Slice is not a function literal")
		}
		var ps []types.Object
		for _, f := range lit.Type.Params.List {
			for _, n := range f.Names {
				ps = append(ps, info.Defs[n])
			}
		}
		if len(ps) != 2 || len(lit.Body.List) != 1 {
			fail(st, "the comparison of sort.Slice is not `func(i, j int) bool { return E }`")
		}
		ret, isRet := lit.Body.List[0].(*ast.ReturnStmt)
		if !isRet || len(ret.Results) != 1 {
			fail(st, "the comparison of sort.Slice is not `func(i, j int) bool { return E }`")
		}
		// le a b := !less(b, a): E is read with xs[i] := b', xs[j] := a'
		a, b := "a'", "b'"
		for c := wpsSort; c != nil; c = c.enclosed {
			a, b = a+"'", b+"'"
		}
		wpsSort = &sortCtx{xs: obj, xtext: xs.Name, i: ps[0], j: ps[1], ei: b, ej: a, enclosed: wpsSort}
		less := func() string {
			defer func() { wpsSort = wpsSort.enclosed }()
			return x.expr(ret.Results[0])
		}()
		x.kill(xs)
		return "let " + local(xs.Name) + " := (List.mergeSort " + local(xs.Name) + " (fun " + a + " " + b + " => !" + less + "))", true
	}
	// this file's header: range copy
	if rs, isR := st.(*ast.RangeStmt); isR {
		if out, ok := x.rangeCopy(rs, ind); ok {
			return out, true
		}
		return "", false
	}
	as, isAs := st.(*ast.AssignStmt)
	if isAs {
		// this file's header: a, b := e1, e2
		if out, ok := x.parallelAssign(as, ind); ok {
			return out, true
		}
	}
	if !isAs || len(as.Lhs) != 1 || len(as.Rhs) != 1 {
		return "", false
	}
	// this file's header: range copy - a store into a field of the copy
	if sel, isSel := as.Lhs[0].(*ast.SelectorExpr); isSel && as.Tok == token.ASSIGN {
		if id, isId := sel.X.(*ast.Ident); isId && wpsRangeCopies[info.Uses[id]] {
			f := fieldOfT(info.Uses[id].Type(), sel.Sel.Name)
			if f == "" {
				fail(st, "field %s of %s", sel.Sel.Name, id.Name)
			}
			val := x.exprT(as.Rhs[0], info.Types[as.Lhs[0]].Type)
			x.kill(as.Lhs[0])
			return "let " + local(id.Name) + " := { " + local(id.Name) + " with " + f + " := " + val + " }", true
		}
	}
	// header: keyed maps - a store into a local map with struct keys
	if ix, isIx := as.Lhs[0].(*ast.IndexExpr); isIx {
		if mt, ok := keyedMap(info.Types[ix.X].Type); ok {
			id, isId := ix.X.(*ast.Ident)
			if !isId || as.Tok != token.ASSIGN {
				fail(st, "store into a map with struct keys that is not a local variable")
			}
			if !x.localMapLiteral(info.Uses[id]) {
				fail(st, "store into the map %s, which may be nil here", id.Name)
			}
			for _, o := range append([]loopSave{{slice: x.loopSlice}}, x.outer...) {
				if o.slice != "" && mentions(o.slice, id.Name) {
					fail(st, "store into the map %s, which is being ranged over", id.Name)
				}
			}
			k := x.expr(ix.Index)
			val := x.exprT(as.Rhs[0], mt.Elem())
			x.kill(ix.X)
			wpsUsesMapSet = true
			return "let " + local(id.Name) + " := (Gen.mapSet " + local(id.Name) + " " + k + " " + val + ")", true
		}
	}
	// header: locals of type Type - `v := Type{Name: …, Attrs: map[string]Attr{}, Rels: map[string]Rel{}}`
	if id, isId := as.Lhs[0].(*ast.Ident); isId && as.Tok == token.DEFINE && info.Defs[id] != nil {
		if cl, isLit := as.Rhs[0].(*ast.CompositeLit); isLit && len(cl.Elts) > 0 {
			if n, isN := info.Types[cl].Type.(*types.Named); isN && isPkgNamed(n, "Type") {
				obj := info.Defs[id]
				x.noShadow(id)
				x.checkOwned(obj, id.Name)
				given := map[string]string{}
				for _, el := range cl.Elts {
					kv, isKV := el.(*ast.KeyValueExpr)
					if !isKV {
						fail(el, "positional composite literal")
					}
					key := kv.Key.(*ast.Ident).Name
					f := fieldOf("Type", key)
					if f == "" {
						fail(el, "field %s of Type", key)
					}
					given[f] = x.expr(kv.Value)
					if ml, isML := kv.Value.(*ast.CompositeLit); isML {
						if _, isMap := info.Types[ml].Type.Underlying().(*types.Map); isMap {
							x.nonNil[id.Name+"."+key] = true
						}
					}
				}
				zero := map[string]string{"name": "([] : GoString)", "attrs": "([] : GoMap Attr)", "rels": "([] : GoMap Rel)"}
				parts := ""
				for _, f := range []string{"name", "attrs", "rels"} {
					val, ok := given[f]
					if !ok {
						val = zero[f]
					}
					if parts != "" {
						parts += ", "
					}
					parts += f + " := " + val
				}
				x.owned[obj] = 1
				return "let " + local(id.Name) + " := ({ " + parts + " } : Typ)", true
			}
		}
	}
	return "", false
}

// the range value variables being read as local copies (this file's header: range copy)
var wpsRangeCopies = map[types.Object]bool{}
var wpsRangeCopyStmt = map[*ast.RangeStmt]*ast.RangeStmt{}

// fieldStoreRoot: st is `v.f = e` with v a variable; the variable
func fieldStoreRoot(st *ast.AssignStmt) (*ast.Ident, types.Object) {
	if st.Tok != token.ASSIGN {
		return nil, nil
	}
	for _, l := range st.Lhs {
		if sel, isSel := l.(*ast.SelectorExpr); isSel {
			if id, isId := sel.X.(*ast.Ident); isId {
				if v, isVar := info.Uses[id].(*types.Var); isVar && !v.IsField() {
					return id, v
				}
			}
		}
	}
	return nil, nil
}

// rangeValueOf: the range statement of the function whose value variable obj is
func (x *tr) rangeValueOf(obj types.Object) *ast.RangeStmt {
	var found *ast.RangeStmt
	ast.Inspect(x.fn.Body, func(n ast.Node) bool {
		if rs, isR := n.(*ast.RangeStmt); isR && rs.Tok == token.DEFINE {
			if id, isId := rs.Value.(*ast.Ident); isId && info.Defs[id] == obj {
				found = rs
			}
		}
		return found == nil
	})
	return found
}

// rangeCopy: a range statement whose value variable has a field stored into in the body
func (x *tr) rangeCopy(rs *ast.RangeStmt, ind string) (string, bool) {
	val, isId := rs.Value.(*ast.Ident)
	if !isId || rs.Tok != token.DEFINE || val.Name == "_" || info.Defs[val] == nil {
		return "", false
	}
	obj := info.Defs[val]
	stored := false
	ast.Inspect(rs.Body, func(n ast.Node) bool {
		if as, isAs := n.(*ast.AssignStmt); isAs {
			if _, o := fieldStoreRoot(as); o == obj {
				stored = true
			}
		}
		return true
	})
	if !stored {
		return "", false
	}
	if _, isP := obj.Type().(*types.Pointer); isP || structOf(obj.Type()) == "" {
		fail(rs, "store through the range variable %s, which is not a structure value", val.Name)
	}
	if x.recvObj != nil {
		fail(rs, "store into a field of the range variable %s in a receiver-mutating method", val.Name)
	}
	ast.Inspect(rs.Body, func(n ast.Node) bool {
		switch v := n.(type) {
		case *ast.UnaryExpr:
			if v.Op == token.AND {
				ast.Inspect(v.X, func(m ast.Node) bool {
					if id, ok := m.(*ast.Ident); ok && info.Uses[id] == obj {
						fail(v, "address of (a part of) the range variable %s, a field of which is stored into", val.Name)
					}
					return true
				})
			}
		case *ast.FuncLit:
			ast.Inspect(v, func(m ast.Node) bool {
				if id, ok := m.(*ast.Ident); ok && info.Uses[id] == obj {
					fail(v, "closure over the range variable %s, a field of which is stored into", val.Name)
				}
				return true
			})
		case *ast.CallExpr:
			if _, recv, isM := x.mutCall(v); isM {
				ast.Inspect(recv, func(m ast.Node) bool {
					if id, ok := m.(*ast.Ident); ok && info.Uses[id] == obj {
						fail(v, "receiver-mutating call on the range variable %s", val.Name)
					}
					return true
				})
			}
		}
		return true
	})
	x.noShadow(val)
	s2 := wpsRangeCopyStmt[rs]
	if s2 == nil {
		hid := types.NewVar(val.Pos(), obj.Pkg(), val.Name+"'", obj.Type())
		hidDef := &ast.Ident{NamePos: val.Pos(), Name: hid.Name()}
		info.Defs[hidDef] = hid
		hidUse := &ast.Ident{NamePos: rs.Body.Lbrace, Name: hid.Name()}
		info.Uses[hidUse] = hid
		info.Types[hidUse] = types.TypeAndValue{Type: obj.Type()}
		lhs := &ast.Ident{NamePos: rs.Body.Lbrace, Name: val.Name}
		info.Uses[lhs] = obj
		info.Types[lhs] = types.TypeAndValue{Type: obj.Type()}
		cp := &ast.AssignStmt{Lhs: []ast.Expr{lhs}, TokPos: rs.Body.Lbrace, Tok: token.ASSIGN, Rhs: []ast.Expr{hidUse}}
		body := &ast.BlockStmt{Lbrace: rs.Body.Lbrace, List: append([]ast.Stmt{cp}, rs.Body.List...), Rbrace: rs.Body.Rbrace}
		s2 = &ast.RangeStmt{For: rs.For, Key: rs.Key, Value: hidDef, TokPos: rs.TokPos, Tok: rs.Tok, Range: rs.Range, X: rs.X, Body: body}
		wpsRangeCopyStmt[rs] = s2
	}
	wpsRangeCopies[obj] = true
	loop := strings.TrimRight(x.rangeStmt(s2, nil, ind, false), " \n")
	return "let " + local(val.Name) + " := " + zeroOf(obj.Type(), rs) + "\n" + ind + loop, true
}

// parallelAssign: `a, b := e1, e2` / `a, b = e1, e2` as the sequence of the single assignments
func (x *tr) parallelAssign(as *ast.AssignStmt, ind string) (string, bool) {
	if len(as.Lhs) < 2 || len(as.Lhs) != len(as.Rhs) || (as.Tok != token.DEFINE && as.Tok != token.ASSIGN) {
		return "", false
	}
	objs := map[types.Object]bool{}
	for _, l := range as.Lhs {
		id, isId := l.(*ast.Ident)
		if !isId {
			return "", false
		}
		if id.Name != "_" {
			objs[info.ObjectOf(id)] = true
		}
	}
	for _, r := range as.Rhs {
		ast.Inspect(r, func(n ast.Node) bool {
			switch v := n.(type) {
			case *ast.CallExpr:
				fail(as, "multiple assignment with a call on the right")
			case *ast.FuncLit:
				fail(as, "multiple assignment with a function literal on the right")
			case *ast.Ident:
				if o := info.Uses[v]; o != nil && objs[o] {
					fail(as, "multiple assignment whose right side mentions %s, which it assigns", v.Name)
				}
			}
			return true
		})
	}
	lines := []string{}
	for i, l := range as.Lhs {
		id := l.(*ast.Ident)
		if id.Name == "_" {
			continue
		}
		tok := as.Tok
		if tok == token.DEFINE && info.Defs[id] == nil {
			tok = token.ASSIGN // a variable of the left side that exists already is assigned
		}
		one := &ast.AssignStmt{Lhs: []ast.Expr{l}, TokPos: as.TokPos, Tok: tok, Rhs: []ast.Expr{as.Rhs[i]}}
		lines = append(lines, x.assign(one, ind))
	}
	return joinLines(ind, lines...), true
}

// wpsAssigned: the variables assigned by the statements of this file (a store into a local map
// with struct keys, sort.Slice)
func (x *tr) wpsAssigned(stmts []ast.Stmt, out map[string]bool) {
	for _, s := range stmts {
		ast.Inspect(s, func(n ast.Node) bool {
			switch v := n.(type) {
			case *ast.AssignStmt:
				// this file's header: range copy. A store into a field of the copy assigns the
				// copy - for the statements inside the loop that declares it
				if id, obj := fieldStoreRoot(v); obj != nil && x.fn != nil {
					inside := len(stmts) > 0 && obj.Pos() >= stmts[0].Pos() && obj.Pos() <= stmts[len(stmts)-1].End()
					if !inside && x.rangeValueOf(obj) != nil {
						out[id.Name] = true
					}
				}
				// this file's header: a, b := e1, e2 - a variable of the left side that exists already
				if v.Tok == token.DEFINE && len(v.Lhs) > 1 && len(v.Lhs) == len(v.Rhs) {
					for _, l := range v.Lhs {
						if id, isId := l.(*ast.Ident); isId && id.Name != "_" && info.Defs[id] == nil {
							out[id.Name] = true
						}
					}
				}
				for _, l := range v.Lhs {
					if ix, isIx := l.(*ast.IndexExpr); isIx {
						if _, ok := keyedMap(info.Types[ix.X].Type); ok {
							if id, isId := ix.X.(*ast.Ident); isId {
								out[id.Name] = true
							}
						}
					}
				}
			case *ast.ExprStmt:
				if _, xs, ok := sortSliceCall(v); ok && xs != nil {
					out[xs.Name] = true
				}
			}
			return true
		})
	}
}

// wpsDropInner: a variable declared inside the statement s (an `if` or a `switch` whose branches
// are joined) is not visible after it: it is not part of the joined state (header: scoping)
func (x *tr) wpsDropInner(vars map[string]bool, s ast.Node) {
	inner, outer := map[string]bool{}, map[string]bool{}
	ast.Inspect(s, func(n ast.Node) bool {
		id, ok := n.(*ast.Ident)
		if !ok || !vars[id.Name] {
			return true
		}
		v, isVar := info.ObjectOf(id).(*types.Var)
		if !isVar || v.IsField() {
			return true
		}
		if v.Pos() >= s.Pos() && v.Pos() <= s.End() {
			inner[id.Name] = true
		} else {
			outer[id.Name] = true
		}
		return true
	})
	for name := range inner {
		if !outer[name] {
			delete(vars, name)
		}
	}
}

// wpsPrelude: the helper definitions the translated functions of this file refer to
func wpsPrelude() string {
	if !wpsUsesMapSet {
		return ""
	}
	return "/-- `m[k] = v` on a map whose keys are structures (header: keyed maps): as `GoMap.set` -/\n" +
		"def mapSet {κ β : Type} [DecidableEq κ] (m : List (κ × β)) (k : κ) (v : β) : List (κ × β) :=\n" +
		"  match m with\n" +
		"  | [] => [(k, v)]\n" +
		"  | (k', v') :: rest => if k' = k then (k, v) :: rest else (k', v') :: mapSet rest k v\n\n"
}
