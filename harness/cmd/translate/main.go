// translate: the function translator (T1b). It type-checks /repo's non-test sources and
// prints Jsonapi/Generated/Funcs.lean: a Lean definition for each of a fixed list of pure
// helper functions of the library, obtained from the function's syntax tree - so that the
// theorems `Gen.f = <hand-written model of f>` (Props/Gen*.lean) are re-checked against
// what the code says now, for every input, on every run.
//
// Supported Go subset (anything else makes the function "untranslated": the marker
// definition `f_untranslated` is printed instead and the equivalence theorem no longer
// builds, which bin/check reports as a broken obligation):
//
//	types       string, bool, signed and unsigned integers (as Int / Nat, comparisons only),
//	            time.Time (Equal/Before/After), []string, the struct Rel, map[string]string
//	            literals, the Resource interface through res.Get("id").(string) and
//	            res.GetType().Name
//	statements  return, if/else, switch (with or without tag, no fallthrough), :=, =, +=,
//	            const and var declarations; every path must end in a return
//	expressions literals, constants of the package (by value), == != < <= > >= && || !,
//	            string +, field selection, composite literals of Rel, *p, len, x[k] with a
//	            constant k (as getD: every use in the list below is guarded by a length
//	            test), s[k:], strings.HasPrefix/HasSuffix, calls of and method calls on
//	            other translated functions
//
// Receiver-mutating methods (state threading). A method with a pointer receiver `*Type` or
// `*Schema` whose body assigns through the receiver is translated with the receiver as a
// VALUE that is threaded through the body and returned: `func (t *Type) AddAttr(a Attr) error`
// becomes `def Type_AddAttr (t_ : Typ) (attr_ : Attr) : Typ × Res Unit`, a method without
// result returns the new receiver only (`def Type_RemoveAttr (t_ : Typ) (attr_ : GoString) : Typ`).
// Every statement that writes through the receiver re-binds the receiver variable (`let t_ :=
// { t_ with … }`), every later read sees the new value. Reading conventions (trusted):
//
//	values      structs, maps and slices are values: the aliasing Go has between a caller's copy
//	            and the stored one (the maps inside a `Type` passed to AddType, the backing array
//	            of a re-sliced `s.Types`) is not modelled. `Type` is the model's `Typ` (Name,
//	            Attrs, Rels; the field NewFunc is outside the subset: a function that mentions it
//	            is untranslated), `Schema` is `Schema` (Types), `Rel` is `Rel`, `Attr` is the
//	            model's `Attr` (Name/Type/Nullable are name/ty/nullable). The model keeps the
//	            attribute kind as `ty : Nat` where Go has an `int`: a read `a.Type` is rendered
//	            `(Int.ofNat a.ty)`, so the translated functions speak about attributes whose kind is
//	            >= 0 only (a negative kind has no counterpart in the model); no write to it is accepted.
//	errors      the type `error` is `Res Unit`: `nil` is `Res.ok ()`, `fmt.Errorf(…)` and
//	            `errors.New(…)` are `Res.err` (they never return nil; the text is not modelled and
//	            the arguments must be constants, variables or field selections, which have no
//	            effect), `err != nil` is `err ≠ Res.ok ()`.
//	maps        `map[string]Attr` / `map[string]Rel` are `GoMap` (association lists; the list order
//	            stands for the iteration order the runtime picks). A nil map and an empty map are
//	            both `[]`: the statement `if m == nil { m = map[K]V{} }` is rendered as nothing
//	            (it only turns a nil map into an empty one) and `m == nil` is accepted nowhere
//	            else. `m[k] = v` is `GoMap.set` and is accepted only after that statement on the
//	            same path (a store into a nil map panics); `delete(m, k)` is `GoMap.del`.
//	            `for i := range m { … m[i] … }`: `m[i]` is the value of the entry. A body that
//	            neither returns nor writes to m is a `foldl` over the entries, a body `if c { return e }`
//	            is `any`/`find?` (as for slices). A body that deletes from m is a `foldl` over the
//	            entries m had when the loop started, each step guarded by `GoMap.has m i` in the
//	            current state (Go does not produce an entry removed before it is reached); the
//	            value of a surviving entry is unchanged because a body that stores into m, or
//	            calls a receiver-mutating method, is rejected.
//	slices      `[]Type` is `List Typ`. `append(xs, y)` is `xs ++ [y]`, `append(xs, ys...)` is
//	            `xs ++ ys`, `xs[0:i]` is `take i`, `xs[i+1:]` is `drop (i+1)` (i the index of the
//	            enclosing `for i := range xs`; `i+1` is the only arithmetic accepted, i < len(xs)).
//	            A `for i := range xs` loop whose body writes through the receiver or uses i as a
//	            value runs over `List.range (len xs)` (the length when the loop starts, as in Go);
//	            `xs[i]` is `xs.getD i zero` read in the CURRENT state, i as a value is `Int.ofNat i`.
//	            The translator checks that the read is in range: xs is not assigned in the loop
//	            before the read (an assignment to xs is accepted only on a path that returns with
//	            no further read of xs[i]). Two shapes: a body without return is a `foldl` over the
//	            indices carrying the receiver and the assigned variables; a body that is exactly
//	            `if c { …; return … }` (every path of the block returns, no else) is `find?` of
//	            the first index satisfying c - the iterations before it have no effect - followed
//	            by the block with that index.
//	            `xs[v]` with an int variable v is `xs.getD (Int.toNat v) zero`; accepted only inside
//	            `if v >= 0 { … }` (or the statements that follow it on the same path), for a v declared
//	            as `v := -1` whose only other assignments are `v = i` inside `for i := range xs`,
//	            and when xs itself is assigned nowhere in the function and no receiver-mutating
//	            method is called on a place that contains xs - so 0 <= v < len(xs).
//	calls       `p.M(args)` with M a translated receiver-mutating method and p a place reached from
//	            the receiver (`s.Types[i]`, Go takes its address) computes `Gen.T_M p args` and
//	            writes the new value of p back (`List.set`); `v := p.M(args)` binds the result as
//	            well; `return p.M(args)` returns it with the receiver written back. Such a call is
//	            rejected inside a loop over a map, on a place that contains the slice being ranged
//	            over, and as an expression (its result can only be bound or returned).
//	scoping     Go's block scoping is rendered by `let`, and the statements after an `if` that
//	            returns on some path are repeated in each branch that goes on; a `:=` that shadows
//	            a variable of an enclosing block of the same function is therefore rejected.
//	            A method without result returns the receiver at the end of its body and at `return`.
package main

import (
	"fmt"
	"go/ast"
	"go/constant"
	"go/importer"
	"go/parser"
	"go/token"
	"go/types"
	"os"
	"sort"
	"strconv"
	"strings"
)

// the functions to translate: "Recv.Method" or "func"
var targets = []string{
	"Rel.Invert", "Rel.Normalize", "Rel.String", "relLess",
	"checkStr", "checkInt", "checkUint", "checkBool", "checkTime",
	"GetAttrType", "GetAttrTypeString",
	"deduceRoute", "buildSelfLink", "buildRelationshipLinks",
	"checkIn", "parseCommaList", "parseFragments",
	"Schema.HasType", "Schema.GetType",
	// receiver-mutating methods (state threading): the schema editing API of C14
	"Type.AddAttr", "Type.RemoveAttr", "Type.AddRel", "Type.RemoveRel",
	"Schema.AddType", "Schema.RemoveType",
	"Schema.AddAttr", "Schema.RemoveAttr", "Schema.AddRel", "Schema.RemoveRel",
	"Schema.AddTwoWayRel",
}

var (
	fset = token.NewFileSet()
	info = &types.Info{Types: map[ast.Expr]types.TypeAndValue{}, Defs: map[*ast.Ident]types.Object{}, Uses: map[*ast.Ident]types.Object{}}
)

type unsupported struct{ why string }

func fail(n ast.Node, format string, a ...any) {
	pos := ""
	if n != nil {
		pos = fset.Position(n.Pos()).String() + ": "
	}
	panic(unsupported{pos + fmt.Sprintf(format, a...)})
}

func leanName(target string) string { return strings.ReplaceAll(target, ".", "_") }

func lowerFirst(s string) string {
	if s == "" {
		return s
	}
	return strings.ToLower(s[:1]) + s[1:]
}

func local(name string) string { return name + "_" }

func bytesLit(s string) string {
	if s == "" {
		return "([] : GoString)"
	}
	parts := make([]string, len(s))
	for i := 0; i < len(s); i++ {
		parts[i] = strconv.Itoa(int(s[i]))
	}
	return "([" + strings.Join(parts, ", ") + "] : GoString)"
}

// ---------- types ----------

func leanType(t types.Type, n ast.Node) string {
	switch u := t.(type) {
	case *types.Pointer:
		return leanType(u.Elem(), n)
	case *types.Named:
		switch u.Obj().Name() {
		case "Rel":
			return "Rel"
		case "Time":
			return "Time"
		case "Resource":
			return "ResView"
		case "Schema":
			return "Schema"
		case "Type":
			return "Typ"
		case "Attr":
			return "Attr"
		case "error":
			if u.Obj().Pkg() == nil {
				return "Res Unit"
			}
		}
		return leanType(u.Underlying(), n)
	case *types.Basic:
		switch {
		case u.Info()&types.IsString != 0:
			return "GoString"
		case u.Info()&types.IsBoolean != 0:
			return "Bool"
		case u.Info()&types.IsUnsigned != 0:
			return "Nat"
		case u.Info()&types.IsInteger != 0:
			return "Int"
		}
	case *types.Slice:
		if b, ok := u.Elem().(*types.Basic); ok && b.Info()&types.IsString != 0 {
			return "List GoString"
		}
		if nm, ok := u.Elem().(*types.Named); ok && nm.Obj().Name() == "Type" {
			return "List Typ"
		}
	case *types.Map:
		if isString(u.Key()) {
			if nm, ok := u.Elem().(*types.Named); ok && (nm.Obj().Name() == "Attr" || nm.Obj().Name() == "Rel") {
				return "GoMap " + nm.Obj().Name()
			}
		}
		return "List (GoString × GoString)"
	case *types.Tuple:
		parts := make([]string, u.Len())
		for i := 0; i < u.Len(); i++ {
			parts[i] = leanType(u.At(i).Type(), n)
		}
		return strings.Join(parts, " × ")
	}
	fail(n, "type %s is outside the subset", t)
	return ""
}

func zeroOf(t types.Type, n ast.Node) string {
	switch leanType(t, n) {
	case "GoString":
		return "([] : GoString)"
	case "Bool":
		return "false"
	case "Nat":
		return "(0 : Nat)"
	case "Int":
		return "(0 : Int)"
	case "List GoString":
		return "([] : List GoString)"
	case "Typ":
		return "Typ.empty"
	}
	fail(n, "no zero value for %s", t)
	return ""
}

func isString(t types.Type) bool {
	b, ok := t.Underlying().(*types.Basic)
	return ok && b.Info()&types.IsString != 0
}

func isBool(t types.Type) bool {
	b, ok := t.Underlying().(*types.Basic)
	return ok && b.Info()&types.IsBoolean != 0
}

func isInteger(t types.Type) bool {
	b, ok := t.Underlying().(*types.Basic)
	return ok && b.Info()&types.IsInteger != 0
}

func isUnsigned(t types.Type) bool {
	b, ok := t.Underlying().(*types.Basic)
	return ok && b.Info()&types.IsUnsigned != 0
}

// ---------- expressions ----------

type tr struct {
	translated map[string]bool // targets (lean names) available for calls
	// inside `for i := range xs`: the objects of xs and i, and the Lean name of the element
	loopSlice        string // source text of xs
	loopKey, loopVal types.Object
	loopElem         string
	loopMap          bool // xs is a map: elem_ is the (key, value) pair and xs[i] is elem_.2
	// state threading (receiver-mutating methods, see the header)
	fn               *ast.FuncDecl
	recvObj          types.Object    // the receiver variable, when the method is translated with state threading
	recvName         string          // its Go name
	hasResult        bool            // the method has a result (besides the threaded receiver)
	mutating         map[string]bool // translated state-threaded methods (lean name) -> has a result
	nonNil           map[string]bool // maps (source text) known to be non-nil on the current path
	nonNeg           map[types.Object]bool
	loopIndex        bool // the current loop is in index form (runs over List.range)
	loopDirty        bool // the ranged slice has been assigned on the current path
	loopNoResize     bool // an assignment to the ranged slice is not accepted here
	noImplicitReturn bool // inside a loop body: falling off the end is not a return
	nilIsError       bool // the expression being translated is expected to be of type `error`
}

// ---------- state threading: places, indices, facts of the current path ----------

func structOf(t types.Type) string {
	if p, isP := t.(*types.Pointer); isP {
		t = p.Elem()
	}
	if n, isN := t.(*types.Named); isN {
		if _, isS := n.Underlying().(*types.Struct); isS {
			return n.Obj().Name()
		}
	}
	return ""
}

// fieldOf is the model's name of a struct field ("" when the field is outside the subset).
func fieldOf(structName, field string) string {
	switch structName + "." + field {
	case "Schema.Types", "Type.Name", "Type.Attrs", "Type.Rels", "Attr.Name", "Attr.Nullable":
		return lowerFirst(field)
	}
	if structName == "Rel" {
		return lowerFirst(field)
	}
	return ""
}

// rooted reports whether e is the receiver or a field / element reached from it.
func (x *tr) rooted(e ast.Expr) bool {
	for {
		switch v := e.(type) {
		case *ast.ParenExpr:
			e = v.X
		case *ast.StarExpr:
			e = v.X
		case *ast.SelectorExpr:
			e = v.X
		case *ast.IndexExpr:
			e = v.X
		case *ast.Ident:
			return x.recvObj != nil && info.Uses[v] == x.recvObj
		default:
			return false
		}
	}
}

// a place reached from the receiver: how to read it and the `let` line that stores into it
type place struct {
	get string
	put func(v string) string
}

func (x *tr) place(e ast.Expr) place {
	switch v := e.(type) {
	case *ast.ParenExpr:
		return x.place(v.X)
	case *ast.StarExpr:
		return x.place(v.X)
	case *ast.Ident:
		if x.recvObj != nil && info.Uses[v] == x.recvObj {
			r := local(v.Name)
			return place{r, func(val string) string { return "let " + r + " := " + val }}
		}
	case *ast.SelectorExpr:
		if tv, ok := info.Types[v.X]; ok {
			if f := fieldOf(structOf(tv.Type), v.Sel.Name); f != "" {
				p := x.place(v.X)
				return place{"(" + p.get + ")." + f, func(val string) string { return p.put("{ " + p.get + " with " + f + " := " + val + " }") }}
			}
		}
	case *ast.IndexExpr:
		if sl, ok := info.Types[v.X].Type.Underlying().(*types.Slice); ok {
			p := x.place(v.X)
			idx := x.index(v.Index, types.ExprString(v.X))
			return place{"(" + p.get + ".getD " + idx + " " + zeroOf(sl.Elem(), v) + ")", func(val string) string { return p.put("(" + p.get + ".set " + idx + " " + val + ")") }}
		}
	}
	fail(e, "%s is not a place reached from the receiver", types.ExprString(e))
	return place{}
}

// index renders an index into the slice `slice` (source text) as a Nat that is in range.
func (x *tr) index(e ast.Expr, slice string) string {
	if id, ok := e.(*ast.Ident); ok {
		obj := info.Uses[id]
		if x.loopIndex && obj != nil && obj == x.loopKey {
			if slice != x.loopSlice {
				fail(e, "the loop index is used on another slice")
			}
			if x.loopDirty {
				fail(e, "%s is read after it was assigned in the loop", slice)
			}
			return local(id.Name)
		}
		if v, isVar := obj.(*types.Var); isVar && isInteger(v.Type()) && !isUnsigned(v.Type()) {
			if !x.nonNeg[obj] {
				fail(e, "the index %s is not known to be >= 0 here", id.Name)
			}
			x.checkIndexVar(v, slice, e)
			return "(Int.toNat " + local(id.Name) + ")"
		}
	}
	fail(e, "index expression outside the subset")
	return ""
}

// checkIndexVar: v is declared `v := <negative constant>`, every other assignment to it is
// `v = i` inside `for i := range slice`, and slice is assigned nowhere in the function.
func (x *tr) checkIndexVar(v *types.Var, slice string, at ast.Node) {
	var stack []ast.Node
	declared := false
	ast.Inspect(x.fn.Body, func(n ast.Node) bool {
		if n == nil {
			stack = stack[:len(stack)-1]
			return true
		}
		stack = append(stack, n)
		switch s := n.(type) {
		case *ast.AssignStmt:
			for i, l := range s.Lhs {
				if types.ExprString(l) == slice {
					fail(at, "%s is assigned in the function: an index kept in a variable may be out of range", slice)
				}
				id, isId := l.(*ast.Ident)
				if !isId || (info.Defs[id] != v && info.Uses[id] != v) {
					continue
				}
				if len(s.Lhs) != len(s.Rhs) {
					fail(s, "multiple assignment")
				}
				switch s.Tok {
				case token.DEFINE:
					tv := info.Types[s.Rhs[i]]
					if tv.Value == nil || tv.Value.Kind() != constant.Int || constant.Sign(tv.Value) >= 0 {
						fail(s, "index variable %s is not declared with a negative constant", id.Name)
					}
					declared = true
				case token.ASSIGN:
					okAssign := false
					if r, isId := s.Rhs[i].(*ast.Ident); isId {
						for _, anc := range stack {
							if rg, isR := anc.(*ast.RangeStmt); isR && rg.Tok == token.DEFINE && rg.Value == nil && types.ExprString(rg.X) == slice {
								if k, isK := rg.Key.(*ast.Ident); isK && info.Defs[k] != nil && info.Defs[k] == info.Uses[r] {
									okAssign = true
								}
							}
						}
					}
					if !okAssign {
						fail(s, "index variable %s is assigned something else than an index of %s", id.Name, slice)
					}
				default:
					fail(s, "index variable %s is modified", id.Name)
				}
			}
		case *ast.CallExpr:
			if _, recv, isM := x.mutCall(s); isM {
				if t := types.ExprString(recv); t == slice || strings.HasPrefix(slice, t+".") {
					fail(at, "a receiver-mutating method is called on %s: an index of %s kept in a variable may be out of range", t, slice)
				}
			}
		case *ast.IncDecStmt:
			if id, isId := s.X.(*ast.Ident); isId && info.Uses[id] == v {
				fail(s, "index variable %s is modified", id.Name)
			}
		case *ast.UnaryExpr:
			if id, isId := s.X.(*ast.Ident); isId && s.Op == token.AND && info.Uses[id] == v {
				fail(s, "address of index variable %s", id.Name)
			}
		case *ast.RangeStmt:
			for _, kv := range []ast.Expr{s.Key, s.Value} {
				if id, isId := kv.(*ast.Ident); isId && s.Tok != token.DEFINE && info.Uses[id] == v {
					fail(s, "index variable %s is a loop variable", id.Name)
				}
			}
		}
		return true
	})
	if !declared {
		fail(at, "index variable %s is not declared as `%s := -1`", v.Name(), v.Name())
	}
}

// assume records what the condition c tells about the path on which it is true
// (`v >= 0`, conjunctions of it); the result undoes it.
func (x *tr) assume(c ast.Expr) func() {
	added := []types.Object{}
	var walk func(e ast.Expr)
	walk = func(e ast.Expr) {
		switch b := e.(type) {
		case *ast.ParenExpr:
			walk(b.X)
		case *ast.BinaryExpr:
			if b.Op == token.LAND {
				walk(b.X)
				walk(b.Y)
			}
			if id, ok := b.X.(*ast.Ident); ok && b.Op == token.GEQ {
				if tv := info.Types[b.Y]; tv.Value != nil && tv.Value.Kind() == constant.Int && constant.Sign(tv.Value) >= 0 {
					if obj := info.Uses[id]; obj != nil && x.nonNeg != nil && !x.nonNeg[obj] {
						x.nonNeg[obj] = true
						added = append(added, obj)
					}
				}
			}
		}
	}
	walk(c)
	return func() {
		for _, o := range added {
			delete(x.nonNeg, o)
		}
	}
}

// facts saves the path-sensitive facts; the result restores them (used around each branch).
func (x *tr) facts() func() {
	nn := map[string]bool{}
	for k, v := range x.nonNil {
		nn[k] = v
	}
	dirty := x.loopDirty
	return func() {
		x.nonNil = map[string]bool{}
		for k, v := range nn {
			x.nonNil[k] = v
		}
		x.loopDirty = dirty
	}
}

// mutCall: is the call `p.M(args)` with M a translated receiver-mutating method?
func (x *tr) mutCall(call *ast.CallExpr) (name string, recv ast.Expr, ok bool) {
	sel, isSel := call.Fun.(*ast.SelectorExpr)
	if !isSel {
		return "", nil, false
	}
	fn, isFn := info.Uses[sel.Sel].(*types.Func)
	if !isFn {
		return "", nil, false
	}
	sig := fn.Type().(*types.Signature)
	if sig.Recv() == nil {
		return "", nil, false
	}
	st := structOf(sig.Recv().Type())
	if st == "" {
		return "", nil, false
	}
	name = st + "_" + fn.Name()
	if _, known := x.mutating[name]; !known {
		return "", nil, false
	}
	return name, sel.X, true
}

// callOn is run before a receiver-mutating call on the place recv is rendered: the callee may
// do anything to that place, so nothing known about what lies below it survives, and it must not
// contain the collection being ranged over (whose length the loop relies on).
func (x *tr) callOn(recv ast.Expr) {
	text := types.ExprString(recv)
	below := func(t string) bool {
		return t == text || strings.HasPrefix(t, text+".") || strings.HasPrefix(t, text+"[")
	}
	if (x.loopIndex || x.loopElem != "") && below(x.loopSlice) {
		fail(recv, "receiver-mutating call on %s inside a loop over %s", text, x.loopSlice)
	}
	for k := range x.nonNil {
		if below(k) {
			delete(x.nonNil, k)
		}
	}
}

func (x *tr) args(call *ast.CallExpr) string {
	out := ""
	for _, a := range call.Args {
		out += " " + x.expr(a)
	}
	return out
}

// mutates reports whether the node writes through the receiver.
func (x *tr) mutates(n ast.Node) bool {
	if x.recvObj == nil || n == nil {
		return false
	}
	found := false
	ast.Inspect(n, func(n ast.Node) bool {
		switch v := n.(type) {
		case *ast.AssignStmt:
			for _, l := range v.Lhs {
				if _, isId := l.(*ast.Ident); !isId && x.rooted(l) {
					found = true
				}
			}
		case *ast.IncDecStmt:
			if x.rooted(v.X) {
				found = true
			}
		case *ast.CallExpr:
			if id, ok := v.Fun.(*ast.Ident); ok && id.Name == "delete" && len(v.Args) > 0 && x.rooted(v.Args[0]) {
				found = true
			}
			if _, recv, ok := x.mutCall(v); ok && x.rooted(recv) {
				found = true
			}
		}
		return !found
	})
	return found
}

func (x *tr) mutatesList(stmts []ast.Stmt) bool {
	for _, s := range stmts {
		if x.mutates(s) {
			return true
		}
	}
	return false
}

// usesKeyAsValue reports whether the loop index is used other than in `xs[i]`.
func usesKeyAsValue(body *ast.BlockStmt, key types.Object, slice string) bool {
	found := false
	ast.Inspect(body, func(n ast.Node) bool {
		switch v := n.(type) {
		case *ast.IndexExpr:
			if id, ok := v.Index.(*ast.Ident); ok && info.Uses[id] == key && types.ExprString(v.X) == slice {
				ast.Inspect(v.X, func(m ast.Node) bool {
					if id, ok := m.(*ast.Ident); ok && info.Uses[id] == key {
						found = true
					}
					return true
				})
				return false
			}
		case *ast.Ident:
			if info.Uses[v] == key {
				found = true
			}
		}
		return !found
	})
	return found
}

// noShadow rejects a `:=` that hides a variable of an enclosing block of the function.
func (x *tr) noShadow(id *ast.Ident) {
	obj := info.Defs[id]
	if obj == nil || obj.Parent() == nil || obj.Parent().Parent() == nil || x.fn == nil {
		return
	}
	if _, outer := obj.Parent().Parent().LookupParent(id.Name, token.NoPos); outer != nil {
		if _, isVar := outer.(*types.Var); isVar && outer.Pos() >= x.fn.Pos() && outer.Pos() <= x.fn.End() {
			fail(id, "%s shadows a variable of an enclosing block", id.Name)
		}
	}
}

// nilInit recognises `if m == nil { m = map[K]V{} }` and returns the source text of m.
func nilInit(s *ast.IfStmt) (string, bool) {
	if s.Init != nil || s.Else != nil || len(s.Body.List) != 1 {
		return "", false
	}
	c, ok := s.Cond.(*ast.BinaryExpr)
	if !ok || c.Op != token.EQL || !info.Types[c.Y].IsNil() {
		return "", false
	}
	if _, isMap := info.Types[c.X].Type.Underlying().(*types.Map); !isMap {
		return "", false
	}
	a, ok := s.Body.List[0].(*ast.AssignStmt)
	if !ok || a.Tok != token.ASSIGN || len(a.Lhs) != 1 || len(a.Rhs) != 1 || types.ExprString(a.Lhs[0]) != types.ExprString(c.X) {
		return "", false
	}
	lit, ok := a.Rhs[0].(*ast.CompositeLit)
	if !ok || len(lit.Elts) != 0 {
		return "", false
	}
	if _, isMap := info.Types[lit].Type.Underlying().(*types.Map); !isMap {
		return "", false
	}
	return types.ExprString(c.X), true
}

// effect translates a statement that writes through the receiver into the `let` lines that
// re-bind it ("" for the nil-map initialisation); ok is false for any other statement.
func (x *tr) effect(st ast.Stmt, ind string) (out string, ok bool) {
	if x.recvObj == nil {
		return "", false
	}
	switch s := st.(type) {
	case *ast.ExprStmt:
		call, isCall := s.X.(*ast.CallExpr)
		if !isCall {
			return "", false
		}
		if id, isId := call.Fun.(*ast.Ident); isId && id.Name == "delete" && len(call.Args) == 2 {
			if _, isBuiltin := info.Uses[id].(*types.Builtin); isBuiltin {
				p := x.place(call.Args[0])
				return p.put("(GoMap.del " + p.get + " " + x.expr(call.Args[1]) + ")"), true
			}
		}
		if name, recv, isM := x.mutCall(call); isM {
			if x.loopMap {
				fail(s, "receiver-mutating call inside a loop over a map")
			}
			if x.mutating[name] {
				fail(s, "the result of %s is dropped", name)
			}
			x.callOn(recv)
			p := x.place(recv)
			return p.put("(Gen." + name + " " + p.get + x.args(call) + ")"), true
		}
	case *ast.AssignStmt:
		if len(s.Lhs) != 1 || len(s.Rhs) != 1 {
			return "", false
		}
		if call, isCall := s.Rhs[0].(*ast.CallExpr); isCall {
			if name, recv, isM := x.mutCall(call); isM {
				id, isId := s.Lhs[0].(*ast.Ident)
				if !isId || !x.mutating[name] || (s.Tok != token.DEFINE && s.Tok != token.ASSIGN) {
					fail(s, "call of %s outside the subset", name)
				}
				if x.loopMap {
					fail(s, "receiver-mutating call inside a loop over a map")
				}
				if s.Tok == token.DEFINE {
					x.noShadow(id)
				}
				x.callOn(recv)
				p := x.place(recv)
				return "let call' := (Gen." + name + " " + p.get + x.args(call) + ")\n" + ind + p.put("call'.1") + "\n" + ind + "let " + local(id.Name) + " := call'.2", true
			}
		}
		if _, isId := s.Lhs[0].(*ast.Ident); isId || s.Tok != token.ASSIGN || !x.rooted(s.Lhs[0]) {
			return "", false
		}
		if ix, isIx := s.Lhs[0].(*ast.IndexExpr); isIx {
			if _, isMap := info.Types[ix.X].Type.Underlying().(*types.Map); !isMap {
				fail(s, "assignment to a slice element")
			}
			text := types.ExprString(ix.X)
			if !x.nonNil[text] {
				fail(s, "store into the map %s, which may be nil here", text)
			}
			if x.loopMap && text == x.loopSlice {
				fail(s, "store into the map being ranged over")
			}
			p := x.place(ix.X)
			return p.put("(GoMap.set " + p.get + " " + x.expr(ix.Index) + " " + x.expr(s.Rhs[0]) + ")"), true
		}
		p := x.place(s.Lhs[0])
		val := x.expr(s.Rhs[0])
		if text := types.ExprString(s.Lhs[0]); (x.loopIndex || x.loopElem != "") && (text == x.loopSlice || strings.HasPrefix(x.loopSlice, text+".")) {
			if !x.loopIndex || x.loopNoResize {
				fail(s, "assignment to %s, which is being ranged over, on a path that goes on", text)
			}
			x.loopDirty = true
		}
		delete(x.nonNil, types.ExprString(s.Lhs[0]))
		return p.put(val), true
	case *ast.IfStmt:
		if text, isInit := nilInit(s); isInit && x.rooted(s.Cond.(*ast.BinaryExpr).X) {
			x.nonNil[text] = true
			return "", true
		}
	}
	return "", false
}

// stateReturn: `return`, `return e`, `return p.M(args)` of a state-threaded method.
func (x *tr) stateReturn(s *ast.ReturnStmt, ind string) string {
	r := local(x.recvName)
	if len(s.Results) == 0 {
		if x.hasResult {
			fail(s, "return without a value")
		}
		return r
	}
	if len(s.Results) != 1 {
		fail(s, "several results")
	}
	if call, ok := s.Results[0].(*ast.CallExpr); ok {
		if name, recv, isM := x.mutCall(call); isM {
			if !x.mutating[name] {
				fail(s, "%s has no result", name)
			}
			p := x.place(recv)
			return "let call' := (Gen." + name + " " + p.get + x.args(call) + ")\n" + ind + p.put("call'.1") + "\n" + ind + "(" + r + ", call'.2)"
		}
	}
	resT := x.fn.Type.Results.List[0].Type
	return "(" + r + ", " + x.exprAs(s.Results[0], isError(resT)) + ")"
}

func (x *tr) constant(e ast.Expr) (string, bool) {
	tv, ok := info.Types[e]
	if !ok || tv.Value == nil {
		return "", false
	}
	switch tv.Value.Kind() {
	case constant.String:
		return bytesLit(constant.StringVal(tv.Value)), true
	case constant.Bool:
		return strconv.FormatBool(constant.BoolVal(tv.Value)), true
	case constant.Int:
		ty := "Int"
		if tv.Type != nil && isUnsigned(tv.Type) {
			ty = "Nat"
		}
		s := tv.Value.ExactString()
		if strings.HasPrefix(s, "-") {
			return "(" + s + " : " + ty + ")", true
		}
		return "(" + s + " : " + ty + ")", true
	}
	return "", false
}

func (x *tr) expr(e ast.Expr) string {
	if c, ok := x.constant(e); ok {
		return c
	}
	switch v := e.(type) {
	case *ast.ParenExpr:
		return "(" + x.expr(v.X) + ")"
	case *ast.Ident:
		switch v.Name {
		case "true", "false":
			return v.Name
		case "nil":
			if tv, ok := info.Types[v]; ok && tv.IsNil() && x.nilIsError {
				return "(Res.ok () : Res Unit)"
			}
			fail(v, "nil of a type other than error")
		}
		if obj := info.Uses[v]; obj != nil {
			if x.loopIndex && x.loopKey != nil && obj == x.loopKey {
				return "(Int.ofNat " + local(v.Name) + ")"
			}
			if x.loopElem != "" && x.loopKey != nil && obj == x.loopKey {
				fail(v, "the loop index is used other than to read the current element")
			}
			if x.loopElem != "" && x.loopVal != nil && obj == x.loopVal {
				if x.loopMap {
					return x.loopElem + ".2"
				}
				return x.loopElem
			}
			if _, isVar := obj.(*types.Var); isVar {
				return local(v.Name)
			}
		}
		fail(v, "identifier %s", v.Name)
	case *ast.StarExpr:
		return x.expr(v.X)
	case *ast.UnaryExpr:
		if v.Op == token.NOT {
			return "(!" + x.expr(v.X) + ")"
		}
		fail(v, "unary %s", v.Op)
	case *ast.BinaryExpr:
		return x.binary(v)
	case *ast.SelectorExpr:
		// res.GetType().Name
		if call, ok := v.X.(*ast.CallExpr); ok && v.Sel.Name == "Name" {
			if s, ok := call.Fun.(*ast.SelectorExpr); ok && s.Sel.Name == "GetType" && len(call.Args) == 0 && leanType(info.Types[s.X].Type, v) == "ResView" {
				return "(" + x.expr(s.X) + ").typeName"
			}
		}
		// field of a struct value
		if sel, ok := info.Types[v.X]; ok {
			t := sel.Type
			if p, isP := t.(*types.Pointer); isP {
				t = p.Elem()
			}
			if n, isN := t.(*types.Named); isN {
				if _, isS := n.Underlying().(*types.Struct); isS {
					switch n.Obj().Name() + "." + v.Sel.Name {
					case "Schema.Types", "Type.Name", "Type.Attrs", "Type.Rels", "Attr.Name", "Attr.Nullable":
						return "(" + x.expr(v.X) + ")." + lowerFirst(v.Sel.Name)
					case "Attr.Type": // the model keeps the kind as a Nat (header: values)
						return "(Int.ofNat (" + x.expr(v.X) + ").ty)"
					}
					if n.Obj().Name() == "Rel" {
						return "(" + x.expr(v.X) + ")." + lowerFirst(v.Sel.Name)
					}
				}
			}
		}
		fail(v, "selector %s", v.Sel.Name)
	case *ast.CompositeLit:
		t := info.Types[v].Type
		if n, ok := t.(*types.Named); ok && n.Obj().Name() == "Rel" {
			st := n.Underlying().(*types.Struct)
			given := map[string]string{}
			for _, el := range v.Elts {
				kv, ok := el.(*ast.KeyValueExpr)
				if !ok {
					fail(el, "positional composite literal")
				}
				given[kv.Key.(*ast.Ident).Name] = x.expr(kv.Value)
			}
			parts := []string{}
			for i := 0; i < st.NumFields(); i++ {
				f := st.Field(i)
				val, ok := given[f.Name()]
				if !ok {
					val = zeroOf(f.Type(), v)
				}
				parts = append(parts, lowerFirst(f.Name())+" := "+val)
			}
			return "({ " + strings.Join(parts, ", ") + " } : Rel)"
		}
		if n, ok := t.(*types.Named); ok && n.Obj().Name() == "Type" && len(v.Elts) == 0 {
			return "Typ.empty"
		}
		if _, ok := t.Underlying().(*types.Map); ok {
			parts := []string{}
			for _, el := range v.Elts {
				kv := el.(*ast.KeyValueExpr)
				parts = append(parts, "("+x.expr(kv.Key)+", "+x.expr(kv.Value)+")")
			}
			return "([" + strings.Join(parts, ", ") + "] : List (GoString × GoString))"
		}
		fail(v, "composite literal of %s", t)
	case *ast.IndexExpr:
		if x.loopElem != "" && x.loopKey != nil {
			if k, ok := v.Index.(*ast.Ident); ok && types.ExprString(v.X) == x.loopSlice && info.Uses[k] == x.loopKey {
				if x.loopMap {
					return x.loopElem + ".2"
				}
				return x.loopElem
			}
		}
		if sl, ok := info.Types[v.X].Type.Underlying().(*types.Slice); ok && x.recvObj != nil && info.Types[v.Index].Value == nil {
			return "(" + x.expr(v.X) + ".getD " + x.index(v.Index, types.ExprString(v.X)) + " " + zeroOf(sl.Elem(), v) + ")"
		}
		if _, ok := info.Types[v.X].Type.Underlying().(*types.Slice); ok {
			if tv := info.Types[v.Index]; tv.Value != nil {
				k, _ := constant.Int64Val(tv.Value)
				return fmt.Sprintf("(%s.getD %d [])", x.expr(v.X), k)
			}
		}
		fail(v, "index expression")
	case *ast.SliceExpr:
		if isString(info.Types[v.X].Type) && v.High == nil && v.Low != nil {
			if tv := info.Types[v.Low]; tv.Value != nil {
				k, _ := constant.Int64Val(tv.Value)
				return fmt.Sprintf("(%s.drop %d)", x.expr(v.X), k)
			}
		}
		if _, ok := info.Types[v.X].Type.Underlying().(*types.Slice); ok && x.recvObj != nil && !v.Slice3 {
			// xs[0:i], xs[i+1:] with i the index of the enclosing loop over xs: both bounds are <= len(xs)
			xs, text := x.expr(v.X), types.ExprString(v.X)
			bound := func(e ast.Expr) string {
				if b, ok := e.(*ast.BinaryExpr); ok && b.Op == token.ADD {
					if tv := info.Types[b.Y]; tv.Value != nil && tv.Value.ExactString() == "1" {
						if id, ok := b.X.(*ast.Ident); ok && x.loopIndex && info.Uses[id] == x.loopKey {
							return "(" + x.index(b.X, text) + " + 1)"
						}
					}
				}
				if id, ok := e.(*ast.Ident); ok && x.loopIndex && info.Uses[id] == x.loopKey {
					return x.index(e, text)
				}
				fail(e, "slice bound outside the subset")
				return ""
			}
			lowZero := v.Low == nil
			if v.Low != nil {
				if tv := info.Types[v.Low]; tv.Value != nil && tv.Value.ExactString() == "0" {
					lowZero = true
				}
			}
			switch {
			case lowZero && v.High != nil:
				return "(" + xs + ".take " + bound(v.High) + ")"
			case !lowZero && v.High == nil:
				return "(" + xs + ".drop " + bound(v.Low) + ")"
			}
		}
		fail(v, "slice expression")
	case *ast.CallExpr:
		return x.call(v)
	}
	fail(e, "expression %T", e)
	return ""
}

// isError: the type of e is the interface `error`
func isError(e ast.Expr) bool {
	tv, ok := info.Types[e]
	return ok && tv.Type != nil && types.Identical(tv.Type, types.Universe.Lookup("error").Type())
}

// exprAs translates e where a value of type `error` is expected when asError holds (so that
// the untyped `nil` is the nil error).
func (x *tr) exprAs(e ast.Expr, asError bool) string {
	defer func(old bool) { x.nilIsError = old }(x.nilIsError)
	x.nilIsError = asError
	return x.expr(e)
}

func (x *tr) binary(v *ast.BinaryExpr) string {
	if (v.Op == token.EQL || v.Op == token.NEQ) && (isError(v.X) || isError(v.Y)) {
		op := map[token.Token]string{token.EQL: " = ", token.NEQ: " ≠ "}[v.Op]
		return "(decide (" + x.exprAs(v.X, true) + op + x.exprAs(v.Y, true) + "))"
	}
	a, b := x.expr(v.X), x.expr(v.Y)
	ta := info.Types[v.X].Type
	switch v.Op {
	case token.LAND:
		return "(" + a + " && " + b + ")"
	case token.LOR:
		return "(" + a + " || " + b + ")"
	case token.ADD:
		if isString(ta) {
			return "(" + a + " ++ " + b + ")"
		}
		fail(v, "integer arithmetic")
	case token.EQL:
		return "(decide (" + a + " = " + b + "))"
	case token.NEQ:
		return "(decide (" + a + " ≠ " + b + "))"
	case token.LSS:
		return "(decide (" + a + " < " + b + "))"
	case token.GTR:
		return "(decide (" + b + " < " + a + "))"
	case token.LEQ:
		if isString(ta) { // a total order: a <= b is !(b < a)
			return "(!decide (" + b + " < " + a + "))"
		}
		if isInteger(ta) {
			return "(decide (" + a + " ≤ " + b + "))"
		}
	case token.GEQ:
		if isString(ta) {
			return "(!decide (" + a + " < " + b + "))"
		}
		if isInteger(ta) {
			return "(decide (" + b + " ≤ " + a + "))"
		}
	}
	fail(v, "binary %s on %s", v.Op, ta)
	return ""
}

func (x *tr) call(v *ast.CallExpr) string {
	switch f := v.Fun.(type) {
	case *ast.Ident:
		if f.Name == "len" && len(v.Args) == 1 {
			return "((" + x.expr(v.Args[0]) + ").length : Int)"
		}
		if f.Name == "append" && len(v.Args) == 2 && !v.Ellipsis.IsValid() {
			return "(" + x.expr(v.Args[0]) + " ++ [" + x.expr(v.Args[1]) + "])"
		}
		if f.Name == "append" && len(v.Args) == 2 && v.Ellipsis.IsValid() && x.recvObj != nil {
			return "(" + x.expr(v.Args[0]) + " ++ " + x.expr(v.Args[1]) + ")"
		}
		if f.Name == "make" && len(v.Args) >= 2 && leanType(info.Types[v].Type, v) == "List GoString" {
			if tv := info.Types[v.Args[1]]; tv.Value != nil && tv.Value.ExactString() == "0" {
				return "([] : List GoString)"
			}
		}
		if x.translated[f.Name] {
			args := []string{"Gen." + f.Name}
			for _, a := range v.Args {
				args = append(args, x.expr(a))
			}
			return "(" + strings.Join(args, " ") + ")"
		}
		fail(v, "call of %s", f.Name)
	case *ast.SelectorExpr:
		if pkg, ok := f.X.(*ast.Ident); ok {
			if _, isPkg := info.Uses[pkg].(*types.PkgName); isPkg {
				switch pkg.Name + "." + f.Sel.Name {
				case "fmt.Errorf", "errors.New":
					// never nil; the text is not modelled, the arguments must be free of effects
					for _, a := range v.Args {
						e := a
						for {
							if sel, ok := e.(*ast.SelectorExpr); ok {
								e = sel.X
								continue
							}
							break
						}
						_, isId := e.(*ast.Ident)
						if tv := info.Types[a]; !isId && tv.Value == nil {
							fail(a, "argument of %s.%s", pkg.Name, f.Sel.Name)
						}
					}
					return "(Res.err : Res Unit)"
				case "strings.HasPrefix":
					return "(hasPrefix " + x.expr(v.Args[0]) + " " + x.expr(v.Args[1]) + ")"
				case "strings.HasSuffix":
					return "(List.isSuffixOf " + x.expr(v.Args[1]) + " " + x.expr(v.Args[0]) + ")"
				case "strings.Split":
					if tv := info.Types[v.Args[1]]; tv.Value != nil && len(constant.StringVal(tv.Value)) == 1 {
						return fmt.Sprintf("(splitOn %d %s)", constant.StringVal(tv.Value)[0], x.expr(v.Args[0]))
					}
				}
				fail(v, "call of %s.%s", pkg.Name, f.Sel.Name)
			}
		}
		recvT := info.Types[f.X].Type
		switch leanType(recvT, v) {
		case "Time":
			op := map[string]string{"Equal": "Time.equal", "Before": "Time.before", "After": "Time.after"}[f.Sel.Name]
			if op != "" && len(v.Args) == 1 {
				return "(" + op + " " + x.expr(f.X) + " " + x.expr(v.Args[0]) + ")"
			}
		case "Rel":
			name := "Rel_" + f.Sel.Name
			if x.translated[name] && len(v.Args) == 0 {
				return "(Gen." + name + " " + x.expr(f.X) + ")"
			}
		}
		fail(v, "method call %s", f.Sel.Name)
	}
	fail(v, "call")
	return ""
}

// ---------- statements ----------

// returns reports whether the statement list contains a return statement anywhere.
func returns(stmts []ast.Stmt) bool {
	found := false
	for _, s := range stmts {
		ast.Inspect(s, func(n ast.Node) bool {
			if _, ok := n.(*ast.ReturnStmt); ok {
				found = true
			}
			return !found
		})
	}
	return found
}

// assigned collects the variables assigned (not declared) in the statement list.
func (x *tr) assigned(stmts []ast.Stmt, out map[string]bool) {
	if x.mutatesList(stmts) {
		out[x.recvName] = true
	}
	for _, s := range stmts {
		ast.Inspect(s, func(n ast.Node) bool {
			if a, ok := n.(*ast.AssignStmt); ok && a.Tok != token.DEFINE {
				for _, l := range a.Lhs {
					if id, ok := l.(*ast.Ident); ok {
						out[id.Name] = true
					}
				}
			}
			return true
		})
	}
}

// clauses turns a switch into (condition, body) pairs plus the default body.
func (x *tr) clauses(s *ast.SwitchStmt) (conds []string, bodies [][]ast.Stmt, def []ast.Stmt) {
	if s.Init != nil {
		fail(s, "switch with init")
	}
	tag := ""
	if s.Tag != nil {
		tag = x.expr(s.Tag)
	}
	for _, c := range s.Body.List {
		cc := c.(*ast.CaseClause)
		for _, st := range cc.Body {
			if b, ok := st.(*ast.BranchStmt); ok {
				fail(b, "branch statement in switch")
			}
		}
		if cc.List == nil {
			def = cc.Body
			continue
		}
		alts := []string{}
		for _, e := range cc.List {
			if tag != "" {
				alts = append(alts, "decide ("+tag+" = "+x.expr(e)+")")
			} else {
				alts = append(alts, x.expr(e))
			}
		}
		conds = append(conds, "("+strings.Join(alts, " || ")+")")
		bodies = append(bodies, cc.Body)
	}
	return
}

func tuple(vars []string) string {
	if len(vars) == 1 {
		return local(vars[0])
	}
	ls := make([]string, len(vars))
	for i := range vars {
		ls[i] = local(vars[i])
	}
	return "(" + strings.Join(ls, ", ") + ")"
}

// assignOnly translates statements without return into the tuple of `vars` afterwards.
func (x *tr) assignOnly(stmts []ast.Stmt, vars []string, ind string) string {
	if len(stmts) == 0 {
		return tuple(vars)
	}
	rest := func() string { return x.assignOnly(stmts[1:], vars, ind) }
	if x.recvObj != nil {
		// these statements go on after themselves: the ranged slice must keep its length
		defer func(old bool) { x.loopNoResize = old }(x.loopNoResize)
		x.loopNoResize = true
		if out, ok := x.effect(stmts[0], ind); ok {
			if out == "" {
				return rest()
			}
			return out + "\n" + ind + rest()
		}
	}
	switch s := stmts[0].(type) {
	case *ast.AssignStmt:
		return x.assign(s, ind) + "\n" + ind + rest()
	case *ast.DeclStmt:
		return x.decl(s, ind) + rest()
	case *ast.IfStmt:
		if s.Init != nil {
			fail(s, "if with init")
		}
		els := []ast.Stmt{}
		if s.Else != nil {
			els = elseStmts(s.Else)
		}
		cond := x.expr(s.Cond)
		undo, back := x.assume(s.Cond), x.facts()
		thenS := x.assignOnly(s.Body.List, vars, ind+"    ")
		undo()
		back()
		elseS := x.assignOnly(els, vars, ind+"    ")
		back()
		return "let " + tuple(vars) + " := (if " + cond + " then\n" + ind + "    (" + thenS + ")\n" +
			ind + "  else\n" + ind + "    (" + elseS + "))\n" + ind + rest()
	case *ast.SwitchStmt:
		conds, bodies, def := x.clauses(s)
		out := ""
		back := x.facts()
		for i := range conds {
			out += "if " + conds[i] + " then\n" + ind + "    (" + x.assignOnly(bodies[i], vars, ind+"    ") + ")\n" + ind + "  else "
			back()
		}
		out += "(" + x.assignOnly(def, vars, ind+"    ") + ")"
		back()
		return "let " + tuple(vars) + " := (" + out + ")\n" + ind + rest()
	}
	fail(stmts[0], "statement %T", stmts[0])
	return ""
}

func elseStmts(s ast.Stmt) []ast.Stmt {
	switch e := s.(type) {
	case *ast.BlockStmt:
		return e.List
	default:
		return []ast.Stmt{e}
	}
}

func (x *tr) assign(s *ast.AssignStmt, ind string) string {
	// id, _ := res.Get("id").(string)
	if len(s.Lhs) == 2 && len(s.Rhs) == 1 {
		if ta, ok := s.Rhs[0].(*ast.TypeAssertExpr); ok {
			if call, ok := ta.X.(*ast.CallExpr); ok {
				if sel, ok := call.Fun.(*ast.SelectorExpr); ok && sel.Sel.Name == "Get" && len(call.Args) == 1 {
					if tv := info.Types[call.Args[0]]; tv.Value != nil && constant.StringVal(tv.Value) == "id" &&
						leanType(info.Types[sel.X].Type, s) == "ResView" && isString(info.Types[ta.Type].Type) {
						if blank, ok := s.Lhs[1].(*ast.Ident); ok && blank.Name == "_" {
							return "let " + local(s.Lhs[0].(*ast.Ident).Name) + " := (" + x.expr(sel.X) + ").id"
						}
					}
				}
			}
		}
	}
	if len(s.Lhs) != 1 || len(s.Rhs) != 1 {
		fail(s, "multiple assignment")
	}
	id, ok := s.Lhs[0].(*ast.Ident)
	if !ok {
		fail(s, "assignment to a non-variable")
	}
	if x.recvObj != nil && s.Tok == token.DEFINE {
		x.noShadow(id)
	}
	if x.recvObj != nil && info.Uses[id] == x.recvObj {
		fail(s, "assignment to the receiver variable")
	}
	switch s.Tok {
	case token.DEFINE, token.ASSIGN:
		return "let " + local(id.Name) + " := " + x.expr(s.Rhs[0])
	case token.ADD_ASSIGN:
		if isString(info.Types[s.Lhs[0]].Type) {
			return "let " + local(id.Name) + " := (" + local(id.Name) + " ++ " + x.expr(s.Rhs[0]) + ")"
		}
	}
	fail(s, "assignment %s", s.Tok)
	return ""
}

func (x *tr) decl(s *ast.DeclStmt, ind string) string {
	g, ok := s.Decl.(*ast.GenDecl)
	if !ok {
		fail(s, "declaration")
	}
	out := ""
	for _, sp := range g.Specs {
		vs, ok := sp.(*ast.ValueSpec)
		if !ok {
			fail(s, "declaration")
		}
		if g.Tok == token.CONST {
			continue // constants are inlined by value
		}
		for i, n := range vs.Names {
			val := ""
			if i < len(vs.Values) {
				val = x.expr(vs.Values[i])
			} else {
				val = zeroOf(info.Defs[n].Type(), s)
			}
			out += "let " + local(n.Name) + " := " + val + "\n" + ind
		}
	}
	return out
}

// block translates statements every path of which ends in a return.
func (x *tr) block(stmts []ast.Stmt, ind string) string {
	if len(stmts) == 0 {
		if x.recvObj != nil && !x.hasResult && !x.noImplicitReturn {
			return local(x.recvName) // the end of the body of a method without result
		}
		fail(nil, "a path does not end in a return")
	}
	rest := func() string { return x.block(stmts[1:], ind) }
	if out, ok := x.effect(stmts[0], ind); ok {
		if out == "" {
			return rest()
		}
		return out + "\n" + ind + rest()
	}
	switch s := stmts[0].(type) {
	case *ast.ReturnStmt:
		if x.recvObj != nil {
			return x.stateReturn(s, ind)
		}
		parts := make([]string, len(s.Results))
		for i := range s.Results {
			parts[i] = x.expr(s.Results[i])
		}
		if len(parts) == 1 {
			return parts[0]
		}
		return "(" + strings.Join(parts, ", ") + ")"
	case *ast.AssignStmt:
		return x.assign(s, ind) + "\n" + ind + rest()
	case *ast.DeclStmt:
		return x.decl(s, ind) + rest()
	case *ast.IfStmt:
		if s.Init != nil {
			fail(s, "if with init")
		}
		els := []ast.Stmt{}
		if s.Else != nil {
			els = elseStmts(s.Else)
		}
		if !returns(s.Body.List) && !returns(els) {
			vars := map[string]bool{}
			x.assigned(s.Body.List, vars)
			x.assigned(els, vars)
			vs := make([]string, 0, len(vars))
			for v := range vars {
				vs = append(vs, v)
			}
			sort.Strings(vs)
			if len(vs) == 0 {
				return rest()
			}
			return x.joinIf(s, els, vs, ind) + rest()
		}
		// a branch returns: the statements after the `if` continue each branch that does not
		thenB := append(append([]ast.Stmt{}, s.Body.List...), stmts[1:]...)
		elseB := append(append([]ast.Stmt{}, els...), stmts[1:]...)
		cond := x.expr(s.Cond)
		undo, back := x.assume(s.Cond), x.facts()
		thenS := x.block(thenB, ind+"  ")
		undo()
		back()
		elseS := x.block(elseB, ind+"  ")
		back()
		return "if " + cond + " then\n" + ind + "  " + thenS + "\n" + ind + "else\n" + ind + "  " + elseS
	case *ast.SwitchStmt:
		conds, bodies, def := x.clauses(s)
		anyRet := returns(def)
		for _, b := range bodies {
			anyRet = anyRet || returns(b)
		}
		if !anyRet {
			vars := map[string]bool{}
			for _, b := range bodies {
				x.assigned(b, vars)
			}
			x.assigned(def, vars)
			vs := make([]string, 0, len(vars))
			for v := range vars {
				vs = append(vs, v)
			}
			sort.Strings(vs)
			if len(vs) == 0 {
				return rest()
			}
			return x.joinSwitch(conds, bodies, def, vs, ind) + rest()
		}
		out := ""
		back := x.facts()
		for i := range conds {
			b := append(append([]ast.Stmt{}, bodies[i]...), stmts[1:]...)
			out += "if " + conds[i] + " then\n" + ind + "  " + x.block(b, ind+"  ") + "\n" + ind + "else "
			back()
		}
		d := append(append([]ast.Stmt{}, def...), stmts[1:]...)
		dS := x.block(d, ind+"  ")
		back()
		return out + "\n" + ind + "  " + dS
	case *ast.RangeStmt:
		return x.rangeStmt(s, stmts[1:], ind, true)
	}
	fail(stmts[0], "statement %T", stmts[0])
	return ""
}

// rangeStmt: `for i := range xs { ... }` reading xs[i] only, or `for _, v := range xs { ... }`.
func (x *tr) rangeStmt(s *ast.RangeStmt, after []ast.Stmt, ind string, mustReturn bool) string {
	lt := leanType(info.Types[s.X].Type, s)
	if s.Tok != token.DEFINE || x.loopElem != "" || x.loopIndex || !(strings.HasPrefix(lt, "List ") || strings.HasPrefix(lt, "GoMap ")) {
		fail(s, "range statement outside the subset")
	}
	_, isMap := info.Types[s.X].Type.Underlying().(*types.Map)
	if x.recvObj != nil && !isMap && s.Value == nil {
		if key, ok := s.Key.(*ast.Ident); ok && key.Name != "_" {
			if x.mutates(s.Body) || usesKeyAsValue(s.Body, info.Defs[key], types.ExprString(s.X)) {
				return x.indexLoop(s, key, after, ind, mustReturn)
			}
		}
	}
	if x.recvObj != nil && x.mutates(s.Body) && (!isMap || returns(s.Body.List)) {
		fail(s, "loop that writes through the receiver outside the subset")
	}
	var keyObj, valObj types.Object
	if key, ok := s.Key.(*ast.Ident); ok && key.Name != "_" {
		keyObj = info.Defs[key]
	}
	if s.Value != nil {
		val, ok := s.Value.(*ast.Ident)
		if !ok || keyObj != nil {
			fail(s, "range statement outside the subset")
		}
		valObj = info.Defs[val]
	}
	if keyObj == nil && valObj == nil {
		fail(s, "range statement outside the subset")
	}
	xs := x.expr(s.X)
	x.loopSlice, x.loopKey, x.loopVal, x.loopElem, x.loopMap = types.ExprString(s.X), keyObj, valObj, "elem_", isMap
	oldNoImplicit := x.noImplicitReturn
	x.noImplicitReturn = true
	leave := func() {
		x.loopSlice, x.loopKey, x.loopVal, x.loopElem, x.loopMap, x.noImplicitReturn = "", nil, nil, "", false, oldNoImplicit
	}
	defer leave()
	body := s.Body.List
	if returns(body) {
		// one `if c { return e }`: the first element satisfying c, if any
		if len(body) == 1 {
			if ifs, ok := body[0].(*ast.IfStmt); ok && ifs.Init == nil && ifs.Else == nil && len(ifs.Body.List) == 1 {
				if ret, ok := ifs.Body.List[0].(*ast.ReturnStmt); ok && mustReturn {
					cond := x.expr(ifs.Cond)
					back := x.facts()
					found := x.block([]ast.Stmt{ret}, ind+"  ")
					back()
					leave()
					rest := x.block(after, ind+"  ")
					if strings.Contains(found, "elem_") {
						return "match (" + xs + ").find? (fun elem_ => " + cond + ") with\n" + ind + "| some elem_ => " + found + "\n" + ind + "| none =>\n" + ind + "  " + rest
					}
					return "if (" + xs + ").any (fun elem_ => " + cond + ") then\n" + ind + "  " + found + "\n" + ind + "else\n" + ind + "  " + rest
				}
			}
		}
		fail(s, "loop with a return outside the subset")
	}
	vars := map[string]bool{}
	x.assigned(body, vars)
	vs := make([]string, 0, len(vars))
	for v := range vars {
		vs = append(vs, v)
	}
	sort.Strings(vs)
	if len(vs) == 0 {
		fail(s, "loop without effect")
	}
	back := x.facts()
	step := x.assignOnly(body, vs, ind+"    ")
	back()
	if isMap && x.mutates(s.Body) {
		// the body deletes from the map it ranges over (a store is rejected by effect): an
		// entry removed before it is reached is not produced
		step = "if (GoMap.has " + x.expr(s.X) + " elem_.1) then\n" + ind + "      (" + strings.ReplaceAll(step, "\n", "\n  ") + ")\n" + ind + "    else\n" + ind + "      " + tuple(vs)
	}
	leave()
	out := "let " + tuple(vs) + " := (" + xs + ").foldl (fun " + tuple(vs) + " elem_ =>\n" + ind + "    " + step + ") " + tuple(vs) + "\n" + ind
	if mustReturn {
		return out + x.block(after, ind)
	}
	return out
}

// indexLoop: `for i := range xs { ... }` over a slice reached from the receiver, whose body
// writes through the receiver or uses i as a value: the loop runs over List.range (len xs).
func (x *tr) indexLoop(s *ast.RangeStmt, key *ast.Ident, after []ast.Stmt, ind string, mustReturn bool) string {
	n := "(List.range (" + x.expr(s.X) + ").length)"
	i := local(key.Name)
	x.loopSlice, x.loopKey, x.loopIndex, x.loopDirty = types.ExprString(s.X), info.Defs[key], true, false
	oldNoImplicit, oldNoResize := x.noImplicitReturn, x.loopNoResize
	x.noImplicitReturn = true
	leave := func() {
		x.loopSlice, x.loopKey, x.loopIndex, x.loopDirty, x.noImplicitReturn, x.loopNoResize = "", nil, false, false, oldNoImplicit, oldNoResize
	}
	defer leave()
	body := s.Body.List
	if returns(body) {
		// exactly `if c { ...; return ... }`: the iterations before the first index satisfying c
		// do nothing, that one runs the block, which returns on every path
		if len(body) == 1 && mustReturn {
			if ifs, ok := body[0].(*ast.IfStmt); ok && ifs.Init == nil && ifs.Else == nil {
				cond := x.expr(ifs.Cond)
				x.loopNoResize = false
				back := x.facts()
				found := x.block(ifs.Body.List, ind+"  ")
				back()
				leave()
				rest := x.block(after, ind+"  ")
				return "match " + n + ".find? (fun " + i + " => " + cond + ") with\n" + ind + "| some " + i + " =>\n" + ind + "  " + found + "\n" + ind + "| none =>\n" + ind + "  " + rest
			}
		}
		fail(s, "loop with a return outside the subset")
	}
	vars := map[string]bool{}
	x.assigned(body, vars)
	vs := make([]string, 0, len(vars))
	for v := range vars {
		vs = append(vs, v)
	}
	sort.Strings(vs)
	if len(vs) == 0 {
		fail(s, "loop without effect")
	}
	x.loopNoResize = true
	back := x.facts()
	step := x.assignOnly(body, vs, ind+"    ")
	back()
	leave()
	out := "let " + tuple(vs) + " := " + n + ".foldl (fun " + tuple(vs) + " " + i + " =>\n" + ind + "    " + step + ") " + tuple(vs) + "\n" + ind
	if mustReturn {
		return out + x.block(after, ind)
	}
	return out
}

func (x *tr) joinIf(s *ast.IfStmt, els []ast.Stmt, vs []string, ind string) string {
	cond := x.expr(s.Cond)
	undo, back := x.assume(s.Cond), x.facts()
	thenS := x.assignOnly(s.Body.List, vs, ind+"    ")
	undo()
	back()
	elseS := x.assignOnly(els, vs, ind+"    ")
	back()
	return "let " + tuple(vs) + " := (if " + cond + " then\n" + ind + "    (" + thenS + ")\n" +
		ind + "  else\n" + ind + "    (" + elseS + "))\n" + ind
}

func (x *tr) joinSwitch(conds []string, bodies [][]ast.Stmt, def []ast.Stmt, vs []string, ind string) string {
	out := ""
	back := x.facts()
	for i := range conds {
		out += "if " + conds[i] + " then\n" + ind + "    (" + x.assignOnly(bodies[i], vs, ind+"    ") + ")\n" + ind + "  else "
		back()
	}
	out += "(" + x.assignOnly(def, vs, ind+"    ") + ")"
	back()
	return "let " + tuple(vs) + " := (" + out + ")\n" + ind
}

// ---------- functions ----------

func (x *tr) function(target string, d *ast.FuncDecl) (out string, err string) {
	defer func() {
		if e := recover(); e != nil {
			u, ok := e.(unsupported)
			if !ok {
				panic(e)
			}
			err = u.why
		}
	}()
	x.fn, x.recvObj, x.recvName, x.hasResult = d, nil, "", false
	x.nonNil, x.nonNeg = map[string]bool{}, map[types.Object]bool{}
	x.loopSlice, x.loopKey, x.loopVal, x.loopElem, x.loopMap = "", nil, nil, "", false
	x.loopIndex, x.loopDirty, x.loopNoResize, x.noImplicitReturn = false, false, false, false
	if x.mutating == nil {
		x.mutating = map[string]bool{}
	}
	recvT := ""
	if d.Recv != nil && len(d.Recv.List) == 1 && len(d.Recv.List[0].Names) == 1 {
		rt := info.Types[d.Recv.List[0].Type].Type
		if st := structOf(rt); st == "Type" || st == "Schema" {
			x.recvObj, x.recvName = info.Defs[d.Recv.List[0].Names[0]], d.Recv.List[0].Names[0].Name
			if !x.mutates(d.Body) {
				x.recvObj, x.recvName = nil, "" // a pure method: translated as before
			} else if _, isPtr := rt.(*types.Pointer); !isPtr {
				fail(d, "writes through a value receiver")
			} else {
				recvT = leanType(rt, d)
			}
		}
	}
	params := []string{}
	add := func(fl *ast.FieldList) {
		if fl == nil {
			return
		}
		for _, f := range fl.List {
			t := leanType(info.Types[f.Type].Type, f)
			for _, n := range f.Names {
				params = append(params, "("+local(n.Name)+" : "+t+")")
			}
		}
	}
	add(d.Recv)
	add(d.Type.Params)
	if d.Type.Results == nil && x.recvObj == nil {
		fail(d, "no result")
	}
	res := []string{}
	if x.recvObj != nil {
		res = append(res, recvT)
	}
	if d.Type.Results != nil {
		for _, f := range d.Type.Results.List {
			if len(f.Names) > 0 {
				fail(d, "named results")
			}
			res = append(res, leanType(info.Types[f.Type].Type, f))
		}
	}
	if x.recvObj != nil {
		if len(res) > 2 {
			fail(d, "several results")
		}
		x.hasResult = len(res) == 2
	}
	body := x.block(d.Body.List, "  ")
	if x.recvObj != nil {
		x.mutating[leanName(target)] = x.hasResult
		x.recvObj = nil
	}
	pos := fset.Position(d.Pos())
	return fmt.Sprintf("/-- %s:%d `%s` -/\ndef %s %s : %s :=\n  %s\n", strings.TrimPrefix(pos.Filename, os.Args[1]+"/"), pos.Line, target,
		leanName(target), strings.Join(params, " "), strings.Join(res, " × "), body), ""
}

func main() {
	if len(os.Args) < 2 {
		fmt.Fprintln(os.Stderr, "usage: translate <repo>")
		os.Exit(2)
	}
	pkgs, err := parser.ParseDir(fset, os.Args[1], func(fi os.FileInfo) bool {
		return !strings.HasSuffix(fi.Name(), "_test.go") && fi.Name() != "verif_export.go"
	}, parser.ParseComments)
	if err != nil || pkgs["jsonapi"] == nil {
		fmt.Fprintln(os.Stderr, "parse:", err)
		os.Exit(1)
	}
	names := []string{}
	for n := range pkgs["jsonapi"].Files {
		names = append(names, n)
	}
	sort.Strings(names)
	var files []*ast.File
	for _, n := range names {
		files = append(files, pkgs["jsonapi"].Files[n])
	}
	conf := types.Config{Importer: importer.ForCompiler(fset, "source", nil), Error: func(error) {}}
	_, _ = conf.Check("jsonapi", fset, files, info)
	decls := map[string]*ast.FuncDecl{}
	for _, f := range files {
		for _, d := range f.Decls {
			fd, ok := d.(*ast.FuncDecl)
			if !ok || fd.Body == nil {
				continue
			}
			name := fd.Name.Name
			if fd.Recv != nil && len(fd.Recv.List) == 1 {
				t := fd.Recv.List[0].Type
				if s, ok := t.(*ast.StarExpr); ok {
					t = s.X
				}
				if id, ok := t.(*ast.Ident); ok {
					name = id.Name + "." + name
				}
			}
			decls[name] = fd
		}
	}
	if len(os.Args) > 2 && os.Args[2] == "-all" {
		// discovery: which functions of the package are inside the subset today
		all := []string{}
		for n := range decls {
			all = append(all, n)
		}
		sort.Strings(all)
		x := &tr{translated: map[string]bool{}}
		for _, t := range targets {
			if d := decls[t]; d != nil {
				if _, why := x.function(t, d); why == "" {
					x.translated[leanName(t)] = true
				}
			}
		}
		for _, n := range all {
			_, why := x.function(n, decls[n])
			if why == "" {
				why = "TRANSLATES"
			}
			fmt.Printf("%-40s %s\n", n, why)
		}
		return
	}
	fmt.Println("/- GENERATED by harness/cmd/translate from /repo on every run (T1b). Do not edit. -/")
	fmt.Println("import Jsonapi.Model.Url")
	fmt.Println("set_option linter.unusedVariables false")
	fmt.Println("namespace Jsonapi.Gen")
	fmt.Println("open Jsonapi")
	fmt.Println()
	x := &tr{translated: map[string]bool{}}
	for _, t := range targets {
		d := decls[t]
		if d == nil {
			fmt.Printf("/-- `%s` is no longer a function of the package -/\ndef %s_untranslated : String := \"missing\"\n\n", t, leanName(t))
			continue
		}
		out, why := x.function(t, d)
		if why != "" {
			fmt.Printf("/-- `%s` is outside the translated subset: %s -/\ndef %s_untranslated : String := %s\n\n", t, strings.ReplaceAll(why, "-/", "- /"), leanName(t), strconv.Quote(why))
			continue
		}
		x.translated[leanName(t)] = true
		fmt.Println(out)
	}
	fmt.Println("end Jsonapi.Gen")
}
