// translate: the function translator (T1b). It type-checks /repo's non-test sources and
// prints Jsonapi/Generated/Funcs.lean: a Lean definition for each of a fixed list of pure
// helper functions of the library, obtained from the function's syntax tree - so that the
// theorems `Gen.f = <hand-written model of f>` (Props/Gen*.lean) are re-checked against
// what the code says now, for every input, on every run.
//
// Supported Go subset (anything else makes the function "untranslated": the marker
// definition `f_untranslated` is printed instead and the equivalence theorem no longer
// builds, which bin/check reports as a broken obligation):
//
//	types       string, bool, signed and unsigned integers (as Int / Nat, comparisons only),
//	            time.Time (Equal/Before/After), []string, the struct Rel, map[string]string
//	            literals, the Resource interface through res.Get("id").(string) and
//	            res.GetType().Name
//	statements  return, if/else, switch (with or without tag, no fallthrough), :=, =, +=,
//	            const and var declarations; every path must end in a return
//	expressions literals, constants of the package (by value), == != < <= > >= && || !,
//	            string +, field selection, composite literals of Rel, *p, len, x[k] with a
//	            constant k (as getD: the translator checks that a test `len(x) >= k+1` holds
//	            on the path, see `lengths` below), s[k:], strings.HasPrefix/HasSuffix, calls
//	            of and method calls on other translated functions
//
// Receiver-mutating methods (state threading). A method with a pointer receiver `*Type` or
// `*Schema` whose body assigns through the receiver is translated with the receiver as a
// VALUE that is threaded through the body and returned: `func (t *Type) AddAttr(a Attr) error`
// becomes `def Type_AddAttr (t_ : Typ) (attr_ : Attr) : Typ × Res Unit`, a method without
// result returns the new receiver only (`def Type_RemoveAttr (t_ : Typ) (attr_ : GoString) : Typ`).
// Every statement that writes through the receiver re-binds the receiver variable (`let t_ :=
// { t_ with … }`), every later read sees the new value. Reading conventions (trusted):
//
//	values      structs, maps and slices are values: the aliasing Go has between a caller's copy
//	            and the stored one (the maps inside a `Type` passed to AddType, the backing array
//	            of a re-sliced `s.Types`) is not modelled. `Type` is the model's `Typ` (Name,
//	            Attrs, Rels; the field NewFunc is outside the subset: a function that mentions it
//	            is untranslated), `Schema` is `Schema` (Types), `Rel` is `Rel`, `Attr` is the
//	            model's `Attr` (Name/Type/Nullable are name/ty/nullable). The model keeps the
//	            attribute kind as `ty : Nat` where Go has an `int`: a read `a.Type` is rendered
//	            `(Int.ofNat a.ty)`, so the translated functions speak about attributes whose kind is
//	            >= 0 only (a negative kind has no counterpart in the model); no write to it is accepted.
//	errors      the type `error` is `Res Unit`: `nil` is `Res.ok ()`, `fmt.Errorf(…)` and
//	            `errors.New(…)` are `Res.err` (they never return nil; the text is not modelled and
//	            the arguments must be constants, variables or field selections, which have no
//	            effect), `err != nil` is `err ≠ Res.ok ()`.
//	maps        `map[string]Attr` / `map[string]Rel` are `GoMap` (association lists; the list order
//	            stands for the iteration order the runtime picks). A nil map and an empty map are
//	            both `[]`: the statement `if m == nil { m = map[K]V{} }` is rendered as nothing
//	            (it only turns a nil map into an empty one) and `m == nil` is accepted nowhere
//	            else. `m[k] = v` is `GoMap.set` and is accepted only after that statement on the
//	            same path (a store into a nil map panics); `delete(m, k)` is `GoMap.del`.
//	            `for i := range m { … m[i] … }`: `m[i]` is the value of the entry. A body that
//	            neither returns nor writes to m is a `foldl` over the entries, a body `if c { return e }`
//	            is `any`/`find?` (as for slices). A body that deletes from m is a `foldl` over the
//	            entries m had when the loop started, each step guarded by `GoMap.has m i` in the
//	            current state (Go does not produce an entry removed before it is reached); the
//	            value of a surviving entry is unchanged because a body that stores into m, or
//	            calls a receiver-mutating method, is rejected.
//	slices      `[]Type` is `List Typ`. `append(xs, y)` is `xs ++ [y]`, `append(xs, ys...)` is
//	            `xs ++ ys`, `xs[0:i]` is `take i`, `xs[i+1:]` is `drop (i+1)` (i the index of the
//	            enclosing `for i := range xs`; `i+1` is the only arithmetic accepted, i < len(xs)).
//	            A `for i := range xs` loop whose body writes through the receiver or uses i as a
//	            value runs over `List.range (len xs)` (the length when the loop starts, as in Go);
//	            `xs[i]` is `xs.getD i zero` read in the CURRENT state, i as a value is `Int.ofNat i`.
//	            The translator checks that the read is in range: xs is not assigned in the loop
//	            before the read (an assignment to xs is accepted only on a path that returns with
//	            no further read of xs[i]). Two shapes: a body without return is a `foldl` over the
//	            indices carrying the receiver and the assigned variables; a body that is exactly
//	            `if c { …; return … }` (every path of the block returns, no else) is `find?` of
//	            the first index satisfying c - the iterations before it have no effect - followed
//	            by the block with that index.
//	            `xs[v]` with an int variable v is `xs.getD (Int.toNat v) zero`; accepted only inside
//	            `if v >= 0 { … }` (or the statements that follow it on the same path), for a v declared
//	            as `v := -1` whose only other assignments are `v = i` inside `for i := range xs`,
//	            and when xs itself is assigned nowhere in the function and no receiver-mutating
//	            method is called on a place that contains xs - so 0 <= v < len(xs).
//	calls       `p.M(args)` with M a translated receiver-mutating method and p a place reached from
//	            the receiver (`s.Types[i]`, Go takes its address) computes `Gen.T_M p args` and
//	            writes the new value of p back (`List.set`); `v := p.M(args)` binds the result as
//	            well; `return p.M(args)` returns it with the receiver written back. Such a call is
//	            rejected inside a loop over a map, on a place that contains the slice being ranged
//	            over, and as an expression (its result can only be bound or returned).
//	scoping     Go's block scoping is rendered by `let`, and the statements after an `if` that
//	            returns on some path are repeated in each branch that goes on; a `:=` that shadows
//	            a variable of an enclosing block of the same function is therefore rejected.
//	            A method without result returns the receiver at the end of its body and at `return`.
//
// Structures, pointers, several results, delegated calls, loops with early exit, counting loops
// (the URL front end: `Type.Fields`, `SimpleURL.Path`, `NewParams`, `NewURL`, `NewSimpleURL`).
// Reading conventions (trusted):
//
//	structs     A struct type (of the package or of the standard library) other than Rel, Type, Schema,
//	            Attr, Filter, Error and time.Time, all of whose fields have types of the subset, is printed
//	            as a Lean structure `Gen.<Name>` (`Gen.<pkg>_<Name>` for another package) with one field
//	            per Go field, in order: the Go name with its first letter in lower case (`_` appended when
//	            that is a Lean keyword: Include -> include_, Type -> type_). `[]T` is `List T`,
//	            `map[string]T` is `GoMap T`. `T{…}` is the structure with the fields given and the zero
//	            value for the others (zero values: "", false, 0, [], none, the zero structure; a nil
//	            and an empty slice or map are both `[]`).
//	            A local variable declared `v := T{…}` or `v := &T{…}` (T a generated structure) is a
//	            value that is threaded like the receiver above: `v.f = e` re-binds v, `v.m[k] = e` is
//	            `GoMap.set` (accepted where the map is known to be non-nil: a field given as a map literal
//	            in the declaration, or after `if v.m == nil { v.m = map…{} }` / `v.m = map…{}`). The
//	            translator checks that v is used only as the root of a field selection or as a result
//	            of `return`: no copy of the structure and no second pointer to it exist, so reading it as
//	            a value is exact (not modelled: a slice or map stored into a field stays shared with its
//	            source, as for the receiver above).
//	pointers    A pointer to a generated structure, and `*Filter`, is an `Option`: nil is `none`.
//	            Parameters, fields and results of such types are Options; a pointer RECEIVER is the value
//	            it points to (a call on a nil receiver is outside the model), as `*Schema` / `*Type` are.
//	            `if p == nil { … }` (every path of the block returns, no else) on a pointer variable p that
//	            is assigned nowhere is `match p_ with | none => … | some p_ => <the statements after the if>`:
//	            there p is read as the value it points to; `p.f` and `p.M()` on a pointer that is not known
//	            to be non-nil in this way are rejected. A local declared `v := &T{…}` is non-nil: as a
//	            result `v` is `some v_`. `&T{…}` used as a value is `some …` (a fresh pointer).
//	stand-ins   `Filter` (its field Val holds an arbitrary value) is carried as a `GoString`, as in the
//	            model (Model/Url.lean: the canonical JSON text of the filter); `Filter{}` is the empty
//	            text. A filter can only be copied, be nil, be created by `&Filter{}` and be the target of
//	            json.Unmarshal. `any` is the model's `PageVal` (an int or a string): a string or int
//	            expression stored into a place of type `any` is wrapped (`PageVal.str` / `PageVal.int`),
//	            any other type is rejected; a translated function therefore speaks about `any` values
//	            that hold an int or a string only.
//	results     A function with several results returns the tuple of them (`(*URL, error)` is
//	            `Option Gen.URL × Res Unit`); each result of `return a, b` is read at its declared type
//	            (the untyped nil: `none` for a pointer, `Res.ok ()` for an error, `[]` for a map or slice).
//	errors      (addition) An expression of the package's struct type `Error` used where an `error` is
//	            expected (the calls `NewErr…(…)`) is `Res.err`: a struct value converted to an interface
//	            is never nil; the payload is not modelled; the arguments must be expressions of the subset
//	            (no effect, no panic) and their value is dropped.
//	if-init     `if init; c { A } else { B }` is `init` followed by `if c { A } else { B }`; a variable
//	            declared by init must not hide a variable of an enclosing block (but see `scoping`).
//	tuples      `a, ok = m[k]` and `a, ok := m[k]` (m a map with string keys): a is the value of the
//	            entry or the zero value, ok whether the key is present (`GoMap.get?`); `m[k]` alone is the
//	            value or the zero value. `a, err = f(…)` with f a translated function of the package (or a
//	            delegated one) with two results binds both components. The targets are variables or
//	            places reached from a local structure.
//	lengths     Along each path the translator keeps the facts `len(T) >= k` and `T != ""` it learns from
//	            the conditions of the enclosing `if`s and `switch` cases (`len(T) == k`, `>=`, `>`, `!= 0`,
//	            `T != ""`, their negations on the path where the condition is false, both sides of `&&`
//	            when true and of `||` when false; in a switch without tag also the negation of the earlier
//	            cases), for T built from variables, field selections and `url.Values.Get`. An assignment
//	            to a variable or place forgets the facts that mention it; a branch or loop that has been
//	            joined forgets the facts about what it assigns, a loop also at its entry.
//	            `x[k]` (k constant) needs `len(x) >= k+1` (so these reads are checked by the translator,
//	            no longer by eye); `xs[len(xs)-c]` needs `len(xs) >= c` and is `xs.getD (xs.length - c) zero`;
//	            `s[a : len(s)-c]` on a string needs `len(s) >= a+c` and is `(s.take (s.length - c)).drop a`;
//	            a byte `s[k]` of a string needs `len(s) >= k+1` and is `s.getD k 0` (a `UInt8`, as the
//	            constants of type byte are). Without the fact the function is untranslated (for a byte
//	            read of a string see `panics`).
//	stdlib      `url.Values` is `GoMap (List GoString)`; `vs.Get(k)` is `firstVal ((GoMap.get? vs k).getD [])`
//	            (the first value of the key, "" without one); `strings.Join(xs, sep)` is `joinWith sep xs`;
//	            `n, err := strconv.Atoi(s)` is the model's `parseInt 64 s` (`int` has 64 bits): err is nil
//	            iff it is `some`, n is then its value; n may be read only where err is known to be nil
//	            (the else branch of `if err != nil`), the value Atoi returns with an error is not modelled.
//	delegated   Calls that are taken as parameters of the translated function (appended to its own
//	            parameters in order of first use); each is a deterministic function of its arguments:
//	            `u.Query()` on a `*url.URL`: `Query' : Gen.url_URL → GoMap (List GoString)`;
//	            each call site `json.Unmarshal([]byte(e), p)` (numbered k = 0, 1, … in source order):
//	            `unmarshal<k>' : GoString → τ → τ × Res Unit` where τ is the type of the target - the place for
//	            `p = &place`, the Option (pointer and pointee together) for a place p of pointer type -, a
//	            place reached from a local structure: the call gives the new value of the target, which is
//	            stored back, and the error (accepted in the form `err = json.Unmarshal(…)` only);
//	            a function of the package listed in `delegatedFuncs` (NewParams) while it is itself outside
//	            the subset: `NewParams' : <its signature>` (once it translates, the call is `Gen.NewParams`).
//	maps        (addition) in `for k := range m` / `for k, v := range m` k is the key (`elem_.1`), `m[k]` and v
//	            the value (`elem_.2`) of the current entry.
//	loops       (addition) Loops over slices and maps nest (the elements are elem_, elem1_, …); the body
//	            may not assign a collection `xs` that is being ranged over with an index variable (`xs[i]`
//	            is read as the element the loop holds) nor store into a map that is being ranged over
//	            (but see `map stores`).
//	            A loop whose body contains `return` in another shape than `if c { return e }`, or `break`,
//	            or `continue`, is translated in block mode: a fold whose state carries, besides the
//	            variables assigned in the body that are declared outside it, `brk' : Bool` when the body
//	            has a `break` of this loop and `ret' : Option <results>` when it has a `return` (or a read
//	            that may panic, see `panics`); a step does nothing once brk' is true or ret' is `some`;
//	            in the body `return e` yields ret' = `some e`, `break` yields brk' = true, the end of the
//	            body and `continue` yield the state with brk' = false and ret' = `none`; the statements
//	            that follow an `if` one branch of which leaves in such a way are repeated in the branches
//	            that go on. After the loop: `match ret' with | some r => r | none => <the statements
//	            after the loop>` (inside an enclosing loop in block mode `some r` leaves that loop too);
//	            brk' is dropped. Not accepted in receiver-mutating methods; a `break` inside a `switch`
//	            and labels are outside the subset.
//	            What is known (lengths, non-nil maps) about a variable that the body assigns on a path
//	            which reaches another iteration (a block that ends in `break` or `return` does not) is
//	            forgotten when the loop is entered.
//	builtins    `make([]T, 0, c)` is `[]` (c must be a sum of `len(…)` and constants: it has no effect);
//	            `make([]T, len(e))` is `List.replicate e.length zero`. The statement `copy(dst, src)` gives
//	            dst the value `src.take dst.length ++ dst.drop src.length` (the first min(len) elements are
//	            overwritten; the two slices are assumed not to overlap); `sort.Strings(xs)` gives xs the
//	            value `Typ.sortStrings xs` (the model's insertion sort: the sorted permutation is unique for
//	            the bytewise order of Go strings). dst / xs: a local variable, a place reached from the
//	            receiver or a local structure, or an element `m[k]` of a map that is itself such a place
//	            (`GoMap.set m k …`).
//	nil slices  A local slice variable that is assigned `nil` or compared with nil is an
//	            `Option (List T)`: `nil` is `none`, any other value assigned is `some …`, `v != nil` is
//	            `isSome`, every other read of v is `v.getD []` (a nil slice reads as the empty one).
//	map stores  (addition) Inside `for k := range m` the store `m[k] = v` at the key of the current entry
//	            (and copy / sort.Strings on `m[k]`) is accepted: the set of keys does not change, the loop
//	            runs over the entries m had when it started, and in such a loop `m[k]` is read in the
//	            current state (`(GoMap.get? m k).getD zero`) rather than as the value the loop holds.
//	counting    `for i := len(X) - 1; i >= 0; i-- { … }` is a fold over `(List.range X.length).reverse`;
//	loops       `for i := 0; i < len(X); i++ { … }` is a fold over `List.range X.length`,
//	            `for j := i + 1; j < len(X); j++ { … }` (i an index variable of an enclosing loop) over
//	            `List.range' (i+1) (X.length - (i+1))`, and `for i := range X { … }` whose body uses i as a
//	            value over `List.range X.length` - X a slice-valued expression, its length taken when the
//	            loop starts, i a `Nat` (`Int.ofNat i` where it is used as an int) that the body does not
//	            assign. The body may change X in one way only: `X = append(X[:a], X[b:]...)` with
//	            (a, b) = (i, i+1) or (i-1, i), which removes one element - in an up loop from 0 the condition
//	            `i < len(X)` is then evaluated again before every step (the length never grows and i grows
//	            by one, so `X.length` steps at the start suffice); in a down loop at most one such
//	            statement, not inside a nested loop (so that i stays below the length); in the two other
//	            forms not at all. At the start of each iteration the translator knows `i < len(X)`, until
//	            X is assigned; with it `X[i]` is `X.getD i zero`, `X[i-1]` (where `i > 0` is known from an
//	            enclosing condition) `X.getD (i-1) zero`, `X[:e]` / `X[e:]` for e = i, i+1, i-1 are
//	            `take` / `drop`. Any other index or bound leaves the function untranslated.
//	panics      A byte read `s[k]` of a string whose length the translator cannot establish makes the
//	            function end with a panic when it is out of range: the statement whose own expressions
//	            contain the read (not under the right operand of `&&` / `||`) is guarded,
//	            `if k < s.length then <statement and what follows> else <panic value>`, the panic value
//	            being the zero value of every result with `Res.panic` for the error (the function's last
//	            result must be an error); inside a loop the panic value is returned through ret'.
//	scoping     (addition) outside receiver-mutating methods a `:=` (also in an `if` init, a loop
//	            header) may hide a variable of an enclosing block provided the hidden variable is not used
//	            after the block of the new one ends (the `let` of the new one stays visible until the end of
//	            the rendered statement list).
//
// Slices of errors, maps with struct keys, sort.Slice, locals of type Type (`Schema.Check`,
// `Schema.buildRels`, `Schema.Rels`, `Type.Copy`; the code of these rules is in wp_s.go).
// Reading conventions (trusted):
//
//	[]error     is `List (Res Unit)` by the rules above (`[]T` is `List T`, `error` is `Res Unit`): one
//	            element per appended error, `fmt.Errorf(…)` / `errors.New(…)` are `Res.err`, the texts
//	            are not modelled. The translated function returns the errors in the order they are
//	            appended; their number is the length of the list.
//	keyed maps  `map[K]V` with K one of the model's structures Rel / Attr (strings and bools only: Go's
//	            == on them is field-wise equality, Lean's derived DecidableEq) is `List (K × V)`: the
//	            entries, with distinct keys, in an order that stands for the iteration order the runtime
//	            picks (as GoMap does for string keys). `struct{}` is `Unit`, `struct{}{}` is `()`: a
//	            `map[K]struct{}` is a set of keys. `map[K]V{}` is `[]`; `m[k] = v` is `Gen.mapSet m k v`
//	            (printed with the functions when used; the same definition as GoMap.set: the value of
//	            an existing key is replaced in place, a new key is added at the end) and is accepted
//	            only for a local variable m whose single assignment in the function is its declaration
//	            `m := map[K]V{…}` and whose address is not taken (so m is never nil), outside any loop
//	            that ranges over m. `len(m)` is the length, `for k := range m` / `for k, v := range m`
//	            run over the entries (k is `elem_.1`, v `elem_.2`). A read `m[k]` and a literal with
//	            entries are outside the subset.
//	sort.Slice  `sort.Slice(xs, func(i, j int) bool { return E })` on a local slice variable xs, where E
//	            mentions i, j and xs only as `xs[i]` and `xs[j]`, gives xs the value
//	            `List.mergeSort xs (fun a' b' => !E')`, E' being E with `xs[i]` read as b' and `xs[j]` as
//	            a' - "a may stay before b unless b is less than a", the comparison the model's merge sort
//	            takes. sort.Slice is not stable and Go does not specify its algorithm: the reading is
//	            exact where `less` is a strict total order on the elements present (then the sorted
//	            arrangement is unique); that is a proof obligation of the equivalence theorem
//	            (Props/GenC15b discharges it for relLess on the distinct keys of a map), not something
//	            the translator checks. Rejected: another comparison shape, xs not a local slice, xs
//	            being ranged over.
//	Type locals `v := Type{Name: …, Attrs: …, Rels: …}` (a literal with fields) declares a local structure
//	            of the model's `Typ`, threaded as the locals of generated structures are (header:
//	            structs: v is used only as the root of a selection or in a return; a field given as a
//	            map literal is known to be non-nil). The field NewFunc is not part of `Typ`: the
//	            statement `a.NewFunc = b.NewFunc` between two variables of type Type is rendered as
//	            nothing (it has no effect on the modelled fields, and no translated function reads
//	            NewFunc: any other mention of it leaves the subset), so a translated function speaks
//	            about the Name / Attrs / Rels of its Type values only.
//	scoping     (correction) when the branches of an `if` or `switch` are joined, a variable declared
//	            inside the statement (`var found bool` in a branch) is not part of the joined state: it
//	            is not visible after the statement.
//
// Attribute values held in an `any`, type switches, pointers to attribute values, statements that
// may panic (`checkVal`, `checkBytes`, `checkSlice`, `sortedResources.Less`; the code is in wp_t.go).
// Reading conventions (trusted):
//
//	attribute   In a function that has a type switch, a type assertion (other than `id, _ :=
//	values      res.Get("id").(string)`) or a parameter or result of type `any`, a value of static type `any`
//	            is the model's `GoVal` (Model/Value.lean; in every other function `any` stays `PageVal`): a
//	            value of Go type T - string, the ten integer types, bool, time.Time, []byte - is `.val k p`
//	            with k the kind of T and p the payload (`.s`, `.i`, `.b`, `.t`, `.bs`; an unsigned value is
//	            `.i (.ofNat n)`, read as the `Nat` n; `[]byte` is `List UInt8` and `.bs b` reads as
//	            `b.getD []`: a nil slice is the empty one), `*T` is `.ptr k none` (nil) or `.ptr k (some p)`,
//	            `[]string` is `.strs l`, the untyped nil is `.nil` (`v == nil` is `v = GoVal.nil`). A named
//	            type is none of these. A GoVal whose payload has not the shape of its kind (`.val .int (.s _)`,
//	            a negative payload under an unsigned kind) is not the image of a Go value: it matches no case.
//	            `switch x := v.(type) { case T: A … default: D }` is a `match` on v with one arm per case,
//	            x bound to the value at the Lean type of T, and `| _ => D`; each case lists one type (or nil);
//	            the statements after the switch continue every arm that goes on. A case `*T` is the arm
//	            `.ptr k p'` with x the `Option` of the pointee (see pointers); a `break` inside is outside the
//	            subset. `c, ok := v.(T)` is the same match giving `(value, true)` or `(zero, false)`.
//	            `T(e)` between integer types is the identity where the conversion cannot change the value
//	            (same signedness and at least as wide, or unsigned into a strictly wider signed type: `Int.ofNat`;
//	            `int` and `uint` have 64 bits); any other integer conversion is outside the subset.
//	pointers    (addition) A pointer to a Go type of attribute values is an `Option` of the value it points
//	            to: nil is `none`, `p == nil` is `isNone`. The model of values has no addresses, so the
//	            outcome of `p == q` on two non-nil pointers is not determined by it; it is rendered
//	            `match p, q with | none, none => true | some a, some b => same' k idx && a = b | _, _ => false`
//	            (equal pointers point to equal values) where `same' : Nat → List Nat → Bool` is a parameter
//	            added to the function - an arbitrary answer for the comparison site k (numbered in source
//	            order) at the iteration indices idx of the enclosing loops, so that every evaluation has its
//	            own. It is accepted only where each enclosing loop has an iteration index (the loops of the
//	            paragraphs `loops (addition 2)` and `counting loops (addition)` below). A theorem about the
//	            translated function is stated for every `same'`. A call of a translated function that has
//	            this parameter passes `fun s i => same' k (idx ++ s :: i)` with k a fresh site.
//	panics      (addition) An expression that may panic - a type assertion `v.(T)` without comma-ok, `*p`
//	            and a method call `p.M()` of the value on a pointer p to an attribute value, an index read
//	            `xs[i]` with a variable i whose range the translator cannot establish (no fact `i < len(xs)`),
//	            the call of a translated function that may itself panic - makes the function return
//	            `Res (results)`: `return e` is `Res.ok e`, the panic `Res.panic` (inside a loop through ret').
//	            The sites of a statement's own expressions are evaluated first, innermost first, each by a
//	            `match` that binds its value to a temporary a<n>' (`| _ => Res.panic`, for a call
//	            `| .err => Res.err | .panic => Res.panic`) around the statement; all panics being one outcome
//	            their order is immaterial. A site under the right operand of && / || is accepted in the
//	            condition of an `if` only, which is split first: `if A || B { T } else { E }` is
//	            `if A { T } else if B { T } else { E }`, `if A && B { T } else { E }` is
//	            `if A { if B { T } else { E } } else { E }`. `return f(…)` with f such a function is `Gen.f …`.
//	            `X.Get("id").(string)` on a Resource is `(X).id` as before (no panic: a ResView has an id).
//	delegated   (addition) `getAttrVal(res, key)`, while it is itself outside the subset, is the parameter
//	            `getAttrVal' : ResView → GoString → GoVal`.
//	loops       (addition 2) `for _, r := range xs { … }` over a slice whose body assigns r or compares
//	            pointers: the fold binds the element as r_ itself (an assignment to r re-binds it for the rest
//	            of the iteration; the next iteration starts from the next element) and, when the body compares
//	            pointers, runs over `xs.zipIdx` with the index n<depth>' as second component.
//	counting    (addition) `for i := 0; i < len(A) && i < len(B); i++ { … }` (A, B slices the body does not
//	loops       change) is a fold over `List.range (min A.length B.length)`; `i < len(A)` and `i < len(B)`
//	            are known in the body.
//	bytes       `[]byte` is `List UInt8`, an element `b[i]` (i known in range) is `b.getD i (0 : UInt8)`;
//	            `bytes.Compare(a, b)` is `if a < b then -1 else if b < a then 1 else 0` with `<` the
//	            lexicographic order of byte lists (what bytes.Compare computes).
//
// Documents, collections, type assertions, threaded receivers, checked reads (`Document.Include`,
// `Resources` and `WrapperCollection` GetType / Len / At / Add, `NewIdentifiers`, `Identifiers.IDs`,
// `Meta.Has`, `Meta.GetInt`; the code of these rules is in wp_u.go). Reading conventions (trusted):
//
//	documents   The struct `Document` is the model's `Document` (Model/Marshal.lean), as `Type` is `Typ`:
//	            the field `Data any` is `data : DocData` - the sum "a resource view | a collection view |
//	            an identifier | identifiers | nil | anything else" -, `Included []Resource` is
//	            `included : List ResView`; the other fields are outside the subset (a function that
//	            mentions one is untranslated) and `Data` is never stored into.
//	collections A value of the interface type `Collection` is a collection view, the pair (name of its
//	            type, members) that `DocData.col` carries: `c.GetType().Name` is `c.1`, `c.Len()` is
//	            the number of members, `c.At(i)` is member i (`c.2.getD i default`) and is accepted only
//	            for the index variable of `for i := 0; i < c.Len(); i++ { … }` - a fold over
//	            `List.range c.2.length` as the counting loops above; the body may use c as the receiver
//	            of GetType, Len and At only, so the number of members does not change. Of the type of a
//	            collection only the Name is modelled: `t := c.GetType()` binds t to the name and t may
//	            be used in `t.Name` only. c must be a variable. `*Wrapper` is the resource view of the
//	            wrapper (it implements Resource; a nil `*Wrapper` is outside the model), so `[]*Wrapper`
//	            is `List ResView`.
//	resources   (addition) `r.Get("id").(string)` without the second result is `r.id`, as the form
//	            `id, _ := r.Get("id").(string)` is: the resource view carries the id as a string (every
//	            implementation of the library returns one; for a foreign implementation that does not,
//	            the one-result form panics: outside the model).
//	assertions  `v, ok := E.(T)`, as a statement or as the init of an `if`: for E the field Data of a
//	            Document and T = Resource / Collection, ok is whether `data` is the constructor `res` /
//	            `col` and v its argument (`match … with | DocData.res v' => some v' | _ => none`, then
//	            `.isSome` and `.getD default`) - a dynamic value is a resource or a collection or neither,
//	            as in the model; for E of type Resource and T = `*Wrapper`, ok is `isWrapper' E`, a
//	            parameter `isWrapper' : ResView → Bool` of the translated function (a resource view
//	            does not carry its dynamic type), and v is the same view. The translator checks that v
//	            is read only inside the body of an `if` whose condition is ok or a conjunction with ok,
//	            and that neither variable is assigned again - so the zero value v has when ok is false
//	            is never read. `_, ok := m[k]` on a `map[string]any` is `(GoMap.get? m k).isSome`;
//	            `v, _ := m[k].(int)` is the int the entry holds, 0 when the key is absent or holds
//	            something else (`any` is PageVal: header, stand-ins).
//	threaded    A method WITHOUT result whose pointer receiver points to `Document`, to a generated
//	receivers   structure or to a named slice type (`*Resources`), and whose body assigns through the
//	            receiver (`d.Included = …`, `*r = …`), is translated with the receiver as a value that is
//	            threaded through the body and returned - at `return` and at the end of the body -, as the
//	            methods of `*Type` / `*Schema` are, but by the rules of the local structures (header:
//	            structs), so that loops with early exit are available: inside a loop `return` yields
//	            ret' = `some <receiver>`. The translator checks that the receiver variable is used only
//	            as the root of a field selection or under `*`, and that the body has no function
//	            literal: no second pointer to the receiver exists.
//	loop        The variables of `for k, v := range xs` are rendered as the element the step function
//	variables   binds (elem_, elem_.1, elem_.2), never by a `let`: one that is assigned nowhere may hide
//	            a variable of an enclosing block that is used after the loop (`for _, res := range
//	            d.Included` hides the parameter res).
//	nil         A result of the interface type `Resource` for which some `return` of the function gives
//	resources   the untyped nil is an `Option ResView`: `return nil` is `none`, `return e` is `some e`.
//	checked     A read `xs[p]` of a slice at a PARAMETER p of a signed integer type is not shown to be
//	reads       in range by the translator; it is rendered with its own test: the function (which must
//	            have no error result) returns `Res τ` instead of τ, every `return e` is `Res.ok e`, and
//	            the statement whose own expressions contain the read (not under the right operand of
//	            `&&` / `||`) is guarded, `if 0 ≤ p ∧ p < xs.length then <statement and what follows>
//	            else Res.panic`, the read being `xs.getD (Int.toNat p) zero` under the guard. Whether
//	            the tests of the code keep the read in range is then a matter of proof (`Resources.At`
//	            never panics, `WrapperCollection.At` does below zero). Such a function cannot be called
//	            from another translated function.
//	element     `xs := make([]T, len(X))` with X a parameter or the receiver, assigned nowhere in the
//	stores      function (no element store, no address either), and xs a local that is assigned nowhere
//	            else and used only as `xs[k]`, `len(xs)` and in `return`: xs keeps the length of X. In
//	            `for k := range X { … }` (in a statement list every path of which returns) the store
//	            `xs[k] = e` is then in range and is `xs.set k e`; the loop is a fold over
//	            `List.range X.length` that carries xs (as the counting loops above: `X[k]` is
//	            `X.getD k zero`). A store at any other index leaves the function untranslated.
package main

import (
	"fmt"
	"go/ast"
	"go/constant"
	"go/importer"
	"go/parser"
	"go/token"
	"go/types"
	"os"
	"sort"
	"strconv"
	"strings"
)

// the functions to translate: "Recv.Method" or "func"
var targets = []string{
	"Rel.Invert", "Rel.Normalize", "Rel.String", "relLess",
	"checkStr", "checkInt", "checkUint", "checkBool", "checkTime",
	"GetAttrType", "GetAttrTypeString",
	"deduceRoute", "buildSelfLink", "buildRelationshipLinks",
	"checkIn", "parseCommaList", "parseFragments",
	"Schema.HasType", "Schema.GetType",
	// receiver-mutating methods (state threading): the schema editing API of C14
	"Type.AddAttr", "Type.RemoveAttr", "Type.AddRel", "Type.RemoveRel",
	"Schema.AddType", "Schema.RemoveType",
	"Schema.AddAttr", "Schema.RemoveAttr", "Schema.AddRel", "Schema.RemoveRel",
	"Schema.AddTwoWayRel",
	// the URL front end (structures generated from the struct declarations, header: structs)
	"Type.Fields", "SimpleURL.Path", "NewParams", "NewURL", "NewSimpleURL",
	// attribute values held in an `any` (wp_t.go; header: attribute values … bytes)
	"checkBytes", "checkSlice", "checkVal", "sortedResources.Less",
}

var (
	fset = token.NewFileSet()
	info = &types.Info{Types: map[ast.Expr]types.TypeAndValue{}, Defs: map[*ast.Ident]types.Object{}, Uses: map[*ast.Ident]types.Object{}}
)

type unsupported struct{ why string }

func fail(n ast.Node, format string, a ...any) {
	pos := ""
	if n != nil {
		pos = fset.Position(n.Pos()).String() + ": "
	}
	panic(unsupported{pos + fmt.Sprintf(format, a...)})
}

func leanName(target string) string { return strings.ReplaceAll(target, ".", "_") }

func lowerFirst(s string) string {
	if s == "" {
		return s
	}
	return strings.ToLower(s[:1]) + s[1:]
}

func local(name string) string { return name + "_" }

func bytesLit(s string) string {
	if s == "" {
		return "([] : GoString)"
	}
	parts := make([]string, len(s))
	for i := 0; i < len(s); i++ {
		parts[i] = strconv.Itoa(int(s[i]))
	}
	return "([" + strings.Join(parts, ", ") + "] : GoString)"
}

// ---------- types ----------

func leanType(t types.Type, n ast.Node) string {
	if s, ok := wptType(t, n); ok {
		return s
	}
	if s, ok := wpsType(t, n); ok {
		return s
	}
	if s, ok := wpuType(t, n); ok {
		return s
	}
	switch u := t.(type) {
	case *types.Pointer:
		if optionPointer(u) {
			return "Option (" + leanType(u.Elem(), n) + ")"
		}
		return leanType(u.Elem(), n)
	case *types.Named:
		if isPkgNamed(u, "Filter") {
			return "GoString" // stand-in: the canonical JSON text of the value (header: stand-ins)
		}
		if g := genStructOf(u, n); g != nil {
			return "Gen." + g.name
		}
		switch u.Obj().Name() {
		case "Rel":
			return "Rel"
		case "Time":
			return "Time"
		case "Resource":
			return "ResView"
		case "Schema":
			return "Schema"
		case "Type":
			return "Typ"
		case "Attr":
			return "Attr"
		case "error":
			if u.Obj().Pkg() == nil {
				return "Res Unit"
			}
		}
		return leanType(u.Underlying(), n)
	case *types.Basic:
		switch {
		case u.Info()&types.IsString != 0:
			return "GoString"
		case u.Info()&types.IsBoolean != 0:
			return "Bool"
		case u.Info()&types.IsUnsigned != 0:
			return "Nat"
		case u.Info()&types.IsInteger != 0:
			return "Int"
		}
	case *types.Slice:
		if b, ok := u.Elem().(*types.Basic); ok && b.Info()&types.IsString != 0 {
			return "List GoString"
		}
		if nm, ok := u.Elem().(*types.Named); ok && nm.Obj().Name() == "Type" {
			return "List Typ"
		}
		if b, ok := u.Elem().(*types.Basic); !ok || b.Kind() != types.Uint8 {
			return "List (" + leanType(u.Elem(), n) + ")"
		}
	case *types.Map:
		if isString(u.Key()) {
			if nm, ok := u.Elem().(*types.Named); ok && (nm.Obj().Name() == "Attr" || nm.Obj().Name() == "Rel") {
				return "GoMap " + nm.Obj().Name()
			}
			if !isString(u.Elem()) {
				return "GoMap (" + leanType(u.Elem(), n) + ")"
			}
		}
		return "List (GoString × GoString)"
	case *types.Interface:
		if u.Empty() {
			return "PageVal" // header: `any`
		}
	case *types.Tuple:
		parts := make([]string, u.Len())
		for i := 0; i < u.Len(); i++ {
			parts[i] = leanType(u.At(i).Type(), n)
		}
		return strings.Join(parts, " × ")
	}
	fail(n, "type %s is outside the subset", t)
	return ""
}

// ---------- generated structures (header: structs) ----------

type genField struct {
	goName, lean string
	t            types.Type
}

type genStruct struct {
	name   string
	pos    string
	fields []genField
}

var (
	genStructs = map[string]*genStruct{}
	genOrder   []string
	genBusy    = map[string]bool{}
	genBad     = map[string]bool{}
)

// Lean keywords that a lower-cased Go field name may collide with
var leanKeywords = map[string]bool{"include": true, "type": true, "from": true, "to": true, "end": true, "at": true, "in": true,
	"do": true, "if": true, "then": true, "else": true, "let": true, "have": true, "show": true, "open": true, "where": true,
	"with": true, "fun": true, "match": true, "instance": true, "structure": true, "class": true, "def": true, "theorem": true,
	"namespace": true, "section": true, "variable": true, "universe": true, "import": true, "deriving": true, "mutual": true,
	"private": true, "protected": true, "partial": true, "unsafe": true, "macro": true, "syntax": true, "by": true, "for": true,
	"return": true, "local": true, "attribute": true, "export": true, "example": true, "axiom": true, "abbrev": true,
	"inductive": true, "extends": true, "using": true, "calc": true, "this": true, "mut": true, "break": true, "continue": true,
	"try": true, "catch": true, "finally": true, "unless": true, "opaque": true, "nomatch": true, "nofun": true, "sorry": true}

func fieldName(goName string) string {
	f := lowerFirst(goName)
	if leanKeywords[f] {
		f += "_"
	}
	return f
}

func isPkgNamed(n *types.Named, name string) bool {
	return n.Obj().Name() == name && n.Obj().Pkg() != nil && n.Obj().Pkg().Name() == "jsonapi"
}

func genName(n *types.Named) string {
	if n.Obj().Pkg() == nil || n.Obj().Pkg().Name() == "jsonapi" {
		return n.Obj().Name()
	}
	return n.Obj().Pkg().Name() + "_" + n.Obj().Name()
}

func derefNamed(t types.Type) (*types.Named, bool) {
	if p, ok := t.(*types.Pointer); ok {
		t = p.Elem()
	}
	n, ok := t.(*types.Named)
	return n, ok
}

// the struct types that keep their hand-written counterpart of the model (or are outside the subset)
var fixedStructs = map[string]bool{"Rel": true, "Schema": true, "Type": true, "Attr": true, "Filter": true, "Error": true, "time_Time": true}

// genStructOf: the generated structure of the named struct type u (nil when u is not a struct,
// keeps a hand-written counterpart, or has a field outside the subset).
func genStructOf(u *types.Named, n ast.Node) *genStruct {
	st, ok := u.Underlying().(*types.Struct)
	if !ok || u.TypeArgs().Len() > 0 {
		return nil
	}
	name := genName(u)
	if fixedStructs[name] || genBad[name] {
		return nil
	}
	if g := genStructs[name]; g != nil {
		return g
	}
	if genBusy[name] {
		return nil
	}
	genBusy[name] = true
	defer delete(genBusy, name)
	g := &genStruct{name: name}
	if u.Obj().Pos().IsValid() {
		p := fset.Position(u.Obj().Pos())
		file := p.Filename
		if u.Obj().Pkg() != nil && u.Obj().Pkg().Name() != "jsonapi" {
			file = u.Obj().Pkg().Path() + "/" + file[strings.LastIndex(file, "/")+1:]
		}
		g.pos = fmt.Sprintf("%s:%d", file, p.Line)
	}
	okAll := func() (ok bool) {
		defer func() {
			if e := recover(); e != nil {
				if _, isU := e.(unsupported); !isU {
					panic(e)
				}
				ok = false
			}
		}()
		for i := 0; i < st.NumFields(); i++ {
			f := st.Field(i)
			if f.Embedded() {
				return false
			}
			if _, isFn := f.Type().Underlying().(*types.Signature); isFn {
				return false
			}
			leanType(f.Type(), n)
			g.fields = append(g.fields, genField{f.Name(), fieldName(f.Name()), f.Type()})
		}
		return true
	}()
	if !okAll {
		genBad[name] = true
		return nil
	}
	genStructs[name] = g
	genOrder = append(genOrder, name)
	return g
}

// optionPointer: a pointer that is rendered as an Option (to a generated structure or a stand-in)
func optionPointer(p *types.Pointer) bool {
	n, ok := p.Elem().(*types.Named)
	if !ok {
		return false
	}
	if isPkgNamed(n, "Filter") {
		return true
	}
	return genStructOf(n, nil) != nil
}

func zeroOf(t types.Type, n ast.Node) string {
	if s, ok := wptZero(t, n); ok {
		return s
	}
	switch leanType(t, n) {
	case "GoString":
		return "([] : GoString)"
	case "Bool":
		return "false"
	case "Nat":
		return "(0 : Nat)"
	case "Int":
		return "(0 : Int)"
	case "List GoString":
		return "([] : List GoString)"
	case "Typ":
		return "Typ.empty"
	case "Res Unit":
		return "(Res.ok () : Res Unit)"
	case "Rel":
		return "({ fromType := [], fromName := [], toOne := false, toType := [], toName := [], fromOne := false } : Rel)"
	case "Attr":
		return "({ name := [], ty := 0, nullable := false } : Attr)"
	}
	lt := leanType(t, n)
	if strings.HasPrefix(lt, "Option ") {
		return "(none : " + lt + ")"
	}
	if strings.HasPrefix(lt, "List ") || strings.HasPrefix(lt, "GoMap ") {
		return "([] : " + lt + ")"
	}
	if nm, ok := derefNamed(t); ok {
		if g := genStructs[genName(nm)]; g != nil {
			parts := []string{}
			for _, f := range g.fields {
				parts = append(parts, f.lean+" := "+zeroOf(f.t, n))
			}
			return "({ " + strings.Join(parts, ", ") + " } : Gen." + g.name + ")"
		}
	}
	fail(n, "no zero value for %s", t)
	return ""
}

func isString(t types.Type) bool {
	b, ok := t.Underlying().(*types.Basic)
	return ok && b.Info()&types.IsString != 0
}

func isBool(t types.Type) bool {
	b, ok := t.Underlying().(*types.Basic)
	return ok && b.Info()&types.IsBoolean != 0
}

func isInteger(t types.Type) bool {
	b, ok := t.Underlying().(*types.Basic)
	return ok && b.Info()&types.IsInteger != 0
}

func isUnsigned(t types.Type) bool {
	b, ok := t.Underlying().(*types.Basic)
	return ok && b.Info()&types.IsUnsigned != 0
}

// ---------- expressions ----------

type tr struct {
	translated map[string]bool // targets (lean names) available for calls
	// inside `for i := range xs`: the objects of xs and i, and the Lean name of the element
	loopSlice        string // source text of xs
	loopKey, loopVal types.Object
	loopElem         string
	loopMap          bool // xs is a map: elem_ is the (key, value) pair and xs[i] is elem_.2
	// state threading (receiver-mutating methods, see the header)
	fn               *ast.FuncDecl
	recvObj          types.Object    // the receiver variable, when the method is translated with state threading
	recvName         string          // its Go name
	hasResult        bool            // the method has a result (besides the threaded receiver)
	mutating         map[string]bool // translated state-threaded methods (lean name) -> has a result
	nonNil           map[string]bool // maps (source text) known to be non-nil on the current path
	nonNeg           map[types.Object]bool
	loopIndex        bool // the current loop is in index form (runs over List.range)
	loopDirty        bool // the ranged slice has been assigned on the current path
	loopNoResize     bool // an assignment to the ranged slice is not accepted here
	noImplicitReturn bool // inside a loop body: falling off the end is not a return
	nilIsError       bool // the expression being translated is expected to be of type `error`
	// local structures, pointers, delegated calls, loops with return (header: structs … loops)
	owned        map[types.Object]int  // locals declared `v := T{…}` (1) or `v := &T{…}` (2) of a generated structure
	ptrValue     map[types.Object]bool // pointer variables read as the value they point to (receiver, after `if p == nil { return }`)
	extra        []string              // parameters added for the delegated calls, in order of first use
	extraSeen    map[string]bool
	unmarshals   map[*ast.CallExpr]int // call sites of json.Unmarshal -> number
	results      []types.Type          // the result types of the function
	resultLean   string
	lenAtLeast   map[string]int64                 // facts of the current path: len(<source text>) >= k
	nonEmpty     map[string]bool                  // <source text> != ""
	errNil       map[types.Object]bool            // the error variable is nil
	guardedBy    map[types.Object]types.Object    // value results of strconv.Atoi: readable only where the error is nil
	outer        []loopSave                       // the enclosing element loops (innermost last)
	exit         *exitCtx                         // inside a loop translated in block mode (early exit, break, continue)
	inSwitch     int                              // inside a switch of the current loop body: `break` would leave the switch
	idxVars      map[types.Object]bool            // index variables of counting loops (Nat in Lean)
	idxLt        map[string]map[types.Object]bool // facts: the index variable is < len(<source text>)
	idxPos       map[types.Object]bool            // facts: the index variable is > 0
	nilable      map[types.Object]bool            // slice variables that are assigned or compared with nil
	panicSites   map[ast.Node]bool                // reads whose range is not established: they end the function with a panic
	guarded      map[ast.Node]bool                // panic sites covered by the guard of the current statement
	keyStores    bool                             // the body of the current map loop stores into the ranged map at the loop key
	loopDepth    int
	typedResults bool                // the results need exprT (a pointer, an `any`, an error built from an Error value)
	parentSel    map[*ast.Ident]bool // identifiers that are the X of a selector expression
	clauseExprs  []ast.Expr          // the case conditions of the switch last read by clauses (nil: no single condition)
}

type exitCtx struct {
	vars           []string
	hasBrk, hasRet bool
	depth          int
}

// restart: a read whose range cannot be established was met; the function is translated again
// with the site recorded (it then ends the function with a panic)
type restart struct{}

type loopSave struct {
	slice     string
	key, val  types.Object
	elem      string
	isMap     bool
	keyStores bool
}

// ---------- state threading: places, indices, facts of the current path ----------

func structOf(t types.Type) string {
	if p, isP := t.(*types.Pointer); isP {
		t = p.Elem()
	}
	if n, isN := t.(*types.Named); isN {
		if _, isS := n.Underlying().(*types.Struct); isS {
			return n.Obj().Name()
		}
	}
	return ""
}

// fieldOf is the model's name of a struct field ("" when the field is outside the subset).
func fieldOf(structName, field string) string {
	if f := wpuField(structName, field); f != "" {
		return f
	}
	switch structName + "." + field {
	case "Schema.Types", "Type.Name", "Type.Attrs", "Type.Rels", "Attr.Name", "Attr.Nullable":
		return lowerFirst(field)
	}
	if structName == "Rel" {
		return lowerFirst(field)
	}
	return ""
}

// fieldOfT: as fieldOf, for the struct type (or pointer to it) t, generated structures included.
func fieldOfT(t types.Type, field string) string {
	if n, ok := derefNamed(t); ok {
		if g := genStructs[genName(n)]; g != nil {
			if _, isS := n.Underlying().(*types.Struct); isS && !fixedStructs[genName(n)] {
				for _, f := range g.fields {
					if f.goName == field {
						return f.lean
					}
				}
				return ""
			}
		}
	}
	return fieldOf(structOf(t), field)
}

// isPtrValue: e is a pointer variable that is read as the value it points to
func (x *tr) isPtrValue(e ast.Expr) bool {
	for {
		p, ok := e.(*ast.ParenExpr)
		if !ok {
			break
		}
		e = p.X
	}
	id, ok := e.(*ast.Ident)
	if !ok {
		return false
	}
	obj := info.Uses[id]
	return obj != nil && (x.ptrValue[obj] || x.owned[obj] == 2)
}

// rooted reports whether e is the receiver or a field / element reached from it.
func (x *tr) rooted(e ast.Expr) bool {
	for {
		switch v := e.(type) {
		case *ast.ParenExpr:
			e = v.X
		case *ast.StarExpr:
			e = v.X
		case *ast.SelectorExpr:
			e = v.X
		case *ast.IndexExpr:
			e = v.X
		case *ast.Ident:
			return (x.recvObj != nil && info.Uses[v] == x.recvObj) || (info.Uses[v] != nil && x.owned[info.Uses[v]] != 0)
		default:
			return false
		}
	}
}

// a place reached from the receiver: how to read it and the `let` line that stores into it
type place struct {
	get string
	put func(v string) string
}

func (x *tr) place(e ast.Expr) place {
	switch v := e.(type) {
	case *ast.ParenExpr:
		return x.place(v.X)
	case *ast.StarExpr:
		return x.place(v.X)
	case *ast.Ident:
		if (x.recvObj != nil && info.Uses[v] == x.recvObj) || (info.Uses[v] != nil && x.owned[info.Uses[v]] != 0) {
			r := local(v.Name)
			return place{r, func(val string) string { return "let " + r + " := " + val }}
		}
	case *ast.SelectorExpr:
		if tv, ok := info.Types[v.X]; ok {
			if f := fieldOfT(tv.Type, v.Sel.Name); f != "" {
				if pt, isP := tv.Type.(*types.Pointer); isP && optionPointer(pt) && !x.isPtrValue(v.X) {
					fail(v, "%s may be nil", types.ExprString(v.X))
				}
				p := x.place(v.X)
				return place{"(" + p.get + ")." + f, func(val string) string { return p.put("{ " + p.get + " with " + f + " := " + val + " }") }}
			}
		}
	case *ast.IndexExpr:
		if sl, ok := info.Types[v.X].Type.Underlying().(*types.Slice); ok {
			p := x.place(v.X)
			idx := x.index(v.Index, types.ExprString(v.X))
			return place{"(" + p.get + ".getD " + idx + " " + zeroOf(sl.Elem(), v) + ")", func(val string) string { return p.put("(" + p.get + ".set " + idx + " " + val + ")") }}
		}
	}
	fail(e, "%s is not a place reached from the receiver", types.ExprString(e))
	return place{}
}

// index renders an index into the slice `slice` (source text) as a Nat that is in range.
func (x *tr) index(e ast.Expr, slice string) string {
	if id, ok := e.(*ast.Ident); ok {
		obj := info.Uses[id]
		if x.loopIndex && obj != nil && obj == x.loopKey {
			if slice != x.loopSlice {
				fail(e, "the loop index is used on another slice")
			}
			if x.loopDirty {
				fail(e, "%s is read after it was assigned in the loop", slice)
			}
			return local(id.Name)
		}
		if v, isVar := obj.(*types.Var); isVar && isInteger(v.Type()) && !isUnsigned(v.Type()) {
			if !x.nonNeg[obj] {
				fail(e, "the index %s is not known to be >= 0 here", id.Name)
			}
			x.checkIndexVar(v, slice, e)
			return "(Int.toNat " + local(id.Name) + ")"
		}
	}
	fail(e, "index expression outside the subset")
	return ""
}

// checkIndexVar: v is declared `v := <negative constant>`, every other assignment to it is
// `v = i` inside `for i := range slice`, and slice is assigned nowhere in the function.
func (x *tr) checkIndexVar(v *types.Var, slice string, at ast.Node) {
	var stack []ast.Node
	declared := false
	ast.Inspect(x.fn.Body, func(n ast.Node) bool {
		if n == nil {
			stack = stack[:len(stack)-1]
			return true
		}
		stack = append(stack, n)
		switch s := n.(type) {
		case *ast.AssignStmt:
			for i, l := range s.Lhs {
				if types.ExprString(l) == slice {
					fail(at, "%s is assigned in the function: an index kept in a variable may be out of range", slice)
				}
				id, isId := l.(*ast.Ident)
				if !isId || (info.Defs[id] != v && info.Uses[id] != v) {
					continue
				}
				if len(s.Lhs) != len(s.Rhs) {
					fail(s, "multiple assignment")
				}
				switch s.Tok {
				case token.DEFINE:
					tv := info.Types[s.Rhs[i]]
					if tv.Value == nil || tv.Value.Kind() != constant.Int || constant.Sign(tv.Value) >= 0 {
						fail(s, "index variable %s is not declared with a negative constant", id.Name)
					}
					declared = true
				case token.ASSIGN:
					okAssign := false
					if r, isId := s.Rhs[i].(*ast.Ident); isId {
						for _, anc := range stack {
							if rg, isR := anc.(*ast.RangeStmt); isR && rg.Tok == token.DEFINE && rg.Value == nil && types.ExprString(rg.X) == slice {
								if k, isK := rg.Key.(*ast.Ident); isK && info.Defs[k] != nil && info.Defs[k] == info.Uses[r] {
									okAssign = true
								}
							}
						}
					}
					if !okAssign {
						fail(s, "index variable %s is assigned something else than an index of %s", id.Name, slice)
					}
				default:
					fail(s, "index variable %s is modified", id.Name)
				}
			}
		case *ast.CallExpr:
			if _, recv, isM := x.mutCall(s); isM {
				if t := types.ExprString(recv); t == slice || strings.HasPrefix(slice, t+".") {
					fail(at, "a receiver-mutating method is called on %s: an index of %s kept in a variable may be out of range", t, slice)
				}
			}
		case *ast.IncDecStmt:
			if id, isId := s.X.(*ast.Ident); isId && info.Uses[id] == v {
				fail(s, "index variable %s is modified", id.Name)
			}
		case *ast.UnaryExpr:
			if id, isId := s.X.(*ast.Ident); isId && s.Op == token.AND && info.Uses[id] == v {
				fail(s, "address of index variable %s", id.Name)
			}
		case *ast.RangeStmt:
			for _, kv := range []ast.Expr{s.Key, s.Value} {
				if id, isId := kv.(*ast.Ident); isId && s.Tok != token.DEFINE && info.Uses[id] == v {
					fail(s, "index variable %s is a loop variable", id.Name)
				}
			}
		}
		return true
	})
	if !declared {
		fail(at, "index variable %s is not declared as `%s := -1`", v.Name(), v.Name())
	}
}

// assume records what the condition c tells about the path on which it is true
// (`v >= 0`, conjunctions of it); the result undoes it.
func (x *tr) assume(c ast.Expr) func() {
	added := []types.Object{}
	var walk func(e ast.Expr)
	walk = func(e ast.Expr) {
		switch b := e.(type) {
		case *ast.ParenExpr:
			walk(b.X)
		case *ast.BinaryExpr:
			if b.Op == token.LAND {
				walk(b.X)
				walk(b.Y)
			}
			if id, ok := b.X.(*ast.Ident); ok && b.Op == token.GEQ {
				if tv := info.Types[b.Y]; tv.Value != nil && tv.Value.Kind() == constant.Int && constant.Sign(tv.Value) >= 0 {
					if obj := info.Uses[id]; obj != nil && x.nonNeg != nil && !x.nonNeg[obj] {
						x.nonNeg[obj] = true
						added = append(added, obj)
					}
				}
			}
		}
	}
	walk(c)
	return func() {
		for _, o := range added {
			delete(x.nonNeg, o)
		}
	}
}

// facts saves the path-sensitive facts; the result restores them (used around each branch).
func (x *tr) facts() func() {
	nn := map[string]bool{}
	for k, v := range x.nonNil {
		nn[k] = v
	}
	dirty := x.loopDirty
	la, ne, en := map[string]int64{}, map[string]bool{}, map[types.Object]bool{}
	il, ip := map[string]map[types.Object]bool{}, map[types.Object]bool{}
	for k, m := range x.idxLt {
		il[k] = map[types.Object]bool{}
		for o, v := range m {
			il[k][o] = v
		}
	}
	for o, v := range x.idxPos {
		ip[o] = v
	}
	for k, v := range x.lenAtLeast {
		la[k] = v
	}
	for k, v := range x.nonEmpty {
		ne[k] = v
	}
	for k, v := range x.errNil {
		en[k] = v
	}
	return func() {
		x.nonNil = map[string]bool{}
		for k, v := range nn {
			x.nonNil[k] = v
		}
		x.loopDirty = dirty
		x.lenAtLeast, x.nonEmpty, x.errNil = map[string]int64{}, map[string]bool{}, map[types.Object]bool{}
		x.idxLt, x.idxPos = map[string]map[types.Object]bool{}, map[types.Object]bool{}
		for k, m := range il {
			x.idxLt[k] = map[types.Object]bool{}
			for o, v := range m {
				x.idxLt[k][o] = v
			}
		}
		for o, v := range ip {
			x.idxPos[o] = v
		}
		for k, v := range la {
			x.lenAtLeast[k] = v
		}
		for k, v := range ne {
			x.nonEmpty[k] = v
		}
		for k, v := range en {
			x.errNil[k] = v
		}
	}
}

// mutCall: is the call `p.M(args)` with M a translated receiver-mutating method?
func (x *tr) mutCall(call *ast.CallExpr) (name string, recv ast.Expr, ok bool) {
	sel, isSel := call.Fun.(*ast.SelectorExpr)
	if !isSel {
		return "", nil, false
	}
	fn, isFn := info.Uses[sel.Sel].(*types.Func)
	if !isFn {
		return "", nil, false
	}
	sig := fn.Type().(*types.Signature)
	if sig.Recv() == nil {
		return "", nil, false
	}
	st := structOf(sig.Recv().Type())
	if st == "" {
		return "", nil, false
	}
	name = st + "_" + fn.Name()
	if _, known := x.mutating[name]; !known {
		return "", nil, false
	}
	return name, sel.X, true
}

// callOn is run before a receiver-mutating call on the place recv is rendered: the callee may
// do anything to that place, so nothing known about what lies below it survives, and it must not
// contain the collection being ranged over (whose length the loop relies on).
func (x *tr) callOn(recv ast.Expr) {
	text := types.ExprString(recv)
	below := func(t string) bool {
		return t == text || strings.HasPrefix(t, text+".") || strings.HasPrefix(t, text+"[")
	}
	if (x.loopIndex || x.loopElem != "") && below(x.loopSlice) {
		fail(recv, "receiver-mutating call on %s inside a loop over %s", text, x.loopSlice)
	}
	for k := range x.nonNil {
		if below(k) {
			delete(x.nonNil, k)
		}
	}
}

func (x *tr) args(call *ast.CallExpr) string {
	out := ""
	for _, a := range call.Args {
		out += " " + x.expr(a)
	}
	return out
}

// mutates reports whether the node writes through the receiver.
func (x *tr) mutates(n ast.Node) bool {
	if x.recvObj == nil || n == nil {
		return false
	}
	found := false
	ast.Inspect(n, func(n ast.Node) bool {
		switch v := n.(type) {
		case *ast.AssignStmt:
			for _, l := range v.Lhs {
				if _, isId := l.(*ast.Ident); !isId && x.rooted(l) {
					found = true
				}
			}
		case *ast.IncDecStmt:
			if x.rooted(v.X) {
				found = true
			}
		case *ast.CallExpr:
			if id, ok := v.Fun.(*ast.Ident); ok && id.Name == "delete" && len(v.Args) > 0 && x.rooted(v.Args[0]) {
				found = true
			}
			if _, recv, ok := x.mutCall(v); ok && x.rooted(recv) {
				found = true
			}
		}
		return !found
	})
	return found
}

func (x *tr) mutatesList(stmts []ast.Stmt) bool {
	for _, s := range stmts {
		if x.mutates(s) {
			return true
		}
	}
	return false
}

// usesKeyAsValue reports whether the loop index is used other than in `xs[i]`.
func usesKeyAsValue(body *ast.BlockStmt, key types.Object, slice string) bool {
	found := false
	ast.Inspect(body, func(n ast.Node) bool {
		switch v := n.(type) {
		case *ast.IndexExpr:
			if id, ok := v.Index.(*ast.Ident); ok && info.Uses[id] == key && types.ExprString(v.X) == slice {
				ast.Inspect(v.X, func(m ast.Node) bool {
					if id, ok := m.(*ast.Ident); ok && info.Uses[id] == key {
						found = true
					}
					return true
				})
				return false
			}
		case *ast.Ident:
			if info.Uses[v] == key {
				found = true
			}
		}
		return !found
	})
	return found
}

// noShadow rejects a `:=` that hides a variable of an enclosing block of the function.
func (x *tr) noShadow(id *ast.Ident) {
	obj := info.Defs[id]
	if obj == nil || obj.Parent() == nil || obj.Parent().Parent() == nil || x.fn == nil {
		return
	}
	if _, outer := obj.Parent().Parent().LookupParent(id.Name, token.NoPos); outer != nil {
		if _, isVar := outer.(*types.Var); isVar && outer.Pos() >= x.fn.Pos() && outer.Pos() <= x.fn.End() {
			if x.recvObj != nil {
				fail(id, "%s shadows a variable of an enclosing block", id.Name)
			}
			// the hidden variable must not be used after the block of the new one ends: the `let` of the
			// new one stays visible, in the Lean rendering, in the statements that follow that block
			end := obj.Parent().End()
			ast.Inspect(x.fn.Body, func(n ast.Node) bool {
				if u, ok := n.(*ast.Ident); ok && info.Uses[u] == outer && u.Pos() > end {
					fail(id, "%s shadows a variable of an enclosing block that is used afterwards", id.Name)
				}
				return true
			})
		}
	}
}

// nilInit recognises `if m == nil { m = map[K]V{} }` and returns the source text of m.
func nilInit(s *ast.IfStmt) (string, bool) {
	if s.Init != nil || s.Else != nil || len(s.Body.List) != 1 {
		return "", false
	}
	c, ok := s.Cond.(*ast.BinaryExpr)
	if !ok || c.Op != token.EQL || !info.Types[c.Y].IsNil() {
		return "", false
	}
	if _, isMap := info.Types[c.X].Type.Underlying().(*types.Map); !isMap {
		return "", false
	}
	a, ok := s.Body.List[0].(*ast.AssignStmt)
	if !ok || a.Tok != token.ASSIGN || len(a.Lhs) != 1 || len(a.Rhs) != 1 || types.ExprString(a.Lhs[0]) != types.ExprString(c.X) {
		return "", false
	}
	lit, ok := a.Rhs[0].(*ast.CompositeLit)
	if !ok || len(lit.Elts) != 0 {
		return "", false
	}
	if _, isMap := info.Types[lit].Type.Underlying().(*types.Map); !isMap {
		return "", false
	}
	return types.ExprString(c.X), true
}

// effect translates a statement that writes through the receiver into the `let` lines that
// re-bind it ("" for the nil-map initialisation); ok is false for any other statement.
func (x *tr) effect(st ast.Stmt, ind string) (out string, ok bool) {
	if out, ok := x.wpsEffect(st, ind); ok {
		return out, true
	}
	if out, ok := x.wpuEffect(st, ind); ok {
		return out, true
	}
	if as, isAs := st.(*ast.AssignStmt); isAs {
		if out, ok := x.multiAssign(as, ind); ok {
			return out, true
		}
	}
	if out, ok := x.builtinStmt(st, ind); ok {
		return out, true
	}
	if x.recvObj == nil && len(x.owned) == 0 {
		return "", false
	}
	switch s := st.(type) {
	case *ast.ExprStmt:
		call, isCall := s.X.(*ast.CallExpr)
		if !isCall {
			return "", false
		}
		if id, isId := call.Fun.(*ast.Ident); isId && id.Name == "delete" && len(call.Args) == 2 {
			if _, isBuiltin := info.Uses[id].(*types.Builtin); isBuiltin {
				p := x.place(call.Args[0])
				return p.put("(GoMap.del " + p.get + " " + x.expr(call.Args[1]) + ")"), true
			}
		}
		if name, recv, isM := x.mutCall(call); isM {
			if x.loopMap {
				fail(s, "receiver-mutating call inside a loop over a map")
			}
			if x.mutating[name] {
				fail(s, "the result of %s is dropped", name)
			}
			x.callOn(recv)
			p := x.place(recv)
			return p.put("(Gen." + name + " " + p.get + x.args(call) + ")"), true
		}
	case *ast.AssignStmt:
		if len(s.Lhs) != 1 || len(s.Rhs) != 1 {
			return "", false
		}
		if call, isCall := s.Rhs[0].(*ast.CallExpr); isCall {
			if name, recv, isM := x.mutCall(call); isM {
				id, isId := s.Lhs[0].(*ast.Ident)
				if !isId || !x.mutating[name] || (s.Tok != token.DEFINE && s.Tok != token.ASSIGN) {
					fail(s, "call of %s outside the subset", name)
				}
				if x.loopMap {
					fail(s, "receiver-mutating call inside a loop over a map")
				}
				if s.Tok == token.DEFINE {
					x.noShadow(id)
				}
				x.callOn(recv)
				p := x.place(recv)
				return "let call' := (Gen." + name + " " + p.get + x.args(call) + ")\n" + ind + p.put("call'.1") + "\n" + ind + "let " + local(id.Name) + " := call'.2", true
			}
		}
		if _, isId := s.Lhs[0].(*ast.Ident); isId || s.Tok != token.ASSIGN || !x.rooted(s.Lhs[0]) {
			return "", false
		}
		if ix, isIx := s.Lhs[0].(*ast.IndexExpr); isIx {
			if _, isMap := info.Types[ix.X].Type.Underlying().(*types.Map); !isMap {
				fail(s, "assignment to a slice element")
			}
			text := types.ExprString(ix.X)
			if !x.nonNil[text] {
				fail(s, "store into the map %s, which may be nil here", text)
			}
			x.checkRangedStore(ix)
			p := x.place(ix.X)
			line := p.put("(GoMap.set " + p.get + " " + x.expr(ix.Index) + " " + x.exprT(s.Rhs[0], info.Types[s.Lhs[0]].Type) + ")")
			x.kill(ix.X)
			return line, true
		}
		p := x.place(s.Lhs[0])
		val := x.exprT(s.Rhs[0], info.Types[s.Lhs[0]].Type)
		x.kill(s.Lhs[0])
		if lit, isLit := s.Rhs[0].(*ast.CompositeLit); isLit && len(lit.Elts) == 0 {
			if _, isMap := info.Types[lit].Type.Underlying().(*types.Map); isMap {
				defer func() { x.nonNil[types.ExprString(s.Lhs[0])] = true }()
			}
		}
		if text := types.ExprString(s.Lhs[0]); (x.loopIndex || x.loopElem != "") && (text == x.loopSlice || strings.HasPrefix(x.loopSlice, text+".")) {
			if !x.loopIndex || x.loopNoResize {
				fail(s, "assignment to %s, which is being ranged over, on a path that goes on", text)
			}
			x.loopDirty = true
		}
		for _, o := range x.outer {
			if text := types.ExprString(s.Lhs[0]); text == o.slice || strings.HasPrefix(o.slice, text+".") {
				fail(s, "assignment to %s, which is being ranged over", text)
			}
		}
		delete(x.nonNil, types.ExprString(s.Lhs[0]))
		return p.put(val), true
	case *ast.IfStmt:
		if text, isInit := nilInit(s); isInit && x.rooted(s.Cond.(*ast.BinaryExpr).X) {
			x.nonNil[text] = true
			return "", true
		}
	}
	return "", false
}

// stateReturn: `return`, `return e`, `return p.M(args)` of a state-threaded method.
func (x *tr) stateReturn(s *ast.ReturnStmt, ind string) string {
	r := local(x.recvName)
	if len(s.Results) == 0 {
		if x.hasResult {
			fail(s, "return without a value")
		}
		return r
	}
	if len(s.Results) != 1 {
		fail(s, "several results")
	}
	if call, ok := s.Results[0].(*ast.CallExpr); ok {
		if name, recv, isM := x.mutCall(call); isM {
			if !x.mutating[name] {
				fail(s, "%s has no result", name)
			}
			p := x.place(recv)
			return "let call' := (Gen." + name + " " + p.get + x.args(call) + ")\n" + ind + p.put("call'.1") + "\n" + ind + "(" + r + ", call'.2)"
		}
	}
	resT := x.fn.Type.Results.List[0].Type
	return "(" + r + ", " + x.exprAs(s.Results[0], isError(resT)) + ")"
}

func (x *tr) constant(e ast.Expr) (string, bool) {
	tv, ok := info.Types[e]
	if !ok || tv.Value == nil {
		return "", false
	}
	switch tv.Value.Kind() {
	case constant.String:
		return bytesLit(constant.StringVal(tv.Value)), true
	case constant.Bool:
		return strconv.FormatBool(constant.BoolVal(tv.Value)), true
	case constant.Int:
		ty := "Int"
		if tv.Type != nil && isUnsigned(tv.Type) {
			ty = "Nat"
		}
		if b, isB := tv.Type.Underlying().(*types.Basic); isB && b.Kind() == types.Uint8 {
			ty = "UInt8" // a byte of a string
		}
		s := tv.Value.ExactString()
		if strings.HasPrefix(s, "-") {
			return "(" + s + " : " + ty + ")", true
		}
		return "(" + s + " : " + ty + ")", true
	}
	return "", false
}

func (x *tr) expr(e ast.Expr) string {
	if s, ok := x.wptExpr(e); ok {
		return s
	}
	if c, ok := x.constant(e); ok {
		return c
	}
	if s, ok := x.wpsExpr(e); ok {
		return s
	}
	if s, ok := x.wpuExpr(e); ok {
		return s
	}
	switch v := e.(type) {
	case *ast.ParenExpr:
		return "(" + x.expr(v.X) + ")"
	case *ast.Ident:
		switch v.Name {
		case "true", "false":
			return v.Name
		case "nil":
			if tv, ok := info.Types[v]; ok && tv.IsNil() && x.nilIsError {
				return "(Res.ok () : Res Unit)"
			}
			fail(v, "nil of a type other than error")
		}
		if obj := info.Uses[v]; obj != nil {
			if x.loopIndex && x.loopKey != nil && obj == x.loopKey {
				return "(Int.ofNat " + local(v.Name) + ")"
			}
			if x.loopElem != "" && x.loopKey != nil && obj == x.loopKey {
				if x.loopMap {
					return x.loopElem + ".1" // the key of the current entry of a map
				}
				fail(v, "the loop index is used other than to read the current element")
			}
			for i := len(x.outer) - 1; i >= 0; i-- {
				o := x.outer[i]
				if o.key != nil && obj == o.key {
					if o.isMap {
						return o.elem + ".1"
					}
					fail(v, "the loop index is used other than to read the current element")
				}
				if o.val != nil && obj == o.val {
					if o.isMap {
						return o.elem + ".2"
					}
					return o.elem
				}
			}
			if x.idxVars[obj] {
				return "(Int.ofNat " + local(v.Name) + ")"
			}
			if x.nilable[obj] {
				return "(" + local(v.Name) + ".getD [])" // a nil slice reads as the empty one
			}
			if g := x.guardedBy[obj]; g != nil && !x.errNil[g] {
				fail(v, "%s is read where %s is not known to be nil", v.Name, g.Name())
			}
			if x.owned[obj] == 2 {
				if _, isSel := x.parentSel[v]; !isSel {
					fail(v, "the local pointer %s is used as a value", v.Name)
				}
			}
			if x.loopElem != "" && x.loopVal != nil && obj == x.loopVal {
				if x.loopMap {
					return x.loopElem + ".2"
				}
				return x.loopElem
			}
			if _, isVar := obj.(*types.Var); isVar {
				return local(v.Name)
			}
		}
		fail(v, "identifier %s", v.Name)
	case *ast.StarExpr:
		return x.expr(v.X)
	case *ast.UnaryExpr:
		if v.Op == token.NOT {
			return "(!" + x.expr(v.X) + ")"
		}
		if lit, isLit := v.X.(*ast.CompositeLit); isLit && v.Op == token.AND {
			if pt, isP := info.Types[v].Type.(*types.Pointer); isP && optionPointer(pt) {
				return "(some " + x.expr(lit) + ")" // a fresh pointer (header: pointers)
			}
		}
		fail(v, "unary %s", v.Op)
	case *ast.BinaryExpr:
		return x.binary(v)
	case *ast.SelectorExpr:
		// res.GetType().Name
		if call, ok := v.X.(*ast.CallExpr); ok && v.Sel.Name == "Name" {
			if s, ok := call.Fun.(*ast.SelectorExpr); ok && s.Sel.Name == "GetType" && len(call.Args) == 0 && leanType(info.Types[s.X].Type, v) == "ResView" {
				return "(" + x.expr(s.X) + ").typeName"
			}
		}
		// field of a struct value
		if sel, ok := info.Types[v.X]; ok {
			t := sel.Type
			if n, isN := derefNamed(t); isN && genStructs[genName(n)] != nil && !fixedStructs[genName(n)] {
				f := fieldOfT(t, v.Sel.Name)
				if f == "" {
					fail(v, "selector %s", v.Sel.Name)
				}
				if pt, isP := t.(*types.Pointer); isP && optionPointer(pt) && !x.isPtrValue(v.X) {
					fail(v, "%s may be nil", types.ExprString(v.X))
				}
				if id, isId := v.X.(*ast.Ident); isId {
					x.parentSel[id] = true
				}
				return "(" + x.expr(v.X) + ")." + f
			}
			if p, isP := t.(*types.Pointer); isP {
				t = p.Elem()
			}
			if n, isN := t.(*types.Named); isN {
				if _, isS := n.Underlying().(*types.Struct); isS {
					switch n.Obj().Name() + "." + v.Sel.Name {
					case "Schema.Types", "Type.Name", "Type.Attrs", "Type.Rels", "Attr.Name", "Attr.Nullable":
						return "(" + x.expr(v.X) + ")." + lowerFirst(v.Sel.Name)
					case "Attr.Type": // the model keeps the kind as a Nat (header: values)
						return "(Int.ofNat (" + x.expr(v.X) + ").ty)"
					}
					if n.Obj().Name() == "Rel" {
						return "(" + x.expr(v.X) + ")." + lowerFirst(v.Sel.Name)
					}
				}
			}
		}
		fail(v, "selector %s", v.Sel.Name)
	case *ast.CompositeLit:
		t := info.Types[v].Type
		if n, ok := t.(*types.Named); ok && n.Obj().Name() == "Rel" {
			st := n.Underlying().(*types.Struct)
			given := map[string]string{}
			for _, el := range v.Elts {
				kv, ok := el.(*ast.KeyValueExpr)
				if !ok {
					fail(el, "positional composite literal")
				}
				given[kv.Key.(*ast.Ident).Name] = x.expr(kv.Value)
			}
			parts := []string{}
			for i := 0; i < st.NumFields(); i++ {
				f := st.Field(i)
				val, ok := given[f.Name()]
				if !ok {
					val = zeroOf(f.Type(), v)
				}
				parts = append(parts, lowerFirst(f.Name())+" := "+val)
			}
			return "({ " + strings.Join(parts, ", ") + " } : Rel)"
		}
		if n, ok := t.(*types.Named); ok && n.Obj().Name() == "Type" && len(v.Elts) == 0 {
			return "Typ.empty"
		}
		if n, ok := t.(*types.Named); ok && isPkgNamed(n, "Filter") && len(v.Elts) == 0 {
			return "([] : GoString)" // header: stand-ins
		}
		if n, ok := t.(*types.Named); ok {
			if g := genStructOf(n, v); g != nil {
				given := map[string]string{}
				for _, el := range v.Elts {
					kv, ok := el.(*ast.KeyValueExpr)
					if !ok {
						fail(el, "positional composite literal")
					}
					for _, f := range g.fields {
						if f.goName == kv.Key.(*ast.Ident).Name {
							given[f.goName] = x.exprT(kv.Value, f.t)
						}
					}
				}
				parts := []string{}
				for _, f := range g.fields {
					val, ok := given[f.goName]
					if !ok {
						val = zeroOf(f.t, v)
					}
					parts = append(parts, f.lean+" := "+val)
				}
				return "({ " + strings.Join(parts, ", ") + " } : Gen." + g.name + ")"
			}
		}
		if lt := leanType(t, v); len(v.Elts) == 0 && (strings.HasPrefix(lt, "GoMap ") || strings.HasPrefix(lt, "List ")) && lt != "List (GoString × GoString)" {
			return "([] : " + lt + ")"
		}
		if _, ok := t.Underlying().(*types.Map); ok {
			parts := []string{}
			for _, el := range v.Elts {
				kv := el.(*ast.KeyValueExpr)
				parts = append(parts, "("+x.expr(kv.Key)+", "+x.expr(kv.Value)+")")
			}
			return "([" + strings.Join(parts, ", ") + "] : List (GoString × GoString))"
		}
		fail(v, "composite literal of %s", t)
	case *ast.IndexExpr:
		if x.loopElem != "" && x.loopKey != nil && !x.keyStores {
			if k, ok := v.Index.(*ast.Ident); ok && types.ExprString(v.X) == x.loopSlice && info.Uses[k] == x.loopKey {
				if x.loopMap {
					return x.loopElem + ".2"
				}
				return x.loopElem
			}
		}
		for i := len(x.outer) - 1; i >= 0; i-- {
			o := x.outer[i]
			if k, ok := v.Index.(*ast.Ident); ok && o.key != nil && !o.keyStores && types.ExprString(v.X) == o.slice && info.Uses[k] == o.key {
				if o.isMap {
					return o.elem + ".2"
				}
				return o.elem
			}
		}
		if mt, ok := info.Types[v.X].Type.Underlying().(*types.Map); ok && isString(mt.Key()) && strings.HasPrefix(leanType(info.Types[v.X].Type, v), "GoMap ") {
			// m[k] read: the value of the entry, or the zero value
			return "((GoMap.get? " + x.expr(v.X) + " " + x.expr(v.Index) + ").getD " + zeroOf(mt.Elem(), v) + ")"
		}
		if sl, ok := info.Types[v.X].Type.Underlying().(*types.Slice); ok && x.recvObj == nil {
			if ix, inRange := x.natIndex(v.Index, types.ExprString(v.X)); inRange {
				return "(" + x.expr(v.X) + ".getD " + ix + " " + zeroOf(sl.Elem(), v) + ")"
			}
		}
		if last := lenMinus(v.Index, v.X); last > 0 {
			// xs[len(xs)-c]: in range where len(xs) >= c is known
			t := pureText(v.X)
			if t == "" || x.lenAtLeast[t] < last {
				fail(v, "%s is not known to have %d elements here", types.ExprString(v.X), last)
			}
			if sl, ok := info.Types[v.X].Type.Underlying().(*types.Slice); ok {
				xs := x.expr(v.X)
				return fmt.Sprintf("(%s.getD (%s.length - %d) %s)", xs, xs, last, zeroOf(sl.Elem(), v))
			}
		}
		if isString(info.Types[v.X].Type) {
			if tv := info.Types[v.Index]; tv.Value != nil && tv.Value.Kind() == constant.Int {
				k, _ := constant.Int64Val(tv.Value)
				t := pureText(v.X)
				if (t == "" || x.lenAtLeast[t] < k+1) && !x.guarded[v] {
					// header: panics
					if x.panicSites[v] {
						fail(v, "%s is not known to have %d bytes here, in a place where a panic is not rendered", types.ExprString(v.X), k+1)
					}
					x.panicSites[v] = true
					panic(restart{})
				}
				return fmt.Sprintf("(%s.getD %d (0 : UInt8))", x.expr(v.X), k)
			}
		}
		if sl, ok := info.Types[v.X].Type.Underlying().(*types.Slice); ok && x.recvObj != nil && info.Types[v.Index].Value == nil {
			return "(" + x.expr(v.X) + ".getD " + x.index(v.Index, types.ExprString(v.X)) + " " + zeroOf(sl.Elem(), v) + ")"
		}
		if _, ok := info.Types[v.X].Type.Underlying().(*types.Slice); ok {
			if tv := info.Types[v.Index]; tv.Value != nil {
				k, _ := constant.Int64Val(tv.Value)
				if t := pureText(v.X); t == "" || x.lenAtLeast[t] < k+1 {
					fail(v, "%s is not known to have %d elements here", types.ExprString(v.X), k+1)
				}
				return fmt.Sprintf("(%s.getD %d [])", x.expr(v.X), k)
			}
		}
		fail(v, "index expression")
	case *ast.SliceExpr:
		if isString(info.Types[v.X].Type) && v.High == nil && v.Low != nil {
			if tv := info.Types[v.Low]; tv.Value != nil {
				k, _ := constant.Int64Val(tv.Value)
				return fmt.Sprintf("(%s.drop %d)", x.expr(v.X), k)
			}
		}
		if isString(info.Types[v.X].Type) && v.High != nil && v.Low != nil && !v.Slice3 {
			// s[a : len(s)-c]: in range where len(s) >= a+c is known
			if tv := info.Types[v.Low]; tv.Value != nil && tv.Value.Kind() == constant.Int {
				a, _ := constant.Int64Val(tv.Value)
				if c := lenMinus(v.High, v.X); c > 0 && a >= 0 {
					t := pureText(v.X)
					if t == "" || x.lenAtLeast[t] < a+c {
						fail(v, "%s is not known to have %d bytes here", types.ExprString(v.X), a+c)
					}
					xs := x.expr(v.X)
					return fmt.Sprintf("((%s.take (%s.length - %d)).drop %d)", xs, xs, c, a)
				}
			}
		}
		if _, ok := info.Types[v.X].Type.Underlying().(*types.Slice); ok && x.recvObj == nil && !v.Slice3 {
			// xs[:e] and xs[e:] with e = i, i+1, i-1 for an index variable known to be below len(xs)
			xtext := types.ExprString(v.X)
			if v.Low == nil && v.High != nil {
				if b, inRange := x.natBound(v.High, xtext); inRange {
					return "(" + x.expr(v.X) + ".take " + b + ")"
				}
			}
			if v.Low != nil && v.High == nil {
				if b, inRange := x.natBound(v.Low, xtext); inRange {
					return "(" + x.expr(v.X) + ".drop " + b + ")"
				}
			}
		}
		if _, ok := info.Types[v.X].Type.Underlying().(*types.Slice); ok && x.recvObj != nil && !v.Slice3 {
			// xs[0:i], xs[i+1:] with i the index of the enclosing loop over xs: both bounds are <= len(xs)
			xs, text := x.expr(v.X), types.ExprString(v.X)
			bound := func(e ast.Expr) string {
				if b, ok := e.(*ast.BinaryExpr); ok && b.Op == token.ADD {
					if tv := info.Types[b.Y]; tv.Value != nil && tv.Value.ExactString() == "1" {
						if id, ok := b.X.(*ast.Ident); ok && x.loopIndex && info.Uses[id] == x.loopKey {
							return "(" + x.index(b.X, text) + " + 1)"
						}
					}
				}
				if id, ok := e.(*ast.Ident); ok && x.loopIndex && info.Uses[id] == x.loopKey {
					return x.index(e, text)
				}
				fail(e, "slice bound outside the subset")
				return ""
			}
			lowZero := v.Low == nil
			if v.Low != nil {
				if tv := info.Types[v.Low]; tv.Value != nil && tv.Value.ExactString() == "0" {
					lowZero = true
				}
			}
			switch {
			case lowZero && v.High != nil:
				return "(" + xs + ".take " + bound(v.High) + ")"
			case !lowZero && v.High == nil:
				return "(" + xs + ".drop " + bound(v.Low) + ")"
			}
		}
		fail(v, "slice expression")
	case *ast.CallExpr:
		return x.call(v)
	}
	fail(e, "expression %T", e)
	return ""
}

// isError: the type of e is the interface `error`
func isError(e ast.Expr) bool {
	tv, ok := info.Types[e]
	return ok && tv.Type != nil && types.Identical(tv.Type, types.Universe.Lookup("error").Type())
}

// exprAs translates e where a value of type `error` is expected when asError holds (so that
// the untyped `nil` is the nil error).
func (x *tr) exprAs(e ast.Expr, asError bool) string {
	defer func(old bool) { x.nilIsError = old }(x.nilIsError)
	x.nilIsError = asError
	return x.expr(e)
}

func (x *tr) binary(v *ast.BinaryExpr) string {
	if (v.Op == token.EQL || v.Op == token.NEQ) && (isError(v.X) || isError(v.Y)) {
		op := map[token.Token]string{token.EQL: " = ", token.NEQ: " ≠ "}[v.Op]
		return "(decide (" + x.exprAs(v.X, true) + op + x.exprAs(v.Y, true) + "))"
	}
	if id, ok := v.X.(*ast.Ident); ok && (v.Op == token.EQL || v.Op == token.NEQ) && info.Types[v.Y].IsNil() && x.nilable[info.Uses[id]] {
		if v.Op == token.EQL {
			return "(" + local(id.Name) + ").isNone"
		}
		return "(" + local(id.Name) + ").isSome"
	}
	a, b := x.expr(v.X), x.expr(v.Y)
	ta := info.Types[v.X].Type
	switch v.Op {
	case token.LAND:
		return "(" + a + " && " + b + ")"
	case token.LOR:
		return "(" + a + " || " + b + ")"
	case token.ADD:
		if isString(ta) {
			return "(" + a + " ++ " + b + ")"
		}
		fail(v, "integer arithmetic")
	case token.EQL:
		return "(decide (" + a + " = " + b + "))"
	case token.NEQ:
		return "(decide (" + a + " ≠ " + b + "))"
	case token.LSS:
		return "(decide (" + a + " < " + b + "))"
	case token.GTR:
		return "(decide (" + b + " < " + a + "))"
	case token.LEQ:
		if isString(ta) { // a total order: a <= b is !(b < a)
			return "(!decide (" + b + " < " + a + "))"
		}
		if isInteger(ta) {
			return "(decide (" + a + " ≤ " + b + "))"
		}
	case token.GEQ:
		if isString(ta) {
			return "(!decide (" + a + " < " + b + "))"
		}
		if isInteger(ta) {
			return "(decide (" + b + " ≤ " + a + "))"
		}
	}
	fail(v, "binary %s on %s", v.Op, ta)
	return ""
}

func (x *tr) call(v *ast.CallExpr) string {
	switch f := v.Fun.(type) {
	case *ast.Ident:
		if f.Name == "len" && len(v.Args) == 1 {
			return "((" + x.expr(v.Args[0]) + ").length : Int)"
		}
		if f.Name == "append" && len(v.Args) == 2 && !v.Ellipsis.IsValid() {
			return "(" + x.expr(v.Args[0]) + " ++ [" + x.expr(v.Args[1]) + "])"
		}
		if f.Name == "append" && len(v.Args) == 2 && v.Ellipsis.IsValid() {
			return "(" + x.expr(v.Args[0]) + " ++ " + x.expr(v.Args[1]) + ")"
		}
		if f.Name == "make" && len(v.Args) >= 2 && leanType(info.Types[v].Type, v) == "List GoString" {
			if tv := info.Types[v.Args[1]]; tv.Value != nil && tv.Value.ExactString() == "0" {
				if len(v.Args) == 3 && info.Types[v.Args[2]].Value == nil && !lenSum(v.Args[2]) {
					fail(v, "capacity of make outside the subset")
				}
				return "([] : List GoString)"
			}
		}
		if sl, isSl := info.Types[v].Type.Underlying().(*types.Slice); f.Name == "make" && isSl && (len(v.Args) == 2 || len(v.Args) == 3) {
			// header: make. The capacity has no effect; it must be a sum of lengths and constants (>= 0)
			if len(v.Args) == 3 && !lenSum(v.Args[2]) {
				fail(v, "capacity of make outside the subset")
			}
			lt := leanType(info.Types[v].Type, v)
			if tv := info.Types[v.Args[1]]; tv.Value != nil && tv.Value.ExactString() == "0" {
				return "([] : " + lt + ")"
			}
			if call, isCall := v.Args[1].(*ast.CallExpr); isCall && lenArgAny(call) != nil && len(v.Args) == 2 {
				return "(List.replicate (" + x.expr(call.Args[0]) + ").length " + zeroOf(sl.Elem(), v) + ")"
			}
		}
		if x.translated[f.Name] {
			args := []string{"Gen." + f.Name}
			for _, a := range v.Args {
				args = append(args, x.expr(a))
			}
			return "(" + strings.Join(args, " ") + ")"
		}
		fail(v, "call of %s", f.Name)
	case *ast.SelectorExpr:
		if pkg, ok := f.X.(*ast.Ident); ok {
			if _, isPkg := info.Uses[pkg].(*types.PkgName); isPkg {
				switch pkg.Name + "." + f.Sel.Name {
				case "fmt.Errorf", "errors.New":
					// never nil; the text is not modelled, the arguments must be free of effects
					for _, a := range v.Args {
						e := a
						for {
							if sel, ok := e.(*ast.SelectorExpr); ok {
								e = sel.X
								continue
							}
							break
						}
						_, isId := e.(*ast.Ident)
						if tv := info.Types[a]; !isId && tv.Value == nil {
							fail(a, "argument of %s.%s", pkg.Name, f.Sel.Name)
						}
					}
					return "(Res.err : Res Unit)"
				case "strings.HasPrefix":
					return "(hasPrefix " + x.expr(v.Args[0]) + " " + x.expr(v.Args[1]) + ")"
				case "strings.HasSuffix":
					return "(List.isSuffixOf " + x.expr(v.Args[1]) + " " + x.expr(v.Args[0]) + ")"
				case "strings.Split":
					if tv := info.Types[v.Args[1]]; tv.Value != nil && len(constant.StringVal(tv.Value)) == 1 {
						return fmt.Sprintf("(splitOn %d %s)", constant.StringVal(tv.Value)[0], x.expr(v.Args[0]))
					}
				case "strings.Join":
					return "(joinWith " + x.expr(v.Args[1]) + " " + x.expr(v.Args[0]) + ")"
				}
				fail(v, "call of %s.%s", pkg.Name, f.Sel.Name)
			}
		}
		recvT := info.Types[f.X].Type
		if isValues(recvT) && f.Sel.Name == "Get" && len(v.Args) == 1 {
			// url.Values.Get: the first value of the key, "" without one
			return "(firstVal ((GoMap.get? " + x.expr(f.X) + " " + x.expr(v.Args[0]) + ").getD []))"
		}
		if fn, isFn := info.Uses[f.Sel].(*types.Func); isFn {
			sig := fn.Type().(*types.Signature)
			if sig.Recv() == nil {
				fail(v, "call of %s", f.Sel.Name)
			}
			if rn, isN := derefNamed(sig.Recv().Type()); isN {
				full := rn.Obj().Name() + "." + fn.Name()
				if fn.Pkg() != nil && fn.Pkg().Name() != "jsonapi" {
					full = fn.Pkg().Path() + "." + full
				}
				name := leanName(rn.Obj().Name() + "." + fn.Name())
				if _, mut := x.mutating[name]; x.translated[name] && !mut && fn.Pkg() != nil && fn.Pkg().Name() == "jsonapi" && rn.Obj().Name() != "Rel" {
					// a translated method that does not write through its receiver
					args := "(Gen." + name + " " + x.recvValue(f.X)
					for i, a := range v.Args {
						args += " " + x.exprT(a, sig.Params().At(i).Type())
					}
					return args + ")"
				}
				if delegatedMethods[full] {
					// header: delegated calls
					ts := []string{leanType(rn, v)}
					for i := 0; i < sig.Params().Len(); i++ {
						ts = append(ts, leanType(sig.Params().At(i).Type(), v))
					}
					args := "(" + x.addExtra(fn.Name()+"'", strings.Join(ts, " → ")+" → "+leanType(sig.Results(), v)) + " " + x.recvValue(f.X)
					for i, a := range v.Args {
						args += " " + x.exprT(a, sig.Params().At(i).Type())
					}
					return args + ")"
				}
			}
		}
		switch leanType(recvT, v) {
		case "Time":
			op := map[string]string{"Equal": "Time.equal", "Before": "Time.before", "After": "Time.after"}[f.Sel.Name]
			if op != "" && len(v.Args) == 1 {
				return "(" + op + " " + x.expr(f.X) + " " + x.expr(v.Args[0]) + ")"
			}
		case "Rel":
			name := "Rel_" + f.Sel.Name
			if x.translated[name] && len(v.Args) == 0 {
				return "(Gen." + name + " " + x.expr(f.X) + ")"
			}
		}
		fail(v, "method call %s", f.Sel.Name)
	}
	fail(v, "call")
	return ""
}

// ---------- statements ----------

// returns reports whether the statement list contains a return statement anywhere.
func returns(stmts []ast.Stmt) bool {
	found := false
	for _, s := range stmts {
		ast.Inspect(s, func(n ast.Node) bool {
			if _, ok := n.(*ast.ReturnStmt); ok {
				found = true
			}
			return !found
		})
	}
	return found
}

// assigned collects the variables assigned (not declared) in the statement list.
func (x *tr) assigned(stmts []ast.Stmt, out map[string]bool) {
	if x.mutatesList(stmts) {
		out[x.recvName] = true
	}
	x.ownedWrites(stmts, out)
	x.wpsAssigned(stmts, out)
	for _, s := range stmts {
		ast.Inspect(s, func(n ast.Node) bool {
			if c, ok := n.(*ast.CallExpr); ok && len(c.Args) > 0 {
				id, isId := c.Fun.(*ast.Ident)
				if (isId && id.Name == "copy") || pkgCall(c) == "sort.Strings" {
					if t, isT := c.Args[0].(*ast.Ident); isT {
						out[t.Name] = true
					}
				}
			}
			if a, ok := n.(*ast.AssignStmt); ok && a.Tok != token.DEFINE {
				for _, l := range a.Lhs {
					if id, ok := l.(*ast.Ident); ok {
						out[id.Name] = true
					}
				}
			}
			return true
		})
	}
}

// clauses turns a switch into (condition, body) pairs plus the default body.
func (x *tr) clauses(s *ast.SwitchStmt) (conds []string, bodies [][]ast.Stmt, def []ast.Stmt) {
	x.clauseExprs = nil
	if s.Init != nil {
		fail(s, "switch with init")
	}
	tag := ""
	if s.Tag != nil {
		tag = x.expr(s.Tag)
	}
	for _, c := range s.Body.List {
		cc := c.(*ast.CaseClause)
		for _, st := range cc.Body {
			if b, ok := st.(*ast.BranchStmt); ok {
				fail(b, "branch statement in switch")
			}
		}
		if hasBranch(cc.Body, token.BREAK) {
			fail(cc, "break inside a switch (it leaves the switch, not the loop)")
		}
		if cc.List == nil {
			def = cc.Body
			continue
		}
		alts := []string{}
		for _, e := range cc.List {
			if tag != "" {
				alts = append(alts, "decide ("+tag+" = "+x.expr(e)+")")
			} else {
				alts = append(alts, x.expr(e))
			}
		}
		conds = append(conds, "("+strings.Join(alts, " || ")+")")
		bodies = append(bodies, cc.Body)
		if tag == "" && len(cc.List) == 1 {
			x.clauseExprs = append(x.clauseExprs, cc.List[0])
		} else {
			x.clauseExprs = append(x.clauseExprs, nil)
		}
	}
	return
}

func tuple(vars []string) string {
	if len(vars) == 1 {
		return local(vars[0])
	}
	ls := make([]string, len(vars))
	for i := range vars {
		ls[i] = local(vars[i])
	}
	return "(" + strings.Join(ls, ", ") + ")"
}

// assignOnly translates statements without return into the tuple of `vars` afterwards.
func (x *tr) assignOnly(stmts []ast.Stmt, vars []string, ind string) string {
	if len(stmts) == 0 {
		return tuple(vars)
	}
	rest := func() string { return x.assignOnly(stmts[1:], vars, ind) }
	if x.recvObj != nil {
		// these statements go on after themselves: the ranged slice must keep its length
		defer func(old bool) { x.loopNoResize = old }(x.loopNoResize)
		x.loopNoResize = true
	}
	if out, ok := x.effect(stmts[0], ind); ok {
		if out == "" {
			return rest()
		}
		return out + "\n" + ind + rest()
	}
	switch s := stmts[0].(type) {
	case *ast.AssignStmt:
		return x.assign(s, ind) + "\n" + ind + rest()
	case *ast.DeclStmt:
		return x.decl(s, ind) + rest()
	case *ast.IfStmt:
		if s.Init != nil {
			return x.assignOnly(append(x.splitInit(s), stmts[1:]...), vars, ind)
		}
		els := []ast.Stmt{}
		if s.Else != nil {
			els = elseStmts(s.Else)
		}
		cond := x.expr(s.Cond)
		undo, back := x.assume(s.Cond), x.facts()
		x.learn(s.Cond, true)
		thenS := x.assignOnly(s.Body.List, vars, ind+"    ")
		undo()
		back()
		x.learn(s.Cond, false)
		elseS := x.assignOnly(els, vars, ind+"    ")
		back()
		x.killNames(vars)
		x.killPlaces(s.Body.List, els)
		return "let " + tuple(vars) + " := (if " + cond + " then\n" + ind + "    (" + thenS + ")\n" +
			ind + "  else\n" + ind + "    (" + elseS + "))\n" + ind + rest()
	case *ast.SwitchStmt:
		conds, bodies, def := x.clauses(s)
		ces := x.clauseExprs
		out := ""
		back := x.facts()
		for i := range conds {
			x.learnCase(ces, i)
			out += "if " + conds[i] + " then\n" + ind + "    (" + x.assignOnly(bodies[i], vars, ind+"    ") + ")\n" + ind + "  else "
			back()
		}
		x.learnCase(ces, len(conds))
		out += "(" + x.assignOnly(def, vars, ind+"    ") + ")"
		back()
		x.killNames(vars)
		x.killPlaces(append(bodies, def)...)
		return "let " + tuple(vars) + " := (" + out + ")\n" + ind + rest()
	case *ast.RangeStmt:
		return x.rangeStmt(s, nil, ind, false) + rest()
	case *ast.ForStmt:
		return x.forStmt(s, nil, ind, false) + rest()
	}
	fail(stmts[0], "statement %T", stmts[0])
	return ""
}

func elseStmts(s ast.Stmt) []ast.Stmt {
	switch e := s.(type) {
	case *ast.BlockStmt:
		return e.List
	default:
		return []ast.Stmt{e}
	}
}

func (x *tr) assign(s *ast.AssignStmt, ind string) string {
	// id, _ := res.Get("id").(string)
	if len(s.Lhs) == 2 && len(s.Rhs) == 1 {
		if ta, ok := s.Rhs[0].(*ast.TypeAssertExpr); ok {
			if call, ok := ta.X.(*ast.CallExpr); ok {
				if sel, ok := call.Fun.(*ast.SelectorExpr); ok && sel.Sel.Name == "Get" && len(call.Args) == 1 {
					if tv := info.Types[call.Args[0]]; tv.Value != nil && constant.StringVal(tv.Value) == "id" &&
						leanType(info.Types[sel.X].Type, s) == "ResView" && isString(info.Types[ta.Type].Type) {
						if blank, ok := s.Lhs[1].(*ast.Ident); ok && blank.Name == "_" {
							return "let " + local(s.Lhs[0].(*ast.Ident).Name) + " := (" + x.expr(sel.X) + ").id"
						}
					}
				}
			}
		}
	}
	if len(s.Lhs) != 1 || len(s.Rhs) != 1 {
		fail(s, "multiple assignment")
	}
	id, ok := s.Lhs[0].(*ast.Ident)
	if !ok {
		fail(s, "assignment to a non-variable")
	}
	if x.recvObj != nil && s.Tok == token.DEFINE {
		x.noShadow(id)
	}
	if x.recvObj != nil && info.Uses[id] == x.recvObj {
		fail(s, "assignment to the receiver variable")
	}
	if s.Tok == token.DEFINE && info.Defs[id] != nil {
		lit, kind := s.Rhs[0], 1
		if u, isU := lit.(*ast.UnaryExpr); isU && u.Op == token.AND {
			lit, kind = u.X, 2
		}
		if cl, isLit := lit.(*ast.CompositeLit); isLit {
			if n, isN := info.Types[cl].Type.(*types.Named); isN && genStructOf(n, cl) != nil {
				// header: structs (a local structure)
				obj := info.Defs[id]
				x.noShadow(id)
				x.checkOwned(obj, id.Name)
				x.owned[obj] = kind
				for _, el := range cl.Elts {
					if kv, isKV := el.(*ast.KeyValueExpr); isKV {
						if ml, isML := kv.Value.(*ast.CompositeLit); isML {
							if _, isMap := info.Types[ml].Type.Underlying().(*types.Map); isMap {
								x.nonNil[id.Name+"."+kv.Key.(*ast.Ident).Name] = true
							}
						}
					}
				}
				return "let " + local(id.Name) + " := " + x.expr(cl)
			}
		}
	}
	if obj := info.Uses[id]; obj != nil && x.owned[obj] != 0 {
		fail(s, "assignment to the local structure %s", id.Name)
	}
	if s.Tok != token.DEFINE {
		ranged := func(slice string) bool { return slice != "" && mentions(slice, id.Name) }
		// (`xs[i]` is read as the element the loop holds: xs must keep its value; a loop without
		// index variable holds copies of the elements and does not read xs again)
		if ranged(x.loopSlice) && x.loopKey != nil {
			fail(s, "assignment to %s, which is being ranged over", id.Name)
		}
		for _, o := range x.outer {
			if ranged(o.slice) && o.key != nil {
				fail(s, "assignment to %s, which is being ranged over", id.Name)
			}
		}
	}
	if obj := info.ObjectOf(id); obj != nil && x.nilable[obj] && (s.Tok == token.DEFINE || s.Tok == token.ASSIGN) {
		lt := leanType(obj.Type(), s)
		if info.Types[s.Rhs[0]].IsNil() {
			x.kill(s.Lhs[0])
			return "let " + local(id.Name) + " := (none : Option (" + lt + "))"
		}
		val := x.expr(s.Rhs[0])
		x.kill(s.Lhs[0])
		return "let " + local(id.Name) + " := (some " + val + " : Option (" + lt + "))"
	}
	switch s.Tok {
	case token.DEFINE, token.ASSIGN:
		val := ""
		if s.Tok == token.ASSIGN {
			val = x.exprT(s.Rhs[0], info.Types[s.Lhs[0]].Type)
		} else {
			val = x.expr(s.Rhs[0])
		}
		x.kill(s.Lhs[0])
		return "let " + local(id.Name) + " := " + val
	case token.ADD_ASSIGN:
		if isString(info.Types[s.Lhs[0]].Type) {
			val := x.expr(s.Rhs[0])
			x.kill(s.Lhs[0])
			return "let " + local(id.Name) + " := (" + local(id.Name) + " ++ " + val + ")"
		}
	}
	fail(s, "assignment %s", s.Tok)
	return ""
}

func (x *tr) decl(s *ast.DeclStmt, ind string) string {
	g, ok := s.Decl.(*ast.GenDecl)
	if !ok {
		fail(s, "declaration")
	}
	out := ""
	for _, sp := range g.Specs {
		vs, ok := sp.(*ast.ValueSpec)
		if !ok {
			fail(s, "declaration")
		}
		if g.Tok == token.CONST {
			continue // constants are inlined by value
		}
		for i, n := range vs.Names {
			val := ""
			if x.nilable[info.Defs[n]] {
				fail(s, "declaration of the nil-able slice %s with var", n.Name)
			}
			if i < len(vs.Values) {
				val = x.expr(vs.Values[i])
			} else {
				val = zeroOf(info.Defs[n].Type(), s)
			}
			out += "let " + local(n.Name) + " := " + val + "\n" + ind
		}
	}
	return out
}

// block translates statements every path of which ends in a return.
func (x *tr) block(stmts []ast.Stmt, ind string) string {
	if out, ok := x.wpuBlock(stmts, ind); ok {
		return out
	}
	if len(stmts) == 0 {
		if x.exit != nil {
			return x.exitState("false", x.noRet()) // the end of the body of a loop in block mode
		}
		if x.recvObj != nil && !x.hasResult && !x.noImplicitReturn {
			return local(x.recvName) // the end of the body of a method without result
		}
		fail(nil, "a path does not end in a return")
	}
	if out, ok := x.wptBlock(stmts, ind); ok {
		return out
	}
	if ifs, ok := stmts[0].(*ast.IfStmt); ok && ifs.Init != nil {
		// `if init; c { … }` is `init; if c { … }` (a variable declared by init is visible in the `if` only)
		return x.block(append(x.splitInit(ifs), stmts[1:]...), ind)
	}
	if gs := x.guardsOf(stmts[0]); len(gs) > 0 {
		// header: panics
		sites := []ast.Node{}
		conds := []string{}
		for _, g := range gs {
			conds = append(conds, g.cond)
			sites = append(sites, g.site)
			x.guarded[g.site] = true
		}
		back := x.facts()
		okS := x.block(stmts, ind+"  ")
		back()
		for _, n := range sites {
			delete(x.guarded, n)
		}
		pv := x.panicValue(stmts[0])
		if x.exit != nil {
			pv = x.exitState("false", "(some "+pv+")")
		}
		return "if (" + strings.Join(conds, " && ") + ") then\n" + ind + "  " + okS + "\n" + ind + "else\n" + ind + "  " + pv
	}
	rest := func() string { return x.block(stmts[1:], ind) }
	if out, ok := x.effect(stmts[0], ind); ok {
		if out == "" {
			return rest()
		}
		return out + "\n" + ind + rest()
	}
	switch s := stmts[0].(type) {
	case *ast.ReturnStmt:
		if x.recvObj != nil {
			return x.stateReturn(s, ind)
		}
		parts := make([]string, len(s.Results))
		for i := range s.Results {
			if len(x.results) == len(s.Results) && x.typedResults {
				parts[i] = x.exprT(s.Results[i], x.results[i])
			} else {
				parts[i] = x.expr(s.Results[i])
			}
		}
		val := "(" + strings.Join(parts, ", ") + ")"
		if len(parts) == 1 {
			val = parts[0]
		}
		if x.exit != nil {
			if !x.exit.hasRet {
				fail(s, "return in a loop that is not translated with early exit")
			}
			return x.exitState("false", "(some "+val+")")
		}
		return val
	case *ast.BranchStmt:
		if s.Label == nil && x.exit != nil && x.exit.depth == x.loopDepth {
			if s.Tok == token.CONTINUE {
				return x.exitState("false", x.noRet()) // the next iteration
			}
			if s.Tok == token.BREAK && x.exit.hasBrk && x.inSwitch == 0 {
				return x.exitState("true", x.noRet()) // the remaining iterations do nothing
			}
		}
		fail(s, "%s outside the subset", s.Tok)
	case *ast.AssignStmt:
		return x.assign(s, ind) + "\n" + ind + rest()
	case *ast.DeclStmt:
		return x.decl(s, ind) + rest()
	case *ast.IfStmt:
		if s.Init != nil {
			fail(s, "if with init")
		}
		els := []ast.Stmt{}
		if s.Else != nil {
			els = elseStmts(s.Else)
		}
		if id, isNilTest := x.nilTest(s); isNilTest && s.Else == nil && alwaysReturns(s.Body.List) {
			// header: pointers
			obj := info.Uses[id]
			back := x.facts()
			thenS := x.block(s.Body.List, ind+"  ")
			back()
			x.ptrValue[obj] = true
			restS := x.block(stmts[1:], ind+"  ")
			delete(x.ptrValue, obj)
			return "match " + local(id.Name) + " with\n" + ind + "| none =>\n" + ind + "  " + thenS + "\n" + ind + "| some " + local(id.Name) + " =>\n" + ind + "  " + restS
		}
		if !x.exits(s.Body.List) && !x.exits(els) {
			vars := map[string]bool{}
			x.assigned(s.Body.List, vars)
			x.assigned(els, vars)
			x.wpsDropInner(vars, s)
			vs := make([]string, 0, len(vars))
			for v := range vars {
				vs = append(vs, v)
			}
			sort.Strings(vs)
			if len(vs) == 0 {
				return rest()
			}
			return x.joinIf(s, els, vs, ind) + rest()
		}
		// a branch returns: the statements after the `if` continue each branch that does not
		thenB := append(append([]ast.Stmt{}, s.Body.List...), stmts[1:]...)
		elseB := append(append([]ast.Stmt{}, els...), stmts[1:]...)
		cond := x.expr(s.Cond)
		undo, back := x.assume(s.Cond), x.facts()
		x.learn(s.Cond, true)
		thenS := x.block(thenB, ind+"  ")
		undo()
		back()
		x.learn(s.Cond, false)
		elseS := x.block(elseB, ind+"  ")
		back()
		return "if " + cond + " then\n" + ind + "  " + thenS + "\n" + ind + "else\n" + ind + "  " + elseS
	case *ast.SwitchStmt:
		conds, bodies, def := x.clauses(s)
		ces := x.clauseExprs
		anyRet := x.exits(def)
		for _, b := range bodies {
			anyRet = anyRet || x.exits(b)
		}
		if !anyRet {
			vars := map[string]bool{}
			for _, b := range bodies {
				x.assigned(b, vars)
			}
			x.assigned(def, vars)
			x.wpsDropInner(vars, s)
			vs := make([]string, 0, len(vars))
			for v := range vars {
				vs = append(vs, v)
			}
			sort.Strings(vs)
			if len(vs) == 0 {
				return rest()
			}
			return x.joinSwitch(conds, bodies, def, vs, ind) + rest()
		}
		out := ""
		back := x.facts()
		for i := range conds {
			b := append(append([]ast.Stmt{}, bodies[i]...), stmts[1:]...)
			x.learnCase(ces, i)
			out += "if " + conds[i] + " then\n" + ind + "  " + x.block(b, ind+"  ") + "\n" + ind + "else "
			back()
		}
		d := append(append([]ast.Stmt{}, def...), stmts[1:]...)
		x.learnCase(ces, len(conds))
		dS := x.block(d, ind+"  ")
		back()
		return out + "\n" + ind + "  " + dS
	case *ast.RangeStmt:
		return x.rangeStmt(s, stmts[1:], ind, true)
	case *ast.ForStmt:
		return x.forStmt(s, stmts[1:], ind, true)
	}
	fail(stmts[0], "statement %T", stmts[0])
	return ""
}

// rangeStmt: `for i := range xs { ... }` reading xs[i] only, or `for _, v := range xs { ... }`.
func (x *tr) rangeStmt(s *ast.RangeStmt, after []ast.Stmt, ind string, mustReturn bool) string {
	lt := leanType(info.Types[s.X].Type, s)
	if s.Tok != token.DEFINE || x.loopIndex || !(strings.HasPrefix(lt, "List ") || strings.HasPrefix(lt, "GoMap ")) {
		fail(s, "range statement outside the subset")
	}
	nested := x.loopElem != ""
	if nested && x.recvObj != nil {
		fail(s, "nested loops in a receiver-mutating method")
	}
	_, isMap := info.Types[s.X].Type.Underlying().(*types.Map)
	if x.recvObj != nil && !isMap && s.Value == nil {
		if key, ok := s.Key.(*ast.Ident); ok && key.Name != "_" {
			if x.mutates(s.Body) || usesKeyAsValue(s.Body, info.Defs[key], types.ExprString(s.X)) {
				return x.indexLoop(s, key, after, ind, mustReturn)
			}
		}
	}
	if x.recvObj != nil && x.mutates(s.Body) && (!isMap || returns(s.Body.List)) {
		fail(s, "loop that writes through the receiver outside the subset")
	}
	if x.recvObj == nil && !isMap && s.Value == nil {
		if key, ok := s.Key.(*ast.Ident); ok && key.Name != "_" && usesKeyAsValue(s.Body, info.Defs[key], types.ExprString(s.X)) {
			return x.rangeIndex(s, key, after, ind, mustReturn)
		}
	}
	var keyObj, valObj types.Object
	if key, ok := s.Key.(*ast.Ident); ok && key.Name != "_" {
		keyObj = info.Defs[key]
	}
	if s.Value != nil {
		val, ok := s.Value.(*ast.Ident)
		if !ok || (keyObj != nil && !isMap) {
			fail(s, "range statement outside the subset")
		}
		if val.Name != "_" {
			valObj = info.Defs[val]
		}
	}
	if keyObj == nil && valObj == nil {
		fail(s, "range statement outside the subset")
	}
	if nested || x.recvObj == nil {
		for _, kv := range []ast.Expr{s.Key, s.Value} {
			if id, isId := kv.(*ast.Ident); isId && kv != nil && id.Name != "_" && !x.wpuLoopVar(id) {
				x.noShadow(id)
			}
		}
	}
	xs := x.expr(s.X)
	elem := "elem_"
	if nested {
		elem = fmt.Sprintf("elem%d_", len(x.outer)+1)
	}
	saved := loopSave{x.loopSlice, x.loopKey, x.loopVal, x.loopElem, x.loopMap, x.keyStores}
	if nested {
		x.outer = append(x.outer, saved)
	}
	x.loopSlice, x.loopKey, x.loopVal, x.loopElem, x.loopMap = types.ExprString(s.X), keyObj, valObj, elem, isMap
	x.loopDepth++
	oldNoImplicit := x.noImplicitReturn
	x.noImplicitReturn = true
	left := false
	leave := func() {
		if left {
			return
		}
		left = true
		x.loopDepth--
		if nested {
			x.outer = x.outer[:len(x.outer)-1]
		}
		x.loopSlice, x.loopKey, x.loopVal, x.loopElem, x.loopMap, x.noImplicitReturn = saved.slice, saved.key, saved.val, saved.elem, saved.isMap, oldNoImplicit
		x.keyStores = saved.keyStores
	}
	defer leave()
	body := s.Body.List
	// a body that stores into the map it ranges over (at the key of the current entry only, see
	// checkRangedStore) reads `m[k]` in the current state, not as the value the loop holds
	x.keyStores = isMap && storesInto(body, types.ExprString(s.X))
	vs := x.assignedOutside(body, s.Body)
	// what is known about the variables the body assigns (on a path that reaches another
	// iteration) does not hold when an iteration starts
	{
		vars, cont := map[string]bool{}, []string{}
		x.assigned(continuing(body), vars)
		for v := range vars {
			cont = append(cont, v)
		}
		x.killNames(cont)
	}
	x.killPlaces(body)
	if returns(body) {
		// one `if c { return e }`: the first element satisfying c, if any
		if len(body) == 1 {
			if ifs, ok := body[0].(*ast.IfStmt); ok && ifs.Init == nil && ifs.Else == nil && len(ifs.Body.List) == 1 {
				if ret, ok := ifs.Body.List[0].(*ast.ReturnStmt); ok && mustReturn && x.exit == nil && !x.mayPanic(body) {
					cond := x.expr(ifs.Cond)
					back := x.facts()
					found := x.block([]ast.Stmt{ret}, ind+"  ")
					back()
					leave()
					rest := x.block(after, ind+"  ")
					if strings.Contains(found, elem) {
						return "match (" + xs + ").find? (fun " + elem + " => " + cond + ") with\n" + ind + "| some " + elem + " => " + found + "\n" + ind + "| none =>\n" + ind + "  " + rest
					}
					return "if (" + xs + ").any (fun " + elem + " => " + cond + ") then\n" + ind + "  " + found + "\n" + ind + "else\n" + ind + "  " + rest
				}
			}
		}
		return x.foldLoop(s, "("+xs+")", elem, "", s.Body, vs, after, ind, mustReturn, leave)
	}
	if hasBranch(body, token.BREAK) || hasBranch(body, token.CONTINUE) || x.mayPanic(body) {
		return x.foldLoop(s, "("+xs+")", elem, "", s.Body, vs, after, ind, mustReturn, leave)
	}
	if len(vs) == 0 {
		fail(s, "loop without effect")
	}
	back := x.facts()
	oldExit := x.exit
	x.exit = nil
	step := x.assignOnly(body, vs, ind+"    ")
	x.exit = oldExit
	back()
	if isMap && x.mutates(s.Body) {
		// the body deletes from the map it ranges over (a store is rejected by effect): an
		// entry removed before it is reached is not produced
		step = "if (GoMap.has " + x.expr(s.X) + " elem_.1) then\n" + ind + "      (" + strings.ReplaceAll(step, "\n", "\n  ") + ")\n" + ind + "    else\n" + ind + "      " + tuple(vs)
	}
	leave()
	x.killNames(vs)
	x.killPlaces(body)
	out := "let " + tuple(vs) + " := (" + xs + ").foldl (fun " + tuple(vs) + " " + elem + " =>\n" + ind + "    " + step + ") " + tuple(vs) + "\n" + ind
	if mustReturn {
		return out + x.block(after, ind)
	}
	return out
}

// foldLoop renders a loop as a fold over the Lean list iter, binder naming the current element
// (header: loops). The context of the loop (element names, index facts) is set by the caller and
// undone by leave. guard, when not empty, is the loop condition that is evaluated again before
// each iteration. The body is translated in block mode when it contains return (or a read that
// may panic), break or continue: the state then carries brk' and ret' as needed.
func (x *tr) foldLoop(s ast.Node, iter, binder, guard string, blk *ast.BlockStmt, vs []string, after []ast.Stmt, ind string, mustReturn bool, leave func()) string {
	body := blk.List
	ex := &exitCtx{vars: append([]string{}, vs...), depth: x.loopDepth}
	ex.hasRet = returns(body) || x.mayPanic(body)
	ex.hasBrk = hasBranch(body, token.BREAK)
	blockMode := ex.hasRet || ex.hasBrk || hasBranch(body, token.CONTINUE)
	if ex.hasRet && (x.recvObj != nil || x.resultLean == "" || !(mustReturn || x.exit != nil)) {
		fail(s, "loop with a return outside the subset")
	}
	if blockMode && x.recvObj != nil {
		fail(s, "loop with break or continue in a receiver-mutating method")
	}
	if !blockMode && len(vs) == 0 {
		fail(s, "loop without effect")
	}
	oldExit, oldSwitch := x.exit, x.inSwitch
	back := x.facts()
	step := ""
	if blockMode {
		x.exit, x.inSwitch = ex, 0
		step = x.block(body, ind+"      ")
	} else {
		x.exit = nil
		if guard == "" {
			step = x.assignOnly(body, vs, ind+"    ")
		} else {
			step = x.assignOnly(body, vs, ind+"      ")
		}
	}
	x.exit, x.inSwitch = oldExit, oldSwitch
	back()
	leave()
	x.killNames(vs)
	x.killPlaces(body)
	cur := stateTuple(ex, "brk'", "ret'")
	lam := "fun " + cur + " " + binder + " =>\n"
	if ex.hasRet {
		lam += ind + "    match ret' with\n" + ind + "    | some _ => " + cur + "\n" + ind + "    | none =>\n"
	}
	if ex.hasBrk {
		lam += ind + "      if brk' then " + cur + " else\n"
	}
	if guard != "" {
		lam += ind + "      if !" + guard + " then " + cur + " else\n"
	}
	if !ex.hasRet && !ex.hasBrk && guard == "" {
		lam += ind + "    " + strings.TrimLeft(step, " ")
	} else {
		lam += ind + "      " + step
	}
	out := "let " + cur + " := " + iter + ".foldl (" + lam + ") " + stateTuple(ex, "false", x.noRetOpt(ex)) + "\n" + ind
	if !ex.hasRet {
		if mustReturn {
			return out + x.block(after, ind)
		}
		return out
	}
	found := "ret'"
	if x.exit != nil {
		found = x.exitState("false", "(some ret')") // the enclosing loop is left too
	}
	if !mustReturn {
		fail(s, "loop with a return in a statement list that goes on")
	}
	return out + "match ret' with\n" + ind + "| some ret' => " + found + "\n" + ind + "| none =>\n" + ind + "  " + x.block(after, ind+"  ")
}

func (x *tr) noRetOpt(ex *exitCtx) string {
	if ex.hasRet {
		return x.noRet()
	}
	return ""
}

// hasBranch: the statements contain a break / continue that belongs to the loop whose body they
// are (nested loops and switches are not entered)
func hasBranch(stmts []ast.Stmt, tok token.Token) bool {
	found := false
	var walk func(n ast.Node) bool
	walk = func(n ast.Node) bool {
		switch v := n.(type) {
		case *ast.ForStmt, *ast.RangeStmt, *ast.FuncLit:
			return false
		case *ast.SwitchStmt, *ast.TypeSwitchStmt, *ast.SelectStmt:
			if tok == token.BREAK {
				return false
			}
		case *ast.BranchStmt:
			if v.Tok == tok && v.Label == nil {
				found = true
			}
		}
		return !found
	}
	for _, st := range stmts {
		ast.Inspect(st, walk)
	}
	return found
}

// mayPanic: the statements contain a read that ends the function with a panic when out of range
func (x *tr) mayPanic(stmts []ast.Stmt) bool {
	if len(x.panicSites) == 0 {
		return false
	}
	found := false
	for _, st := range stmts {
		ast.Inspect(st, func(n ast.Node) bool {
			if n != nil && x.panicSites[n] {
				found = true
			}
			return !found
		})
	}
	return found
}

// assignedOutside: the variables assigned in the body of a loop that are declared outside it, sorted
func (x *tr) assignedOutside(body []ast.Stmt, blk *ast.BlockStmt) []string {
	vars := map[string]bool{}
	x.assigned(body, vars)
	in, out := map[string]bool{}, map[string]bool{}
	for _, st := range body {
		ast.Inspect(st, func(n ast.Node) bool {
			if a, ok := n.(*ast.AssignStmt); ok && a.Tok != token.DEFINE {
				for _, l := range a.Lhs {
					if id, ok := l.(*ast.Ident); ok {
						if obj := info.Uses[id]; obj != nil && obj.Pos() >= blk.Pos() && obj.Pos() <= blk.End() {
							in[id.Name] = true
						} else {
							out[id.Name] = true
						}
					}
				}
			}
			return true
		})
	}
	vs := make([]string, 0, len(vars))
	for v := range vars {
		if in[v] && !out[v] {
			continue
		}
		vs = append(vs, v)
	}
	sort.Strings(vs)
	return vs
}

// indexLoop: `for i := range xs { ... }` over a slice reached from the receiver, whose body
// writes through the receiver or uses i as a value: the loop runs over List.range (len xs).
func (x *tr) indexLoop(s *ast.RangeStmt, key *ast.Ident, after []ast.Stmt, ind string, mustReturn bool) string {
	n := "(List.range (" + x.expr(s.X) + ").length)"
	i := local(key.Name)
	x.loopSlice, x.loopKey, x.loopIndex, x.loopDirty = types.ExprString(s.X), info.Defs[key], true, false
	oldNoImplicit, oldNoResize := x.noImplicitReturn, x.loopNoResize
	x.noImplicitReturn = true
	leave := func() {
		x.loopSlice, x.loopKey, x.loopIndex, x.loopDirty, x.noImplicitReturn, x.loopNoResize = "", nil, false, false, oldNoImplicit, oldNoResize
	}
	defer leave()
	body := s.Body.List
	if returns(body) {
		// exactly `if c { ...; return ... }`: the iterations before the first index satisfying c
		// do nothing, that one runs the block, which returns on every path
		if len(body) == 1 && mustReturn {
			if ifs, ok := body[0].(*ast.IfStmt); ok && ifs.Init == nil && ifs.Else == nil {
				cond := x.expr(ifs.Cond)
				x.loopNoResize = false
				back := x.facts()
				found := x.block(ifs.Body.List, ind+"  ")
				back()
				leave()
				rest := x.block(after, ind+"  ")
				return "match " + n + ".find? (fun " + i + " => " + cond + ") with\n" + ind + "| some " + i + " =>\n" + ind + "  " + found + "\n" + ind + "| none =>\n" + ind + "  " + rest
			}
		}
		fail(s, "loop with a return outside the subset")
	}
	vars := map[string]bool{}
	x.assigned(body, vars)
	vs := make([]string, 0, len(vars))
	for v := range vars {
		vs = append(vs, v)
	}
	sort.Strings(vs)
	if len(vs) == 0 {
		fail(s, "loop without effect")
	}
	x.loopNoResize = true
	back := x.facts()
	step := x.assignOnly(body, vs, ind+"    ")
	back()
	leave()
	out := "let " + tuple(vs) + " := " + n + ".foldl (fun " + tuple(vs) + " " + i + " =>\n" + ind + "    " + step + ") " + tuple(vs) + "\n" + ind
	if mustReturn {
		return out + x.block(after, ind)
	}
	return out
}

func (x *tr) joinIf(s *ast.IfStmt, els []ast.Stmt, vs []string, ind string) string {
	cond := x.expr(s.Cond)
	undo, back := x.assume(s.Cond), x.facts()
	x.learn(s.Cond, true)
	thenS := x.assignOnly(s.Body.List, vs, ind+"    ")
	undo()
	back()
	x.learn(s.Cond, false)
	elseS := x.assignOnly(els, vs, ind+"    ")
	back()
	x.killNames(vs)
	x.killPlaces(s.Body.List, els)
	return "let " + tuple(vs) + " := (if " + cond + " then\n" + ind + "    (" + thenS + ")\n" +
		ind + "  else\n" + ind + "    (" + elseS + "))\n" + ind
}

func (x *tr) joinSwitch(conds []string, bodies [][]ast.Stmt, def []ast.Stmt, vs []string, ind string) string {
	out := ""
	ces := x.clauseExprs
	back := x.facts()
	for i := range conds {
		x.learnCase(ces, i)
		out += "if " + conds[i] + " then\n" + ind + "    (" + x.assignOnly(bodies[i], vs, ind+"    ") + ")\n" + ind + "  else "
		back()
	}
	x.learnCase(ces, len(conds))
	out += "(" + x.assignOnly(def, vs, ind+"    ") + ")"
	back()
	x.killNames(vs)
	x.killPlaces(append(bodies, def)...)
	return "let " + tuple(vs) + " := (" + out + ")\n" + ind
}

// ---------- functions ----------

// function translates d; when a read whose range cannot be established is met (header: panics)
// the translation starts again with that site recorded, until no new site appears.
func (x *tr) function(target string, d *ast.FuncDecl) (out string, err string) {
	x.panicSites = map[ast.Node]bool{}
	for {
		again := false
		nGen := len(genOrder)
		out, err, again = x.functionOnce(target, d)
		if !again {
			return out, err
		}
		for _, g := range genOrder[nGen:] {
			delete(genStructs, g)
		}
		genOrder = genOrder[:nGen]
	}
}

func (x *tr) functionOnce(target string, d *ast.FuncDecl) (out string, err string, again bool) {
	defer func() {
		if e := recover(); e != nil {
			if _, isRestart := e.(restart); isRestart {
				again = true
				return
			}
			u, ok := e.(unsupported)
			if !ok {
				panic(e)
			}
			err = u.why
		}
	}()
	x.fn, x.recvObj, x.recvName, x.hasResult = d, nil, "", false
	x.nilable = map[types.Object]bool{}
	ast.Inspect(d.Body, func(n ast.Node) bool {
		// header: nil slices - local slice variables that are assigned or compared with nil
		mark := func(e, other ast.Expr) {
			if id, ok := e.(*ast.Ident); ok && info.Types[other].IsNil() {
				obj := info.Uses[id]
				if obj == nil {
					obj = info.Defs[id]
				}
				if v, isVar := obj.(*types.Var); isVar && !v.IsField() && v.Pos() > d.Body.Pos() {
					if _, isSl := v.Type().Underlying().(*types.Slice); isSl {
						x.nilable[obj] = true
					}
				}
			}
		}
		switch v := n.(type) {
		case *ast.AssignStmt:
			if len(v.Lhs) == len(v.Rhs) {
				for i := range v.Lhs {
					mark(v.Lhs[i], v.Rhs[i])
				}
			}
		case *ast.BinaryExpr:
			if v.Op == token.EQL || v.Op == token.NEQ {
				mark(v.X, v.Y)
			}
		}
		return true
	})
	x.nonNil, x.nonNeg = map[string]bool{}, map[types.Object]bool{}
	x.loopSlice, x.loopKey, x.loopVal, x.loopElem, x.loopMap = "", nil, nil, "", false
	x.loopIndex, x.loopDirty, x.loopNoResize, x.noImplicitReturn = false, false, false, false
	x.owned, x.ptrValue, x.extra, x.extraSeen = map[types.Object]int{}, map[types.Object]bool{}, nil, map[string]bool{}
	x.unmarshals, x.results, x.resultLean, x.typedResults = map[*ast.CallExpr]int{}, nil, "", false
	x.lenAtLeast, x.nonEmpty, x.errNil, x.guardedBy = map[string]int64{}, map[string]bool{}, map[types.Object]bool{}, map[types.Object]types.Object{}
	x.outer, x.exit, x.loopDepth, x.inSwitch, x.parentSel = nil, nil, 0, 0, map[*ast.Ident]bool{}
	x.idxVars, x.idxLt, x.idxPos, x.guarded, x.keyStores = map[types.Object]bool{}, map[string]map[types.Object]bool{}, map[types.Object]bool{}, map[ast.Node]bool{}, false
	if x.mutating == nil {
		x.mutating = map[string]bool{}
	}
	recvT := ""
	if d.Recv != nil && len(d.Recv.List) == 1 && len(d.Recv.List[0].Names) == 1 {
		rt := info.Types[d.Recv.List[0].Type].Type
		if st := structOf(rt); st == "Type" || st == "Schema" {
			x.recvObj, x.recvName = info.Defs[d.Recv.List[0].Names[0]], d.Recv.List[0].Names[0].Name
			if !x.mutates(d.Body) {
				x.recvObj, x.recvName = nil, "" // a pure method: translated as before
			} else if _, isPtr := rt.(*types.Pointer); !isPtr {
				fail(d, "writes through a value receiver")
			} else {
				recvT = leanType(rt, d)
			}
		}
	}
	wpOwner = ownerOf(target)
	x.wptBegin(target, d)
	params := []string{}
	add := func(fl *ast.FieldList) {
		if fl == nil {
			return
		}
		for _, f := range fl.List {
			ft := info.Types[f.Type].Type
			if pt, isP := ft.(*types.Pointer); isP && fl == d.Recv && optionPointer(pt) {
				// a pointer receiver is the value it points to
				ft = pt.Elem()
				for _, n := range f.Names {
					x.ptrValue[info.Defs[n]] = true
				}
			}
			t := leanType(ft, f)
			for _, n := range f.Names {
				params = append(params, "("+local(n.Name)+" : "+t+")")
			}
		}
	}
	add(d.Recv)
	add(d.Type.Params)
	if d.Type.Results == nil && x.recvObj == nil && !x.wpuThreads(d) {
		fail(d, "no result")
	}
	res := []string{}
	if x.recvObj != nil {
		res = append(res, recvT)
	}
	if d.Type.Results != nil {
		for _, f := range d.Type.Results.List {
			if len(f.Names) > 0 {
				fail(d, "named results")
			}
			res = append(res, leanType(info.Types[f.Type].Type, f))
			rt := info.Types[f.Type].Type
			x.results = append(x.results, rt)
			if pt, isP := rt.(*types.Pointer); (isP && optionPointer(pt)) || (x.recvObj == nil && len(d.Type.Results.List) > 1 && isError(f.Type)) {
				x.typedResults = true
			}
		}
		if x.recvObj == nil {
			x.resultLean = strings.Join(res, " × ")
			res = x.wptResults(target, res)
		}
	}
	if x.recvObj != nil {
		if len(res) > 2 {
			fail(d, "several results")
		}
		x.hasResult = len(res) == 2
	}
	res = x.wpuResults(d, res)
	body := x.block(d.Body.List, "  ")
	if x.recvObj != nil {
		x.mutating[leanName(target)] = x.hasResult
		x.recvObj = nil
	}
	pos := fset.Position(d.Pos())
	x.wptDone(target)
	params = append(params, x.extra...)
	return fmt.Sprintf("/-- %s:%d `%s` -/\ndef %s %s : %s :=\n  %s\n", strings.TrimPrefix(pos.Filename, os.Args[1]+"/"), pos.Line, target,
		leanName(target), strings.Join(params, " "), strings.Join(res, " × "), body), "", false
}

func main() {
	if len(os.Args) < 2 {
		fmt.Fprintln(os.Stderr, "usage: translate <repo>")
		os.Exit(2)
	}
	pkgs, err := parser.ParseDir(fset, os.Args[1], func(fi os.FileInfo) bool {
		return !strings.HasSuffix(fi.Name(), "_test.go") && fi.Name() != "verif_export.go"
	}, parser.ParseComments)
	if err != nil || pkgs["jsonapi"] == nil {
		fmt.Fprintln(os.Stderr, "parse:", err)
		os.Exit(1)
	}
	names := []string{}
	for n := range pkgs["jsonapi"].Files {
		names = append(names, n)
	}
	sort.Strings(names)
	var files []*ast.File
	for _, n := range names {
		files = append(files, pkgs["jsonapi"].Files[n])
	}
	conf := types.Config{Importer: importer.ForCompiler(fset, "source", nil), Error: func(error) {}}
	_, _ = conf.Check("jsonapi", fset, files, info)
	decls := map[string]*ast.FuncDecl{}
	for _, f := range files {
		for _, d := range f.Decls {
			fd, ok := d.(*ast.FuncDecl)
			if !ok || fd.Body == nil {
				continue
			}
			name := fd.Name.Name
			if fd.Recv != nil && len(fd.Recv.List) == 1 {
				t := fd.Recv.List[0].Type
				if s, ok := t.(*ast.StarExpr); ok {
					t = s.X
				}
				if id, ok := t.(*ast.Ident); ok {
					name = id.Name + "." + name
				}
			}
			decls[name] = fd
		}
	}
	if len(os.Args) > 2 && os.Args[2] == "-all" {
		// discovery: which functions of the package are inside the subset today
		all := []string{}
		for n := range decls {
			all = append(all, n)
		}
		sort.Strings(all)
		x := &tr{translated: map[string]bool{}}
		for _, t := range targets {
			if d := decls[t]; d != nil {
				if _, why := x.function(t, d); why == "" {
					x.translated[leanName(t)] = true
				}
			}
		}
		for _, n := range all {
			_, why := x.function(n, decls[n])
			if why == "" {
				why = "TRANSLATES"
			}
			fmt.Printf("%-40s %s\n", n, why)
		}
		return
	}
	fmt.Println("/- GENERATED by harness/cmd/translate from /repo on every run (T1b). Do not edit. -/")
	fmt.Println("import Jsonapi.Model.Url")
	fmt.Println("set_option linter.unusedVariables false")
	fmt.Println("namespace Jsonapi.Gen")
	fmt.Println("open Jsonapi")
	fmt.Println()
	x := &tr{translated: map[string]bool{}}
	var buf strings.Builder
	for _, t := range targets {
		d := decls[t]
		if d == nil {
			fmt.Fprintf(&buf, "/-- `%s` is no longer a function of the package -/\ndef %s_untranslated : String := \"missing\"\n\n", t, leanName(t))
			continue
		}
		nGen := len(genOrder)
		out, why := x.function(t, d)
		if why != "" {
			for _, g := range genOrder[nGen:] { // structures met by a function that is not translated are not printed
				delete(genStructs, g)
			}
			genOrder = genOrder[:nGen]
			fmt.Fprintf(&buf, "/-- `%s` is outside the translated subset: %s -/\ndef %s_untranslated : String := %s\n\n", t, strings.ReplaceAll(why, "-/", "- /"), leanName(t), strconv.Quote(why))
			continue
		}
		x.translated[leanName(t)] = true
		fmt.Fprintln(&buf, out)
	}
	wptEnd()
	for _, name := range genOrder {
		g := genStructs[name]
		fmt.Printf("/-- %s `%s` -/\nstructure %s where\n", strings.TrimPrefix(g.pos, os.Args[1]+"/"), name, name)
		for _, f := range g.fields {
			fmt.Printf("  %s : %s\n", f.lean, leanType(f.t, nil))
		}
		fmt.Println()
	}
	fmt.Print(wpsPrelude())
	fmt.Print(buf.String())
	fmt.Println("end Jsonapi.Gen")
}

// ---------- typed expressions, facts of the path, delegated calls ----------

// exprT translates e where a value of type want is expected: the untyped nil, a string or an
// int stored into an `any`, an `Error` value used as an `error`, a local pointer to a structure.
func (x *tr) exprT(e ast.Expr, want types.Type) string {
	if want == nil {
		return x.expr(e)
	}
	orig := e
	for {
		p, ok := e.(*ast.ParenExpr)
		if !ok {
			break
		}
		e = p.X
	}
	tv := info.Types[e]
	if tv.IsNil() {
		if types.Identical(want, types.Universe.Lookup("error").Type()) {
			return "(Res.ok () : Res Unit)"
		}
		switch w := want.Underlying().(type) {
		case *types.Pointer:
			if optionPointer(w) {
				return "(none : " + leanType(want, e) + ")"
			}
		case *types.Map, *types.Slice:
			return "([] : " + leanType(want, e) + ")"
		}
		fail(e, "nil of type %s", want)
	}
	if types.Identical(want, types.Universe.Lookup("error").Type()) {
		if n, ok := tv.Type.(*types.Named); ok && isPkgNamed(n, "Error") {
			// a struct value converted to the interface `error`: never nil; the payload is not modelled
			if call, isCall := e.(*ast.CallExpr); isCall {
				for _, a := range call.Args {
					x.expr(a) // must be inside the subset (no effect); the value is dropped
				}
				return "(Res.err : Res Unit)"
			}
			fail(e, "an Error value that is not a constructor call")
		}
		return x.exprAs(orig, true)
	}
	if it, ok := want.Underlying().(*types.Interface); ok && it.Empty() && tv.Type != nil {
		if _, already := tv.Type.Underlying().(*types.Interface); !already {
			switch {
			case isString(tv.Type):
				return "(PageVal.str " + x.expr(e) + ")"
			case isInteger(tv.Type) && !isUnsigned(tv.Type):
				return "(PageVal.int " + x.expr(e) + ")"
			}
			fail(e, "a value of type %s stored into an `any`", tv.Type)
		}
	}
	if id, ok := e.(*ast.Ident); ok {
		if obj := info.Uses[id]; obj != nil && x.owned[obj] == 2 {
			if pt, isP := want.(*types.Pointer); isP && optionPointer(pt) {
				return "(some " + local(id.Name) + ")"
			}
			fail(e, "the local pointer %s is used as a value", id.Name)
		}
	}
	return x.expr(orig)
}

// kill forgets the facts that mention the assigned place (a variable, or a field reached by
// selections: `url` kills what is known of `url.Fragments`, `url.IsCol` does not).
func (x *tr) kill(lhs ast.Expr) {
	e := lhs
	for {
		switch v := e.(type) {
		case *ast.ParenExpr:
			e = v.X
			continue
		case *ast.StarExpr:
			e = v.X
			continue
		case *ast.IndexExpr:
			e = v.X
			continue
		case *ast.UnaryExpr:
			e = v.X
			continue
		}
		break
	}
	path := e
	for {
		if sel, ok := path.(*ast.SelectorExpr); ok {
			path = sel.X
			continue
		}
		break
	}
	id, ok := path.(*ast.Ident)
	if !ok {
		x.lenAtLeast, x.nonEmpty, x.idxLt = map[string]int64{}, map[string]bool{}, map[string]map[types.Object]bool{}
		return
	}
	t := types.ExprString(e)
	for k := range x.idxLt {
		if mentions(k, t) {
			delete(x.idxLt, k)
		}
	}
	for k := range x.lenAtLeast {
		if mentions(k, t) {
			delete(x.lenAtLeast, k)
		}
	}
	for k := range x.nonEmpty {
		if mentions(k, t) {
			delete(x.nonEmpty, k)
		}
	}
	if obj := info.Uses[id]; obj != nil && e == path {
		delete(x.errNil, obj)
	}
}

// mentions: the identifier occurs in the source text (as a whole word)
func mentions(text, ident string) bool {
	isWord := func(c byte) bool {
		return c == '_' || (c >= '0' && c <= '9') || (c >= 'a' && c <= 'z') || (c >= 'A' && c <= 'Z')
	}
	for i := 0; i+len(ident) <= len(text); i++ {
		if text[i:i+len(ident)] == ident && (i == 0 || !isWord(text[i-1])) && (i+len(ident) == len(text) || !isWord(text[i+len(ident)])) {
			return true
		}
	}
	return false
}

// pureText: the source text of e when e is an expression without effect whose value depends on
// variables only (identifiers, selections, len, url.Values.Get), else "".
func pureText(e ast.Expr) string {
	ok := true
	ast.Inspect(e, func(n ast.Node) bool {
		switch v := n.(type) {
		case nil, *ast.Ident, *ast.SelectorExpr, *ast.ParenExpr, *ast.BasicLit:
		case *ast.CallExpr:
			if sel, isSel := v.Fun.(*ast.SelectorExpr); !isSel || sel.Sel.Name != "Get" || !isValues(info.Types[sel.X].Type) {
				ok = false
			}
		default:
			ok = false
		}
		return ok
	})
	if !ok {
		return ""
	}
	return types.ExprString(e)
}

func isValues(t types.Type) bool {
	n, ok := t.(*types.Named)
	return ok && n.Obj().Name() == "Values" && n.Obj().Pkg() != nil && n.Obj().Pkg().Path() == "net/url"
}

// lenArg: e is `len(T)`; the source text of T when T is pure
func lenArg(e ast.Expr) string {
	if p, ok := e.(*ast.ParenExpr); ok {
		return lenArg(p.X)
	}
	call, ok := e.(*ast.CallExpr)
	if !ok || len(call.Args) != 1 {
		return ""
	}
	if id, isId := call.Fun.(*ast.Ident); !isId || id.Name != "len" {
		return ""
	} else if _, isB := info.Uses[id].(*types.Builtin); !isB {
		return ""
	}
	return pureText(call.Args[0])
}

// learn records what the condition c tells when it is true (truth) or false (!truth); the
// result undoes nothing: the caller restores the facts with x.facts().
func (x *tr) learn(c ast.Expr, truth bool) {
	switch b := c.(type) {
	case *ast.ParenExpr:
		x.learn(b.X, truth)
	case *ast.UnaryExpr:
		if b.Op == token.NOT {
			x.learn(b.X, !truth)
		}
	case *ast.BinaryExpr:
		if (b.Op == token.LAND && truth) || (b.Op == token.LOR && !truth) {
			x.learn(b.X, truth)
			x.learn(b.Y, truth)
			return
		}
		op := b.Op
		if !truth {
			neg := map[token.Token]token.Token{token.EQL: token.NEQ, token.NEQ: token.EQL, token.LSS: token.GEQ, token.GEQ: token.LSS, token.GTR: token.LEQ, token.LEQ: token.GTR}
			var known bool
			if op, known = neg[op]; !known {
				return
			}
		}
		// i > 0 for an index variable
		if id, ok := b.X.(*ast.Ident); ok && x.idxVars[info.Uses[id]] {
			if tv := info.Types[b.Y]; tv.Value != nil && tv.Value.Kind() == constant.Int {
				k, _ := constant.Int64Val(tv.Value)
				if (op == token.GTR && k >= 0) || (op == token.GEQ && k >= 1) || (op == token.NEQ && k == 0) {
					x.idxPos[info.Uses[id]] = true
				}
			}
			return
		}
		// len(T) op k
		if t := lenArg(b.X); t != "" {
			if tv := info.Types[b.Y]; tv.Value != nil && tv.Value.Kind() == constant.Int {
				k, exact := constant.Int64Val(tv.Value)
				if !exact {
					return
				}
				atLeast := int64(-1)
				switch op {
				case token.GEQ, token.EQL:
					atLeast = k
				case token.GTR:
					atLeast = k + 1
				case token.NEQ:
					if k == 0 {
						atLeast = 1
					}
				}
				if atLeast > x.lenAtLeast[t] {
					x.lenAtLeast[t] = atLeast
				}
				if atLeast >= 1 && isString(info.Types[b.X.(*ast.CallExpr).Args[0]].Type) {
					x.nonEmpty[t] = true
				}
			}
			return
		}
		// T != ""
		if t := pureText(b.X); t != "" && isString(info.Types[b.X].Type) && op == token.NEQ {
			if tv := info.Types[b.Y]; tv.Value != nil && tv.Value.Kind() == constant.String && constant.StringVal(tv.Value) == "" {
				x.nonEmpty[t] = true
				if x.lenAtLeast[t] < 1 {
					x.lenAtLeast[t] = 1
				}
			}
			return
		}
		// err == nil
		if id, ok := b.X.(*ast.Ident); ok && op == token.EQL && info.Types[b.Y].IsNil() && isError(b.X) {
			if obj := info.Uses[id]; obj != nil {
				x.errNil[obj] = true
			}
		}
	}
}

// addExtra declares a parameter of the translated function for a delegated call.
func (x *tr) addExtra(name, typ string) string {
	if !x.extraSeen[name] {
		x.extraSeen[name] = true
		x.extra = append(x.extra, "("+name+" : "+typ+")")
	}
	return name
}

// pkgCall: the call is `pkg.Name(…)` of an imported package
func pkgCall(call *ast.CallExpr) string {
	if sel, ok := call.Fun.(*ast.SelectorExpr); ok {
		if pkg, ok := sel.X.(*ast.Ident); ok {
			if pn, isPkg := info.Uses[pkg].(*types.PkgName); isPkg {
				return pn.Imported().Path() + "." + sel.Sel.Name
			}
		}
	}
	return ""
}

// target: one left-hand side of an assignment with several results - a variable or a place
// reached from a local structure; the result is the `let` line binding it to val.
func (x *tr) target(l ast.Expr, define bool, val string) string {
	if id, ok := l.(*ast.Ident); ok {
		if id.Name == "_" {
			return ""
		}
		if define && info.Defs[id] != nil {
			x.noShadow(id)
		} else if obj := info.Uses[id]; obj == nil || x.owned[obj] != 0 || (x.recvObj != nil && obj == x.recvObj) {
			fail(l, "assignment to %s", id.Name)
		}
		x.kill(l)
		return "let " + local(id.Name) + " := " + val
	}
	if !x.rooted(l) {
		fail(l, "assignment to %s", types.ExprString(l))
	}
	if _, isIx := l.(*ast.IndexExpr); isIx {
		fail(l, "assignment to an element")
	}
	p := x.place(l)
	x.kill(l)
	delete(x.nonNil, types.ExprString(l))
	return p.put(val)
}

func joinLines(ind string, lines ...string) string {
	out := []string{}
	for _, l := range lines {
		if l != "" {
			out = append(out, l)
		}
	}
	return strings.Join(out, "\n"+ind)
}

// multiAssign: `a, ok = m[k]`, `a, err = f(…)` (f translated, delegated, or strconv.Atoi) and
// `err = json.Unmarshal([]byte(e), p)`.
func (x *tr) multiAssign(s *ast.AssignStmt, ind string) (string, bool) {
	if s.Tok != token.ASSIGN && s.Tok != token.DEFINE || len(s.Rhs) != 1 {
		return "", false
	}
	define := s.Tok == token.DEFINE
	if call, ok := s.Rhs[0].(*ast.CallExpr); ok && len(s.Lhs) == 1 && pkgCall(call) == "encoding/json.Unmarshal" {
		c := x.unmarshal(call, ind)
		return joinLines(ind, c, x.target(s.Lhs[0], define, "call'.2")), true
	}
	if len(s.Lhs) != 2 {
		return "", false
	}
	switch r := s.Rhs[0].(type) {
	case *ast.IndexExpr:
		mt, isMap := info.Types[r.X].Type.Underlying().(*types.Map)
		if !isMap || !isString(mt.Key()) {
			return "", false
		}
		get := "(GoMap.get? " + x.expr(r.X) + " " + x.expr(r.Index) + ")"
		return joinLines(ind, "let get' := "+get,
			x.target(s.Lhs[0], define, "(get'.getD "+zeroOf(mt.Elem(), r)+")"),
			x.target(s.Lhs[1], define, "get'.isSome")), true
	case *ast.CallExpr:
		if pkgCall(r) == "strconv.Atoi" && len(r.Args) == 1 {
			// header: strconv.Atoi
			v, isV := s.Lhs[0].(*ast.Ident)
			e, isE := s.Lhs[1].(*ast.Ident)
			if !isV || !isE || !define || info.Defs[v] == nil || info.Defs[e] == nil {
				fail(s, "strconv.Atoi outside `n, err := strconv.Atoi(s)`")
			}
			x.guardedBy[info.Defs[v]] = info.Defs[e]
			return joinLines(ind, "let atoi' := (parseInt 64 "+x.expr(r.Args[0])+")",
				x.target(s.Lhs[0], define, "(atoi'.getD 0)"),
				x.target(s.Lhs[1], define, "(if atoi'.isSome then (Res.ok () : Res Unit) else Res.err)")), true
		}
		tup, isTup := info.Types[r].Type.(*types.Tuple)
		if !isTup || tup.Len() != 2 {
			return "", false
		}
		callS := ""
		if id, isId := r.Fun.(*ast.Ident); isId {
			if fn, isFn := info.Uses[id].(*types.Func); isFn && fn.Pkg() != nil && fn.Pkg().Name() == "jsonapi" {
				sig := fn.Type().(*types.Signature)
				args := ""
				for i, a := range r.Args {
					args += " " + x.exprT(a, sig.Params().At(i).Type())
				}
				if x.translated[id.Name] {
					callS = "(Gen." + id.Name + args + ")"
				} else if delegatedFuncs[id.Name] {
					// header: delegated calls
					ts := []string{}
					for i := 0; i < sig.Params().Len(); i++ {
						ts = append(ts, leanType(sig.Params().At(i).Type(), r))
					}
					callS = "(" + x.addExtra(id.Name+"'", strings.Join(ts, " → ")+" → "+leanType(sig.Results(), r)) + args + ")"
				}
			}
		}
		if callS == "" {
			return "", false
		}
		return joinLines(ind, "let call' := "+callS,
			x.target(s.Lhs[0], define, "call'.1"),
			x.target(s.Lhs[1], define, "call'.2")), true
	}
	return "", false
}

// functions of the package that are taken as parameters when they are outside the subset
var delegatedFuncs = map[string]bool{"NewParams": true}

// unmarshal: `json.Unmarshal([]byte(e), p)` with p = `&place` or a place of pointer type, the place
// reached from a local structure. Binds call' to (new value of the target, error) and stores .1.
func (x *tr) unmarshal(call *ast.CallExpr, ind string) string {
	if len(call.Args) != 2 {
		fail(call, "json.Unmarshal")
	}
	conv, ok := call.Args[0].(*ast.CallExpr)
	if !ok || len(conv.Args) != 1 || !info.Types[conv.Fun].IsType() || !isString(info.Types[conv.Args[0]].Type) {
		fail(call, "json.Unmarshal of something else than []byte(<string>)")
	}
	var tgt ast.Expr
	if u, isU := call.Args[1].(*ast.UnaryExpr); isU && u.Op == token.AND {
		tgt = u.X
	} else if pt, isP := info.Types[call.Args[1]].Type.(*types.Pointer); isP && optionPointer(pt) {
		tgt = call.Args[1]
	}
	if tgt == nil || !x.rooted(tgt) {
		fail(call, "json.Unmarshal into something else than a place of a local structure")
	}
	n, seen := x.unmarshals[call]
	if !seen {
		n = len(x.unmarshals)
		x.unmarshals[call] = n
	}
	t := leanType(info.Types[tgt].Type, call)
	name := x.addExtra(fmt.Sprintf("unmarshal%d'", n), "GoString → "+t+" → "+t+" × Res Unit")
	p := x.place(tgt)
	line := "let call' := (" + name + " " + x.expr(conv.Args[0]) + " " + p.get + ")"
	x.kill(tgt)
	return line + "\n" + ind + p.put("call'.1")
}

// ownedWrites adds the local structures written in the statements to out.
func (x *tr) ownedWrites(stmts []ast.Stmt, out map[string]bool) {
	if len(x.owned) == 0 {
		return
	}
	root := func(e ast.Expr) {
		if _, isId := e.(*ast.Ident); isId || !x.rooted(e) {
			return
		}
		for {
			switch v := e.(type) {
			case *ast.ParenExpr:
				e = v.X
				continue
			case *ast.StarExpr:
				e = v.X
				continue
			case *ast.SelectorExpr:
				e = v.X
				continue
			case *ast.IndexExpr:
				e = v.X
				continue
			}
			break
		}
		if id, ok := e.(*ast.Ident); ok && info.Uses[id] != nil && x.owned[info.Uses[id]] != 0 {
			out[id.Name] = true
		}
	}
	for _, st := range stmts {
		ast.Inspect(st, func(n ast.Node) bool {
			switch v := n.(type) {
			case *ast.AssignStmt:
				for _, l := range v.Lhs {
					root(l)
				}
			case *ast.CallExpr:
				if pkgCall(v) == "encoding/json.Unmarshal" && len(v.Args) == 2 {
					if u, isU := v.Args[1].(*ast.UnaryExpr); isU && u.Op == token.AND {
						root(u.X)
					} else {
						root(v.Args[1])
					}
				}
				if id, ok := v.Fun.(*ast.Ident); ok && (id.Name == "delete" || id.Name == "copy") && len(v.Args) > 0 {
					root(v.Args[0])
				}
				if pkgCall(v) == "sort.Strings" && len(v.Args) == 1 {
					root(v.Args[0])
				}
			}
			return true
		})
	}
}

// checkOwned: the local v (declared with a composite literal of a generated structure) is only
// used as the root of a selection or as a result of a return statement, so that no copy of it
// and no second pointer to it exist.
func (x *tr) checkOwned(obj types.Object, name string) {
	var stack []ast.Node
	ast.Inspect(x.fn.Body, func(n ast.Node) bool {
		if n == nil {
			stack = stack[:len(stack)-1]
			return true
		}
		if id, ok := n.(*ast.Ident); ok && info.Uses[id] == obj {
			parent := stack[len(stack)-1]
			switch p := parent.(type) {
			case *ast.SelectorExpr:
				if p.X != ast.Expr(id) {
					fail(id, "use of the local structure %s", name)
				}
				if _, isField := info.Uses[p.Sel].(*types.Var); !isField {
					fail(id, "method call on the local structure %s", name)
				}
			case *ast.ReturnStmt:
			default:
				fail(id, "the local structure %s is used other than by selection or in a return", name)
			}
		}
		stack = append(stack, n)
		return true
	})
}

// learnCase: inside case i of a switch without tag the conditions of the cases before it are
// false and its own is true (i = number of cases: the default).
func (x *tr) learnCase(ces []ast.Expr, i int) {
	for j := 0; j < i && j < len(ces); j++ {
		if ces[j] != nil {
			x.learn(ces[j], false)
		}
	}
	if i < len(ces) && ces[i] != nil {
		x.learn(ces[i], true)
	}
}

// killNames forgets the facts about the variables assigned in a branch or loop that has been joined.
func (x *tr) killNames(vs []string) {
	for _, v := range vs {
		for k := range x.idxLt {
			if mentions(k, v) {
				delete(x.idxLt, k)
			}
		}
		for k := range x.lenAtLeast {
			if mentions(k, v) {
				delete(x.lenAtLeast, k)
			}
		}
		for k := range x.nonEmpty {
			if mentions(k, v) {
				delete(x.nonEmpty, k)
			}
		}
		for o := range x.errNil {
			if o.Name() == v {
				delete(x.errNil, o)
			}
		}
	}
}

// killPlaces forgets that a map is non-nil when the statements assign the place that holds it
// (or a structure that contains it); a store into the map keeps it non-nil.
func (x *tr) killPlaces(lists ...[]ast.Stmt) {
	drop := func(e ast.Expr) {
		t := types.ExprString(e)
		for k := range x.nonNil {
			if k == t || strings.HasPrefix(k, t+".") {
				delete(x.nonNil, k)
			}
		}
	}
	for _, stmts := range lists {
		for _, st := range stmts {
			ast.Inspect(st, func(n ast.Node) bool {
				switch v := n.(type) {
				case *ast.AssignStmt:
					for _, l := range v.Lhs {
						if ix, isIx := l.(*ast.IndexExpr); isIx {
							if _, isMap := info.Types[ix.X].Type.Underlying().(*types.Map); isMap {
								continue
							}
						}
						drop(l)
					}
				case *ast.CallExpr:
					if pkgCall(v) == "encoding/json.Unmarshal" && len(v.Args) == 2 {
						if u, isU := v.Args[1].(*ast.UnaryExpr); isU && u.Op == token.AND {
							drop(u.X)
						} else {
							drop(v.Args[1])
						}
					}
					if _, recv, isM := x.mutCall(v); isM {
						drop(recv)
					}
				}
				return true
			})
		}
	}
}

// lenMinus: e is `len(of) - c` with a constant c >= 1; the result is c (0 otherwise)
func lenMinus(e ast.Expr, of ast.Expr) int64 {
	b, ok := e.(*ast.BinaryExpr)
	if !ok || b.Op != token.SUB {
		return 0
	}
	call, ok := b.X.(*ast.CallExpr)
	if !ok || len(call.Args) != 1 || types.ExprString(call.Args[0]) != types.ExprString(of) {
		return 0
	}
	if id, isId := call.Fun.(*ast.Ident); !isId || id.Name != "len" {
		return 0
	} else if _, isB := info.Uses[id].(*types.Builtin); !isB {
		return 0
	}
	tv := info.Types[b.Y]
	if tv.Value == nil || tv.Value.Kind() != constant.Int {
		return 0
	}
	c, exact := constant.Int64Val(tv.Value)
	if !exact || c < 1 {
		return 0
	}
	return c
}

// methods of the standard library whose calls become parameters of the translated function
var delegatedMethods = map[string]bool{"net/url.URL.Query": true}

// recvValue: the receiver of a method call, as a value (a pointer receiver is the value it
// points to; a pointer that may be nil is rejected)
func (x *tr) recvValue(e ast.Expr) string {
	if pt, isP := info.Types[e].Type.(*types.Pointer); isP && optionPointer(pt) && !x.isPtrValue(e) {
		fail(e, "%s may be nil", types.ExprString(e))
	}
	return x.expr(e)
}

// splitInit: the statements `init; if c { … } else { … }` of an `if` with an init statement. A
// variable declared by init must not hide one of an enclosing block (it would stay visible, in
// the Lean rendering, after the `if`).
func (x *tr) splitInit(s *ast.IfStmt) []ast.Stmt {
	if as, ok := s.Init.(*ast.AssignStmt); ok && as.Tok == token.DEFINE {
		for _, l := range as.Lhs {
			if id, isId := l.(*ast.Ident); isId {
				x.noShadow(id)
			}
		}
	}
	c := *s
	c.Init = nil
	return []ast.Stmt{s.Init, &c}
}

// nilTest: the condition of s is `p == nil` with p a pointer variable rendered as an Option
func (x *tr) nilTest(s *ast.IfStmt) (*ast.Ident, bool) {
	b, ok := s.Cond.(*ast.BinaryExpr)
	if !ok || b.Op != token.EQL || !info.Types[b.Y].IsNil() {
		return nil, false
	}
	id, ok := b.X.(*ast.Ident)
	if !ok || info.Uses[id] == nil {
		return nil, false
	}
	pt, isP := info.Uses[id].Type().(*types.Pointer)
	if !isP || !optionPointer(pt) || x.ptrValue[info.Uses[id]] || x.owned[info.Uses[id]] != 0 {
		return nil, false
	}
	// p is assigned nowhere in the function
	assigned := false
	ast.Inspect(x.fn.Body, func(n ast.Node) bool {
		switch v := n.(type) {
		case *ast.AssignStmt:
			for _, l := range v.Lhs {
				if li, isId := l.(*ast.Ident); isId && info.Uses[li] == info.Uses[id] {
					assigned = true
				}
			}
		case *ast.UnaryExpr:
			if li, isId := v.X.(*ast.Ident); isId && v.Op == token.AND && info.Uses[li] == info.Uses[id] {
				assigned = true
			}
		}
		return true
	})
	return id, !assigned
}

// alwaysReturns: every path through the statements ends in a return
func alwaysReturns(stmts []ast.Stmt) bool {
	if len(stmts) == 0 {
		return false
	}
	switch s := stmts[len(stmts)-1].(type) {
	case *ast.ReturnStmt:
		return true
	case *ast.IfStmt:
		return s.Else != nil && alwaysReturns(s.Body.List) && alwaysReturns(elseStmts(s.Else))
	}
	return false
}

// exitState: the value of one step of a loop in block mode - the carried variables, then
// brk' (the loop has been left by `break`) and ret' (the function has returned) when the loop has them
func (x *tr) exitState(brk, ret string) string {
	return stateTuple(x.exit, brk, ret)
}

func stateTuple(ex *exitCtx, brk, ret string) string {
	parts := []string{}
	for _, v := range ex.vars {
		parts = append(parts, local(v))
	}
	if ex.hasBrk {
		parts = append(parts, brk)
	}
	if ex.hasRet {
		parts = append(parts, ret)
	}
	if len(parts) == 1 {
		return parts[0]
	}
	return "(" + strings.Join(parts, ", ") + ")"
}

func (x *tr) noRet() string { return "(none : Option (" + x.resultLean + "))" }

// ---------- counting loops (header: counting loops) ----------

// continuing: the statement lists of the body that can be followed by another iteration of the
// loop - a block that ends in break or return is left out (what it assigns is not seen again)
func continuing(stmts []ast.Stmt) []ast.Stmt {
	if n := len(stmts); n > 0 {
		switch l := stmts[n-1].(type) {
		case *ast.ReturnStmt:
			return nil
		case *ast.BranchStmt:
			if l.Tok == token.BREAK {
				return nil
			}
		}
	}
	out := []ast.Stmt{}
	for _, st := range stmts {
		switch v := st.(type) {
		case *ast.IfStmt:
			c := *v
			c.Body = &ast.BlockStmt{Lbrace: v.Body.Lbrace, List: continuing(v.Body.List), Rbrace: v.Body.Rbrace}
			if v.Else != nil {
				c.Else = &ast.BlockStmt{List: continuing(elseStmts(v.Else))}
			}
			out = append(out, &c)
		case *ast.BlockStmt:
			out = append(out, &ast.BlockStmt{List: continuing(v.List)})
		default:
			out = append(out, st)
		}
	}
	return out
}

// touches: the statements may change the value of the expression with source text xtext (an
// assignment, store, copy, sort, decode or receiver-mutating call on a place xtext mentions)
func (x *tr) touches(stmts []ast.Stmt, xtext string) []ast.Node {
	var hits []ast.Node
	check := func(n ast.Node, target ast.Expr) {
		e := target
		for {
			switch v := e.(type) {
			case *ast.ParenExpr:
				e = v.X
				continue
			case *ast.StarExpr:
				e = v.X
				continue
			case *ast.UnaryExpr:
				e = v.X
				continue
			}
			break
		}
		t := types.ExprString(e)
		if mentions(xtext, t) || strings.HasPrefix(t, xtext) {
			hits = append(hits, n)
			return
		}
		if ix, ok := e.(*ast.IndexExpr); ok { // a store into a map or slice changes the collection
			if t := types.ExprString(ix.X); mentions(xtext, t) {
				hits = append(hits, n)
			}
		}
	}
	for _, st := range stmts {
		ast.Inspect(st, func(n ast.Node) bool {
			switch v := n.(type) {
			case *ast.AssignStmt:
				for _, l := range v.Lhs {
					if id, isId := l.(*ast.Ident); isId && v.Tok == token.DEFINE && info.Defs[id] != nil {
						continue
					}
					check(v, l)
				}
			case *ast.IncDecStmt:
				check(v, v.X)
			case *ast.CallExpr:
				if id, ok := v.Fun.(*ast.Ident); ok && (id.Name == "copy" || id.Name == "delete") && len(v.Args) > 0 {
					check(v, v.Args[0])
				}
				if pc := pkgCall(v); (pc == "sort.Strings" || pc == "encoding/json.Unmarshal") && len(v.Args) > 0 {
					check(v, v.Args[len(v.Args)-1])
				}
				if _, recv, isM := x.mutCall(v); isM {
					check(v, recv)
				}
			}
			return true
		})
	}
	return hits
}

// shrinkBy: the assignment is `X = append(X[:a], X[b:]...)` with (a, b) = (i, i+1) or (i-1, i) for
// the index variable i: X loses exactly one element (the bounds are checked where it is translated)
func shrinkOne(n ast.Node, xtext string, idx types.Object) bool {
	as, ok := n.(*ast.AssignStmt)
	if !ok || as.Tok != token.ASSIGN || len(as.Lhs) != 1 || len(as.Rhs) != 1 || types.ExprString(as.Lhs[0]) != xtext {
		return false
	}
	call, ok := as.Rhs[0].(*ast.CallExpr)
	if !ok || len(call.Args) != 2 || !call.Ellipsis.IsValid() {
		return false
	}
	if id, isId := call.Fun.(*ast.Ident); !isId || id.Name != "append" {
		return false
	}
	lo, ok1 := call.Args[0].(*ast.SliceExpr)
	hi, ok2 := call.Args[1].(*ast.SliceExpr)
	if !ok1 || !ok2 || lo.Slice3 || hi.Slice3 || lo.Low != nil || lo.High == nil || hi.Low == nil || hi.High != nil ||
		types.ExprString(lo.X) != xtext || types.ExprString(hi.X) != xtext {
		return false
	}
	off := func(e ast.Expr) (int, bool) { // e = i + k
		if id, isId := e.(*ast.Ident); isId && info.Uses[id] == idx {
			return 0, true
		}
		if b, isB := e.(*ast.BinaryExpr); isB && (b.Op == token.ADD || b.Op == token.SUB) {
			if id, isId := b.X.(*ast.Ident); isId && info.Uses[id] == idx {
				if tv := info.Types[b.Y]; tv.Value != nil && tv.Value.ExactString() == "1" {
					if b.Op == token.ADD {
						return 1, true
					}
					return -1, true
				}
			}
		}
		return 0, false
	}
	a, okA := off(lo.High)
	b, okB := off(hi.Low)
	return okA && okB && b == a+1
}

// forStmt: the counting loops
//
//	for i := len(X) - 1; i >= 0; i-- { … }        (down)
//	for i := 0; i < len(X); i++ { … }             (up)
//	for j := i + 1; j < len(X); j++ { … }         (up, i an index variable of an enclosing loop over X)
func (x *tr) forStmt(s *ast.ForStmt, after []ast.Stmt, ind string, mustReturn bool) string {
	if out, ok := x.wpuFor(s, after, ind, mustReturn); ok {
		return out
	}
	bad := func() { fail(s, "for statement outside the subset") }
	init, ok := s.Init.(*ast.AssignStmt)
	if !ok || init.Tok != token.DEFINE || len(init.Lhs) != 1 || len(init.Rhs) != 1 || s.Cond == nil || s.Post == nil {
		bad()
	}
	iv, ok := init.Lhs[0].(*ast.Ident)
	if !ok || info.Defs[iv] == nil {
		bad()
	}
	idx := info.Defs[iv]
	x.noShadow(iv)
	post, ok := s.Post.(*ast.IncDecStmt)
	if !ok {
		bad()
	}
	if pid, isId := post.X.(*ast.Ident); !isId || info.Uses[pid] != idx {
		bad()
	}
	cond, ok := s.Cond.(*ast.BinaryExpr)
	if !ok {
		bad()
	}
	if cid, isId := cond.X.(*ast.Ident); !isId || info.Uses[cid] != idx {
		bad()
	}
	// the index variable is assigned nowhere in the body and its address is not taken
	ast.Inspect(s.Body, func(n ast.Node) bool {
		switch v := n.(type) {
		case *ast.AssignStmt:
			for _, l := range v.Lhs {
				if id, isId := l.(*ast.Ident); isId && info.Uses[id] == idx {
					bad()
				}
			}
		case *ast.IncDecStmt:
			if id, isId := v.X.(*ast.Ident); isId && info.Uses[id] == idx {
				bad()
			}
		case *ast.UnaryExpr:
			if id, isId := v.X.(*ast.Ident); isId && v.Op == token.AND && info.Uses[id] == idx {
				bad()
			}
		}
		return true
	})
	var X ast.Expr
	down := false
	start := "" // Lean Nat: the first index of an up loop
	switch {
	case post.Tok == token.DEC && cond.Op == token.GEQ:
		// i := len(X) - 1; i >= 0; i--
		if tv := info.Types[cond.Y]; tv.Value == nil || tv.Value.ExactString() != "0" {
			bad()
		}
		b, isB := init.Rhs[0].(*ast.BinaryExpr)
		if !isB || b.Op != token.SUB {
			bad()
		}
		call, isCall := b.X.(*ast.CallExpr)
		if !isCall || len(call.Args) != 1 || lenArgAny(call) == nil || lenMinus(init.Rhs[0], call.Args[0]) != 1 {
			bad()
		}
		X, down = call.Args[0], true
	case post.Tok == token.INC && cond.Op == token.LSS:
		call, isCall := cond.Y.(*ast.CallExpr)
		if !isCall || lenArgAny(call) == nil {
			bad()
		}
		X = call.Args[0]
		if tv := info.Types[init.Rhs[0]]; tv.Value != nil && tv.Value.ExactString() == "0" {
			start = "0"
		} else if b, isB := init.Rhs[0].(*ast.BinaryExpr); isB && b.Op == token.ADD {
			id, isId := b.X.(*ast.Ident)
			tv := info.Types[b.Y]
			if !isId || !x.idxVars[info.Uses[id]] || tv.Value == nil || tv.Value.ExactString() != "1" {
				bad()
			}
			start = "(" + local(id.Name) + " + 1)"
		} else {
			bad()
		}
	default:
		bad()
	}
	if _, isSl := info.Types[X].Type.Underlying().(*types.Slice); !isSl {
		bad()
	}
	xtext := types.ExprString(X)
	xs := x.expr(X)
	// how the body changes X
	hits := x.touches(s.Body.List, xtext)
	for _, h := range hits {
		if !shrinkOne(h, xtext, idx) {
			fail(h, "%s, which the loop counts over, is changed in another way than by removing one element", xtext)
		}
	}
	if down && len(hits) > 1 {
		fail(s, "%s is shortened more than once in an iteration of a loop that counts down", xtext)
	}
	if down && len(hits) == 1 {
		// not inside a nested loop: at most once per iteration, so the index stays below the length
		nestedLoop := false
		ast.Inspect(s.Body, func(n ast.Node) bool {
			switch v := n.(type) {
			case *ast.ForStmt, *ast.RangeStmt:
				ast.Inspect(v, func(m ast.Node) bool {
					if m == hits[0] {
						nestedLoop = true
					}
					return true
				})
			}
			return true
		})
		if nestedLoop {
			fail(s, "%s is shortened inside a nested loop of a loop that counts down", xtext)
		}
	}
	iter, guard := "", ""
	n := "(" + xs + ").length"
	switch {
	case down:
		iter = "(List.range " + n + ").reverse"
	case len(hits) == 0 && start == "0":
		iter = "(List.range " + n + ")"
	case len(hits) == 0:
		iter = "(List.range' " + start + " (" + n + " - " + start + "))"
	default:
		// the length never grows and the index grows by one: at most `length at the start` iterations,
		// the condition is evaluated again before each
		if start != "0" {
			bad()
		}
		iter = "(List.range " + n + ")"
		guard = "(decide (" + local(iv.Name) + " < (" + xs + ").length))"
	}
	body := s.Body.List
	vs := x.assignedOutside(body, s.Body)
	cont := []string{}
	{
		vars := map[string]bool{}
		x.assigned(continuing(body), vars)
		for v := range vars {
			cont = append(cont, v)
		}
	}
	x.killNames(cont)
	x.killPlaces(body)
	x.loopDepth++
	x.idxVars[idx] = true
	if x.idxLt[xtext] == nil {
		x.idxLt[xtext] = map[types.Object]bool{}
	}
	oldNoImplicit := x.noImplicitReturn
	x.noImplicitReturn = true
	left := false
	leave := func() {
		if left {
			return
		}
		left = true
		x.loopDepth--
		x.noImplicitReturn = oldNoImplicit
		delete(x.idxVars, idx)
		delete(x.idxPos, idx)
		for _, m := range x.idxLt {
			delete(m, idx)
		}
	}
	defer leave()
	// at the start of an iteration the index is below the current length: the condition for an up
	// loop; for a down loop i starts at len-1, loses one per iteration, and X at most one element
	x.idxLt[xtext][idx] = true
	return x.foldLoop(s, iter, local(iv.Name), guard, s.Body, vs, after, ind, mustReturn, leave)
}

// lenArgAny: call is `len(e)` (the builtin)
func lenArgAny(call *ast.CallExpr) ast.Expr {
	if id, isId := call.Fun.(*ast.Ident); isId && id.Name == "len" && len(call.Args) == 1 {
		if _, isB := info.Uses[id].(*types.Builtin); isB {
			return call.Args[0]
		}
	}
	return nil
}

// natIndex: e is an index expression `i` or `i - 1` that is known to be in range for the slice
// with source text xtext; the result is its Lean text (a Nat)
func (x *tr) natIndex(e ast.Expr, xtext string) (string, bool) {
	if id, ok := e.(*ast.Ident); ok {
		if obj := info.Uses[id]; obj != nil && x.idxVars[obj] && x.idxLt[xtext][obj] {
			return local(id.Name), true
		}
	}
	if b, ok := e.(*ast.BinaryExpr); ok && b.Op == token.SUB {
		if id, isId := b.X.(*ast.Ident); isId {
			tv := info.Types[b.Y]
			if obj := info.Uses[id]; obj != nil && x.idxVars[obj] && x.idxLt[xtext][obj] && x.idxPos[obj] && tv.Value != nil && tv.Value.ExactString() == "1" {
				return "(" + local(id.Name) + " - 1)", true
			}
		}
	}
	return "", false
}

// natBound: e is a slice bound `i`, `i + 1` or `i - 1` that is known to be <= the length of the
// slice with source text xtext
func (x *tr) natBound(e ast.Expr, xtext string) (string, bool) {
	if t, ok := x.natIndex(e, xtext); ok {
		return t, true
	}
	if b, ok := e.(*ast.BinaryExpr); ok && b.Op == token.ADD {
		if id, isId := b.X.(*ast.Ident); isId {
			tv := info.Types[b.Y]
			if obj := info.Uses[id]; obj != nil && x.idxVars[obj] && x.idxLt[xtext][obj] && tv.Value != nil && tv.Value.ExactString() == "1" {
				return "(" + local(id.Name) + " + 1)", true
			}
		}
	}
	return "", false
}

// lenSum: e is built from `len(…)` of expressions of the subset, non-negative constants and `+`
func lenSum(e ast.Expr) bool {
	switch v := e.(type) {
	case *ast.ParenExpr:
		return lenSum(v.X)
	case *ast.BinaryExpr:
		return v.Op == token.ADD && lenSum(v.X) && lenSum(v.Y)
	case *ast.CallExpr:
		return lenArgAny(v) != nil && pureText(v.Args[0]) != ""
	}
	if tv := info.Types[e]; tv.Value != nil && tv.Value.Kind() == constant.Int && constant.Sign(tv.Value) >= 0 {
		return true
	}
	return false
}

// store: the `let` line(s) that give the place lhs - a local variable, a place reached from the
// receiver or a local structure, or an element `M[k]` of a map that is itself such a place - the
// value val(current value)
func (x *tr) store(lhs ast.Expr, val func(cur string) string) string {
	switch l := lhs.(type) {
	case *ast.ParenExpr:
		return x.store(l.X, val)
	case *ast.Ident:
		obj := info.Uses[l]
		if obj == nil {
			break
		}
		if _, isVar := obj.(*types.Var); !isVar || x.idxVars[obj] || x.owned[obj] != 0 || (x.recvObj != nil && obj == x.recvObj) {
			break
		}
		if x.nilable[obj] {
			return "let " + local(l.Name) + " := (some " + val("("+local(l.Name)+".getD [])") + ")"
		}
		return "let " + local(l.Name) + " := " + val(local(l.Name))
	case *ast.IndexExpr:
		if mt, isMap := info.Types[l.X].Type.Underlying().(*types.Map); isMap && isString(mt.Key()) {
			text := types.ExprString(l.X)
			if x.rooted(l.X) && !x.nonNil[text] {
				fail(lhs, "store into the map %s, which may be nil here", text)
			}
			x.checkRangedStore(l)
			k := x.expr(l.Index)
			zero := zeroOf(mt.Elem(), lhs)
			return x.store(l.X, func(m string) string {
				return "(GoMap.set " + m + " " + k + " " + val("((GoMap.get? "+m+" "+k+").getD "+zero+")") + ")"
			})
		}
	case *ast.SelectorExpr:
		if x.rooted(lhs) {
			pl := x.place(lhs)
			return pl.put(val(pl.get))
		}
	}
	fail(lhs, "%s is not a place that can be assigned", types.ExprString(lhs))
	return ""
}

// checkRangedStore: a store into a map that is being ranged over is accepted only at the key of
// the current entry (the set of keys does not change)
func (x *tr) checkRangedStore(ix *ast.IndexExpr) {
	text := types.ExprString(ix.X)
	atKey := func(key types.Object) bool {
		id, ok := ix.Index.(*ast.Ident)
		return ok && key != nil && info.Uses[id] == key
	}
	if x.loopMap && text == x.loopSlice && !atKey(x.loopKey) {
		fail(ix, "store into the map being ranged over")
	}
	for _, o := range x.outer {
		if o.isMap && text == o.slice && !atKey(o.key) {
			fail(ix, "store into the map being ranged over")
		}
	}
}

// builtinStmt: the statements `copy(dst, src)` and `sort.Strings(xs)`
func (x *tr) builtinStmt(st ast.Stmt, ind string) (string, bool) {
	es, ok := st.(*ast.ExprStmt)
	if !ok {
		return "", false
	}
	call, ok := es.X.(*ast.CallExpr)
	if !ok {
		return "", false
	}
	if id, isId := call.Fun.(*ast.Ident); isId && id.Name == "copy" && len(call.Args) == 2 {
		if _, isB := info.Uses[id].(*types.Builtin); isB {
			if _, isSl := info.Types[call.Args[0]].Type.Underlying().(*types.Slice); !isSl {
				fail(st, "copy into something else than a slice")
			}
			if _, isSl := info.Types[call.Args[1]].Type.Underlying().(*types.Slice); !isSl {
				fail(st, "copy from something else than a slice")
			}
			src := x.expr(call.Args[1])
			line := x.store(call.Args[0], func(cur string) string {
				return "((" + src + ".take " + cur + ".length) ++ (" + cur + ".drop " + src + ".length))"
			})
			x.kill(call.Args[0])
			return line, true
		}
	}
	if pkgCall(call) == "sort.Strings" && len(call.Args) == 1 {
		line := x.store(call.Args[0], func(cur string) string { return "(Typ.sortStrings " + cur + ")" })
		return line, true
	}
	return "", false
}

// exits: the statements can leave the statement list they are in - by return, by a read that
// panics, or (inside a loop in block mode) by break or continue
func (x *tr) exits(stmts []ast.Stmt) bool {
	return returns(stmts) || x.mayPanic(stmts) ||
		(x.exit != nil && (hasBranch(stmts, token.BREAK) || hasBranch(stmts, token.CONTINUE)))
}

// rangeIndex: `for i := range X { … }` whose body uses i as a value (header: counting loops): i runs
// over the indices X has when the loop starts; the body must leave X unchanged.
func (x *tr) rangeIndex(s *ast.RangeStmt, key *ast.Ident, after []ast.Stmt, ind string, mustReturn bool) string {
	idx := info.Defs[key]
	x.noShadow(key)
	xtext := types.ExprString(s.X)
	if hits := x.touches(s.Body.List, xtext); len(hits) > 0 {
		fail(hits[0], "%s, which the loop counts over, is changed in the loop", xtext)
	}
	ast.Inspect(s.Body, func(n ast.Node) bool {
		switch v := n.(type) {
		case *ast.AssignStmt:
			for _, l := range v.Lhs {
				if id, isId := l.(*ast.Ident); isId && info.Uses[id] == idx {
					fail(v, "the loop index is assigned")
				}
			}
		case *ast.IncDecStmt:
			if id, isId := v.X.(*ast.Ident); isId && info.Uses[id] == idx {
				fail(v, "the loop index is assigned")
			}
		case *ast.UnaryExpr:
			if id, isId := v.X.(*ast.Ident); isId && v.Op == token.AND && info.Uses[id] == idx {
				fail(v, "address of the loop index")
			}
		}
		return true
	})
	iter := "(List.range (" + x.expr(s.X) + ").length)"
	body := s.Body.List
	vs := x.assignedOutside(body, s.Body)
	{
		vars, cont := map[string]bool{}, []string{}
		x.assigned(continuing(body), vars)
		for v := range vars {
			cont = append(cont, v)
		}
		x.killNames(cont)
	}
	x.killPlaces(body)
	x.loopDepth++
	x.idxVars[idx] = true
	if x.idxLt[xtext] == nil {
		x.idxLt[xtext] = map[types.Object]bool{}
	}
	x.idxLt[xtext][idx] = true
	oldNoImplicit := x.noImplicitReturn
	x.noImplicitReturn = true
	left := false
	leave := func() {
		if left {
			return
		}
		left = true
		x.loopDepth--
		x.noImplicitReturn = oldNoImplicit
		delete(x.idxVars, idx)
		delete(x.idxPos, idx)
		for _, m := range x.idxLt {
			delete(m, idx)
		}
	}
	defer leave()
	return x.foldLoop(s, iter, local(key.Name), "", s.Body, vs, after, ind, mustReturn, leave)
}

type guard struct {
	site ast.Node
	cond string
}

// guardsOf: the reads of the statement's own expressions (not of the statements nested in it) that
// end the function with a panic when out of range, each with the condition under which it is in
// range. A site under the right operand of && or || is rejected (it is not always evaluated).
func (x *tr) guardsOf(st ast.Stmt) []guard {
	if len(x.panicSites) == 0 {
		return nil
	}
	var heads []ast.Expr
	switch s := st.(type) {
	case *ast.IfStmt:
		if s.Init == nil {
			heads = append(heads, s.Cond)
		}
	case *ast.AssignStmt:
		heads = append(heads, s.Rhs...)
		for _, l := range s.Lhs {
			if _, isId := l.(*ast.Ident); !isId {
				heads = append(heads, l)
			}
		}
	case *ast.ReturnStmt:
		heads = append(heads, s.Results...)
	case *ast.ExprStmt:
		heads = append(heads, s.X)
	case *ast.RangeStmt:
		heads = append(heads, s.X)
	case *ast.SwitchStmt:
		if s.Tag != nil {
			heads = append(heads, s.Tag)
		}
	}
	var out []guard
	for _, h := range heads {
		var stack []ast.Node
		ast.Inspect(h, func(n ast.Node) bool {
			if n == nil {
				stack = stack[:len(stack)-1]
				return true
			}
			if x.panicSites[n] && !x.guarded[n] {
				for i := 0; i+1 <= len(stack); i++ {
					if b, ok := stack[i].(*ast.BinaryExpr); ok && (b.Op == token.LAND || b.Op == token.LOR) {
						next := n
						if i+1 < len(stack) {
							next = stack[i+1]
						}
						if next == ast.Node(b.Y) {
							fail(n, "a read that may panic in the right operand of %s", b.Op)
						}
					}
				}
				ix := n.(*ast.IndexExpr)
				k, _ := constant.Int64Val(info.Types[ix.Index].Value)
				out = append(out, guard{n, fmt.Sprintf("(decide (%d < (%s).length))", k, x.expr(ix.X))})
			}
			stack = append(stack, n)
			return true
		})
	}
	return out
}

// panicValue: what the function returns when it panics - the zero value of every result and
// `Res.panic` for the error (the last result)
func (x *tr) panicValue(at ast.Node) string {
	if x.recvObj != nil || len(x.results) == 0 || !types.Identical(x.results[len(x.results)-1], types.Universe.Lookup("error").Type()) {
		fail(at, "a read that may panic in a function whose last result is not an error")
	}
	parts := []string{}
	for _, r := range x.results[:len(x.results)-1] {
		parts = append(parts, zeroOf(r, at))
	}
	parts = append(parts, "(Res.panic : Res Unit)")
	if len(parts) == 1 {
		return parts[0]
	}
	return "(" + strings.Join(parts, ", ") + ")"
}

// storesInto: the statements store into an element of the map with source text mtext
// (`m[k] = v`, `copy(m[k], …)`, `sort.Strings(m[k])`)
func storesInto(stmts []ast.Stmt, mtext string) bool {
	found := false
	elem := func(e ast.Expr) {
		if ix, ok := e.(*ast.IndexExpr); ok && types.ExprString(ix.X) == mtext {
			found = true
		}
	}
	for _, st := range stmts {
		ast.Inspect(st, func(n ast.Node) bool {
			switch v := n.(type) {
			case *ast.AssignStmt:
				for _, l := range v.Lhs {
					elem(l)
				}
			case *ast.CallExpr:
				if id, ok := v.Fun.(*ast.Ident); ok && id.Name == "copy" && len(v.Args) > 0 {
					elem(v.Args[0])
				}
				if pkgCall(v) == "sort.Strings" && len(v.Args) == 1 {
					elem(v.Args[0])
				}
			}
			return !found
		})
	}
	return found
}
