// translate: the function translator (T1b). It type-checks /repo's non-test sources and
// prints Jsonapi/Generated/Funcs.lean: a Lean definition for each of a fixed list of pure
// helper functions of the library, obtained from the function's syntax tree - so that the
// theorems `Gen.f = <hand-written model of f>` (Props/Gen*.lean) are re-checked against
// what the code says now, for every input, on every run.
//
// Supported Go subset (anything else makes the function "untranslated": the marker
// definition `f_untranslated` is printed instead and the equivalence theorem no longer
// builds, which bin/check reports as a broken obligation):
//
//	types       string, bool, signed and unsigned integers (as Int / Nat, comparisons only),
//	            time.Time (Equal/Before/After), []string, the struct Rel, map[string]string
//	            literals, the Resource interface through res.Get("id").(string) and
//	            res.GetType().Name
//	statements  return, if/else, switch (with or without tag, no fallthrough), :=, =, +=,
//	            const and var declarations; every path must end in a return
//	expressions literals, constants of the package (by value), == != < <= > >= && || !,
//	            string +, field selection, composite literals of Rel, *p, len, x[k] with a
//	            constant k (as getD: every use in the list below is guarded by a length
//	            test), s[k:], strings.HasPrefix/HasSuffix, calls of and method calls on
//	            other translated functions
package main

import (
	"fmt"
	"go/ast"
	"go/constant"
	"go/importer"
	"go/parser"
	"go/token"
	"go/types"
	"os"
	"sort"
	"strconv"
	"strings"
)

// the functions to translate: "Recv.Method" or "func"
var targets = []string{
	"Rel.Invert", "Rel.Normalize", "Rel.String", "relLess",
	"checkStr", "checkInt", "checkUint", "checkBool", "checkTime",
	"GetAttrType", "GetAttrTypeString",
	"deduceRoute", "buildSelfLink", "buildRelationshipLinks",
	"checkIn", "parseCommaList", "parseFragments",
	"Schema.HasType", "Schema.GetType",
}

var (
	fset = token.NewFileSet()
	info = &types.Info{Types: map[ast.Expr]types.TypeAndValue{}, Defs: map[*ast.Ident]types.Object{}, Uses: map[*ast.Ident]types.Object{}}
)

type unsupported struct{ why string }

func fail(n ast.Node, format string, a ...any) {
	pos := ""
	if n != nil {
		pos = fset.Position(n.Pos()).String() + ": "
	}
	panic(unsupported{pos + fmt.Sprintf(format, a...)})
}

func leanName(target string) string { return strings.ReplaceAll(target, ".", "_") }

func lowerFirst(s string) string {
	if s == "" {
		return s
	}
	return strings.ToLower(s[:1]) + s[1:]
}

func local(name string) string { return name + "_" }

func bytesLit(s string) string {
	if s == "" {
		return "([] : GoString)"
	}
	parts := make([]string, len(s))
	for i := 0; i < len(s); i++ {
		parts[i] = strconv.Itoa(int(s[i]))
	}
	return "([" + strings.Join(parts, ", ") + "] : GoString)"
}

// ---------- types ----------

func leanType(t types.Type, n ast.Node) string {
	switch u := t.(type) {
	case *types.Pointer:
		return leanType(u.Elem(), n)
	case *types.Named:
		switch u.Obj().Name() {
		case "Rel":
			return "Rel"
		case "Time":
			return "Time"
		case "Resource":
			return "ResView"
		case "Schema":
			return "Schema"
		case "Type":
			return "Typ"
		}
		return leanType(u.Underlying(), n)
	case *types.Basic:
		switch {
		case u.Info()&types.IsString != 0:
			return "GoString"
		case u.Info()&types.IsBoolean != 0:
			return "Bool"
		case u.Info()&types.IsUnsigned != 0:
			return "Nat"
		case u.Info()&types.IsInteger != 0:
			return "Int"
		}
	case *types.Slice:
		if b, ok := u.Elem().(*types.Basic); ok && b.Info()&types.IsString != 0 {
			return "List GoString"
		}
		if nm, ok := u.Elem().(*types.Named); ok && nm.Obj().Name() == "Type" {
			return "List Typ"
		}
	case *types.Map:
		return "List (GoString × GoString)"
	case *types.Tuple:
		parts := make([]string, u.Len())
		for i := 0; i < u.Len(); i++ {
			parts[i] = leanType(u.At(i).Type(), n)
		}
		return strings.Join(parts, " × ")
	}
	fail(n, "type %s is outside the subset", t)
	return ""
}

func zeroOf(t types.Type, n ast.Node) string {
	switch leanType(t, n) {
	case "GoString":
		return "([] : GoString)"
	case "Bool":
		return "false"
	case "Nat":
		return "(0 : Nat)"
	case "Int":
		return "(0 : Int)"
	case "List GoString":
		return "([] : List GoString)"
	}
	fail(n, "no zero value for %s", t)
	return ""
}

func isString(t types.Type) bool {
	b, ok := t.Underlying().(*types.Basic)
	return ok && b.Info()&types.IsString != 0
}

func isBool(t types.Type) bool {
	b, ok := t.Underlying().(*types.Basic)
	return ok && b.Info()&types.IsBoolean != 0
}

func isInteger(t types.Type) bool {
	b, ok := t.Underlying().(*types.Basic)
	return ok && b.Info()&types.IsInteger != 0
}

func isUnsigned(t types.Type) bool {
	b, ok := t.Underlying().(*types.Basic)
	return ok && b.Info()&types.IsUnsigned != 0
}

// ---------- expressions ----------

type tr struct {
	translated map[string]bool // targets (lean names) available for calls
	// inside `for i := range xs`: the objects of xs and i, and the Lean name of the element
	loopSlice        string // source text of xs
	loopKey, loopVal types.Object
	loopElem         string
}

func (x *tr) constant(e ast.Expr) (string, bool) {
	tv, ok := info.Types[e]
	if !ok || tv.Value == nil {
		return "", false
	}
	switch tv.Value.Kind() {
	case constant.String:
		return bytesLit(constant.StringVal(tv.Value)), true
	case constant.Bool:
		return strconv.FormatBool(constant.BoolVal(tv.Value)), true
	case constant.Int:
		ty := "Int"
		if tv.Type != nil && isUnsigned(tv.Type) {
			ty = "Nat"
		}
		s := tv.Value.ExactString()
		if strings.HasPrefix(s, "-") {
			return "(" + s + " : " + ty + ")", true
		}
		return "(" + s + " : " + ty + ")", true
	}
	return "", false
}

func (x *tr) expr(e ast.Expr) string {
	if c, ok := x.constant(e); ok {
		return c
	}
	switch v := e.(type) {
	case *ast.ParenExpr:
		return "(" + x.expr(v.X) + ")"
	case *ast.Ident:
		switch v.Name {
		case "true", "false":
			return v.Name
		}
		if obj := info.Uses[v]; obj != nil {
			if x.loopElem != "" && x.loopKey != nil && obj == x.loopKey {
				fail(v, "the loop index is used other than to read the current element")
			}
			if x.loopElem != "" && x.loopVal != nil && obj == x.loopVal {
				return x.loopElem
			}
			if _, isVar := obj.(*types.Var); isVar {
				return local(v.Name)
			}
		}
		fail(v, "identifier %s", v.Name)
	case *ast.StarExpr:
		return x.expr(v.X)
	case *ast.UnaryExpr:
		if v.Op == token.NOT {
			return "(!" + x.expr(v.X) + ")"
		}
		fail(v, "unary %s", v.Op)
	case *ast.BinaryExpr:
		return x.binary(v)
	case *ast.SelectorExpr:
		// res.GetType().Name
		if call, ok := v.X.(*ast.CallExpr); ok && v.Sel.Name == "Name" {
			if s, ok := call.Fun.(*ast.SelectorExpr); ok && s.Sel.Name == "GetType" && len(call.Args) == 0 && leanType(info.Types[s.X].Type, v) == "ResView" {
				return "(" + x.expr(s.X) + ").typeName"
			}
		}
		// field of a struct value
		if sel, ok := info.Types[v.X]; ok {
			t := sel.Type
			if p, isP := t.(*types.Pointer); isP {
				t = p.Elem()
			}
			if n, isN := t.(*types.Named); isN {
				if _, isS := n.Underlying().(*types.Struct); isS {
					switch n.Obj().Name() + "." + v.Sel.Name {
					case "Schema.Types", "Type.Name", "Type.Attrs", "Type.Rels":
						return "(" + x.expr(v.X) + ")." + lowerFirst(v.Sel.Name)
					}
					if n.Obj().Name() == "Rel" {
						return "(" + x.expr(v.X) + ")." + lowerFirst(v.Sel.Name)
					}
				}
			}
		}
		fail(v, "selector %s", v.Sel.Name)
	case *ast.CompositeLit:
		t := info.Types[v].Type
		if n, ok := t.(*types.Named); ok && n.Obj().Name() == "Rel" {
			st := n.Underlying().(*types.Struct)
			given := map[string]string{}
			for _, el := range v.Elts {
				kv, ok := el.(*ast.KeyValueExpr)
				if !ok {
					fail(el, "positional composite literal")
				}
				given[kv.Key.(*ast.Ident).Name] = x.expr(kv.Value)
			}
			parts := []string{}
			for i := 0; i < st.NumFields(); i++ {
				f := st.Field(i)
				val, ok := given[f.Name()]
				if !ok {
					val = zeroOf(f.Type(), v)
				}
				parts = append(parts, lowerFirst(f.Name())+" := "+val)
			}
			return "({ " + strings.Join(parts, ", ") + " } : Rel)"
		}
		if n, ok := t.(*types.Named); ok && n.Obj().Name() == "Type" && len(v.Elts) == 0 {
			return "Typ.empty"
		}
		if _, ok := t.Underlying().(*types.Map); ok {
			parts := []string{}
			for _, el := range v.Elts {
				kv := el.(*ast.KeyValueExpr)
				parts = append(parts, "("+x.expr(kv.Key)+", "+x.expr(kv.Value)+")")
			}
			return "([" + strings.Join(parts, ", ") + "] : List (GoString × GoString))"
		}
		fail(v, "composite literal of %s", t)
	case *ast.IndexExpr:
		if x.loopElem != "" && x.loopKey != nil {
			if k, ok := v.Index.(*ast.Ident); ok && types.ExprString(v.X) == x.loopSlice && info.Uses[k] == x.loopKey {
				return x.loopElem
			}
		}
		if _, ok := info.Types[v.X].Type.Underlying().(*types.Slice); ok {
			if tv := info.Types[v.Index]; tv.Value != nil {
				k, _ := constant.Int64Val(tv.Value)
				return fmt.Sprintf("(%s.getD %d [])", x.expr(v.X), k)
			}
		}
		fail(v, "index expression")
	case *ast.SliceExpr:
		if isString(info.Types[v.X].Type) && v.High == nil && v.Low != nil {
			if tv := info.Types[v.Low]; tv.Value != nil {
				k, _ := constant.Int64Val(tv.Value)
				return fmt.Sprintf("(%s.drop %d)", x.expr(v.X), k)
			}
		}
		fail(v, "slice expression")
	case *ast.CallExpr:
		return x.call(v)
	}
	fail(e, "expression %T", e)
	return ""
}

func (x *tr) binary(v *ast.BinaryExpr) string {
	a, b := x.expr(v.X), x.expr(v.Y)
	ta := info.Types[v.X].Type
	switch v.Op {
	case token.LAND:
		return "(" + a + " && " + b + ")"
	case token.LOR:
		return "(" + a + " || " + b + ")"
	case token.ADD:
		if isString(ta) {
			return "(" + a + " ++ " + b + ")"
		}
		fail(v, "integer arithmetic")
	case token.EQL:
		return "(decide (" + a + " = " + b + "))"
	case token.NEQ:
		return "(decide (" + a + " ≠ " + b + "))"
	case token.LSS:
		return "(decide (" + a + " < " + b + "))"
	case token.GTR:
		return "(decide (" + b + " < " + a + "))"
	case token.LEQ:
		if isString(ta) { // a total order: a <= b is !(b < a)
			return "(!decide (" + b + " < " + a + "))"
		}
		if isInteger(ta) {
			return "(decide (" + a + " ≤ " + b + "))"
		}
	case token.GEQ:
		if isString(ta) {
			return "(!decide (" + a + " < " + b + "))"
		}
		if isInteger(ta) {
			return "(decide (" + b + " ≤ " + a + "))"
		}
	}
	fail(v, "binary %s on %s", v.Op, ta)
	return ""
}

func (x *tr) call(v *ast.CallExpr) string {
	switch f := v.Fun.(type) {
	case *ast.Ident:
		if f.Name == "len" && len(v.Args) == 1 {
			return "((" + x.expr(v.Args[0]) + ").length : Int)"
		}
		if f.Name == "append" && len(v.Args) == 2 && !v.Ellipsis.IsValid() {
			return "(" + x.expr(v.Args[0]) + " ++ [" + x.expr(v.Args[1]) + "])"
		}
		if f.Name == "make" && len(v.Args) >= 2 && leanType(info.Types[v].Type, v) == "List GoString" {
			if tv := info.Types[v.Args[1]]; tv.Value != nil && tv.Value.ExactString() == "0" {
				return "([] : List GoString)"
			}
		}
		if x.translated[f.Name] {
			args := []string{"Gen." + f.Name}
			for _, a := range v.Args {
				args = append(args, x.expr(a))
			}
			return "(" + strings.Join(args, " ") + ")"
		}
		fail(v, "call of %s", f.Name)
	case *ast.SelectorExpr:
		if pkg, ok := f.X.(*ast.Ident); ok {
			if _, isPkg := info.Uses[pkg].(*types.PkgName); isPkg {
				switch pkg.Name + "." + f.Sel.Name {
				case "strings.HasPrefix":
					return "(hasPrefix " + x.expr(v.Args[0]) + " " + x.expr(v.Args[1]) + ")"
				case "strings.HasSuffix":
					return "(List.isSuffixOf " + x.expr(v.Args[1]) + " " + x.expr(v.Args[0]) + ")"
				case "strings.Split":
					if tv := info.Types[v.Args[1]]; tv.Value != nil && len(constant.StringVal(tv.Value)) == 1 {
						return fmt.Sprintf("(splitOn %d %s)", constant.StringVal(tv.Value)[0], x.expr(v.Args[0]))
					}
				}
				fail(v, "call of %s.%s", pkg.Name, f.Sel.Name)
			}
		}
		recvT := info.Types[f.X].Type
		switch leanType(recvT, v) {
		case "Time":
			op := map[string]string{"Equal": "Time.equal", "Before": "Time.before", "After": "Time.after"}[f.Sel.Name]
			if op != "" && len(v.Args) == 1 {
				return "(" + op + " " + x.expr(f.X) + " " + x.expr(v.Args[0]) + ")"
			}
		case "Rel":
			name := "Rel_" + f.Sel.Name
			if x.translated[name] && len(v.Args) == 0 {
				return "(Gen." + name + " " + x.expr(f.X) + ")"
			}
		}
		fail(v, "method call %s", f.Sel.Name)
	}
	fail(v, "call")
	return ""
}

// ---------- statements ----------

// returns reports whether the statement list contains a return statement anywhere.
func returns(stmts []ast.Stmt) bool {
	found := false
	for _, s := range stmts {
		ast.Inspect(s, func(n ast.Node) bool {
			if _, ok := n.(*ast.ReturnStmt); ok {
				found = true
			}
			return !found
		})
	}
	return found
}

// assigned collects the variables assigned (not declared) in the statement list.
func assigned(stmts []ast.Stmt, out map[string]bool) {
	for _, s := range stmts {
		ast.Inspect(s, func(n ast.Node) bool {
			if a, ok := n.(*ast.AssignStmt); ok && a.Tok != token.DEFINE {
				for _, l := range a.Lhs {
					if id, ok := l.(*ast.Ident); ok {
						out[id.Name] = true
					}
				}
			}
			return true
		})
	}
}

// clauses turns a switch into (condition, body) pairs plus the default body.
func (x *tr) clauses(s *ast.SwitchStmt) (conds []string, bodies [][]ast.Stmt, def []ast.Stmt) {
	if s.Init != nil {
		fail(s, "switch with init")
	}
	tag := ""
	if s.Tag != nil {
		tag = x.expr(s.Tag)
	}
	for _, c := range s.Body.List {
		cc := c.(*ast.CaseClause)
		for _, st := range cc.Body {
			if b, ok := st.(*ast.BranchStmt); ok {
				fail(b, "branch statement in switch")
			}
		}
		if cc.List == nil {
			def = cc.Body
			continue
		}
		alts := []string{}
		for _, e := range cc.List {
			if tag != "" {
				alts = append(alts, "decide ("+tag+" = "+x.expr(e)+")")
			} else {
				alts = append(alts, x.expr(e))
			}
		}
		conds = append(conds, "("+strings.Join(alts, " || ")+")")
		bodies = append(bodies, cc.Body)
	}
	return
}

func tuple(vars []string) string {
	if len(vars) == 1 {
		return local(vars[0])
	}
	ls := make([]string, len(vars))
	for i := range vars {
		ls[i] = local(vars[i])
	}
	return "(" + strings.Join(ls, ", ") + ")"
}

// assignOnly translates statements without return into the tuple of `vars` afterwards.
func (x *tr) assignOnly(stmts []ast.Stmt, vars []string, ind string) string {
	if len(stmts) == 0 {
		return tuple(vars)
	}
	rest := func() string { return x.assignOnly(stmts[1:], vars, ind) }
	switch s := stmts[0].(type) {
	case *ast.AssignStmt:
		return x.assign(s, ind) + "\n" + ind + rest()
	case *ast.DeclStmt:
		return x.decl(s, ind) + rest()
	case *ast.IfStmt:
		if s.Init != nil {
			fail(s, "if with init")
		}
		els := []ast.Stmt{}
		if s.Else != nil {
			els = elseStmts(s.Else)
		}
		return "let " + tuple(vars) + " := (if " + x.expr(s.Cond) + " then\n" + ind + "    (" + x.assignOnly(s.Body.List, vars, ind+"    ") + ")\n" +
			ind + "  else\n" + ind + "    (" + x.assignOnly(els, vars, ind+"    ") + "))\n" + ind + rest()
	case *ast.SwitchStmt:
		conds, bodies, def := x.clauses(s)
		out := ""
		for i := range conds {
			out += "if " + conds[i] + " then\n" + ind + "    (" + x.assignOnly(bodies[i], vars, ind+"    ") + ")\n" + ind + "  else "
		}
		out += "(" + x.assignOnly(def, vars, ind+"    ") + ")"
		return "let " + tuple(vars) + " := (" + out + ")\n" + ind + rest()
	}
	fail(stmts[0], "statement %T", stmts[0])
	return ""
}

func elseStmts(s ast.Stmt) []ast.Stmt {
	switch e := s.(type) {
	case *ast.BlockStmt:
		return e.List
	default:
		return []ast.Stmt{e}
	}
}

func (x *tr) assign(s *ast.AssignStmt, ind string) string {
	// id, _ := res.Get("id").(string)
	if len(s.Lhs) == 2 && len(s.Rhs) == 1 {
		if ta, ok := s.Rhs[0].(*ast.TypeAssertExpr); ok {
			if call, ok := ta.X.(*ast.CallExpr); ok {
				if sel, ok := call.Fun.(*ast.SelectorExpr); ok && sel.Sel.Name == "Get" && len(call.Args) == 1 {
					if tv := info.Types[call.Args[0]]; tv.Value != nil && constant.StringVal(tv.Value) == "id" &&
						leanType(info.Types[sel.X].Type, s) == "ResView" && isString(info.Types[ta.Type].Type) {
						if blank, ok := s.Lhs[1].(*ast.Ident); ok && blank.Name == "_" {
							return "let " + local(s.Lhs[0].(*ast.Ident).Name) + " := (" + x.expr(sel.X) + ").id"
						}
					}
				}
			}
		}
	}
	if len(s.Lhs) != 1 || len(s.Rhs) != 1 {
		fail(s, "multiple assignment")
	}
	id, ok := s.Lhs[0].(*ast.Ident)
	if !ok {
		fail(s, "assignment to a non-variable")
	}
	switch s.Tok {
	case token.DEFINE, token.ASSIGN:
		return "let " + local(id.Name) + " := " + x.expr(s.Rhs[0])
	case token.ADD_ASSIGN:
		if isString(info.Types[s.Lhs[0]].Type) {
			return "let " + local(id.Name) + " := (" + local(id.Name) + " ++ " + x.expr(s.Rhs[0]) + ")"
		}
	}
	fail(s, "assignment %s", s.Tok)
	return ""
}

func (x *tr) decl(s *ast.DeclStmt, ind string) string {
	g, ok := s.Decl.(*ast.GenDecl)
	if !ok {
		fail(s, "declaration")
	}
	out := ""
	for _, sp := range g.Specs {
		vs, ok := sp.(*ast.ValueSpec)
		if !ok {
			fail(s, "declaration")
		}
		if g.Tok == token.CONST {
			continue // constants are inlined by value
		}
		for i, n := range vs.Names {
			val := ""
			if i < len(vs.Values) {
				val = x.expr(vs.Values[i])
			} else {
				val = zeroOf(info.Defs[n].Type(), s)
			}
			out += "let " + local(n.Name) + " := " + val + "\n" + ind
		}
	}
	return out
}

// block translates statements every path of which ends in a return.
func (x *tr) block(stmts []ast.Stmt, ind string) string {
	if len(stmts) == 0 {
		fail(nil, "a path does not end in a return")
	}
	rest := func() string { return x.block(stmts[1:], ind) }
	switch s := stmts[0].(type) {
	case *ast.ReturnStmt:
		parts := make([]string, len(s.Results))
		for i := range s.Results {
			parts[i] = x.expr(s.Results[i])
		}
		if len(parts) == 1 {
			return parts[0]
		}
		return "(" + strings.Join(parts, ", ") + ")"
	case *ast.AssignStmt:
		return x.assign(s, ind) + "\n" + ind + rest()
	case *ast.DeclStmt:
		return x.decl(s, ind) + rest()
	case *ast.IfStmt:
		if s.Init != nil {
			fail(s, "if with init")
		}
		els := []ast.Stmt{}
		if s.Else != nil {
			els = elseStmts(s.Else)
		}
		if !returns(s.Body.List) && !returns(els) {
			vars := map[string]bool{}
			assigned(s.Body.List, vars)
			assigned(els, vars)
			vs := make([]string, 0, len(vars))
			for v := range vars {
				vs = append(vs, v)
			}
			sort.Strings(vs)
			if len(vs) == 0 {
				return rest()
			}
			return x.joinIf(s, els, vs, ind) + rest()
		}
		// a branch returns: the statements after the `if` continue each branch that does not
		thenB := append(append([]ast.Stmt{}, s.Body.List...), stmts[1:]...)
		elseB := append(append([]ast.Stmt{}, els...), stmts[1:]...)
		return "if " + x.expr(s.Cond) + " then\n" + ind + "  " + x.block(thenB, ind+"  ") + "\n" + ind + "else\n" + ind + "  " + x.block(elseB, ind+"  ")
	case *ast.SwitchStmt:
		conds, bodies, def := x.clauses(s)
		anyRet := returns(def)
		for _, b := range bodies {
			anyRet = anyRet || returns(b)
		}
		if !anyRet {
			vars := map[string]bool{}
			for _, b := range bodies {
				assigned(b, vars)
			}
			assigned(def, vars)
			vs := make([]string, 0, len(vars))
			for v := range vars {
				vs = append(vs, v)
			}
			sort.Strings(vs)
			if len(vs) == 0 {
				return rest()
			}
			return x.joinSwitch(conds, bodies, def, vs, ind) + rest()
		}
		out := ""
		for i := range conds {
			b := append(append([]ast.Stmt{}, bodies[i]...), stmts[1:]...)
			out += "if " + conds[i] + " then\n" + ind + "  " + x.block(b, ind+"  ") + "\n" + ind + "else "
		}
		d := append(append([]ast.Stmt{}, def...), stmts[1:]...)
		return out + "\n" + ind + "  " + x.block(d, ind+"  ")
	case *ast.RangeStmt:
		return x.rangeStmt(s, stmts[1:], ind, true)
	}
	fail(stmts[0], "statement %T", stmts[0])
	return ""
}

// rangeStmt: `for i := range xs { ... }` reading xs[i] only, or `for _, v := range xs { ... }`.
func (x *tr) rangeStmt(s *ast.RangeStmt, after []ast.Stmt, ind string, mustReturn bool) string {
	lt := leanType(info.Types[s.X].Type, s)
	if s.Tok != token.DEFINE || x.loopElem != "" || !strings.HasPrefix(lt, "List ") {
		fail(s, "range statement outside the subset")
	}
	var keyObj, valObj types.Object
	if key, ok := s.Key.(*ast.Ident); ok && key.Name != "_" {
		keyObj = info.Defs[key]
	}
	if s.Value != nil {
		val, ok := s.Value.(*ast.Ident)
		if !ok || keyObj != nil {
			fail(s, "range statement outside the subset")
		}
		valObj = info.Defs[val]
	}
	if keyObj == nil && valObj == nil {
		fail(s, "range statement outside the subset")
	}
	xs := x.expr(s.X)
	x.loopSlice, x.loopKey, x.loopVal, x.loopElem = types.ExprString(s.X), keyObj, valObj, "elem_"
	leave := func() { x.loopSlice, x.loopKey, x.loopVal, x.loopElem = "", nil, nil, "" }
	defer leave()
	body := s.Body.List
	if returns(body) {
		// one `if c { return e }`: the first element satisfying c, if any
		if len(body) == 1 {
			if ifs, ok := body[0].(*ast.IfStmt); ok && ifs.Init == nil && ifs.Else == nil && len(ifs.Body.List) == 1 {
				if ret, ok := ifs.Body.List[0].(*ast.ReturnStmt); ok && mustReturn {
					cond := x.expr(ifs.Cond)
					found := x.block([]ast.Stmt{ret}, ind+"  ")
					leave()
					rest := x.block(after, ind+"  ")
					if strings.Contains(found, "elem_") {
						return "match (" + xs + ").find? (fun elem_ => " + cond + ") with\n" + ind + "| some elem_ => " + found + "\n" + ind + "| none =>\n" + ind + "  " + rest
					}
					return "if (" + xs + ").any (fun elem_ => " + cond + ") then\n" + ind + "  " + found + "\n" + ind + "else\n" + ind + "  " + rest
				}
			}
		}
		fail(s, "loop with a return outside the subset")
	}
	vars := map[string]bool{}
	assigned(body, vars)
	vs := make([]string, 0, len(vars))
	for v := range vars {
		vs = append(vs, v)
	}
	sort.Strings(vs)
	if len(vs) == 0 {
		fail(s, "loop without effect")
	}
	step := x.assignOnly(body, vs, ind+"    ")
	leave()
	out := "let " + tuple(vs) + " := (" + xs + ").foldl (fun " + tuple(vs) + " elem_ =>\n" + ind + "    " + step + ") " + tuple(vs) + "\n" + ind
	if mustReturn {
		return out + x.block(after, ind)
	}
	return out
}

func (x *tr) joinIf(s *ast.IfStmt, els []ast.Stmt, vs []string, ind string) string {
	return "let " + tuple(vs) + " := (if " + x.expr(s.Cond) + " then\n" + ind + "    (" + x.assignOnly(s.Body.List, vs, ind+"    ") + ")\n" +
		ind + "  else\n" + ind + "    (" + x.assignOnly(els, vs, ind+"    ") + "))\n" + ind
}

func (x *tr) joinSwitch(conds []string, bodies [][]ast.Stmt, def []ast.Stmt, vs []string, ind string) string {
	out := ""
	for i := range conds {
		out += "if " + conds[i] + " then\n" + ind + "    (" + x.assignOnly(bodies[i], vs, ind+"    ") + ")\n" + ind + "  else "
	}
	out += "(" + x.assignOnly(def, vs, ind+"    ") + ")"
	return "let " + tuple(vs) + " := (" + out + ")\n" + ind
}

// ---------- functions ----------

func (x *tr) function(target string, d *ast.FuncDecl) (out string, err string) {
	defer func() {
		if e := recover(); e != nil {
			u, ok := e.(unsupported)
			if !ok {
				panic(e)
			}
			err = u.why
		}
	}()
	params := []string{}
	add := func(fl *ast.FieldList) {
		if fl == nil {
			return
		}
		for _, f := range fl.List {
			t := leanType(info.Types[f.Type].Type, f)
			for _, n := range f.Names {
				params = append(params, "("+local(n.Name)+" : "+t+")")
			}
		}
	}
	add(d.Recv)
	add(d.Type.Params)
	if d.Type.Results == nil {
		fail(d, "no result")
	}
	res := []string{}
	for _, f := range d.Type.Results.List {
		if len(f.Names) > 0 {
			fail(d, "named results")
		}
		res = append(res, leanType(info.Types[f.Type].Type, f))
	}
	body := x.block(d.Body.List, "  ")
	pos := fset.Position(d.Pos())
	return fmt.Sprintf("/-- %s:%d `%s` -/\ndef %s %s : %s :=\n  %s\n", strings.TrimPrefix(pos.Filename, os.Args[1]+"/"), pos.Line, target,
		leanName(target), strings.Join(params, " "), strings.Join(res, " × "), body), ""
}

func main() {
	if len(os.Args) < 2 {
		fmt.Fprintln(os.Stderr, "usage: translate <repo>")
		os.Exit(2)
	}
	pkgs, err := parser.ParseDir(fset, os.Args[1], func(fi os.FileInfo) bool {
		return !strings.HasSuffix(fi.Name(), "_test.go") && fi.Name() != "verif_export.go"
	}, parser.ParseComments)
	if err != nil || pkgs["jsonapi"] == nil {
		fmt.Fprintln(os.Stderr, "parse:", err)
		os.Exit(1)
	}
	names := []string{}
	for n := range pkgs["jsonapi"].Files {
		names = append(names, n)
	}
	sort.Strings(names)
	var files []*ast.File
	for _, n := range names {
		files = append(files, pkgs["jsonapi"].Files[n])
	}
	conf := types.Config{Importer: importer.ForCompiler(fset, "source", nil), Error: func(error) {}}
	_, _ = conf.Check("jsonapi", fset, files, info)
	decls := map[string]*ast.FuncDecl{}
	for _, f := range files {
		for _, d := range f.Decls {
			fd, ok := d.(*ast.FuncDecl)
			if !ok || fd.Body == nil {
				continue
			}
			name := fd.Name.Name
			if fd.Recv != nil && len(fd.Recv.List) == 1 {
				t := fd.Recv.List[0].Type
				if s, ok := t.(*ast.StarExpr); ok {
					t = s.X
				}
				if id, ok := t.(*ast.Ident); ok {
					name = id.Name + "." + name
				}
			}
			decls[name] = fd
		}
	}
	if len(os.Args) > 2 && os.Args[2] == "-all" {
		// discovery: which functions of the package are inside the subset today
		all := []string{}
		for n := range decls {
			all = append(all, n)
		}
		sort.Strings(all)
		x := &tr{translated: map[string]bool{}}
		for _, t := range targets {
			if d := decls[t]; d != nil {
				if _, why := x.function(t, d); why == "" {
					x.translated[leanName(t)] = true
				}
			}
		}
		for _, n := range all {
			_, why := x.function(n, decls[n])
			if why == "" {
				why = "TRANSLATES"
			}
			fmt.Printf("%-40s %s\n", n, why)
		}
		return
	}
	fmt.Println("/- GENERATED by harness/cmd/translate from /repo on every run (T1b). Do not edit. -/")
	fmt.Println("import Jsonapi.Model.Url")
	fmt.Println("set_option linter.unusedVariables false")
	fmt.Println("namespace Jsonapi.Gen")
	fmt.Println("open Jsonapi")
	fmt.Println()
	x := &tr{translated: map[string]bool{}}
	for _, t := range targets {
		d := decls[t]
		if d == nil {
			fmt.Printf("/-- `%s` is no longer a function of the package -/\ndef %s_untranslated : String := \"missing\"\n\n", t, leanName(t))
			continue
		}
		out, why := x.function(t, d)
		if why != "" {
			fmt.Printf("/-- `%s` is outside the translated subset: %s -/\ndef %s_untranslated : String := %s\n\n", t, strings.ReplaceAll(why, "-/", "- /"), leanName(t), strconv.Quote(why))
			continue
		}
		x.translated[leanName(t)] = true
		fmt.Println(out)
	}
	fmt.Println("end Jsonapi.Gen")
}
