// Work package T: attribute values held in `any` (the model's GoVal), type switches and type
// assertions, pointers to attribute values, statements that may panic in functions without an
// error result (`Res`), `[]byte`, loops over two slices at once. The reading conventions are
// stated in the header of main.go (paragraphs `attribute values` … `bytes`); main.go calls in
// here through the hooks wptType, wptZero, (*tr).wptExpr, (*tr).wptBlock, (*tr).wptBegin and
// (*tr).wptResults.
package main

import (
	"fmt"
	"go/ast"
	"go/token"
	"go/types"
	"sort"
	"strings"
)

// ---------- per-function state ----------

type wptFn struct {
	d       *ast.FuncDecl
	target  string
	goVal   bool                  // `any` is the model's GoVal in this function
	resFn   bool                  // the result is `Res (…)`: some statement may panic
	sites   map[ast.Node]string   // expressions that may panic -> kind (assert, deref, ideref, index, call)
	hoisted map[ast.Node]string   // sites whose value is bound to a temporary on the current path
	direct  map[ast.Node]bool     // `return f(…)` with f a Res function: the call is the result
	ntemp   int                   // temporaries
	siteNo  map[ast.Node]int      // pointer comparisons of unknown outcome -> number
	loopIdx []string              // iteration indices (Lean, Nat) of the enclosing loops rendered here
	rebound map[types.Object]bool // range value variables that the body assigns
}

var wpt = &wptFn{}

// lean name -> the translated function returns `Res (…)`
var wptResOf = map[string]bool{}

// lean name -> the parameters added to the translated function (delegated calls, the oracle)
var wptExtrasOf = map[string][]string{}

// index reads whose range the translator could not establish, per function (kept over restarts)
var wptLazy = map[*ast.FuncDecl]map[ast.Node]bool{}

// functions of the package that are taken as parameters while they are outside the subset
// (single result; header: delegated)
var wptDelegated = map[string]bool{"getAttrVal": true}

const wptOracle = "same'"

// ---------- attribute kinds ----------

type akind struct {
	kind, ctor, lean string
	unsigned, bytes  bool
}

// attrKindOf: t is one of the fourteen Go types of attribute values (unnamed basic types,
// time.Time, []byte)
func attrKindOf(t types.Type) *akind {
	t = types.Unalias(t)
	switch u := t.(type) {
	case *types.Basic:
		switch u.Kind() {
		case types.String:
			return &akind{kind: "string", ctor: "s", lean: "GoString"}
		case types.Bool:
			return &akind{kind: "bool", ctor: "b", lean: "Bool"}
		case types.Int:
			return &akind{kind: "int", ctor: "i", lean: "Int"}
		case types.Int8:
			return &akind{kind: "int8", ctor: "i", lean: "Int"}
		case types.Int16:
			return &akind{kind: "int16", ctor: "i", lean: "Int"}
		case types.Int32:
			return &akind{kind: "int32", ctor: "i", lean: "Int"}
		case types.Int64:
			return &akind{kind: "int64", ctor: "i", lean: "Int"}
		case types.Uint:
			return &akind{kind: "uint", ctor: "i", lean: "Nat", unsigned: true}
		case types.Uint8:
			return &akind{kind: "uint8", ctor: "i", lean: "Nat", unsigned: true}
		case types.Uint16:
			return &akind{kind: "uint16", ctor: "i", lean: "Nat", unsigned: true}
		case types.Uint32:
			return &akind{kind: "uint32", ctor: "i", lean: "Nat", unsigned: true}
		case types.Uint64:
			return &akind{kind: "uint64", ctor: "i", lean: "Nat", unsigned: true}
		}
	case *types.Named:
		if u.Obj().Name() == "Time" && u.Obj().Pkg() != nil && u.Obj().Pkg().Path() == "time" {
			return &akind{kind: "time", ctor: "t", lean: "Time"}
		}
	case *types.Slice:
		if b, ok := types.Unalias(u.Elem()).(*types.Basic); ok && b.Kind() == types.Uint8 {
			return &akind{kind: "bytes", ctor: "bs", lean: "List UInt8", bytes: true}
		}
	}
	return nil
}

// ptrKindOf: t is a pointer to one of the attribute types
func ptrKindOf(t types.Type) *akind {
	if p, ok := types.Unalias(t).(*types.Pointer); ok {
		return attrKindOf(p.Elem())
	}
	return nil
}

func isAny(t types.Type) bool {
	if t == nil {
		return false
	}
	it, ok := types.Unalias(t).Underlying().(*types.Interface)
	return ok && it.Empty()
}

func isStringSlice(t types.Type) bool {
	sl, ok := types.Unalias(t).(*types.Slice)
	return ok && isString(sl.Elem()) && attrKindOf(sl.Elem()) != nil
}

// payPat: the pattern of the payload of kind k that binds the value of Go type T to `v`; let is
// the line, if any, that has to follow the pattern
func (k *akind) payPat(v string) (pat, let string) {
	switch {
	case k.unsigned:
		return "(." + k.ctor + " (.ofNat " + v + "))", ""
	case k.bytes:
		return "(." + k.ctor + " " + v + "')", "let " + v + " := (" + v + "'.getD [])" // a nil slice reads as the empty one
	}
	return "(." + k.ctor + " " + v + ")", ""
}

// ptrConv: the pointer held in `.ptr k p` as an Option of the value it points to; none when the
// payload does not have the shape of the kind (such a GoVal is not the image of a Go value)
func (k *akind) ptrConv(p string) string {
	pat, let := k.payPat("a'")
	val := "a'"
	if let != "" {
		val = "(" + let + "; a')"
	}
	return "(match " + p + " with | none => some none | some " + pat + " => some (some " + val + ") | _ => none : Option (Option (" + k.lean + ")))"
}

// ---------- hooks: types ----------

// wptType: the Lean type of the Go types added by this file
func wptType(t types.Type, n ast.Node) (string, bool) {
	t = types.Unalias(t)
	if k := ptrKindOf(t); k != nil {
		return "Option (" + k.lean + ")", true
	}
	if k := attrKindOf(t); k != nil && k.bytes {
		return k.lean, true
	}
	if wpt.goVal && isAny(t) {
		if _, isNamed := t.(*types.Named); !isNamed {
			return "GoVal", true
		}
	}
	return "", false
}

// wptZero: zero values of the types added by this file
func wptZero(t types.Type, n ast.Node) (string, bool) {
	t = types.Unalias(t)
	if wpt.goVal && isAny(t) {
		if _, isNamed := t.(*types.Named); !isNamed {
			return "GoVal.nil", true
		}
	}
	return "", false
}

// wptEnd: no function is being translated any more (the structures are printed next)
func wptEnd() { wpt = &wptFn{} }

// ---------- hooks: the start of a function ----------

// idIdiom: e is `X.Get("id").(string)` with X a Resource
func idIdiom(e *ast.TypeAssertExpr) (ast.Expr, bool) {
	if e.Type == nil {
		return nil, false
	}
	call, ok := e.X.(*ast.CallExpr)
	if !ok || len(call.Args) != 1 {
		return nil, false
	}
	sel, ok := call.Fun.(*ast.SelectorExpr)
	if !ok || sel.Sel.Name != "Get" {
		return nil, false
	}
	tv := info.Types[call.Args[0]]
	if tv.Value == nil || tv.Value.ExactString() != `"id"` {
		return nil, false
	}
	if rt := info.Types[sel.X].Type; rt == nil || !isResource(rt) || !isString(info.Types[e.Type].Type) {
		return nil, false
	}
	return sel.X, true
}

func isResource(t types.Type) bool {
	n, ok := types.Unalias(t).(*types.Named)
	return ok && n.Obj().Name() == "Resource" && n.Obj().Pkg() != nil && n.Obj().Pkg().Name() == "jsonapi"
}

// wptBegin: called when the translation of d starts (after the state of main.go is reset)
func (x *tr) wptBegin(target string, d *ast.FuncDecl) {
	if wpOwner == "u" {
		// a target of wp_u.go: the rules of this file stay out of it (both files render index
		// reads that may panic, each in its own way)
		wpt = &wptFn{}
		return
	}
	wpt = &wptFn{d: d, target: target, sites: map[ast.Node]string{}, hoisted: map[ast.Node]string{}, direct: map[ast.Node]bool{},
		siteNo: map[ast.Node]int{}, rebound: map[types.Object]bool{}}
	commaOk := map[ast.Node]bool{}
	usesAny := false
	ast.Inspect(d, func(n ast.Node) bool {
		switch v := n.(type) {
		case *ast.AssignStmt:
			if len(v.Lhs) == 2 && len(v.Rhs) == 1 {
				if ta, ok := v.Rhs[0].(*ast.TypeAssertExpr); ok {
					commaOk[ta] = true
				}
			}
		case *ast.TypeSwitchStmt:
			usesAny = true
		case *ast.Field:
			if tv, ok := info.Types[v.Type]; ok && isAny(tv.Type) {
				if _, isNamed := types.Unalias(tv.Type).(*types.Named); !isNamed {
					usesAny = true
				}
			}
		case *ast.TypeAssertExpr:
			if _, isId := idIdiom(v); !isId || !commaOk[v] {
				usesAny = true
			}
		}
		return true
	})
	wpt.goVal = usesAny
	// the expressions that may panic
	ast.Inspect(d.Body, func(n ast.Node) bool {
		switch v := n.(type) {
		case *ast.TypeAssertExpr:
			if _, isId := idIdiom(v); v.Type != nil && !isId && !commaOk[v] {
				wpt.sites[v] = "assert"
			}
		case *ast.StarExpr:
			if tv, ok := info.Types[v]; ok && !tv.IsType() && ptrKindOf(info.Types[v.X].Type) != nil {
				wpt.sites[v] = "deref"
			}
		case *ast.CallExpr:
			if sel, ok := v.Fun.(*ast.SelectorExpr); ok {
				if tv, ok := info.Types[sel.X]; ok && tv.Type != nil && !tv.IsType() && ptrKindOf(tv.Type) != nil {
					// a method of the value called on the pointer: `p.M()` is `(*p).M()`
					wpt.sites[sel.X] = "ideref"
				}
			}
			if id, ok := v.Fun.(*ast.Ident); ok {
				if _, isFn := info.Uses[id].(*types.Func); isFn && x.translated[id.Name] && wptResOf[id.Name] {
					wpt.sites[v] = "call"
				}
			}
		}
		return true
	})
	for n := range wptLazy[d] {
		wpt.sites[n] = "index"
	}
	wpt.resFn = len(wpt.sites) > 0 && x.recvObj == nil
	if wpt.resFn {
		for n := range wpt.sites {
			x.panicSites[n] = true // so that main.go's loops and branches know that the statement may leave
		}
	} else {
		wpt.sites = map[ast.Node]string{}
	}
}

// wptResults: the result types of the function being translated (called once they are known)
func (x *tr) wptResults(target string, res []string) []string {
	wptResOf[leanName(target)] = wpt.resFn
	if !wpt.resFn {
		return res
	}
	inner := strings.Join(res, " × ")
	x.resultLean = "Res (" + inner + ")"
	return []string{x.resultLean}
}

// wptDone: the parameters added to the function (called when its text is complete)
func (x *tr) wptDone(target string) {
	wptExtrasOf[leanName(target)] = append([]string{}, x.extra...)
}

// ---------- hooks: expressions ----------

func (x *tr) wptPanic() string {
	pv := "(Res.panic : " + x.resultLean + ")"
	if x.exit != nil {
		return x.exitState("false", "(some "+pv+")")
	}
	return pv
}

func (x *tr) wptErr() string {
	pv := "(Res.err : " + x.resultLean + ")"
	if x.exit != nil {
		return x.exitState("false", "(some "+pv+")")
	}
	return pv
}

func (x *tr) wptTemp() string {
	t := fmt.Sprintf("a%d'", wpt.ntemp)
	wpt.ntemp++
	return t
}

func stripParens(e ast.Expr) ast.Expr {
	for {
		p, ok := e.(*ast.ParenExpr)
		if !ok {
			return e
		}
		e = p.X
	}
}

// intSize: the size in bits of an integer type (`int` and `uint` have 64 bits on the target)
func intSize(t types.Type) (bits int, unsigned bool, ok bool) {
	b, isB := types.Unalias(t).(*types.Basic)
	if !isB {
		return 0, false, false
	}
	switch b.Kind() {
	case types.Int8:
		return 8, false, true
	case types.Int16:
		return 16, false, true
	case types.Int32:
		return 32, false, true
	case types.Int, types.Int64:
		return 64, false, true
	case types.Uint8:
		return 8, true, true
	case types.Uint16:
		return 16, true, true
	case types.Uint32:
		return 32, true, true
	case types.Uint, types.Uint64:
		return 64, true, true
	}
	return 0, false, false
}

// wptExpr: expressions of the subset added by this file (ok = false: main.go goes on)
func (x *tr) wptExpr(e ast.Expr) (string, bool) {
	if wpt.d == nil || x.fn != wpt.d {
		return "", false
	}
	if t, ok := wpt.hoisted[e]; ok {
		return t, true
	}
	if k, isSite := wpt.sites[e]; isSite && !wpt.direct[e] && k != "ideref" {
		fail(e, "%s may panic in a place where a panic is not rendered", types.ExprString(e))
	}
	switch v := e.(type) {
	case *ast.Ident:
		if obj := info.Uses[v]; obj != nil && wpt.rebound[obj] {
			return local(v.Name), true
		}
		if k, isSite := wpt.sites[e]; isSite && k == "ideref" {
			return "", false // the pointer itself (the site stands for its implicit dereference)
		}
	case *ast.TypeAssertExpr:
		if recv, ok := idIdiom(v); ok {
			return "(" + x.expr(recv) + ").id", true
		}
		fail(v, "type assertion outside the subset")
	case *ast.IndexExpr:
		sl, isSl := info.Types[v.X].Type.Underlying().(*types.Slice)
		if !isSl || x.recvObj != nil || info.Types[v.Index].Value != nil {
			return "", false
		}
		xtext := types.ExprString(v.X)
		if ix, inRange := x.natIndex(v.Index, xtext); inRange {
			if b, isB := types.Unalias(sl.Elem()).(*types.Basic); isB && b.Kind() == types.Uint8 {
				return "(" + x.expr(v.X) + ".getD " + ix + " (0 : UInt8))", true // a byte of a []byte
			}
			return "", false
		}
		if lenMinus(v.Index, v.X) > 0 {
			return "", false
		}
		if id, isId := v.Index.(*ast.Ident); isId {
			// (a read inside a function literal - the comparison handed to sort.Slice, rendered by
			// wp_s.go - is not a site of this function)
			if wptInFuncLit(wpt.d, v) {
				return "", false
			}
			// header: panics (addition). The range of the index is not established: the read is a site
			if obj := info.Uses[id]; obj != nil && (x.idxVars[obj] || isInteger(obj.Type())) && x.loopElem == "" {
				if wptLazy[wpt.d] == nil {
					wptLazy[wpt.d] = map[ast.Node]bool{}
				}
				if !wptLazy[wpt.d][v] {
					wptLazy[wpt.d][v] = true
					panic(restart{})
				}
			}
		}
		return "", false
	case *ast.BinaryExpr:
		if v.Op != token.EQL && v.Op != token.NEQ {
			return "", false
		}
		tx, ty := info.Types[v.X], info.Types[v.Y]
		neg := func(s string) string {
			if v.Op == token.NEQ {
				return "(!" + s + ")"
			}
			return s
		}
		switch {
		case ty.IsNil() && ptrKindOf(tx.Type) != nil:
			return neg("(" + x.expr(v.X) + ").isNone"), true
		case tx.IsNil() && ptrKindOf(ty.Type) != nil:
			return neg("(" + x.expr(v.Y) + ").isNone"), true
		case ty.IsNil() && wpt.goVal && isAny(tx.Type):
			return neg("(decide (" + x.expr(v.X) + " = GoVal.nil))"), true
		case tx.IsNil() && wpt.goVal && isAny(ty.Type):
			return neg("(decide (" + x.expr(v.Y) + " = GoVal.nil))"), true
		case ptrKindOf(tx.Type) != nil && ptrKindOf(ty.Type) != nil:
			// header: pointers to attribute values (comparison)
			if x.loopDepth != len(wpt.loopIdx) || wptHasEmpty(wpt.loopIdx) {
				fail(v, "comparison of two pointers inside a loop that has no iteration index")
			}
			no, seen := wpt.siteNo[v]
			if !seen {
				no = len(wpt.siteNo)
				wpt.siteNo[v] = no
			}
			or := x.addExtra(wptOracle, "Nat → List Nat → Bool")
			idx := []string{}
			for _, i := range wpt.loopIdx {
				idx = append(idx, i)
			}
			return neg(fmt.Sprintf("(match %s, %s with | none, none => true | some a', some b' => ((%s %d [%s]) && decide (a' = b')) | _, _ => false)",
				x.expr(v.X), x.expr(v.Y), or, no, strings.Join(idx, ", "))), true
		}
	case *ast.CallExpr:
		if tv, ok := info.Types[v.Fun]; ok && tv.IsType() && len(v.Args) == 1 {
			// a conversion between integer types that cannot change the value
			tb, tu, tok := intSize(tv.Type)
			sb, su, sok := intSize(info.Types[v.Args[0]].Type)
			if tok && sok && info.Types[v.Args[0]].Value == nil {
				switch {
				case tu == su && tb >= sb:
					return x.expr(v.Args[0]), true
				case su && !tu && tb > sb:
					return "(Int.ofNat " + x.expr(v.Args[0]) + ")", true
				}
				fail(v, "conversion from %s to %s may change the value", info.Types[v.Args[0]].Type, tv.Type)
			}
			return "", false
		}
		if pkgCall(v) == "bytes.Compare" && len(v.Args) == 2 {
			a, b := x.expr(v.Args[0]), x.expr(v.Args[1])
			return "(if " + a + " < " + b + " then (-1 : Int) else if " + b + " < " + a + " then (1 : Int) else (0 : Int))", true
		}
		if sel, ok := v.Fun.(*ast.SelectorExpr); ok && len(v.Args) == 1 {
			if k := ptrKindOf(info.Types[sel.X].Type); k != nil && k.kind == "time" {
				op := map[string]string{"Equal": "Time.equal", "Before": "Time.before", "After": "Time.after"}[sel.Sel.Name]
				t, hoisted := wpt.hoisted[sel.X]
				if op == "" || !hoisted {
					fail(v, "method call %s on a pointer", sel.Sel.Name)
				}
				return "(" + op + " " + t + " " + x.expr(v.Args[0]) + ")", true
			}
		}
		if id, ok := v.Fun.(*ast.Ident); ok {
			if fn, isFn := info.Uses[id].(*types.Func); isFn && fn.Pkg() != nil && fn.Pkg().Name() == "jsonapi" {
				sig := fn.Type().(*types.Signature)
				if wptDelegated[id.Name] && !x.translated[id.Name] && sig.Results().Len() == 1 {
					// header: delegated
					ts := []string{}
					for i := 0; i < sig.Params().Len(); i++ {
						ts = append(ts, leanType(sig.Params().At(i).Type(), v))
					}
					args := ""
					for i, a := range v.Args {
						args += " " + x.exprT(a, sig.Params().At(i).Type())
					}
					return "(" + x.addExtra(id.Name+"'", strings.Join(ts, " → ")+" → "+leanType(sig.Results().At(0).Type(), v)) + args + ")", true
				}
				if x.translated[id.Name] && (wpt.direct[v] || len(wptExtrasOf[id.Name]) > 0) {
					return x.wptCall(v), true
				}
			}
		}
	}
	return "", false
}

// wptCall: the call of a translated function of the package, with the parameters that were
// added to it: a delegated function is passed on under the same name, the oracle of the callee
// is the caller's oracle at a fresh site, applied to the iteration indices of the caller followed
// by the callee's own site and indices
func (x *tr) wptCall(v *ast.CallExpr) string {
	id := v.Fun.(*ast.Ident)
	sig := info.Uses[id].(*types.Func).Type().(*types.Signature)
	out := "(Gen." + id.Name
	for i, a := range v.Args {
		out += " " + x.exprT(a, sig.Params().At(i).Type())
	}
	for _, p := range wptExtrasOf[id.Name] {
		// p is "(name : type)"
		p = strings.TrimSuffix(strings.TrimPrefix(p, "("), ")")
		name, typ, _ := strings.Cut(p, " : ")
		if name == wptOracle {
			if x.loopDepth != len(wpt.loopIdx) || wptHasEmpty(wpt.loopIdx) {
				fail(v, "call of a function that compares pointers inside a loop that has no iteration index")
			}
			no, seen := wpt.siteNo[v]
			if !seen {
				no = len(wpt.siteNo)
				wpt.siteNo[v] = no
			}
			or := x.addExtra(wptOracle, typ)
			out += fmt.Sprintf(" (fun s' i' => %s %d ([%s] ++ s' :: i'))", or, no, strings.Join(wpt.loopIdx, ", "))
			continue
		}
		out += " " + x.addExtra(name, typ)
	}
	return out + ")"
}

// ---------- sites of a statement ----------

type siteRef struct {
	n    ast.Node
	cond bool // under the right operand of && or ||
}

// sitesIn: the sites of e that are not bound yet, inner ones first
func sitesIn(e ast.Expr, cond bool, out *[]siteRef) {
	if e == nil {
		return
	}
	switch v := e.(type) {
	case *ast.BinaryExpr:
		sitesIn(v.X, cond, out)
		sitesIn(v.Y, cond || v.Op == token.LAND || v.Op == token.LOR, out)
		return
	case *ast.FuncLit:
		return
	}
	// children first
	switch v := e.(type) {
	case *ast.ParenExpr:
		sitesIn(v.X, cond, out)
	case *ast.StarExpr:
		sitesIn(v.X, cond, out)
	case *ast.UnaryExpr:
		sitesIn(v.X, cond, out)
	case *ast.TypeAssertExpr:
		sitesIn(v.X, cond, out)
	case *ast.SelectorExpr:
		sitesIn(v.X, cond, out)
	case *ast.IndexExpr:
		sitesIn(v.X, cond, out)
		sitesIn(v.Index, cond, out)
	case *ast.SliceExpr:
		sitesIn(v.X, cond, out)
	case *ast.CallExpr:
		sitesIn(v.Fun, cond, out)
		for _, a := range v.Args {
			sitesIn(a, cond, out)
		}
	case *ast.CompositeLit:
		for _, el := range v.Elts {
			if kv, ok := el.(*ast.KeyValueExpr); ok {
				sitesIn(kv.Value, cond, out)
			} else {
				sitesIn(el, cond, out)
			}
		}
	}
	if _, isSite := wpt.sites[e]; isSite {
		if _, done := wpt.hoisted[e]; !done && !wpt.direct[e] {
			*out = append(*out, siteRef{e, cond})
		}
	}
}

func headsOf(st ast.Stmt) []ast.Expr {
	var heads []ast.Expr
	switch s := st.(type) {
	case *ast.IfStmt:
		if s.Init == nil {
			heads = append(heads, s.Cond)
		}
	case *ast.AssignStmt:
		heads = append(heads, s.Rhs...)
		for _, l := range s.Lhs {
			if _, isId := l.(*ast.Ident); !isId {
				heads = append(heads, l)
			}
		}
	case *ast.ReturnStmt:
		heads = append(heads, s.Results...)
	case *ast.ExprStmt:
		heads = append(heads, s.X)
	case *ast.RangeStmt:
		heads = append(heads, s.X)
	case *ast.SwitchStmt:
		if s.Tag != nil {
			heads = append(heads, s.Tag)
		}
	case *ast.TypeSwitchStmt:
		if g := typeSwitchGuard(s); g != nil {
			heads = append(heads, g.X)
		}
	case *ast.DeclStmt:
		if g, ok := s.Decl.(*ast.GenDecl); ok {
			for _, sp := range g.Specs {
				if vs, ok := sp.(*ast.ValueSpec); ok {
					heads = append(heads, vs.Values...)
				}
			}
		}
	}
	return heads
}

func typeSwitchGuard(s *ast.TypeSwitchStmt) *ast.TypeAssertExpr {
	switch a := s.Assign.(type) {
	case *ast.AssignStmt:
		if len(a.Rhs) == 1 {
			if ta, ok := a.Rhs[0].(*ast.TypeAssertExpr); ok {
				return ta
			}
		}
	case *ast.ExprStmt:
		if ta, ok := a.X.(*ast.TypeAssertExpr); ok {
			return ta
		}
	}
	return nil
}

// valueArms: the arms of a `match` on a GoVal for the Go type t: the value is bound to `bind`
// (typed as leanType(t)) in `body`; `other` is what happens when the GoVal is of that Go type
// in name only (its payload does not have the shape of the kind)
func (x *tr) valueArms(t types.Type, at ast.Node, bind, body, other, ind string) string {
	if k := attrKindOf(t); k != nil {
		pat, let := k.payPat(bind)
		if let != "" {
			return ind + "| .val ." + k.kind + " " + pat + " =>\n" + ind + "  (" + let + "\n" + ind + "  " + body + ")\n"
		}
		return ind + "| .val ." + k.kind + " " + pat + " =>\n" + ind + "  (" + body + ")\n"
	}
	if k := ptrKindOf(t); k != nil {
		return ind + "| .ptr ." + k.kind + " p' =>\n" + ind + "  (match " + k.ptrConv("p'") + " with\n" +
			ind + "  | some " + bind + " =>\n" + ind + "    (" + body + ")\n" + ind + "  | none =>\n" + ind + "    (" + other + "))\n"
	}
	if isStringSlice(t) {
		return ind + "| .strs " + bind + " =>\n" + ind + "  (" + body + ")\n"
	}
	fail(at, "a value of type %s held in an `any` is outside the subset", t)
	return ""
}

// bindSite: the value of the site n is bound to a temporary in rest(); a panic ends the function
func (x *tr) bindSite(n ast.Node, ind string, rest func(ind string) string) string {
	kind := wpt.sites[n]
	t := x.wptTemp()
	with := func(body func() string) string {
		wpt.hoisted[n] = t
		x.guarded[n] = true
		defer func() { delete(wpt.hoisted, n); delete(x.guarded, n) }()
		return body()
	}
	switch kind {
	case "assert":
		ta := n.(*ast.TypeAssertExpr)
		if !wpt.goVal || !isAny(info.Types[ta.X].Type) {
			fail(ta, "type assertion on a value that is not an `any`")
		}
		src := x.expr(ta.X)
		typ := info.Types[ta.Type].Type
		pv := x.wptPanic()
		body := with(func() string { return rest(ind + "    ") })
		return "(match " + src + " with\n" + x.valueArms(typ, ta, t, body, pv, ind+"  ") + ind + "  | _ => " + pv + ")"
	case "deref", "ideref":
		var p ast.Expr
		if kind == "deref" {
			p = n.(*ast.StarExpr).X
		} else {
			p = n.(ast.Expr)
		}
		src := ""
		if kind == "ideref" {
			// the pointer expression itself is the key of the site: read it before it is bound
			src = x.expr(p)
		} else {
			src = x.expr(p)
		}
		pv := x.wptPanic()
		body := with(func() string { return rest(ind + "    ") })
		return "(match " + src + " with\n" + ind + "  | some " + t + " =>\n" + ind + "    (" + body + ")\n" + ind + "  | none => " + pv + ")"
	case "index":
		ix := n.(*ast.IndexExpr)
		xs := x.expr(ix.X)
		id := ix.Index.(*ast.Ident)
		get := ""
		if obj := info.Uses[id]; obj != nil && x.idxVars[obj] {
			get = xs + "[" + local(id.Name) + "]?"
		} else {
			i := x.expr(ix.Index)
			get = "(if (0 : Int) ≤ " + i + " then " + xs + "[Int.toNat " + i + "]? else none)"
		}
		pv := x.wptPanic()
		body := with(func() string { return rest(ind + "    ") })
		return "(match " + get + " with\n" + ind + "  | some " + t + " =>\n" + ind + "    (" + body + ")\n" + ind + "  | none => " + pv + ")"
	case "call":
		call := x.wptCall(n.(*ast.CallExpr))
		pv, ev := x.wptPanic(), x.wptErr()
		body := with(func() string { return rest(ind + "    ") })
		return "(match " + call + " with\n" + ind + "  | .ok " + t + " =>\n" + ind + "    (" + body + ")\n" + ind + "  | .err => " + ev + "\n" + ind + "  | .panic => " + pv + ")"
	}
	fail(n, "site")
	return ""
}

// ---------- hooks: statements ----------

// wptBlock: the statement lists handled by this file (ok = false: main.go goes on)
func (x *tr) wptBlock(stmts []ast.Stmt, ind string) (string, bool) {
	if wpt.d == nil || x.fn != wpt.d || len(stmts) == 0 || x.recvObj != nil {
		return "", false
	}
	st := stmts[0]
	// 1. the sites of the statement's own expressions
	var refs []siteRef
	for _, h := range headsOf(st) {
		sitesIn(h, false, &refs)
	}
	if ret, ok := st.(*ast.ReturnStmt); ok && len(ret.Results) == 1 && len(refs) > 0 {
		// `return f(…)` with f a function that may panic: its result is the result
		last := refs[len(refs)-1]
		if last.n == ast.Node(stripParens(ret.Results[0])) && wpt.sites[last.n] == "call" && !last.cond {
			wpt.direct[last.n] = true
			defer delete(wpt.direct, last.n)
			refs = refs[:len(refs)-1]
		}
	}
	if len(refs) > 0 {
		if !refs[0].cond {
			return x.bindSite(refs[0].n, ind, func(ind2 string) string { return x.block(stmts, ind2) }), true
		}
		// every site left is evaluated only if the left operand of a && or || lets it: split the `if`
		ifs, isIf := st.(*ast.IfStmt)
		if !isIf {
			fail(st, "an expression that may panic in the right operand of && or ||, outside the condition of an if")
		}
		b, isB := stripParens(ifs.Cond).(*ast.BinaryExpr)
		if !isB || (b.Op != token.LAND && b.Op != token.LOR) {
			fail(st, "an expression that may panic in the right operand of && or ||, under another operator")
		}
		var outer *ast.IfStmt
		inner := &ast.IfStmt{If: ifs.If, Cond: b.Y, Body: ifs.Body, Else: ifs.Else}
		if b.Op == token.LOR {
			// if A || B { T } else { E }   is   if A { T } else if B { T } else { E }
			outer = &ast.IfStmt{If: ifs.If, Cond: b.X, Body: ifs.Body, Else: &ast.BlockStmt{Lbrace: ifs.Body.Lbrace, List: []ast.Stmt{inner}, Rbrace: ifs.Body.Rbrace}}
		} else {
			// if A && B { T } else { E }   is   if A { if B { T } else { E } } else { E }
			outer = &ast.IfStmt{If: ifs.If, Cond: b.X, Body: &ast.BlockStmt{Lbrace: ifs.Body.Lbrace, List: []ast.Stmt{inner}, Rbrace: ifs.Body.Rbrace}, Else: ifs.Else}
		}
		return x.block(append([]ast.Stmt{outer}, stmts[1:]...), ind), true
	}
	switch s := st.(type) {
	case *ast.ReturnStmt:
		if !wpt.resFn {
			return "", false
		}
		val := ""
		if len(s.Results) == 1 && wpt.direct[stripParens(s.Results[0])] {
			val = x.wptCall(stripParens(s.Results[0]).(*ast.CallExpr))
		} else {
			parts := make([]string, len(s.Results))
			for i := range s.Results {
				if len(x.results) == len(s.Results) {
					parts[i] = x.exprT(s.Results[i], x.results[i])
				} else {
					parts[i] = x.expr(s.Results[i])
				}
			}
			val = "(Res.ok " + strings.Join(parts, ", ") + ")"
			if len(parts) > 1 {
				val = "(Res.ok (" + strings.Join(parts, ", ") + "))"
			}
		}
		if x.exit != nil {
			if !x.exit.hasRet {
				fail(s, "return in a loop that is not translated with early exit")
			}
			return x.exitState("false", "(some "+val+")"), true
		}
		return val, true
	case *ast.TypeSwitchStmt:
		return x.wptTypeSwitch(s, stmts[1:], ind), true
	case *ast.RangeStmt:
		return x.wptRange(s, stmts[1:], ind)
	case *ast.ForStmt:
		return x.wptFor(s, stmts[1:], ind)
	case *ast.AssignStmt:
		if len(s.Lhs) == 2 && len(s.Rhs) == 1 && (s.Tok == token.DEFINE || s.Tok == token.ASSIGN) {
			if ta, ok := s.Rhs[0].(*ast.TypeAssertExpr); ok && wpt.goVal && ta.Type != nil && isAny(info.Types[ta.X].Type) {
				if _, isId := idIdiom(ta); isId {
					return "", false
				}
				// header: attribute values (comma-ok assertion)
				typ := info.Types[ta.Type].Type
				zero := zeroOf(typ, ta)
				line := "let call' := (match " + x.expr(ta.X) + " with\n" + x.valueArms(typ, ta, "a'", "(a', true)", "("+zero+", false)", ind+"  ") +
					ind + "  | _ => (" + zero + ", false))"
				define := s.Tok == token.DEFINE
				return joinLines(ind, line, x.target(s.Lhs[0], define, "call'.1"), x.target(s.Lhs[1], define, "call'.2")) + "\n" + ind + x.block(stmts[1:], ind), true
			}
		}
	}
	return "", false
}

// wptTypeSwitch: `switch v := X.(type) { case T: … }` on an `any` that holds an attribute value
func (x *tr) wptTypeSwitch(s *ast.TypeSwitchStmt, after []ast.Stmt, ind string) string {
	g := typeSwitchGuard(s)
	if s.Init != nil || g == nil || !wpt.goVal || !isAny(info.Types[g.X].Type) {
		fail(s, "type switch outside the subset")
	}
	bind := ""
	if a, ok := s.Assign.(*ast.AssignStmt); ok {
		bind = local(a.Lhs[0].(*ast.Ident).Name)
	}
	src := x.expr(g.X)
	x.inSwitch++
	defer func() { x.inSwitch-- }()
	// what happens when no case matches
	var def []ast.Stmt
	for _, c := range s.Body.List {
		if cc := c.(*ast.CaseClause); cc.List == nil {
			def = cc.Body
		}
	}
	cont := func(body []ast.Stmt) string {
		if hasBranch(body, token.BREAK) {
			fail(s, "break inside a type switch")
		}
		back := x.facts()
		defer back()
		return x.block(append(append([]ast.Stmt{}, body...), after...), ind+"    ")
	}
	other := cont(def)
	out := "(match " + src + " with\n"
	seen := map[string]bool{}
	for _, c := range s.Body.List {
		cc := c.(*ast.CaseClause)
		if cc.List == nil {
			continue
		}
		if len(cc.List) != 1 {
			fail(cc, "a case of a type switch with several types")
		}
		tv := info.Types[cc.List[0]]
		b := bind
		if b == "" {
			b = "u'"
		}
		if tv.IsNil() {
			out += ind + "  | .nil =>\n" + ind + "    (" + cont(cc.Body) + ")\n"
			continue
		}
		key := types.TypeString(tv.Type, nil)
		if seen[key] {
			fail(cc, "duplicate case")
		}
		seen[key] = true
		body := cont(cc.Body)
		out += x.valueArms(tv.Type, cc, b, body, other, ind+"  ")
	}
	return out + ind + "  | _ =>\n" + ind + "    (" + other + "))"
}

// hasPtrCmp: the statements compare two pointers to attribute values, or call a function that does
func (x *tr) hasPtrCmp(stmts []ast.Stmt) bool {
	found := false
	for _, st := range stmts {
		ast.Inspect(st, func(n ast.Node) bool {
			switch v := n.(type) {
			case *ast.BinaryExpr:
				if (v.Op == token.EQL || v.Op == token.NEQ) && ptrKindOf(info.Types[v.X].Type) != nil && ptrKindOf(info.Types[v.Y].Type) != nil &&
					!info.Types[v.X].IsNil() && !info.Types[v.Y].IsNil() {
					found = true
				}
			case *ast.CallExpr:
				if id, ok := v.Fun.(*ast.Ident); ok && x.translated[id.Name] {
					for _, p := range wptExtrasOf[id.Name] {
						if strings.HasPrefix(p, "("+wptOracle+" ") {
							found = true
						}
					}
				}
			}
			return !found
		})
	}
	return found
}

func (x *tr) enterLoop(body []ast.Stmt) {
	vars, cont := map[string]bool{}, []string{}
	x.assigned(continuing(body), vars)
	for v := range vars {
		cont = append(cont, v)
	}
	sort.Strings(cont)
	x.killNames(cont)
	x.killPlaces(body)
}

// wptRange: `for _, r := range xs { … }` over a slice whose body assigns r or compares pointers
// (header: loops, addition)
func (x *tr) wptRange(s *ast.RangeStmt, after []ast.Stmt, ind string) (string, bool) {
	if s.Tok != token.DEFINE || s.Value == nil {
		return "", false
	}
	if key, ok := s.Key.(*ast.Ident); s.Key != nil && (!ok || key.Name != "_") {
		return "", false
	}
	val, ok := s.Value.(*ast.Ident)
	if !ok || val.Name == "_" {
		return "", false
	}
	if _, isSl := info.Types[s.X].Type.Underlying().(*types.Slice); !isSl {
		return "", false
	}
	valObj := info.Defs[val]
	body := s.Body.List
	assignsVal := false
	ast.Inspect(s.Body, func(n ast.Node) bool {
		switch v := n.(type) {
		case *ast.AssignStmt:
			for _, l := range v.Lhs {
				if id, isId := l.(*ast.Ident); isId && info.Uses[id] == valObj {
					assignsVal = true
				}
			}
		case *ast.UnaryExpr:
			if id, isId := v.X.(*ast.Ident); isId && v.Op == token.AND && info.Uses[id] == valObj {
				fail(v, "the address of the loop variable is taken")
			}
		}
		return true
	})
	cmp := x.hasPtrCmp(body)
	if !assignsVal && !cmp {
		return "", false
	}
	x.noShadow(val)
	xs := x.expr(s.X)
	wpt.rebound[valObj] = true
	x.loopDepth++
	idx := ""
	if cmp {
		idx = fmt.Sprintf("n%d'", len(wpt.loopIdx))
	}
	wpt.loopIdx = append(wpt.loopIdx, idx)
	oldNoImplicit := x.noImplicitReturn
	x.noImplicitReturn = true
	left := false
	leave := func() {
		if left {
			return
		}
		left = true
		x.loopDepth--
		x.noImplicitReturn = oldNoImplicit
		wpt.loopIdx = wpt.loopIdx[:len(wpt.loopIdx)-1]
	}
	defer leave()
	vs := []string{}
	for _, v := range x.assignedOutside(body, s.Body) {
		if v != val.Name {
			vs = append(vs, v)
		}
	}
	x.enterLoop(body)
	iter, binder := "("+xs+")", local(val.Name)
	if cmp {
		iter, binder = "("+xs+").zipIdx", "("+local(val.Name)+", "+idx+")"
	}
	return x.foldLoop(s, iter, binder, "", s.Body, vs, after, ind, true, leave), true
}

// wptFor: `for i := 0; i < len(A) && i < len(B); i++ { … }` (header: counting loops, addition)
func (x *tr) wptFor(s *ast.ForStmt, after []ast.Stmt, ind string) (string, bool) {
	init, ok := s.Init.(*ast.AssignStmt)
	if !ok || init.Tok != token.DEFINE || len(init.Lhs) != 1 || len(init.Rhs) != 1 || s.Cond == nil || s.Post == nil {
		return "", false
	}
	cond, ok := stripParens(s.Cond).(*ast.BinaryExpr)
	if !ok || cond.Op != token.LAND {
		return "", false
	}
	iv, ok := init.Lhs[0].(*ast.Ident)
	if !ok || info.Defs[iv] == nil {
		return "", false
	}
	idx := info.Defs[iv]
	if tv := info.Types[init.Rhs[0]]; tv.Value == nil || tv.Value.ExactString() != "0" {
		return "", false
	}
	post, ok := s.Post.(*ast.IncDecStmt)
	if !ok || post.Tok != token.INC {
		return "", false
	}
	if pid, isId := post.X.(*ast.Ident); !isId || info.Uses[pid] != idx {
		return "", false
	}
	var bounds []ast.Expr
	for _, c := range []ast.Expr{cond.X, cond.Y} {
		b, isB := stripParens(c).(*ast.BinaryExpr)
		if !isB || b.Op != token.LSS {
			return "", false
		}
		if cid, isId := b.X.(*ast.Ident); !isId || info.Uses[cid] != idx {
			return "", false
		}
		call, isCall := b.Y.(*ast.CallExpr)
		if !isCall || lenArgAny(call) == nil {
			return "", false
		}
		if _, isSl := info.Types[call.Args[0]].Type.Underlying().(*types.Slice); !isSl {
			return "", false
		}
		bounds = append(bounds, call.Args[0])
	}
	x.noShadow(iv)
	bad := func(n ast.Node) { fail(n, "the index variable of a counting loop is assigned in its body") }
	ast.Inspect(s.Body, func(n ast.Node) bool {
		switch v := n.(type) {
		case *ast.AssignStmt:
			for _, l := range v.Lhs {
				if id, isId := l.(*ast.Ident); isId && info.Uses[id] == idx {
					bad(v)
				}
			}
		case *ast.IncDecStmt:
			if id, isId := v.X.(*ast.Ident); isId && info.Uses[id] == idx {
				bad(v)
			}
		case *ast.UnaryExpr:
			if id, isId := v.X.(*ast.Ident); isId && v.Op == token.AND && info.Uses[id] == idx {
				bad(v)
			}
		}
		return true
	})
	lens := []string{}
	for _, b := range bounds {
		if hits := x.touches(s.Body.List, types.ExprString(b)); len(hits) > 0 {
			fail(hits[0], "%s, which the loop counts over, is changed in its body", types.ExprString(b))
		}
		lens = append(lens, "("+x.expr(b)+").length")
	}
	iter := "(List.range (min " + lens[0] + " " + lens[1] + "))"
	body := s.Body.List
	vs := x.assignedOutside(body, s.Body)
	x.enterLoop(body)
	x.loopDepth++
	wpt.loopIdx = append(wpt.loopIdx, local(iv.Name))
	x.idxVars[idx] = true
	for _, b := range bounds {
		t := types.ExprString(b)
		if x.idxLt[t] == nil {
			x.idxLt[t] = map[types.Object]bool{}
		}
		x.idxLt[t][idx] = true
	}
	oldNoImplicit := x.noImplicitReturn
	x.noImplicitReturn = true
	left := false
	leave := func() {
		if left {
			return
		}
		left = true
		x.loopDepth--
		x.noImplicitReturn = oldNoImplicit
		wpt.loopIdx = wpt.loopIdx[:len(wpt.loopIdx)-1]
		delete(x.idxVars, idx)
		delete(x.idxPos, idx)
		for _, m := range x.idxLt {
			delete(m, idx)
		}
	}
	defer leave()
	return x.foldLoop(s, iter, local(iv.Name), "", s.Body, vs, after, ind, true, leave), true
}

func wptHasEmpty(l []string) bool {
	for _, s := range l {
		if s == "" {
			return true
		}
	}
	return false
}

// wptInFuncLit: n lies inside a function literal of d
func wptInFuncLit(d *ast.FuncDecl, n ast.Node) bool {
	found := false
	ast.Inspect(d, func(m ast.Node) bool {
		if lit, ok := m.(*ast.FuncLit); ok && lit.Pos() <= n.Pos() && n.End() <= lit.End() {
			found = true
		}
		return !found
	})
	return found
}

// wpOwner: which work package's rules apply to the function being translated ("t": the targets of
// this file, "u": those of wp_u.go, "": the rules of main.go and wp_s.go only). Set by functionOnce.
var wpOwner string

var wptTargets = map[string]bool{"checkBytes": true, "checkSlice": true, "checkVal": true, "sortedResources.Less": true}

func ownerOf(target string) string {
	switch {
	case wptTargets[target]:
		return "t"
	case wpuTargets[target]:
		return "u"
	}
	return ""
}
