// wp_u.go: the rules added by work package U (Document.Include, the collections Resources and
// WrapperCollection, the identifier helpers, Meta.Has / Meta.GetInt). The reading conventions are
// stated in the header of main.go (paragraph "Documents, collections, type assertions, threaded
// receivers, checked reads", which ends with the element stores of Identifiers.IDs); main.go calls the
// hooks wpuType, wpuField, wpuExpr, wpuEffect, wpuBlock, wpuFor, wpuLoopVar, wpuThreads and
// wpuResults, nothing else.
package main

import (
	"go/ast"
	"go/constant"
	"go/token"
	"go/types"
	"strings"
)

func init() {
	// `Document` keeps its hand-written counterpart of the model (Model/Marshal.lean)
	fixedStructs["Document"] = true
	mine := []string{
		"Document.Include",
		"Resources.GetType", "Resources.Len", "Resources.At", "Resources.Add",
		"WrapperCollection.GetType", "WrapperCollection.Len", "WrapperCollection.At", "WrapperCollection.Add",
		"NewIdentifiers", "Identifiers.IDs",
		"Meta.Has", "Meta.GetInt"}
	targets = append(targets, mine...)
	for _, t := range mine {
		wpuTargets[t] = true
	}
}

// the targets of this file: its hooks are active in these functions only (see wpOwner in wp_t.go)
var wpuTargets = map[string]bool{}

// the state of this file for the function being translated (reset by wpuResults)
type wpuState struct {
	thread     types.Object            // the receiver that is threaded as a value (header: threaded receivers)
	threadName string                  //
	wrap       bool                    // the results are wrapped in Res (header: checked reads)
	optRes     map[int]bool            // results of type Resource that are `Option ResView` (header: nil resources)
	nameViews  map[types.Object]bool   // variables holding `c.GetType()` of a collection view: only .Name is read
	guarded    map[ast.Node]bool       // checked reads covered by the guard of the current statement
	params     map[types.Object]bool   // the parameters of the function
	sameLen    map[types.Object]string // local slices declared `xs := make([]T, len(X))`: the name of X (header: element stores)
}

var wpu wpuState

// wrapped: the translated functions (lean names) whose result is wrapped in Res
var wpuWrapped = map[string]bool{}

// ---------- types ----------

func pkgNamed(t types.Type, name string) bool {
	n, ok := t.(*types.Named)
	return ok && isPkgNamed(n, name)
}

func pkgIface(t types.Type, name string) bool {
	if !pkgNamed(t, name) {
		return false
	}
	_, ok := t.Underlying().(*types.Interface)
	return ok
}

// isDocument: the struct Document of the package, or a pointer to it
func isDocument(t types.Type) bool {
	if p, ok := t.(*types.Pointer); ok {
		t = p.Elem()
	}
	if !pkgNamed(t, "Document") {
		return false
	}
	_, ok := t.Underlying().(*types.Struct)
	return ok
}

func isWrapperPtr(t types.Type) bool {
	p, ok := t.(*types.Pointer)
	return ok && pkgNamed(p.Elem(), "Wrapper")
}

const colViewType = "GoString × List (ResView)"

// wpuType: `Document` / `*Document` is the model's `Document`; the interface `Collection` is a
// collection view (the name of its type, its members); `*Wrapper` is the resource view of the
// wrapper (header: documents, collections)
func wpuType(t types.Type, n ast.Node) (string, bool) {
	switch {
	case isDocument(t):
		return "Document", true
	case isWrapperPtr(t):
		return "ResView", true
	case pkgIface(t, "Collection"):
		return colViewType, true
	}
	return "", false
}

// wpuField: the fields of Document that are inside the subset
func wpuField(structName, field string) string {
	switch structName + "." + field {
	case "Document.Data":
		return "data"
	case "Document.Included":
		return "included"
	}
	return ""
}

func wpuZero(t types.Type, n ast.Node) string {
	if lt := leanType(t, n); lt == "ResView" || lt == colViewType {
		return "(default : " + lt + ")"
	}
	return zeroOf(t, n)
}

// ---------- expressions ----------

// colCall: the call is `C.M(…)` with C a variable of the interface type Collection; the result is
// the variable and the method name
func colCall(call *ast.CallExpr) (*ast.Ident, string) {
	sel, ok := call.Fun.(*ast.SelectorExpr)
	if !ok {
		return nil, ""
	}
	tv, ok := info.Types[sel.X]
	if !ok || !pkgIface(tv.Type, "Collection") {
		return nil, ""
	}
	id, ok := sel.X.(*ast.Ident)
	if !ok {
		fail(call, "method call on a collection that is not a variable")
	}
	return id, sel.Sel.Name
}

func colLenKey(c *ast.Ident) string { return c.Name + ".Len()" }

// getID: e is `R.Get("id")` with R a resource view; the result is R
func getID(e ast.Expr) ast.Expr {
	call, ok := e.(*ast.CallExpr)
	if !ok || len(call.Args) != 1 {
		return nil
	}
	sel, ok := call.Fun.(*ast.SelectorExpr)
	if !ok || sel.Sel.Name != "Get" {
		return nil
	}
	if tv := info.Types[call.Args[0]]; tv.Value == nil || tv.Value.Kind() != constant.String || constant.StringVal(tv.Value) != "id" {
		return nil
	}
	if tv, ok := info.Types[sel.X]; !ok || leanType(tv.Type, e) != "ResView" {
		return nil
	}
	return sel.X
}

// checkedRead: ix is `X[p]` with X a slice and p a parameter of the function of a signed integer
// type - a read whose range the translator does not establish (header: checked reads)
func (x *tr) checkedRead(ix *ast.IndexExpr) (*ast.Ident, bool) {
	if _, isSl := info.Types[ix.X].Type.Underlying().(*types.Slice); !isSl {
		return nil, false
	}
	id, ok := ix.Index.(*ast.Ident)
	if !ok {
		return nil, false
	}
	obj := info.Uses[id]
	if obj == nil || !wpu.params[obj] || !isInteger(obj.Type()) || isUnsigned(obj.Type()) {
		return nil, false
	}
	return id, true
}

func (x *tr) wpuExpr(e ast.Expr) (string, bool) {
	if wpOwner != "u" {
		return "", false
	}
	switch v := e.(type) {
	case *ast.Ident:
		if obj := info.Uses[v]; obj != nil && wpu.nameViews[obj] {
			fail(v, "%s holds the type of a collection view: only its Name can be read", v.Name)
		}
	case *ast.SelectorExpr:
		if tv, ok := info.Types[v.X]; ok && isDocument(tv.Type) {
			if _, isField := info.Uses[v.Sel].(*types.Var); isField {
				f := wpuField("Document", v.Sel.Name)
				if f == "" {
					fail(v, "field %s of Document", v.Sel.Name)
				}
				return "(" + x.expr(v.X) + ")." + f, true
			}
		}
		if id, ok := v.X.(*ast.Ident); ok && v.Sel.Name == "Name" && info.Uses[id] != nil && wpu.nameViews[info.Uses[id]] {
			return local(id.Name), true
		}
		if call, ok := v.X.(*ast.CallExpr); ok && v.Sel.Name == "Name" {
			if c, m := colCall(call); c != nil && m == "GetType" && len(call.Args) == 0 {
				return "(" + x.expr(c) + ").1", true
			}
		}
	case *ast.CallExpr:
		if c, m := colCall(v); c != nil {
			switch {
			case m == "Len" && len(v.Args) == 0:
				return "(((" + x.expr(c) + ").2).length : Int)", true
			case m == "At" && len(v.Args) == 1:
				if id, ok := v.Args[0].(*ast.Ident); ok {
					if obj := info.Uses[id]; obj != nil && x.idxVars[obj] && x.idxLt[colLenKey(c)][obj] {
						return "(((" + x.expr(c) + ").2).getD " + local(id.Name) + " (default : ResView))", true
					}
				}
				fail(v, "%s.At at an index that is not known to be below %s.Len()", c.Name, c.Name)
			case m == "GetType":
				fail(v, "only the Name of the type of a collection view is modelled")
			}
			fail(v, "method %s of a collection view", m)
		}
		if sel, ok := v.Fun.(*ast.SelectorExpr); ok {
			if fn, isFn := info.Uses[sel.Sel].(*types.Func); isFn {
				if sig := fn.Type().(*types.Signature); sig.Recv() != nil {
					if rn, isN := derefNamed(sig.Recv().Type()); isN && wpuWrapped[leanName(rn.Obj().Name()+"."+fn.Name())] {
						fail(v, "call of %s, whose result is wrapped in Res", fn.Name())
					}
				}
			}
		}
		if id, ok := v.Fun.(*ast.Ident); ok && wpuWrapped[id.Name] {
			fail(v, "call of %s, whose result is wrapped in Res", id.Name)
		}
	case *ast.TypeAssertExpr:
		// R.Get("id").(string): the id of the resource view
		if v.Type != nil && isString(info.Types[v.Type].Type) {
			if r := getID(v.X); r != nil {
				return "(" + x.expr(r) + ").id", true
			}
		}
		fail(v, "type assertion outside the subset")
	case *ast.IndexExpr:
		if id, ok := x.checkedRead(v); ok {
			if wpu.guarded[v] {
				sl := info.Types[v.X].Type.Underlying().(*types.Slice)
				return "((" + x.expr(v.X) + ").getD (Int.toNat " + local(id.Name) + ") " + wpuZero(sl.Elem(), v) + ")", true
			}
			if wpu.wrap {
				fail(v, "a read at the parameter %s in a place where no range check is rendered", id.Name)
			}
		}
	}
	return "", false
}

// ---------- statements ----------

// condHas: the condition holds only where the boolean variable ok is true (ok itself, or a
// conjunction one side of which does)
func condHas(c ast.Expr, ok types.Object) bool {
	switch v := c.(type) {
	case *ast.ParenExpr:
		return condHas(v.X, ok)
	case *ast.Ident:
		return info.Uses[v] == ok
	case *ast.BinaryExpr:
		return v.Op == token.LAND && (condHas(v.X, ok) || condHas(v.Y, ok))
	}
	return false
}

// singleDef: obj is assigned nowhere but where it is declared, and its address is not taken
func (x *tr) singleDef(obj types.Object, at ast.Node) {
	ast.Inspect(x.fn.Body, func(n ast.Node) bool {
		switch v := n.(type) {
		case *ast.AssignStmt:
			for _, l := range v.Lhs {
				if id, isId := l.(*ast.Ident); isId && info.Uses[id] == obj {
					fail(at, "%s is assigned again", obj.Name())
				}
			}
		case *ast.IncDecStmt:
			if id, isId := v.X.(*ast.Ident); isId && info.Uses[id] == obj {
				fail(at, "%s is assigned again", obj.Name())
			}
		case *ast.UnaryExpr:
			if id, isId := v.X.(*ast.Ident); isId && v.Op == token.AND && info.Uses[id] == obj {
				fail(at, "address of %s", obj.Name())
			}
		case *ast.RangeStmt:
			for _, kv := range []ast.Expr{v.Key, v.Value} {
				if id, isId := kv.(*ast.Ident); isId && v.Tok != token.DEFINE && info.Uses[id] == obj {
					fail(at, "%s is a loop variable", obj.Name())
				}
			}
		}
		return true
	})
}

// guardedUses: the value v of a comma-ok type assertion is read only inside the body of an `if`
// whose condition holds only where ok is true; neither variable is assigned again
func (x *tr) guardedUses(v, ok types.Object, at ast.Node) {
	x.singleDef(ok, at)
	if v == nil {
		return
	}
	x.singleDef(v, at)
	var ifs []*ast.IfStmt
	ast.Inspect(x.fn.Body, func(n ast.Node) bool {
		if s, isIf := n.(*ast.IfStmt); isIf && condHas(s.Cond, ok) {
			ifs = append(ifs, s)
		}
		return true
	})
	ast.Inspect(x.fn.Body, func(n ast.Node) bool {
		if id, isId := n.(*ast.Ident); isId && info.Uses[id] == v {
			inside := false
			for _, s := range ifs {
				if s.Body.Pos() <= id.Pos() && id.End() <= s.Body.End() {
					inside = true
				}
			}
			if !inside {
				fail(id, "%s is read where %s is not known to be true", v.Name(), ok.Name())
			}
		}
		return true
	})
}

// assertStmt: `v, ok := E.(T)` (header: type assertions)
func (x *tr) assertStmt(as *ast.AssignStmt, ta *ast.TypeAssertExpr, ind string) (string, bool) {
	vId, isV := as.Lhs[0].(*ast.Ident)
	okId, isOk := as.Lhs[1].(*ast.Ident)
	if !isV || !isOk {
		fail(as, "type assertion outside the subset")
	}
	if okId.Name == "_" {
		// `v, _ := E.(T)`: the value or the zero value of T
		if mt, key, isMeta := metaRead(ta.X); isMeta && vId.Name != "_" && info.Defs[vId] != nil {
			if b, isB := info.Types[ta.Type].Type.(*types.Basic); isB && b.Kind() == types.Int {
				x.noShadow(vId)
				line := "let " + local(vId.Name) + " := (match (GoMap.get? " + x.expr(mt) + " " + x.expr(key) + ") with | some (PageVal.int v') => v' | _ => (0 : Int))"
				x.kill(vId)
				return line, true
			}
		}
		return "", false // `id, _ := res.Get("id").(string)` is read by main.go
	}
	if info.Defs[okId] == nil || (vId.Name != "_" && info.Defs[vId] == nil) {
		fail(as, "type assertion that assigns an existing variable")
	}
	x.noShadow(okId)
	var vObj types.Object
	if vId.Name != "_" {
		x.noShadow(vId)
		vObj = info.Defs[vId]
	}
	T := info.Types[ta.Type].Type
	E := info.Types[ta.X].Type
	lines := []string{}
	switch {
	case isDataOf(ta.X) && (pkgIface(T, "Resource") || pkgIface(T, "Collection")):
		// the primary data of a document: a sum type (header: documents)
		pat, val := "DocData.res v'", "v'"
		if pkgIface(T, "Collection") {
			pat, val = "DocData.col t' ms'", "(t', ms')"
		}
		lt := leanType(T, ta)
		lines = append(lines, "let assert' : Option ("+lt+") := (match "+x.expr(ta.X)+" with | "+pat+" => some "+val+" | _ => none)")
		if vObj != nil {
			lines = append(lines, "let "+local(vId.Name)+" := assert'.getD default")
		}
		lines = append(lines, "let "+local(okId.Name)+" := assert'.isSome")
	case pkgIface(E, "Resource") && isWrapperPtr(T):
		// whether the dynamic type of the resource is *Wrapper is a parameter of the translated function
		name := x.addExtra("isWrapper'", "ResView → Bool")
		src := x.expr(ta.X)
		lines = append(lines, "let "+local(okId.Name)+" := ("+name+" "+src+")")
		if vObj != nil {
			lines = append(lines, "let "+local(vId.Name)+" := "+src)
		}
	default:
		fail(ta, "type assertion from %s to %s", E, T)
	}
	x.guardedUses(vObj, info.Defs[okId], as)
	x.kill(okId)
	if vObj != nil {
		x.kill(vId)
	}
	return strings.Join(lines, "\n"+ind), true
}

// isDataOf: e is the field Data of a Document
func isDataOf(e ast.Expr) bool {
	sel, ok := e.(*ast.SelectorExpr)
	if !ok || sel.Sel.Name != "Data" {
		return false
	}
	tv, ok := info.Types[sel.X]
	return ok && isDocument(tv.Type)
}

// metaRead: e is `m[k]` with m a map[string]any (a `Meta`)
func metaRead(e ast.Expr) (m, k ast.Expr, ok bool) {
	ix, isIx := e.(*ast.IndexExpr)
	if !isIx {
		return nil, nil, false
	}
	mt, isMap := info.Types[ix.X].Type.Underlying().(*types.Map)
	if !isMap || !isString(mt.Key()) {
		return nil, nil, false
	}
	if it, isI := mt.Elem().Underlying().(*types.Interface); !isI || !it.Empty() {
		return nil, nil, false
	}
	return ix.X, ix.Index, true
}

func (x *tr) wpuEffect(st ast.Stmt, ind string) (string, bool) {
	if wpOwner != "u" {
		return "", false
	}
	as, ok := st.(*ast.AssignStmt)
	if !ok {
		return "", false
	}
	for _, l := range as.Lhs {
		if isDataOf(l) {
			fail(st, "store into the primary data of a document")
		}
	}
	if as.Tok == token.DEFINE && len(as.Lhs) == 2 && len(as.Rhs) == 1 {
		if ta, isTA := as.Rhs[0].(*ast.TypeAssertExpr); isTA && ta.Type != nil {
			return x.assertStmt(as, ta, ind)
		}
		// `_, ok := m[k]` on a map[string]any: whether the key is present
		if m, k, isMeta := metaRead(as.Rhs[0]); isMeta {
			blank, isB := as.Lhs[0].(*ast.Ident)
			okId, isOk := as.Lhs[1].(*ast.Ident)
			if isB && isOk && blank.Name == "_" && okId.Name != "_" && info.Defs[okId] != nil {
				x.noShadow(okId)
				line := "let " + local(okId.Name) + " := (GoMap.get? " + x.expr(m) + " " + x.expr(k) + ").isSome"
				x.kill(okId)
				return line, true
			}
		}
	}
	if as.Tok == token.DEFINE && len(as.Lhs) == 1 && len(as.Rhs) == 1 {
		x.noteSameLen(as)
	}
	if line, ok := x.elemStore(as); ok {
		return line, true
	}
	// `t := C.GetType()` on a collection view: a type of which the Name only is modelled
	if as.Tok == token.DEFINE && len(as.Lhs) == 1 && len(as.Rhs) == 1 {
		if call, isCall := as.Rhs[0].(*ast.CallExpr); isCall {
			if c, m := colCall(call); c != nil && m == "GetType" && len(call.Args) == 0 {
				id, isId := as.Lhs[0].(*ast.Ident)
				if !isId || info.Defs[id] == nil {
					fail(st, "the type of a collection view is assigned to something else than a new variable")
				}
				obj := info.Defs[id]
				x.noShadow(id)
				x.singleDef(obj, st)
				var stack []ast.Node
				ast.Inspect(x.fn.Body, func(n ast.Node) bool {
					if n == nil {
						stack = stack[:len(stack)-1]
						return true
					}
					if u, isU := n.(*ast.Ident); isU && info.Uses[u] == obj {
						sel, isSel := stack[len(stack)-1].(*ast.SelectorExpr)
						if !isSel || sel.X != ast.Expr(u) || sel.Sel.Name != "Name" {
							fail(u, "%s holds the type of a collection view: only its Name can be read", id.Name)
						}
					}
					stack = append(stack, n)
					return true
				})
				wpu.nameViews[obj] = true
				return "let " + local(id.Name) + " := (" + x.expr(c) + ").1", true
			}
		}
	}
	return "", false
}

// wpuSites: the checked reads of the statement's own expressions that no guard covers yet, each
// with the condition under which it is in range (as guardsOf of main.go does for byte reads)
func (x *tr) wpuSites(st ast.Stmt) (sites []ast.Node, conds []string) {
	var heads []ast.Expr
	switch s := st.(type) {
	case *ast.IfStmt:
		if s.Init == nil {
			heads = append(heads, s.Cond)
		}
	case *ast.AssignStmt:
		heads = append(heads, s.Rhs...)
		for _, l := range s.Lhs {
			if _, isId := l.(*ast.Ident); !isId {
				heads = append(heads, l)
			}
		}
	case *ast.ReturnStmt:
		heads = append(heads, s.Results...)
	case *ast.ExprStmt:
		heads = append(heads, s.X)
	case *ast.RangeStmt:
		heads = append(heads, s.X)
	case *ast.SwitchStmt:
		if s.Tag != nil {
			heads = append(heads, s.Tag)
		}
	}
	for _, h := range heads {
		var stack []ast.Node
		ast.Inspect(h, func(n ast.Node) bool {
			if n == nil {
				stack = stack[:len(stack)-1]
				return true
			}
			if ix, isIx := n.(*ast.IndexExpr); isIx && !wpu.guarded[n] {
				if id, isC := x.checkedRead(ix); isC {
					for i := range stack {
						if b, ok := stack[i].(*ast.BinaryExpr); ok && (b.Op == token.LAND || b.Op == token.LOR) {
							next := n
							if i+1 < len(stack) {
								next = stack[i+1]
							}
							if next == ast.Node(b.Y) {
								fail(n, "a read that may panic in the right operand of %s", b.Op)
							}
						}
						if _, isFn := stack[i].(*ast.FuncLit); isFn {
							fail(n, "a read that may panic in a function literal")
						}
					}
					sites = append(sites, n)
					conds = append(conds, "(decide ((0 : Int) ≤ "+local(id.Name)+") && decide ("+local(id.Name)+" < (("+x.expr(ix.X)+").length : Int)))")
				}
			}
			stack = append(stack, n)
			return true
		})
	}
	return
}

// wpuBlock: the statements of a block that this file reads - the end of the body and the bare
// `return` of a method with a threaded receiver, `return` in a function whose result is an optional
// resource or is wrapped in Res, the guard of a checked read
func (x *tr) wpuBlock(stmts []ast.Stmt, ind string) (string, bool) {
	if wpOwner != "u" {
		return "", false
	}
	if len(stmts) > 0 && len(wpu.sameLen) > 0 {
		if rs, isR := stmts[0].(*ast.RangeStmt); isR && x.storesSameLen(rs.Body) {
			return x.wpuRange(rs, stmts[1:], ind), true
		}
	}
	if wpu.thread == nil && !wpu.wrap && len(wpu.optRes) == 0 {
		return "", false
	}
	if len(stmts) == 0 {
		if wpu.thread != nil && x.exit == nil && !x.noImplicitReturn {
			return local(wpu.threadName), true
		}
		return "", false
	}
	if wpu.wrap {
		if sites, conds := x.wpuSites(stmts[0]); len(sites) > 0 {
			if x.exit != nil && !x.exit.hasRet {
				fail(stmts[0], "a read that may panic in a loop without return")
			}
			for _, n := range sites {
				wpu.guarded[n] = true
			}
			back := x.facts()
			okS := x.block(stmts, ind+"  ")
			back()
			for _, n := range sites {
				delete(wpu.guarded, n)
			}
			pv := "(Res.panic : " + x.resultLean + ")"
			if x.exit != nil {
				pv = x.exitState("false", "(some "+pv+")")
			}
			return "if (" + strings.Join(conds, " && ") + ") then\n" + ind + "  " + okS + "\n" + ind + "else\n" + ind + "  " + pv, true
		}
	}
	ret, isRet := stmts[0].(*ast.ReturnStmt)
	if !isRet {
		return "", false
	}
	val := ""
	if wpu.thread != nil {
		if len(ret.Results) != 0 {
			fail(ret, "return with a value in a method whose receiver is threaded")
		}
		val = local(wpu.threadName)
	} else {
		if len(ret.Results) != len(x.results) {
			fail(ret, "return outside the subset")
		}
		parts := make([]string, len(ret.Results))
		for i, r := range ret.Results {
			switch {
			case wpu.optRes[i] && info.Types[r].IsNil():
				parts[i] = "(none : Option (ResView))"
			case wpu.optRes[i]:
				parts[i] = "(some " + x.expr(r) + ")"
			default:
				parts[i] = x.exprT(r, x.results[i])
			}
		}
		val = "(" + strings.Join(parts, ", ") + ")"
		if len(parts) == 1 {
			val = parts[0]
		}
		if wpu.wrap {
			val = "(Res.ok " + val + " : " + x.resultLean + ")"
		}
	}
	if x.exit != nil {
		if !x.exit.hasRet {
			fail(ret, "return in a loop that is not translated with early exit")
		}
		return x.exitState("false", "(some "+val+")"), true
	}
	return val, true
}

// wpuLoopVar: the variables of a `for … range` statement are rendered as the element the step
// function of the fold binds (elem_, elem_.1, elem_.2), never by a `let`: one that is assigned
// nowhere may hide a variable of an enclosing block (header: loop variables)
func (x *tr) wpuLoopVar(id *ast.Ident) bool {
	if wpOwner != "u" {
		return false
	}
	obj := info.Defs[id]
	if obj == nil {
		return false
	}
	assigned := false
	ast.Inspect(x.fn.Body, func(n ast.Node) bool {
		switch v := n.(type) {
		case *ast.AssignStmt:
			for _, l := range v.Lhs {
				if u, isId := l.(*ast.Ident); isId && info.Uses[u] == obj {
					assigned = true
				}
			}
		case *ast.IncDecStmt:
			if u, isId := v.X.(*ast.Ident); isId && info.Uses[u] == obj {
				assigned = true
			}
		case *ast.UnaryExpr:
			if u, isId := v.X.(*ast.Ident); isId && v.Op == token.AND && info.Uses[u] == obj {
				assigned = true
			}
		}
		return !assigned
	})
	return !assigned
}

// wpuFor: `for i := 0; i < C.Len(); i++ { … }` over a collection view C (header: collections): a
// fold over `List.range` of the number of members; the body reads C by GetType().Name, Len() and
// At(i) only, so the number of members does not change
func (x *tr) wpuFor(s *ast.ForStmt, after []ast.Stmt, ind string, mustReturn bool) (string, bool) {
	if wpOwner != "u" {
		return "", false
	}
	cond, ok := s.Cond.(*ast.BinaryExpr)
	if !ok || cond.Op != token.LSS {
		return "", false
	}
	call, ok := cond.Y.(*ast.CallExpr)
	if !ok {
		return "", false
	}
	if _, isSel := call.Fun.(*ast.SelectorExpr); !isSel {
		return "", false
	}
	c, m := colCall(call)
	if c == nil || m != "Len" || len(call.Args) != 0 {
		return "", false
	}
	bad := func() { fail(s, "for statement over a collection view outside the subset") }
	init, ok := s.Init.(*ast.AssignStmt)
	if !ok || init.Tok != token.DEFINE || len(init.Lhs) != 1 || len(init.Rhs) != 1 {
		bad()
	}
	iv, ok := init.Lhs[0].(*ast.Ident)
	if !ok || info.Defs[iv] == nil {
		bad()
	}
	if tv := info.Types[init.Rhs[0]]; tv.Value == nil || tv.Value.ExactString() != "0" {
		bad()
	}
	idx := info.Defs[iv]
	x.noShadow(iv)
	post, ok := s.Post.(*ast.IncDecStmt)
	if !ok || post.Tok != token.INC {
		bad()
	}
	if pid, isId := post.X.(*ast.Ident); !isId || info.Uses[pid] != idx {
		bad()
	}
	if cid, isId := cond.X.(*ast.Ident); !isId || info.Uses[cid] != idx {
		bad()
	}
	cObj := info.Uses[c]
	if v, isVar := cObj.(*types.Var); !isVar || v.IsField() {
		bad()
	}
	// the body leaves the index and the collection alone: C is used as the receiver of GetType, Len, At only
	var stack []ast.Node
	ast.Inspect(s.Body, func(n ast.Node) bool {
		if n == nil {
			stack = stack[:len(stack)-1]
			return true
		}
		switch v := n.(type) {
		case *ast.AssignStmt:
			for _, l := range v.Lhs {
				if id, isId := l.(*ast.Ident); isId && info.Uses[id] == idx {
					bad()
				}
			}
		case *ast.IncDecStmt:
			if id, isId := v.X.(*ast.Ident); isId && info.Uses[id] == idx {
				bad()
			}
		case *ast.UnaryExpr:
			if id, isId := v.X.(*ast.Ident); isId && v.Op == token.AND && info.Uses[id] == idx {
				bad()
			}
		case *ast.Ident:
			if info.Uses[v] == cObj {
				sel, isSel := stack[len(stack)-1].(*ast.SelectorExpr)
				if !isSel || sel.X != ast.Expr(v) || (sel.Sel.Name != "GetType" && sel.Sel.Name != "Len" && sel.Sel.Name != "At") {
					fail(v, "the collection view %s, which the loop counts over, is used other than by GetType, Len, At", v.Name)
				}
			}
		}
		stack = append(stack, n)
		return true
	})
	iter := "(List.range ((" + x.expr(c) + ").2).length)"
	body := s.Body.List
	vs := x.assignedOutside(body, s.Body)
	cont := []string{}
	{
		vars := map[string]bool{}
		x.assigned(continuing(body), vars)
		for v := range vars {
			cont = append(cont, v)
		}
	}
	x.killNames(cont)
	x.killPlaces(body)
	x.loopDepth++
	x.idxVars[idx] = true
	key := colLenKey(c)
	if x.idxLt[key] == nil {
		x.idxLt[key] = map[types.Object]bool{}
	}
	oldNoImplicit := x.noImplicitReturn
	x.noImplicitReturn = true
	left := false
	leave := func() {
		if left {
			return
		}
		left = true
		x.loopDepth--
		x.noImplicitReturn = oldNoImplicit
		delete(x.idxVars, idx)
		delete(x.idxPos, idx)
		for _, m := range x.idxLt {
			delete(m, idx)
		}
	}
	defer leave()
	x.idxLt[key][idx] = true
	return x.foldLoop(s, iter, local(iv.Name), "", s.Body, vs, after, ind, mustReturn, leave), true
}

// ---------- element stores (header: element stores) ----------

// neverAssigned: the variable is assigned nowhere in the function (a parameter or the receiver
// keeps the value it has on entry), no element of it is stored into and its address is not taken
func (x *tr) neverAssigned(obj types.Object) bool {
	ok := true
	ast.Inspect(x.fn.Body, func(n ast.Node) bool {
		switch v := n.(type) {
		case *ast.AssignStmt:
			for _, l := range v.Lhs {
				if r := rootIdent(l); r != nil && (info.Uses[r] == obj || info.Defs[r] == obj) {
					ok = false
				}
			}
		case *ast.IncDecStmt:
			if r := rootIdent(v.X); r != nil && info.Uses[r] == obj {
				ok = false
			}
		case *ast.UnaryExpr:
			if r := rootIdent(v.X); r != nil && v.Op == token.AND && info.Uses[r] == obj {
				ok = false
			}
		case *ast.RangeStmt:
			for _, kv := range []ast.Expr{v.Key, v.Value} {
				if id, isId := kv.(*ast.Ident); isId && v.Tok != token.DEFINE && info.Uses[id] == obj {
					ok = false
				}
			}
		}
		return ok
	})
	return ok
}

// noteSameLen: `xs := make([]T, len(X))` with X a parameter or the receiver that is assigned nowhere
// and xs a local that is assigned nowhere else and used only in `xs[k]`, `len(xs)` and `return`:
// xs has the length of X for as long as the function runs (main.go renders the declaration)
func (x *tr) noteSameLen(as *ast.AssignStmt) {
	id, ok := as.Lhs[0].(*ast.Ident)
	if !ok || info.Defs[id] == nil {
		return
	}
	call, ok := as.Rhs[0].(*ast.CallExpr)
	if !ok || len(call.Args) != 2 {
		return
	}
	if f, isId := call.Fun.(*ast.Ident); !isId || f.Name != "make" {
		return
	} else if _, isB := info.Uses[f].(*types.Builtin); !isB {
		return
	}
	if _, isSl := info.Types[call].Type.Underlying().(*types.Slice); !isSl {
		return
	}
	lc, ok := call.Args[1].(*ast.CallExpr)
	if !ok || lenArgAny(lc) == nil {
		return
	}
	X, ok := lc.Args[0].(*ast.Ident)
	if !ok || info.Uses[X] == nil {
		return
	}
	if _, isSl := info.Uses[X].Type().Underlying().(*types.Slice); !isSl {
		return
	}
	if v, isVar := info.Uses[X].(*types.Var); !isVar || v.IsField() || v.Pos() > x.fn.Body.Pos() || !x.neverAssigned(v) {
		return // X must be a parameter or the receiver
	}
	obj := info.Defs[id]
	if x.nilable[obj] {
		return
	}
	fine := true
	var stack []ast.Node
	ast.Inspect(x.fn.Body, func(n ast.Node) bool {
		if n == nil {
			stack = stack[:len(stack)-1]
			return true
		}
		if u, isU := n.(*ast.Ident); isU && info.Uses[u] == obj {
			switch p := stack[len(stack)-1].(type) {
			case *ast.IndexExpr:
				if p.X != ast.Expr(u) {
					fine = false
				}
			case *ast.ReturnStmt:
			case *ast.CallExpr:
				if lenArgAny(p) == nil {
					fine = false
				}
			default:
				fine = false
			}
		}
		stack = append(stack, n)
		return true
	})
	if fine {
		wpu.sameLen[obj] = X.Name
	}
}

// sameLenStore: the assignment is `xs[k] = e` into a slice recorded by noteSameLen
func sameLenStore(as *ast.AssignStmt) (xs, k *ast.Ident, ok bool) {
	if as.Tok != token.ASSIGN || len(as.Lhs) != 1 || len(as.Rhs) != 1 {
		return nil, nil, false
	}
	ix, isIx := as.Lhs[0].(*ast.IndexExpr)
	if !isIx {
		return nil, nil, false
	}
	xs, isId := ix.X.(*ast.Ident)
	if !isId || info.Uses[xs] == nil || wpu.sameLen[info.Uses[xs]] == "" {
		return nil, nil, false
	}
	k, _ = ix.Index.(*ast.Ident)
	return xs, k, true
}

// elemStore: `xs[k] = e` with k an index variable known to be below len(X) = len(xs): `xs.set k e`
func (x *tr) elemStore(as *ast.AssignStmt) (string, bool) {
	xs, k, ok := sameLenStore(as)
	if !ok {
		return "", false
	}
	if k == nil || info.Uses[k] == nil || !x.idxVars[info.Uses[k]] || !x.idxLt[wpu.sameLen[info.Uses[xs]]][info.Uses[k]] {
		fail(as, "store into %s at an index that is not known to be in range", xs.Name)
	}
	sl := info.Types[xs].Type.Underlying().(*types.Slice)
	val := x.exprT(as.Rhs[0], sl.Elem())
	return "let " + local(xs.Name) + " := (" + local(xs.Name) + ".set " + local(k.Name) + " " + val + ")", true
}

func (x *tr) storesSameLen(body *ast.BlockStmt) bool {
	found := false
	ast.Inspect(body, func(n ast.Node) bool {
		if as, ok := n.(*ast.AssignStmt); ok {
			if _, _, isS := sameLenStore(as); isS {
				found = true
			}
		}
		return !found
	})
	return found
}

// wpuRange: `for k := range X { … xs[k] = e … }` with X assigned nowhere in the function: a fold
// over the indices of X (as rangeIndex of main.go) that carries the slices stored into
func (x *tr) wpuRange(s *ast.RangeStmt, after []ast.Stmt, ind string) string {
	bad := func(why string) { fail(s, "range statement with element stores outside the subset: %s", why) }
	key, ok := s.Key.(*ast.Ident)
	if !ok || s.Tok != token.DEFINE || s.Value != nil || key.Name == "_" || info.Defs[key] == nil || x.recvObj != nil {
		bad("not `for k := range X`")
	}
	X, ok := s.X.(*ast.Ident)
	if !ok || info.Uses[X] == nil || !x.neverAssigned(info.Uses[X]) {
		bad("the slice ranged over is not a variable that is assigned nowhere")
	}
	if _, isSl := info.Types[s.X].Type.Underlying().(*types.Slice); !isSl {
		bad("not a slice")
	}
	idx := info.Defs[key]
	x.noShadow(key)
	if !x.neverAssigned(idx) {
		bad("the loop index is assigned")
	}
	stored := map[string]bool{}
	ast.Inspect(s.Body, func(n ast.Node) bool {
		if as, ok := n.(*ast.AssignStmt); ok {
			if xs, _, isS := sameLenStore(as); isS {
				stored[xs.Name] = true
			}
		}
		return true
	})
	iter := "(List.range (" + x.expr(s.X) + ").length)"
	body := s.Body.List
	vars := map[string]bool{}
	for _, v := range x.assignedOutside(body, s.Body) {
		vars[v] = true
	}
	for v := range stored {
		vars[v] = true
	}
	vs := []string{}
	for v := range vars {
		vs = append(vs, v)
	}
	sortStrings(vs)
	{
		cv, cont := map[string]bool{}, []string{}
		x.assigned(continuing(body), cv)
		for v := range cv {
			cont = append(cont, v)
		}
		x.killNames(cont)
	}
	x.killPlaces(body)
	x.loopDepth++
	x.idxVars[idx] = true
	if x.idxLt[X.Name] == nil {
		x.idxLt[X.Name] = map[types.Object]bool{}
	}
	x.idxLt[X.Name][idx] = true
	oldNoImplicit := x.noImplicitReturn
	x.noImplicitReturn = true
	left := false
	leave := func() {
		if left {
			return
		}
		left = true
		x.loopDepth--
		x.noImplicitReturn = oldNoImplicit
		delete(x.idxVars, idx)
		delete(x.idxPos, idx)
		for _, m := range x.idxLt {
			delete(m, idx)
		}
	}
	defer leave()
	return x.foldLoop(s, iter, local(key.Name), "", s.Body, vs, after, ind, true, leave)
}

func sortStrings(a []string) {
	for i := 1; i < len(a); i++ {
		for j := i; j > 0 && a[j] < a[j-1]; j-- {
			a[j], a[j-1] = a[j-1], a[j]
		}
	}
}

// ---------- functions ----------

// wpuThreads: d is a method without result, with a pointer receiver to Document, to a generated
// structure or to a named slice type, whose body writes through the receiver (header: threaded
// receivers)
func (x *tr) wpuThreads(d *ast.FuncDecl) bool {
	if wpOwner != "u" {
		return false
	}
	if d.Recv == nil || len(d.Recv.List) != 1 || len(d.Recv.List[0].Names) != 1 || d.Type.Results != nil || x.recvObj != nil {
		return false
	}
	rt := info.Types[d.Recv.List[0].Type].Type
	pt, isP := rt.(*types.Pointer)
	if !isP {
		return false
	}
	nm, isN := pt.Elem().(*types.Named)
	if !isN {
		return false
	}
	_, isSlice := nm.Underlying().(*types.Slice)
	if !isDocument(nm) && !isSlice && genStructOf(nm, d) == nil {
		return false
	}
	obj := info.Defs[d.Recv.List[0].Names[0]]
	writes := false
	ast.Inspect(d.Body, func(n ast.Node) bool {
		if as, ok := n.(*ast.AssignStmt); ok {
			for _, l := range as.Lhs {
				if _, isId := l.(*ast.Ident); !isId && rootIdent(l) != nil && info.Uses[rootIdent(l)] == obj {
					writes = true
				}
			}
		}
		return true
	})
	return writes
}

func rootIdent(e ast.Expr) *ast.Ident {
	for {
		switch v := e.(type) {
		case *ast.ParenExpr:
			e = v.X
		case *ast.StarExpr:
			e = v.X
		case *ast.SelectorExpr:
			e = v.X
		case *ast.IndexExpr:
			e = v.X
		case *ast.Ident:
			return v
		default:
			return nil
		}
	}
}

// wpuResults: called once per translation of a function, before its body is read, with the Lean
// types of the results; sets up the state of this file and returns the result types to print
func (x *tr) wpuResults(d *ast.FuncDecl, res []string) []string {
	wpu = wpuState{optRes: map[int]bool{}, nameViews: map[types.Object]bool{}, guarded: map[ast.Node]bool{}, params: map[types.Object]bool{}, sameLen: map[types.Object]string{}}
	if d.Type.Params != nil {
		for _, f := range d.Type.Params.List {
			for _, n := range f.Names {
				wpu.params[info.Defs[n]] = true
			}
		}
	}
	if x.recvObj != nil || wpOwner != "u" {
		return res
	}
	if x.wpuThreads(d) {
		// header: threaded receivers
		recv := d.Recv.List[0].Names[0]
		obj := info.Defs[recv]
		var stack []ast.Node
		ast.Inspect(d.Body, func(n ast.Node) bool {
			if n == nil {
				stack = stack[:len(stack)-1]
				return true
			}
			if id, ok := n.(*ast.Ident); ok && info.Uses[id] == obj {
				switch p := stack[len(stack)-1].(type) {
				case *ast.StarExpr:
				case *ast.SelectorExpr:
					if _, isField := info.Uses[p.Sel].(*types.Var); p.X != ast.Expr(id) || !isField {
						fail(id, "the threaded receiver %s is used other than by selection of a field or *%s", recv.Name, recv.Name)
					}
				default:
					fail(id, "the threaded receiver %s is used other than by selection of a field or *%s", recv.Name, recv.Name)
				}
			}
			stack = append(stack, n)
			return true
		})
		ast.Inspect(d.Body, func(n ast.Node) bool {
			if _, isLit := n.(*ast.FuncLit); isLit {
				fail(n, "function literal in a method whose receiver is threaded")
			}
			return true
		})
		wpu.thread, wpu.threadName = obj, recv.Name
		x.owned[obj] = 1
		rt := info.Types[d.Recv.List[0].Type].Type
		if pt, isP := rt.(*types.Pointer); isP && optionPointer(pt) {
			rt = pt.Elem() // as main.go reads a pointer receiver: the value it points to
		}
		lt := leanType(rt, d)
		x.resultLean = lt
		return []string{lt}
	}
	if d.Type.Results == nil {
		return res
	}
	// header: nil resources - a result of type Resource for which some `return` gives nil
	changed := false
	ast.Inspect(d.Body, func(n ast.Node) bool {
		if _, isLit := n.(*ast.FuncLit); isLit {
			return false
		}
		if ret, ok := n.(*ast.ReturnStmt); ok && len(ret.Results) == len(x.results) {
			for i, r := range ret.Results {
				if info.Types[r].IsNil() && pkgIface(x.results[i], "Resource") {
					wpu.optRes[i] = true
					changed = true
				}
			}
		}
		return true
	})
	res = append([]string{}, res...)
	for i := range wpu.optRes {
		res[i] = "Option (ResView)"
	}
	// header: checked reads
	hasErr := false
	for _, r := range x.results {
		if types.Identical(r, types.Universe.Lookup("error").Type()) {
			hasErr = true
		}
	}
	ast.Inspect(d.Body, func(n ast.Node) bool {
		if ix, ok := n.(*ast.IndexExpr); ok {
			if _, isC := x.checkedRead(ix); isC {
				wpu.wrap = true
			}
		}
		return true
	})
	if wpu.wrap && hasErr {
		fail(d, "a read at a parameter in a function that has an error result")
	}
	if wpu.wrap {
		res = []string{"Res (" + strings.Join(res, " × ") + ")"}
		wpuWrapped[leanName(targetName(d))] = true
		changed = true
	}
	if changed {
		x.resultLean = strings.Join(res, " × ")
	}
	return res
}

// targetName: "Recv.Method" or "func", as in `targets`
func targetName(d *ast.FuncDecl) string {
	name := d.Name.Name
	if d.Recv != nil && len(d.Recv.List) == 1 {
		t := d.Recv.List[0].Type
		if s, ok := t.(*ast.StarExpr); ok {
			t = s.X
		}
		if id, ok := t.(*ast.Ident); ok {
			name = id.Name + "." + name
		}
	}
	return name
}
