package main

import (
	"bytes"
	"fmt"
	"net/http"
	"reflect"

	"github.com/mfcochauxlaberge/jsonapi"
)

// deep snapshot of a schema: content plus the identity of its slice and maps (a write
// of an equal value is still a write)
// a type whose NewFunc hands out copies of a prototype carrying default values (what an
// application sets instead of BuildType's zero prototype); the prototype is state the
// schema shares between requests
type protoT struct {
	ID   string   `json:"id" api:"defaults"`
	Name string   `json:"name" api:"attr"`
	Tags []string `json:"tags" api:"rel,bare"`
	Blob []byte   `json:"blob" api:"attr"`
}

var protos = map[*jsonapi.Schema]*jsonapi.Wrapper{}

func schemaFingerprint(s *jsonapi.Schema) string {
	fp := sxSchema(s)
	if p := protos[s]; p != nil {
		fp += " proto " + sxResView(p)
	}
	fp = fp + fmt.Sprintf(" types@%x/%d/%d", reflect.ValueOf(s.Types).Pointer(), len(s.Types), cap(s.Types))
	for i := range s.Types {
		fp += fmt.Sprintf(" %d:attrs@%x rels@%x newfunc=%v", i, reflect.ValueOf(s.Types[i].Attrs).Pointer(),
			reflect.ValueOf(s.Types[i].Rels).Pointer(), s.Types[i].NewFunc != nil)
	}
	return fp
}

// SharedOp runs one of the read-only operations of C12 against the shared schema with
// thread-local inputs derived from r. Used by the `shared` suite and by cmd/racer.
func SharedOp(r *Rng, s *jsonapi.Schema, ts []stype, o *Out) string {
	if s.HasType("bare") && r.chance(1, 6) {
		// a type whose Attrs / Rels maps are nil
		switch r.IntN(4) {
		case 0:
			_ = s.GetType("bare")
			return "GetType(bare)"
		case 1:
			_, _ = jsonapi.NewURLFromRaw(s, "/bare?sort=id")
			return "NewURLFromRaw(bare)"
		case 2:
			_, _ = jsonapi.UnmarshalDocument([]byte(`{"data":{"id":"1","type":"bare"}}`), s)
			return "UnmarshalDocument(bare)"
		default:
			_, _ = jsonapi.UnmarshalPartialResource([]byte(`{"id":"1","type":"bare"}`), s)
			return "UnmarshalPartialResource(bare)"
		}
	}
	if s.HasType("defaults") && r.chance(1, 10) {
		t := s.GetType("defaults")
		res := t.New()
		res.Set("id", "d")
		doc := &jsonapi.Document{Data: res, PrePath: "/p", RelData: map[string][]string{"defaults": {"tags"}}}
		url := &jsonapi.URL{Fragments: []string{"defaults", "d"}, Params: &jsonapi.Params{Fields: map[string][]string{"defaults": t.Fields()}}}
		_, _ = jsonapi.MarshalDocument(doc, url)
		if b, ok := res.Get("blob").([]byte); ok && len(b) > 0 {
			b[0]++ // the resource is the caller's own
		}
		return "New(defaults)+marshal"
	}
	st := ts[r.IntN(len(ts))]
	if !st.backed && r.chance(1, 10) {
		// a request-local collection typed with what GetType returned (a copy of the Type
		// value, sharing its maps with the schema): adding a resource whose fields the type
		// already has - one of them declared with another kind - has nothing to add
		t := s.GetType(st.typ.Name)
		sc := &jsonapi.SoftCollection{}
		sc.SetType(&t)
		vt := stripNewFunc(st.typ).Copy()
		for k, a := range vt.Attrs {
			a.Type = 1 + a.Type%14
			vt.Attrs[k] = a
			break
		}
		res := &jsonapi.SoftResource{Type: &vt}
		res.SetID("v")
		sc.Add(res)
		_ = sc.Len()
		return "SoftCollection(GetType).Add"
	}
	if r.chance(1, 10) {
		// a resource created from the type AS STORED in the schema (Type.New has a pointer
		// receiver): allowed for a type whose two maps are allocated - creating and using the
		// resource then has nothing to initialise in the shared type
		for i := range s.Types {
			if s.Types[i].Name == st.typ.Name && s.Types[i].Attrs != nil && s.Types[i].Rels != nil {
				res := s.Types[i].New()
				res.Set("id", "x")
				for _, f := range st.typ.Fields() {
					_ = res.Get(f)
				}
				if sr, ok := res.(*jsonapi.SoftResource); ok {
					_ = sr.Attrs()
					_ = sr.Rels()
				}
				doc := &jsonapi.Document{Data: res, PrePath: "/p"}
				url := &jsonapi.URL{Fragments: []string{st.typ.Name, "x"}, Params: &jsonapi.Params{Fields: map[string][]string{st.typ.Name: st.typ.Fields()}}}
				_, _ = jsonapi.MarshalDocument(doc, url)
				return "Types[i].New"
			}
		}
	}
	if r.chance(1, 10) {
		// a collection document with an element that is no resource object: the error one
		// request gets is its own
		bad := []string{"7", `"x"`, `{"id":1,"type":"` + st.typ.Name + `"}`, "null", "[]"}[r.IntN(5)]
		good := `{"id":"1","type":"` + st.typ.Name + `"}`
		_, err := jsonapi.UnmarshalDocument([]byte(`{"data":[`+good+`,`+bad+`]}`), s)
		if je, ok := err.(jsonapi.Error); ok {
			_ = je.Error()
			_, _ = je.MarshalJSON()
		}
		return "UnmarshalDocument(bad element)"
	}
	switch r.IntN(11) {
	case 0:
		_ = s.GetType(st.typ.Name)
		return "GetType"
	case 1:
		_ = s.HasType(st.typ.Name)
		return "HasType"
	case 2:
		_ = s.Check()
		return "Check"
	case 3:
		_ = s.Rels()
		return "Rels"
	case 4:
		raw := "/" + st.typ.Name
		if r.bool() {
			raw += "?sort=id&page[size]=2&include=" + fieldNames[r.IntN(len(fieldNames))]
		}
		if r.chance(1, 3) {
			// relationship URLs on the hand-written type, the unnamed relationship included
			raw = "/joins/1/" + []string{"", "relationships/"}[r.IntN(2)] + []string{"left", "right", "back", "unnamed"}[r.IntN(4)]
		}
		_, _ = jsonapi.NewURLFromRaw(s, raw)
		return "NewURLFromRaw"
	case 5:
		pp := genPayload(r, ts, r.chance(1, 4), o)
		_, _ = jsonapi.UnmarshalDocument([]byte(`{"data":`+pp.text(nil)+`}`), s)
		return "UnmarshalDocument"
	case 6:
		pp := genPayload(r, ts, r.chance(1, 4), o)
		_, _ = jsonapi.UnmarshalPartialResource([]byte(pp.text(nil)), s)
		return "UnmarshalPartialResource"
	case 7:
		t := s.GetType(st.typ.Name)
		res := t.New()
		res.Set("id", "x")
		for _, f := range t.Fields() {
			_ = res.Get(f)
		}
		return "Type.New"
	case 8:
		res := genResOf(r, st, o)
		doc := &jsonapi.Document{Data: res, PrePath: "/p"}
		url := &jsonapi.URL{Fragments: []string{st.typ.Name, "1"}, Params: &jsonapi.Params{Fields: map[string][]string{st.typ.Name: st.typ.Fields()}}}
		_, _ = jsonapi.MarshalDocument(doc, url)
		return "MarshalDocument"
	case 9:
		pp := genPayload(r, ts, false, o)
		req, _ := http.NewRequest("POST", "/"+st.typ.Name, bytes.NewReader([]byte(`{"data":`+pp.text(nil)+`}`)))
		_, _ = jsonapi.NewRequest(req, s)
		return "NewRequest"
	default:
		_, _ = jsonapi.UnmarshalIdentifiers([]byte(`[{"id":"1","type":"`+st.typ.Name+`"}]`), s)
		return "UnmarshalIdentifiers"
	}
}

// addBareTypes adds soft types whose maps are (partly) nil, as a hand-written
// Type{Name: …} or one built with AddRel only has.
func addBareTypes(r *Rng, s *jsonapi.Schema) {
	if bt, err := jsonapi.BuildType(protoT{}); err == nil {
		proto := jsonapi.Wrap(&protoT{Name: "n", Tags: []string{"z", "a", "m"}, Blob: []byte("blob")})
		bt.NewFunc = proto.Copy
		putType(s, bt)
		if len(protos) > 64 {
			protos = map[*jsonapi.Schema]*jsonapi.Wrapper{}
		}
		protos[s] = proto
	}
	putType(s, jsonapi.Type{Name: "bare"})
	onlyRels := jsonapi.Type{Name: "joins"}
	putRel(&onlyRels, jsonapi.Rel{FromType: "joins", FromName: "left", ToOne: true, ToType: "bare"})
	// hand-written relationships that do not say which type they belong to (Check reports
	// them; no query may fill the blank in)
	putRel(&onlyRels, jsonapi.Rel{FromName: "right", ToOne: true, ToType: "joins", ToName: "back"})
	putRel(&onlyRels, jsonapi.Rel{FromName: "back", ToOne: false, ToType: "joins", ToName: "right", FromOne: true})
	// a relationship written in a map literal under its key, FromName left out
	onlyRels.Rels["unnamed"] = jsonapi.Rel{ToOne: true, ToType: "bare"}
	putType(s, onlyRels)
}

func suiteShared(r *Rng, n int, thorough bool, o *Out) {
	for c := 0; c < n/20+1; c++ {
		s, ts := genSchema(r, o)
		addBareTypes(r, s)
		for k := 0; k < 20; k++ {
			before := schemaFingerprint(s)
			name := ""
			p, msg := guard(func() { name = SharedOp(r, s, ts, o) })
			pv := "ok"
			if p {
				pv = "FAIL:" + name + " panicked: " + msg
			} else if schemaFingerprint(s) != before {
				pv = "FAIL:" + name + " changed the shared schema"
			}
			o.stat("op." + name)
			o.emit(lst("shared", "op", name), "-", pv)
		}
	}
}

func init() { suites["shared"] = suiteShared }
