package main

import (
	"encoding/json"
	"fmt"
	"net/http"
	"sort"
	"strconv"
	"strings"
	"time"
	"unicode/utf8"

	"github.com/mfcochauxlaberge/jsonapi"
)

// The `misc` suite: the library's small pieces against Model/Misc.lean (theorems CM_*).
//   1. Resources / WrapperCollection: op sequences of Add and At (out of range and negative
//      indexes included), every real call under guard
//   2. NewIdentifiers / Identifiers.IDs
//   3. Type.Equal / Copy / Fields: random types, copies, nil-vs-empty maps, near-equal types
//   4. the error constructors, Error(), MarshalJSON; strconv.Atoi / Quote (ASCII) and
//      encoding/json's UTF-8 coercion as the model has them
//   5. the Meta getters
// The verdict column is a Go-side oracle of the law the theorems state.

// ---------- encoders (must match Jsonapi/Driver/Misc.lean) ----------

func sxTypeV(t jsonapi.Type) string {
	as, rs := "nil", "nil"
	if t.Attrs != nil {
		ak := sortedKeys(t.Attrs)
		l := make([]string, len(ak))
		for i, k := range ak {
			l[i] = lst(hx(k), sxAttr(t.Attrs[k]))
		}
		as = lst(l...)
	}
	if t.Rels != nil {
		rk := sortedKeys(t.Rels)
		l := make([]string, len(rk))
		for i, k := range rk {
			l[i] = lst(hx(k), sxRel(t.Rels[k]))
		}
		rs = lst(l...)
	}
	return lst(hx(t.Name), as, rs, b01(t.NewFunc != nil))
}

func sxStrsOpt(l []string) string {
	if l == nil {
		return "nil"
	}
	return hxs(l)
}

func sxIdents(l jsonapi.Identifiers) string {
	if l == nil {
		return "nil"
	}
	out := make([]string, len(l))
	for i := range l {
		out[i] = lst(hx(l[i].ID), hx(l[i].Type))
	}
	return lst(out...)
}

// a map[string]any whose values are strings, as the JSON object the model lists it as
func sxStrAnyMap(m map[string]any) string {
	ks := sortedKeys(m)
	out := []string{"o"}
	for _, k := range ks {
		if s, ok := m[k].(string); ok {
			out = append(out, lst(hx(k), lst("s", hx(s))))
		} else {
			out = append(out, lst(hx(k), "other"))
		}
	}
	return lst(out...)
}

func sxMetaVal(v any) string {
	switch x := v.(type) {
	case nil:
		return "nil"
	case bool:
		return lst("b", b01(x))
	case string:
		return lst("s", hx(x))
	case int:
		return lst("i", itoa(x))
	default:
		return lst("other", "1")
	}
}

// ---------- generators ----------

var miscStrPool = []string{"", "a", "b", "name", "filter", "a b", "\"", "\\", "a\"b\\c", "\n", "\t\r", "\x00", "\x07\x08\x0b\x0c", "\x1f", "\x7f", "~", "<>&",
	"é", "日本", "\u00a0", "\U0001F600", "\u2028", "\u00ad", "\ufffd", "\u0301", "\ufeff", "\U000e0001", "\xff", "a\xffb", "\xe2\x80", "\xc0\x80", "\xed\xa0\x80", "\xf4\x90\x80\x80", "\xc3", "é\xffé",
	"]", "fields[", "page[size]", "%q", "%!s(MISSING)", "'", "`"}

func genMiscStr(r *Rng) string {
	switch r.IntN(8) {
	case 0:
		n := r.IntN(6)
		b := make([]byte, n)
		for i := range b {
			b[i] = byte(r.IntN(256))
		}
		return string(b)
	case 1:
		n := r.IntN(6)
		b := make([]byte, n)
		for i := range b {
			b[i] = byte(r.IntN(128))
		}
		return string(b)
	case 2:
		return miscStrPool[r.IntN(len(miscStrPool))] + miscStrPool[r.IntN(len(miscStrPool))]
	default:
		return miscStrPool[r.IntN(len(miscStrPool))]
	}
}

func isASCII(s string) bool {
	for i := 0; i < len(s); i++ {
		if s[i] >= 0x80 {
			return false
		}
	}
	return true
}

var miscNames = []string{"a", "b", "c", "ab", ""}

// genTypeV: a Type value with nil, empty or filled maps; map keys mostly (not always) the
// field's own name; kinds 0..15 (valid and invalid ones).
func genTypeV(r *Rng) jsonapi.Type {
	t := jsonapi.Type{Name: []string{"t", "t", "u", ""}[r.IntN(4)]}
	switch r.IntN(5) {
	case 0: // nil
	case 1:
		t.Attrs = map[string]jsonapi.Attr{}
	default:
		t.Attrs = map[string]jsonapi.Attr{}
		for i := r.IntN(4); i > 0; i-- {
			k := miscNames[r.IntN(len(miscNames))]
			a := jsonapi.Attr{Name: k, Type: r.IntN(16), Nullable: r.bool()}
			if r.chance(1, 8) {
				a.Name = miscNames[r.IntN(len(miscNames))]
			}
			t.Attrs[k] = a
		}
	}
	switch r.IntN(5) {
	case 0:
	case 1:
		t.Rels = map[string]jsonapi.Rel{}
	default:
		t.Rels = map[string]jsonapi.Rel{}
		for i := r.IntN(3); i > 0; i-- {
			k := []string{"r", "s", "a", "many"}[r.IntN(4)]
			rel := jsonapi.Rel{FromType: t.Name, FromName: k, ToOne: r.bool(), ToType: []string{"t", "u"}[r.IntN(2)], FromOne: r.bool()}
			if r.chance(1, 3) {
				rel.ToName = []string{"inv", "r"}[r.IntN(2)]
			}
			if r.chance(1, 8) {
				rel.FromName = miscNames[r.IntN(len(miscNames))]
			}
			t.Rels[k] = rel
		}
	}
	if r.chance(1, 5) {
		t.NewFunc = func() jsonapi.Resource { return nil }
	}
	return t
}

// rebuild: the same Type value in freshly built maps (another insertion order, another
// iteration order), nil-ness kept
func rebuildType(r *Rng, t jsonapi.Type) jsonapi.Type {
	u := jsonapi.Type{Name: t.Name, NewFunc: t.NewFunc}
	if t.Attrs != nil {
		u.Attrs = map[string]jsonapi.Attr{}
		ks := sortedKeys(t.Attrs)
		for _, i := range r.Perm(len(ks)) {
			u.Attrs[ks[i]] = t.Attrs[ks[i]]
		}
	}
	if t.Rels != nil {
		u.Rels = map[string]jsonapi.Rel{}
		ks := sortedKeys(t.Rels)
		for _, i := range r.Perm(len(ks)) {
			u.Rels[ks[i]] = t.Rels[ks[i]]
		}
	}
	return u
}

// the harness's own reading of "same name, same maps" (reflect.DeepEqual's rule for maps:
// nil and empty differ)
func typeSame(a, b jsonapi.Type) bool {
	if a.Name != b.Name || (a.Attrs == nil) != (b.Attrs == nil) || (a.Rels == nil) != (b.Rels == nil) {
		return false
	}
	if len(a.Attrs) != len(b.Attrs) || len(a.Rels) != len(b.Rels) {
		return false
	}
	for k, v := range a.Attrs {
		if w, ok := b.Attrs[k]; !ok || v != w {
			return false
		}
	}
	for k, v := range a.Rels {
		if w, ok := b.Rels[k]; !ok || v != w {
			return false
		}
	}
	return true
}

type errCtor struct {
	name  string
	arity int
	call  func(a []string) jsonapi.Error
}

var errCtors = []errCtor{
	{"NewErrBadRequest", 2, func(a []string) jsonapi.Error { return jsonapi.NewErrBadRequest(a[0], a[1]) }},
	{"NewErrMalformedFilterParameter", 1, func(a []string) jsonapi.Error { return jsonapi.NewErrMalformedFilterParameter(a[0]) }},
	{"NewErrInvalidPageNumberParameter", 1, func(a []string) jsonapi.Error { return jsonapi.NewErrInvalidPageNumberParameter(a[0]) }},
	{"NewErrInvalidPageSizeParameter", 1, func(a []string) jsonapi.Error { return jsonapi.NewErrInvalidPageSizeParameter(a[0]) }},
	{"NewErrInvalidFieldValueInBody", 3, func(a []string) jsonapi.Error { return jsonapi.NewErrInvalidFieldValueInBody(a[0], a[1], a[2]) }},
	{"NewErrDuplicateFieldInFieldsParameter", 2, func(a []string) jsonapi.Error { return jsonapi.NewErrDuplicateFieldInFieldsParameter(a[0], a[1]) }},
	{"NewErrMissingDataMember", 0, func(a []string) jsonapi.Error { return jsonapi.NewErrMissingDataMember() }},
	{"NewErrUnknownFieldInBody", 2, func(a []string) jsonapi.Error { return jsonapi.NewErrUnknownFieldInBody(a[0], a[1]) }},
	{"NewErrUnknownFieldInURL", 1, func(a []string) jsonapi.Error { return jsonapi.NewErrUnknownFieldInURL(a[0]) }},
	{"NewErrUnknownParameter", 1, func(a []string) jsonapi.Error { return jsonapi.NewErrUnknownParameter(a[0]) }},
	{"NewErrUnknownRelationshipInPath", 3, func(a []string) jsonapi.Error { return jsonapi.NewErrUnknownRelationshipInPath(a[0], a[1], a[2]) }},
	{"NewErrUnknownTypeInURL", 1, func(a []string) jsonapi.Error { return jsonapi.NewErrUnknownTypeInURL(a[0]) }},
	{"NewErrUnknownFieldInFilterParameter", 1, func(a []string) jsonapi.Error { return jsonapi.NewErrUnknownFieldInFilterParameter(a[0]) }},
	{"NewErrUnknownOperatorInFilterParameter", 1, func(a []string) jsonapi.Error { return jsonapi.NewErrUnknownOperatorInFilterParameter(a[0]) }},
	{"NewErrInvalidValueInFilterParameter", 2, func(a []string) jsonapi.Error { return jsonapi.NewErrInvalidValueInFilterParameter(a[0], a[1]) }},
	{"NewErrUnknownCollationInFilterParameter", 1, func(a []string) jsonapi.Error { return jsonapi.NewErrUnknownCollationInFilterParameter(a[0]) }},
	{"NewErrUnknownFilterParameterLabel", 1, func(a []string) jsonapi.Error { return jsonapi.NewErrUnknownFilterParameterLabel(a[0]) }},
	{"NewErrUnauthorized", 0, func(a []string) jsonapi.Error { return jsonapi.NewErrUnauthorized() }},
	{"NewErrForbidden", 0, func(a []string) jsonapi.Error { return jsonapi.NewErrForbidden() }},
	{"NewErrNotFound", 0, func(a []string) jsonapi.Error { return jsonapi.NewErrNotFound() }},
	{"NewErrPayloadTooLarge", 0, func(a []string) jsonapi.Error { return jsonapi.NewErrPayloadTooLarge() }},
	{"NewErrRequestURITooLong", 0, func(a []string) jsonapi.Error { return jsonapi.NewErrRequestURITooLong() }},
	{"NewErrUnsupportedMediaType", 0, func(a []string) jsonapi.Error { return jsonapi.NewErrUnsupportedMediaType() }},
	{"NewErrTooManyRequests", 0, func(a []string) jsonapi.Error { return jsonapi.NewErrTooManyRequests() }},
	{"NewErrRequestHeaderFieldsTooLarge", 0, func(a []string) jsonapi.Error { return jsonapi.NewErrRequestHeaderFieldsTooLarge() }},
	{"NewErrInternalServerError", 0, func(a []string) jsonapi.Error { return jsonapi.NewErrInternalServerError() }},
	{"NewErrServiceUnavailable", 0, func(a []string) jsonapi.Error { return jsonapi.NewErrServiceUnavailable() }},
	{"NewErrNotImplemented", 0, func(a []string) jsonapi.Error { return jsonapi.NewErrNotImplemented() }},
}

// what Error() must return, written from its documentation and switch
func wantErrorString(e jsonapi.Error) string {
	code, _ := strconv.Atoi(e.Status)
	full := http.StatusText(code)
	msg := e.Detail
	if msg == "" {
		msg = e.Title
	}
	if full == "" || e.Status == "" {
		return msg
	}
	if msg == "" {
		return e.Status + " " + full
	}
	return e.Status + " " + full + ": " + msg
}

func sxErrorObs(e jsonapi.Error) (obs string, tree *jnode) {
	var es string
	if p, _ := guard(func() { es = e.Error() }); p {
		return "panic", nil
	}
	var raw []byte
	var err error
	if p, _ := guard(func() { raw, err = json.Marshal(e) }); p || err != nil {
		return "marshal-failed", nil
	}
	js, tree := jsonSx(raw)
	return lst(hx(e.Status), hx(e.Title), hx(e.Detail), sxStrAnyMap(e.Source), sxStrAnyMap(e.Meta), hx(es), js), tree
}

// the members law: exactly the members whose fields are non-empty
func errMembersVerdict(e jsonapi.Error, tree *jnode) string {
	if tree == nil || tree.kind != 'o' {
		return "FAIL:an Error does not marshal to a JSON object"
	}
	want := map[string]bool{"id": e.ID != "", "code": e.Code != "", "status": e.Status != "", "title": e.Title != "",
		"detail": e.Detail != "", "links": len(e.Links) > 0, "source": len(e.Source) > 0, "meta": len(e.Meta) > 0}
	n := 0
	for k, w := range want {
		if (tree.get(k) != nil) != w {
			return "FAIL:member " + k + " present/absent against its field being non-empty/empty"
		}
		if w {
			n++
		}
	}
	if len(tree.keys) != n {
		return "FAIL:an Error marshals with a member that is not one of its fields"
	}
	return "ok"
}

// ---------- the cases ----------

type tokens struct {
	names map[any]string
	byTok map[string]jsonapi.Resource
	toks  []string
	n     int
}

func (tk *tokens) of(res jsonapi.Resource) string {
	if res == nil {
		return "nil"
	}
	if w, ok := res.(*jsonapi.Wrapper); ok && w == nil {
		return "nw"
	}
	if s, ok := tk.names[res]; ok {
		return s
	}
	return "unknown"
}

func (tk *tokens) remember(res jsonapi.Resource, tok string) {
	tk.names[res] = tok
	tk.byTok[tok] = res
	tk.toks = append(tk.toks, tok)
}

// a fresh Add argument: (value, token, is its dynamic type *Wrapper)
func (tk *tokens) fresh(r *Rng, o *Out, types []jsonapi.Type) (jsonapi.Resource, string, bool) {
	tk.n++
	switch k := r.IntN(10); {
	case k < 5:
		w := newWrapped(types[r.IntN(len(types))])
		tk.remember(w, "w"+itoa(tk.n))
		o.stat("add.wrapper")
		return w, tk.names[w], true
	case k < 7:
		s := newSoft(types[r.IntN(len(types))])
		tk.remember(s, "s"+itoa(tk.n))
		o.stat("add.soft")
		return s, tk.names[s], false
	case k < 8:
		o.stat("add.nil-interface")
		return nil, "nil", false
	case k < 9 || len(tk.toks) == 0:
		o.stat("add.nil-wrapper-pointer")
		return (*jsonapi.Wrapper)(nil), "nw", true
	default:
		// an element handed to Add before, again
		tok := tk.toks[r.IntN(len(tk.toks))]
		res := tk.byTok[tok]
		_, isW := res.(*jsonapi.Wrapper)
		o.stat("add.again")
		return res, tok, isW
	}
}

func miscCollections(r *Rng, o *Out) {
	types := []jsonapi.Type{
		genTyp(r, genTypeOpts{name: "t", maxAttrs: 2, maxRels: 1, kinds: []int{jsonapi.AttrTypeString, jsonapi.AttrTypeInt}}),
		genTyp(r, genTypeOpts{name: "u", maxAttrs: 1, maxRels: 1, kinds: []int{jsonapi.AttrTypeBool}}),
	}
	tk := &tokens{names: map[any]string{}, byTok: map[string]jsonapi.Resource{}}
	if r.bool() {
		// Resources
		rs := &jsonapi.Resources{}
		var want []string
		o.emit(lst("misc", "rs", "new"), sxTypeV(rs.GetType())+" "+itoa(rs.Len()), "ok")
		for h := 1 + r.IntN(14); h > 0; h-- {
			if r.IntN(5) < 3 {
				res, tok, isW := tk.fresh(r, o, types)
				p, _ := guard(func() { rs.Add(res) })
				if p {
					o.emit(lst("misc", "rs", "add", tok, b01(isW)), "panic", "FAIL:Resources.Add panicked")
					return
				}
				want = append(want, tok)
				pv := "ok"
				if rs.Len() != len(want) {
					pv = fmt.Sprintf("FAIL:Resources.Len is %d after %d Add", rs.Len(), len(want))
				}
				o.emit(lst("misc", "rs", "add", tok, b01(isW)), itoa(rs.Len()), pv)
			} else {
				i := r.IntN(len(want)+4) - 2
				var res jsonapi.Resource
				p, _ := guard(func() { res = rs.At(i) })
				op := lst("misc", "rs", "at", itoa(i))
				if p {
					o.emit(op, "panic", "FAIL:Resources.At panicked")
					continue
				}
				pv := "ok"
				got := tk.of(res)
				switch {
				case i >= 0 && i < len(want):
					o.stat("rs.at.in-range")
					if got != want[i] {
						pv = "FAIL:Resources.At(i) is not the i-th added element"
					}
				default:
					o.stat("rs.at.out-of-range")
					if res != nil {
						pv = "FAIL:Resources.At out of range is not nil"
					}
				}
				o.emit(op, got, pv)
			}
		}
		return
	}
	// WrapperCollection
	var sample jsonapi.Resource
	var sampleType jsonapi.Type // the type the sample was made of: the expected side (not sample.GetType())
	switch r.IntN(8) {
	case 0:
		sample = nil
		o.stat("wc.sample.nil")
	case 1:
		sampleType = types[0]
		sample = newSoft(sampleType)
		o.stat("wc.sample.soft")
	default:
		sampleType = types[r.IntN(2)]
		sample = newWrapped(sampleType)
		o.stat("wc.sample.wrapper")
	}
	var wc *jsonapi.WrapperCollection
	p, _ := guard(func() { wc = jsonapi.WrapCollection(sample) })
	if sample == nil {
		obs := "panic"
		if !p {
			obs = "ok"
		}
		o.emit(lst("misc", "wc", "new", "nil"), obs, "na")
		return
	}
	if p {
		o.emit(lst("misc", "wc", "new", sxTypeV(sampleType)), "panic", "FAIL:WrapCollection panicked on a resource")
		return
	}
	pv := "ok"
	if !typeSame(wc.GetType(), sampleType) || wc.Len() != 0 {
		pv = "FAIL:WrapCollection: not an empty collection of the sample's type"
	}
	o.emit(lst("misc", "wc", "new", sxTypeV(sampleType)), "ok "+sxTypeV(wc.GetType())+" "+itoa(wc.Len()), pv)
	var want []string
	for h := 1 + r.IntN(14); h > 0; h-- {
		switch k := r.IntN(10); {
		case k < 5:
			res, tok, isW := tk.fresh(r, o, types)
			op := lst("misc", "wc", "add", tok, b01(isW))
			p, _ := guard(func() { wc.Add(res) })
			if p {
				o.emit(op, "panic", "FAIL:WrapperCollection.Add panicked")
				return
			}
			if isW {
				want = append(want, tok)
			} else {
				o.stat("wc.add.ignored")
			}
			pv := "ok"
			if wc.Len() != len(want) {
				pv = fmt.Sprintf("FAIL:WrapperCollection.Len is %d, %d wrappers were added", wc.Len(), len(want))
			}
			o.emit(op, itoa(wc.Len()), pv)
		case k < 9:
			i := r.IntN(len(want)+4) - 2
			op := lst("misc", "wc", "at", itoa(i))
			var res jsonapi.Resource
			p, _ := guard(func() { res = wc.At(i) })
			if p {
				pv := "na" // a negative index is outside the law
				if i >= 0 {
					pv = "FAIL:WrapperCollection.At panicked on a non-negative index"
				}
				o.stat("wc.at.panic")
				o.emit(op, "panic", pv)
				continue
			}
			got := tk.of(res)
			pv := "ok"
			switch {
			case i >= 0 && i < len(want):
				o.stat("wc.at.in-range")
				if got != want[i] {
					pv = "FAIL:WrapperCollection.At(i) is not the i-th accepted element"
				}
			case i >= len(want):
				o.stat("wc.at.out-of-range")
				if res != nil {
					pv = "FAIL:WrapperCollection.At out of range is not nil"
				}
			default:
				pv = "na"
			}
			o.emit(op, got, pv)
		default:
			pv := "ok"
			if !typeSame(wc.GetType(), sampleType) {
				pv = "FAIL:WrapperCollection.GetType changed"
			}
			o.emit(lst("misc", "wc", "type"), sxTypeV(wc.GetType())+" "+itoa(wc.Len()), pv)
		}
	}
}

func miscIdentifiers(r *Rng, o *Out) {
	if r.chance(1, 5) {
		// IDs of an arbitrary Identifiers value (types may differ, nil included)
		var l jsonapi.Identifiers
		arg := "nil"
		if !r.chance(1, 4) {
			l = jsonapi.Identifiers{}
			for i := r.IntN(4); i > 0; i-- {
				l = append(l, jsonapi.Identifier{ID: idPool[r.IntN(len(idPool))], Type: miscNames[r.IntN(len(miscNames))]})
			}
			arg = sxIdents(l)
		} else {
			o.stat("ids.nil-receiver")
		}
		ids := l.IDs()
		pv := "ok"
		if ids == nil || len(ids) != len(l) {
			pv = "FAIL:IDs: nil or of another length"
		}
		o.emit(lst("misc", "ids", arg), sxStrsOpt(ids), pv)
		return
	}
	t := genMiscStr(r)
	var ids []string
	arg := "nil"
	switch r.IntN(6) {
	case 0:
		o.stat("idents.nil")
	case 1:
		ids = []string{}
		arg = "()"
		o.stat("idents.empty")
	default:
		ids = []string{}
		for i := 1 + r.IntN(5); i > 0; i-- {
			if len(ids) > 0 && r.chance(1, 3) {
				ids = append(ids, ids[r.IntN(len(ids))])
				o.stat("idents.duplicate")
			} else {
				ids = append(ids, idPool[r.IntN(len(idPool))])
			}
		}
		arg = hxs(ids)
	}
	var l jsonapi.Identifiers
	var back []string
	if p, _ := guard(func() { l = jsonapi.NewIdentifiers(t, ids); back = l.IDs() }); p {
		o.emit(lst("misc", "idents", hx(t), arg), "panic", "FAIL:NewIdentifiers / IDs panicked")
		return
	}
	pv := "ok"
	switch {
	case l == nil || back == nil:
		pv = "FAIL:NewIdentifiers or IDs returned a nil slice"
	case len(l) != len(ids) || len(back) != len(ids):
		pv = "FAIL:NewIdentifiers / IDs change the length"
	default:
		for i := range ids {
			if back[i] != ids[i] {
				pv = "FAIL:IDs(NewIdentifiers(t, ids)) != ids"
			}
			if l[i].Type != t {
				pv = "FAIL:NewIdentifiers: an identifier of another type"
			}
		}
	}
	o.emit(lst("misc", "idents", hx(t), arg), sxIdents(l)+" "+sxStrsOpt(back), pv)
}

func miscTypes(r *Rng, o *Out) {
	t := genTypeV(r)
	var u jsonapi.Type
	expect := -1 // 1: must be equal, 0: must differ, -1: whatever the oracle says
	switch k := r.IntN(10); {
	case k < 2:
		u = genTypeV(r)
		o.stat("type.independent")
	case k < 4:
		u = rebuildType(r, t)
		expect = 1
		o.stat("type.rebuilt")
	case k < 5:
		u = t.Copy()
		o.stat("type.copy")
	case k < 6:
		// nil <-> empty
		u = rebuildType(r, t)
		flipped := false
		if len(u.Attrs) == 0 && r.bool() {
			if u.Attrs == nil {
				u.Attrs = map[string]jsonapi.Attr{}
			} else {
				u.Attrs = nil
			}
			flipped = true
		}
		if len(u.Rels) == 0 && (!flipped || r.bool()) {
			if u.Rels == nil {
				u.Rels = map[string]jsonapi.Rel{}
			} else {
				u.Rels = nil
			}
			flipped = true
		}
		if flipped {
			expect = 0
			o.stat("type.nil-vs-empty")
		} else {
			expect = 1
		}
	case k < 7:
		u = rebuildType(r, t)
		if u.NewFunc == nil {
			u.NewFunc = func() jsonapi.Resource { return nil }
		} else {
			u.NewFunc = nil
		}
		expect = 1
		o.stat("type.newfunc-differs")
	default:
		// near-equal: one attribute's kind / nullable / name, one relationship's field, a key
		// moved, an entry dropped, the name
		u = rebuildType(r, t)
		expect = 0
		ak, rk := sortedKeys(u.Attrs), sortedKeys(u.Rels)
		cands := []int{6, 7}
		if len(ak) > 0 {
			cands = append(cands, 0, 0, 1, 1, 2, 2, 4, 5)
		}
		if len(rk) > 0 {
			cands = append(cands, 3, 3, 3, 5)
		}
		switch m := cands[r.IntN(len(cands))]; {
		case m == 0 && len(ak) > 0:
			k := ak[r.IntN(len(ak))]
			a := u.Attrs[k]
			a.Type = (a.Type + 1 + r.IntN(14)) % 16
			if a.Type == t.Attrs[k].Type {
				a.Type = (a.Type + 1) % 16
			}
			u.Attrs[k] = a
			o.stat("type.near.attr-kind")
		case m == 1 && len(ak) > 0:
			k := ak[r.IntN(len(ak))]
			a := u.Attrs[k]
			a.Nullable = !a.Nullable
			u.Attrs[k] = a
			o.stat("type.near.attr-nullable")
		case m == 2 && len(ak) > 0:
			k := ak[r.IntN(len(ak))]
			a := u.Attrs[k]
			a.Name += "x"
			u.Attrs[k] = a
			o.stat("type.near.attr-name")
		case m == 3 && len(rk) > 0:
			k := rk[r.IntN(len(rk))]
			rel := u.Rels[k]
			switch r.IntN(6) {
			case 0:
				rel.FromType += "x"
			case 1:
				rel.FromName += "x"
			case 2:
				rel.ToOne = !rel.ToOne
			case 3:
				rel.ToType += "x"
			case 4:
				rel.ToName += "x"
			default:
				rel.FromOne = !rel.FromOne
			}
			u.Rels[k] = rel
			o.stat("type.near.rel-field")
		case m == 4 && len(ak) > 0:
			k := ak[r.IntN(len(ak))]
			a := u.Attrs[k]
			delete(u.Attrs, k)
			u.Attrs[k+"'"] = a
			o.stat("type.near.key-moved")
		case m == 5 && len(ak)+len(rk) > 0:
			if len(ak) > 0 {
				delete(u.Attrs, ak[0])
			} else {
				delete(u.Rels, rk[0])
			}
			o.stat("type.near.entry-dropped")
		case m == 6:
			if u.Attrs == nil {
				u.Attrs = map[string]jsonapi.Attr{}
			}
			u.Attrs["extra"] = jsonapi.Attr{Name: "extra", Type: jsonapi.AttrTypeString}
			o.stat("type.near.entry-added")
		default:
			u.Name += "x"
			o.stat("type.near.name")
		}
	}
	op := lst("misc", "type", sxTypeV(t), sxTypeV(u))
	var e12, e21, e11, e1c bool
	var c jsonapi.Type
	var f, fc []string
	if p, _ := guard(func() {
		e12, e21, e11 = t.Equal(u), u.Equal(t), t.Equal(t)
		c = t.Copy()
		f = t.Fields()
		e1c = t.Equal(c)
		fc = c.Fields()
	}); p {
		o.emit(op, "panic", "FAIL:Type.Equal / Copy / Fields panicked")
		return
	}
	pv := "ok"
	same := typeSame(t, u)
	switch {
	case e12 != same:
		pv = fmt.Sprintf("FAIL:Type.Equal is %v on types that are same=%v (name, nil-ness, entries)", e12, same)
	case expect == 1 && !e12:
		pv = "FAIL:Type.Equal is false on a rebuilt copy"
	case expect == 0 && e12:
		pv = "FAIL:Type.Equal is true on types that differ"
	case e12 != e21:
		pv = "FAIL:Type.Equal is not symmetric"
	case !e11:
		pv = "FAIL:Type.Equal is not reflexive"
	case c.Attrs == nil || c.Rels == nil:
		pv = "FAIL:Type.Copy returned a nil map"
	case (c.NewFunc == nil) != (t.NewFunc == nil):
		pv = "FAIL:Type.Copy dropped or invented NewFunc"
	case !typeSame(c, copyTypeIndep(t)):
		// (the copy's content compared by the harness, entry by entry, with the source's - not
		// by asking Type.Equal, and not only through Fields() of the copy)
		pv = "FAIL:Type.Copy does not hold the source's name and entries (in maps of its own, never nil)"
	case e1c != (t.Attrs != nil && t.Rels != nil):
		pv = "FAIL:t.Equal(t.Copy()) must be true exactly when t has no nil map"
	case !sort.StringsAreSorted(f) || f == nil:
		pv = "FAIL:Type.Fields is not sorted / is nil"
	case strings.Join(f, "\x01") != strings.Join(fieldsIndep(t), "\x01"):
		pv = "FAIL:Type.Fields is not the sorted list of the names of the attributes and relationships"
	case strings.Join(f, "\x01") != strings.Join(fc, "\x01") || len(f) != len(t.Attrs)+len(t.Rels):
		pv = "FAIL:Type.Fields of the copy differ, or Fields has another length than the two maps"
	}
	if t.Attrs == nil || t.Rels == nil {
		o.stat("type.has-nil-map")
	}
	if e12 {
		o.stat("type.equal")
	} else {
		o.stat("type.differ")
	}
	o.emit(op, lst(b01(e12), b01(e21), b01(e11), sxTypeV(c), hxs(f), b01(e1c), hxs(fc)), pv)
}

var statusPool = []string{"", "400", "404", "0400", "+400", "-400", "999", "abc", "4 00", "400 ", "99999999999999999999", "-99999999999999999999", "9223372036854775807",
	"9223372036854775808", "418", "４００", "4e2", "0x190", "4_00", "+", "-", "000", "0", "200", "511", "512", "+0503"}

func miscErrors(r *Rng, o *Out) {
	switch k := r.IntN(10); {
	case k < 6:
		i := r.IntN(len(errCtors) + 1)
		if i == len(errCtors) {
			e := jsonapi.NewError()
			obs, tree := sxErrorObs(e)
			pv := errMembersVerdict(e, tree)
			if e.Links == nil || e.Source == nil || e.Meta == nil {
				pv = "FAIL:NewError leaves a nil map"
			}
			o.stat("err.NewError")
			o.emit(lst("misc", "err", "NewError"), obs, pv)
			return
		}
		c := errCtors[i]
		args := make([]string, c.arity)
		quoted := []string{}
		for j := range args {
			args[j] = genMiscStr(r)
			switch {
			case args[j] == "":
				o.stat("err.arg.empty")
			case !utf8.ValidString(args[j]):
				o.stat("err.arg.invalid-utf8")
			case !isASCII(args[j]):
				o.stat("err.arg.non-ascii")
			default:
				o.stat("err.arg.ascii")
			}
			if !isASCII(args[j]) {
				quoted = append(quoted, lst(hx(args[j]), hx(strconv.Quote(args[j]))))
			}
		}
		op := lst("misc", "err", c.name, hxs(args), lst(quoted...))
		var e jsonapi.Error
		if p, _ := guard(func() { e = c.call(args) }); p {
			o.emit(op, "panic", "FAIL:"+c.name+" panicked")
			return
		}
		obs, tree := sxErrorObs(e)
		pv := errMembersVerdict(e, tree)
		code, aerr := strconv.Atoi(e.Status)
		switch {
		case !strings.HasPrefix(pv, "ok"):
		case aerr != nil || len(e.Status) != 3 || code < 400 || code > 599:
			pv = "FAIL:the status of " + c.name + " is not a three-digit 4xx/5xx code"
		case http.StatusText(code) == "":
			pv = "FAIL:the status of " + c.name + " has no status text"
		case e.Title == "" && c.name != "NewErrBadRequest":
			pv = "FAIL:" + c.name + " gives an empty title"
		case tree.get("status") == nil || (tree.get("title") == nil && e.Title != ""):
			pv = "FAIL:status or title missing from the JSON of " + c.name
		case obs != "panic" && e.Error() != wantErrorString(e):
			pv = "FAIL:Error() of " + c.name + " is not `status text: detail-or-title`"
		}
		o.stat("err.ctor")
		o.emit(op, obs, pv)
	case k < 9:
		e := jsonapi.NewError()
		e.Status = statusPool[r.IntN(len(statusPool))]
		if r.chance(1, 3) {
			e.Status = itoa(r.IntN(700))
		}
		if r.bool() {
			e.Title = genMiscStr(r)
		}
		if r.bool() {
			e.Detail = genMiscStr(r)
		}
		var got string
		op := lst("misc", "errstr", hx(e.Status), hx(e.Title), hx(e.Detail))
		if p, _ := guard(func() { got = e.Error() }); p {
			o.emit(op, "panic", "FAIL:Error() panicked")
			return
		}
		pv := "ok"
		if got != wantErrorString(e) {
			pv = "FAIL:Error() is not `status text: detail-or-title` / detail-or-title"
		}
		if c, _ := strconv.Atoi(e.Status); http.StatusText(c) != "" {
			o.stat("errstr.known-status")
		} else {
			o.stat("errstr.unknown-status")
		}
		o.emit(op, hx(got), pv)
		if r.chance(1, 4) {
			v, _ := strconv.Atoi(e.Status)
			o.emit(lst("misc", "atoi", hx(e.Status)), itoa(v), "na")
		}
	default:
		// the two modelled stdlib helpers on their own
		if r.bool() {
			n := r.IntN(8)
			b := make([]byte, n)
			for i := range b {
				b[i] = byte(r.IntN(128))
			}
			o.stat("quote.ascii")
			o.emit(lst("misc", "quote", hx(string(b))), hx(strconv.Quote(string(b))), "na")
		} else {
			s := genMiscStr(r) + genMiscStr(r)
			raw, err := json.Marshal(s)
			var back string
			if err != nil || json.Unmarshal(raw, &back) != nil {
				o.emit(lst("misc", "coerce", hx(s)), "error", "FAIL:encoding/json failed on a string")
				return
			}
			if utf8.ValidString(s) {
				o.stat("coerce.valid")
			} else {
				o.stat("coerce.invalid")
			}
			o.emit(lst("misc", "coerce", hx(s)), hx(back), "na")
		}
	}
}

var metaTimePool = []string{"2020-01-02T03:04:05Z", "2020-01-02T03:04:05.123456789Z", "2020-01-02T03:04:05+02:00", "0001-01-01T00:00:00Z", "2020-01-02", "not a time", "",
	"2020-01-02T03:04:05.5-07:30", "2020-13-02T03:04:05Z", "9999-12-31T23:59:59.999999999Z"}

func miscMeta(r *Rng, o *Out) {
	keys := []string{"a", "b", "c", "", "é"}
	var m jsonapi.Meta
	if !r.chance(1, 8) {
		m = jsonapi.Meta{}
		for i := r.IntN(4); i > 0; i-- {
			k := keys[r.IntN(len(keys))]
			switch r.IntN(11) {
			case 0:
				m[k] = nil
			case 1:
				m[k] = r.bool()
			case 2:
				m[k] = genMiscStr(r)
			case 3, 9, 10:
				m[k] = metaTimePool[r.IntN(len(metaTimePool))]
			case 4:
				m[k] = []int{0, 1, -1, 42, -9223372036854775808, 9223372036854775807, r.IntN(100000) - 50000}[r.IntN(7)]
			case 5:
				m[k] = int64(r.IntN(10))
			case 6:
				m[k] = float64(r.IntN(10)) + 0.5
			case 7:
				m[k] = []any{1}
			default:
				m[k] = uint(r.IntN(10))
			}
		}
	} else {
		o.stat("meta.nil-map")
	}
	key := keys[r.IntN(len(keys))]
	ks := sortedKeys(m)
	if len(ks) > 0 && r.chance(3, 4) {
		key = ks[r.IntN(len(ks))]
	}
	ps := make([]string, len(ks))
	for i, k := range ks {
		ps[i] = lst(hx(k), sxMetaVal(m[k]))
	}
	parsed := "none"
	if s, ok := m[key].(string); ok {
		if t, err := time.Parse(time.RFC3339Nano, s); err == nil {
			parsed = sxTime(t)
			o.stat("meta.time.parses")
		} else {
			o.stat("meta.time.does-not-parse")
		}
	}
	op := lst("misc", "meta", lst(ps...), hx(key), parsed)
	var has, gb bool
	var gs string
	var gi int
	var gt time.Time
	if p, _ := guard(func() {
		has, gs, gi, gb, gt = m.Has(key), m.GetString(key), m.GetInt(key), m.GetBool(key), m.GetTime(key)
	}); p {
		o.emit(op, "panic", "FAIL:a Meta getter panicked")
		return
	}
	v, present := m[key]
	pv := "ok"
	wi, isInt := v.(int)
	wb, _ := v.(bool)
	switch {
	case has != present:
		pv = "FAIL:Has disagrees with the map"
	case gi != wi || (!isInt && gi != 0):
		pv = "FAIL:GetInt is not the int value / not 0 for a value that is not an int"
	case gb != wb:
		pv = "FAIL:GetBool is true for something else than the bool true, or false for it"
	}
	if _, isStr := v.(string); !isStr && !gt.Equal(time.Time{}) {
		pv = "FAIL:GetTime is not the zero time for a value that is not a string"
	}
	str := "-"
	switch v.(type) {
	case nil, bool, string, int:
		str = hx(gs)
		o.stat("meta.value.modelled-kind")
	default:
		o.stat("meta.value.other-kind")
	}
	if !present {
		o.stat("meta.key.absent")
	}
	o.emit(op, lst(b01(has), str, itoa(gi), b01(gb), sxTime(gt)), pv)
}

func suiteMisc(r *Rng, n int, thorough bool, o *Out) {
	// once per run: every status code 0..600 through Error() (http.StatusText as transcribed)
	for code := 0; code <= 600; code++ {
		e := jsonapi.NewError()
		e.Status = itoa(code)
		e.Title = "T"
		pv := "ok"
		if e.Error() != wantErrorString(e) {
			pv = "FAIL:Error() is not `status text: title`"
		}
		o.emit(lst("misc", "errstr", hx(e.Status), hx(e.Title), hx("")), hx(e.Error()), pv)
	}
	for c := 0; c < n; c++ {
		switch k := r.IntN(10); {
		case k < 3:
			miscCollections(r, o)
		case k < 4:
			miscIdentifiers(r, o)
		case k < 6:
			miscTypes(r, o)
		case k < 9:
			miscErrors(r, o)
		default:
			miscMeta(r, o)
		}
	}
}

func init() { suites["misc"] = suiteMisc }
