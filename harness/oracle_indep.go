package main

// Independent oracle helpers.
//
// THE RULE. The verdict column of a harness line is an oracle: the property evaluated on the
// real code's output. An oracle must not ask the code under test for the answer. Whatever
// decides an EXPECTED value, the domain of a clause ("na") or what another call "should" do
// is computed here, from the property's own description and from the data the generator
// wrote, never by calling into the library: a change to the library function consulted would
// otherwise move the expectation along with the behaviour and go unseen (as a change to
// GetAttrType once did for the collection suite, see hasAttrGoType).
//
//   - the zero value of a kind         zeroIndep        (not jsonapi.GetZeroValue)
//   - the name of a kind               kindNameIndep    (not jsonapi.GetAttrTypeString)
//   - the fields of a type, in order   fieldsIndep      (not Type.Fields)
//   - a deep copy of a type value      copyTypeIndep    (not Type.Copy)
//   - type lookup in a schema          lookupTypeIndep / hasTypeIndep (not Schema.GetType / HasType)
//   - inverse of a relationship        invertIndep      (not Rel.Invert)
//   - coherence of a schema            coherentIndep    (not Schema.Check; built on `offending`)
//   - what Rels() must list            relsListingVerdict (not Rel.Normalize)
//   - the document's self link         selfLinkVerdict  (not URL.String)
//
// The library may be called on the OBSERVED side (the thing being checked), to name a
// statistic or a tag, and by generators where DESIGN.md says so. None of the functions below
// consumes random numbers.

import (
	"encoding/json"
	"fmt"
	"net/url"
	"reflect"
	"sort"
	"strings"

	"github.com/mfcochauxlaberge/jsonapi"
)

// zeroIndep: the value a never-set attribute of (kind, nullable) reads: Go's zero value of
// the kind's Go type, a typed nil pointer for a nullable kind, and - the one case where the
// library's documented zero is not Go's - an EMPTY, non-nil byte string for bytes
// (canonSx reads nil and empty byte strings alike, C17). An invalid kind has no zero: nil.
func zeroIndep(kind int, nullable bool) any {
	gt, ok := kindGoType[kind]
	if !ok {
		return nil
	}
	if nullable {
		return reflect.Zero(reflect.PtrTo(gt)).Interface()
	}
	if kind == jsonapi.AttrTypeBytes {
		return []byte{}
	}
	return reflect.Zero(gt).Interface()
}

// kindNames: the documented names of the attribute kinds (type.go's doc comment: string, int,
// int8 ... uint64, bool, time, bytes; an asterisk prefix when nullable).
var kindNames = map[int]string{
	jsonapi.AttrTypeString: "string",
	jsonapi.AttrTypeInt:    "int",
	jsonapi.AttrTypeInt8:   "int8",
	jsonapi.AttrTypeInt16:  "int16",
	jsonapi.AttrTypeInt32:  "int32",
	jsonapi.AttrTypeInt64:  "int64",
	jsonapi.AttrTypeUint:   "uint",
	jsonapi.AttrTypeUint8:  "uint8",
	jsonapi.AttrTypeUint16: "uint16",
	jsonapi.AttrTypeUint32: "uint32",
	jsonapi.AttrTypeUint64: "uint64",
	jsonapi.AttrTypeBool:   "bool",
	jsonapi.AttrTypeTime:   "time",
	jsonapi.AttrTypeBytes:  "bytes",
}

func kindNameIndep(kind int, nullable bool) string {
	n, ok := kindNames[kind]
	if !ok {
		return ""
	}
	if nullable {
		return "*" + n
	}
	return n
}

// fieldsIndep: the names of the attributes and relationships of the type, sorted.
func fieldsIndep(t jsonapi.Type) []string {
	out := make([]string, 0, len(t.Attrs)+len(t.Rels))
	for _, a := range t.Attrs {
		out = append(out, a.Name)
	}
	for _, rel := range t.Rels {
		out = append(out, rel.FromName)
	}
	sort.Strings(out)
	return out
}

// copyTypeIndep: a type value with maps of its own (never nil) holding the same entries.
func copyTypeIndep(t jsonapi.Type) jsonapi.Type {
	c := jsonapi.Type{Name: t.Name, Attrs: map[string]jsonapi.Attr{}, Rels: map[string]jsonapi.Rel{}, NewFunc: t.NewFunc}
	for k, a := range t.Attrs {
		c.Attrs[k] = a
	}
	for k, rel := range t.Rels {
		c.Rels[k] = rel
	}
	return c
}

// lookupTypeIndep: the first type of the schema's own list with that name.
func lookupTypeIndep(s *jsonapi.Schema, name string) (jsonapi.Type, bool) {
	for i := range s.Types {
		if s.Types[i].Name == name {
			return s.Types[i], true
		}
	}
	return jsonapi.Type{}, false
}

func hasTypeIndep(s *jsonapi.Schema, name string) bool {
	_, ok := lookupTypeIndep(s, name)
	return ok
}

// invertIndep: the same relationship seen from its other end.
func invertIndep(r jsonapi.Rel) jsonapi.Rel {
	return jsonapi.Rel{FromType: r.ToType, FromName: r.ToName, ToOne: r.FromOne, ToType: r.FromType, ToName: r.FromName, FromOne: r.ToOne}
}

// coherentIndep: no relationship of the schema is offending (C15's reading, `offending`).
func coherentIndep(s *jsonapi.Schema) bool {
	for _, t := range s.Types {
		for _, rel := range t.Rels {
			if offending(s, t, rel) {
				return false
			}
		}
	}
	return true
}

// relsListingVerdict: C16's last clause on a coherent schema, stated without Normalize: every
// one-way relationship is listed once, as itself; of every two-way relationship, completed
// with the cardinality of the side that points back at it, exactly one of {itself, its
// inverse} is listed, once (which of the two is the library's choice; that the choice is one
// per pair is the point); nothing else is listed. "" when it holds.
func relsListingVerdict(s *jsonapi.Schema, listed []jsonapi.Rel) string {
	count := map[jsonapi.Rel]int{}
	for _, x := range listed {
		count[x]++
	}
	accounted := map[jsonapi.Rel]bool{}
	for _, t := range s.Types {
		for _, rel := range t.Rels {
			if rel.ToName == "" {
				if count[rel] != 1 {
					return fmt.Sprintf("one-way relationship %s.%s listed %d times", rel.FromType, rel.FromName, count[rel])
				}
				accounted[rel] = true
				continue
			}
			c := rel
			if target, ok := lookupTypeIndep(s, rel.ToType); ok {
				found, one := false, true
				for _, back := range target.Rels {
					if back.FromName == rel.ToName && back.ToName == rel.FromName && back.ToType == t.Name {
						found = true
						one = one && back.ToOne
					}
				}
				if found {
					c.FromOne = one
				}
			}
			inv := invertIndep(c)
			n := count[c]
			if inv != c {
				n += count[inv]
			}
			if n != 1 {
				return fmt.Sprintf("two-way relationship %s.%s / %s.%s listed %d times", c.FromType, c.FromName, c.ToType, c.ToName, n)
			}
			accounted[c], accounted[inv] = true, true
		}
	}
	for _, x := range listed {
		if !accounted[x] {
			return fmt.Sprintf("entry %s.%s -> %s.%s is no relationship of the schema", x.FromType, x.FromName, x.ToType, x.ToName)
		}
	}
	return ""
}

// selfLinkVerdict: the document's self link read as a URL says what the request URL says -
// after the path prefix, the path's segments decode to the fragments and the query decodes to
// the field selection (a set of names per type), the filter label, the page parameters (of a
// collection URL) and the sorting rules in their order, and to nothing else. Decided by
// decoding the link, not by asking URL.String for the text. Types whose selection is empty are
// not judged (String() has no spelling for an empty list). "" when it holds.
func selfLinkVerdict(link, prepath string, frags []string, isCol bool, fields map[string][]string, rules []string, page map[string]any, label string) string {
	if !strings.HasPrefix(link, prepath) {
		return "self link does not start with the path prefix"
	}
	rest := link[len(prepath):]
	path, query := rest, ""
	if i := strings.IndexByte(rest, '?'); i >= 0 {
		path, query = rest[:i], rest[i+1:]
	}
	if len(frags) == 0 && path == "" {
		path = "/" // a URL without fragments has no path at all
	}
	if !strings.HasPrefix(path, "/") {
		return "self link: no path after the prefix"
	}
	segs := strings.Split(path[1:], "/")
	if len(frags) == 0 {
		segs = nil
	}
	if len(segs) != len(frags) {
		return fmt.Sprintf("self link: path %q does not have the URL's %d fragments", path, len(frags))
	}
	for i, sg := range segs {
		if d, err := url.PathUnescape(sg); err != nil || d != frags[i] {
			return fmt.Sprintf("self link: path segment %q is not the fragment %q", sg, frags[i])
		}
	}
	want := map[string]string{}
	skip := map[string]bool{}
	for t, fs := range fields {
		if len(fs) == 0 {
			skip["fields["+t+"]"] = true
			continue
		}
		// (a name that itself holds a comma reads as several items of the list: the link is
		// compared as the list of comma-separated items it spells)
		c := strings.Split(strings.Join(fs, ","), ",")
		sort.Strings(c)
		want["fields["+t+"]"] = strings.Join(c, ",")
	}
	if label != "" {
		want["filter"] = label
	}
	if isCol {
		for k, v := range page {
			want["page["+k+"]"] = fmt.Sprint(v)
		}
	}
	if len(rules) > 0 {
		want["sort"] = strings.Join(rules, ",")
	}
	got := map[string]string{}
	if query != "" {
		for _, prm := range strings.Split(query, "&") {
			kv := strings.SplitN(prm, "=", 2)
			k, ek := url.QueryUnescape(kv[0])
			if ek != nil || skip[k] || (strings.HasPrefix(k, "fields[") && len(kv) == 1) {
				continue // the unjudged spelling of an empty selection
			}
			val := ""
			if len(kv) == 2 {
				var ev error
				if val, ev = url.QueryUnescape(kv[1]); ev != nil {
					return "self link: parameter " + k + " does not decode"
				}
			}
			if _, dup := got[k]; dup {
				return "self link: parameter " + k + " appears twice"
			}
			if strings.HasPrefix(k, "fields[") {
				c := strings.Split(val, ",")
				sort.Strings(c)
				val = strings.Join(c, ",")
			}
			if k == "filter" {
				// the label travels as the content of a JSON string (NewSimpleURL reads it so)
				val = jsonStringBody(val)
			}
			got[k] = val
		}
	}
	for k, w := range want {
		if g, ok := got[k]; !ok {
			return "self link: parameter " + k + " is missing"
		} else if g != w {
			return fmt.Sprintf("self link: parameter %s reads %q, the URL holds %q", k, g, w)
		}
	}
	for k := range got {
		if _, ok := want[k]; !ok {
			return "self link: parameter " + k + " is not a parameter of the URL"
		}
	}
	return ""
}

// jsonStringBody: the string whose JSON spelling, between the quotes, is body (body itself
// when it is no such spelling).
func jsonStringBody(body string) string {
	var s string
	if json.Unmarshal([]byte("\""+body+"\""), &s) == nil {
		return s
	}
	return body
}

// sxViewIndep: what sxResView prints for a resource of type t with that ID whose fields hold
// vals (a field without an entry: its zero value), written from the generator's record
// instead of read through a resource of the library.
func sxViewIndep(t jsonapi.Type, id string, vals map[string]any) string {
	ak, rk := sortedKeys(t.Attrs), sortedKeys(t.Rels)
	as := make([]string, len(ak))
	vs := make([]string, 0, len(ak)+len(rk))
	val := func(k string) any {
		if v, ok := vals[k]; ok {
			return v
		}
		return zeroFieldIndep(t, k)
	}
	for i, k := range ak {
		as[i] = lst(hx(k), sxAttr(t.Attrs[k]))
		vs = append(vs, lst(hx(k), sxVal(val(k))))
	}
	rs := make([]string, len(rk))
	for i, k := range rk {
		rs[i] = lst(hx(k), sxRel(t.Rels[k]))
		vs = append(vs, lst(hx(k), sxVal(val(k))))
	}
	sort.Strings(vs)
	return lst(hx(t.Name), hx(id), lst(as...), lst(rs...), lst(vs...))
}
