package main

import (
	"fmt"
	"strings"
	"time"

	"github.com/mfcochauxlaberge/jsonapi"
)

// small value pools so that sorting meets ties
func genValSmall(r *Rng, kind int, nullable bool) any {
	if kind == jsonapi.AttrTypeTime && r.chance(1, 4) {
		// one instant read in different zones: a tie for every rule (time.Time.Equal),
		// though the values differ as structs
		locs := []*time.Location{time.UTC, time.FixedZone("", 3600), time.FixedZone("", -7*3600)}
		t := time.Unix(1517630706, 5).In(locs[r.IntN(3)])
		if nullable {
			return &t
		}
		return t
	}
	if r.chance(1, 3) {
		return genVal(r, kind, nullable)
	}
	// derive from a tiny domain by retrying a few generated values
	rr := newRng(uint64(kind)*7+uint64(r.IntN(3)), "small")
	return genVal(rr, kind, nullable)
}

func pageObs(rules []string, c jsonapi.Collection) string {
	if len(rules) == 0 {
		rules = []string{"id"}
	}
	items := make([]string, c.Len())
	for i := 0; i < c.Len(); i++ {
		res := c.At(i)
		ks := make([]string, len(rules))
		for j, rule := range rules {
			name := strings.TrimPrefix(rule, "-")
			if name == "id" {
				ks[j] = hx(res.Get("id").(string))
			} else {
				ks[j] = sxVal(res.Get(name))
			}
		}
		items[i] = lst(ks...)
	}
	return lst(items...)
}

func colIDs(c jsonapi.Collection) string {
	ids := make([]string, c.Len())
	for i := range ids {
		ids[i] = c.At(i).Get("id").(string)
	}
	return strings.Join(ids, "\x00")
}

func suiteRange(r *Rng, n int, thorough bool, o *Out) {
	for c := 0; c < n; c++ {
		typ := genTyp(r, genTypeOpts{name: "t", maxAttrs: 4, maxRels: 1})
		if c%2 == 1 {
			// focus case: every attribute has one kind/nullability, cycling through all 28,
			// so that each case of Less meets ties, nils and descending rules
			k := 1 + (c/2)%14
			nullable := (c/28)%2 == 1
			typ = jsonapi.Type{Name: "t", Attrs: map[string]jsonapi.Attr{}, Rels: map[string]jsonapi.Rel{}}
			for _, nm := range []string{"a", "b"}[:1+r.IntN(2)] {
				putAttr(&typ, jsonapi.Attr{Name: nm, Type: k, Nullable: nullable})
			}
			o.stat("focus." + kindNameIndep(k, nullable))
		}
		size := r.IntN(9)
		wrapped := r.bool()
		var col jsonapi.Collection
		impl := r.IntN(3)
		switch {
		case impl == 0:
			col = &jsonapi.Resources{}
			o.stat("col.Resources")
		case impl == 1 && !wrapped:
			t := typ.Copy()
			sc := &jsonapi.SoftCollection{}
			sc.SetType(&t)
			col = sc
			o.stat("col.SoftCollection")
		case impl == 2 && wrapped:
			col = jsonapi.WrapCollection(newWrapped(typ))
			o.stat("col.WrapperCollection")
		default:
			col = &jsonapi.Resources{}
			o.stat("col.Resources")
		}
		if wrapped {
			o.stat("res.wrapped")
		} else {
			o.stat("res.soft")
		}
		idPerm := r.Perm(len(idPool))
		var views []string
		var allVals []map[string]any
		nameLater := r.chance(1, 3)
		var naming []func()
		for i := 0; i < size; i++ {
			vals := map[string]any{}
			for _, k := range sortedKeys(typ.Attrs) {
				vals[k] = genValSmall(r, typ.Attrs[k].Type, typ.Attrs[k].Nullable)
			}
			for _, k := range sortedKeys(typ.Rels) {
				if typ.Rels[k].ToOne {
					vals[k] = idPool[r.IntN(len(idPool))]
				} else {
					vals[k] = []string{idPool[r.IntN(len(idPool))]}
				}
			}
			var res jsonapi.Resource
			if wrapped {
				res = newWrapped(typ)
			} else {
				res = newSoft(typ)
			}
			if _, isWC := col.(*jsonapi.WrapperCollection); isWC && nameLater {
				// added while it has no ID yet, named once all are in: the collection holds
				// the wrapper itself, every member counts whatever its ID was when it was added
				fill(res, "", vals)
				col.Add(res)
				id := idPool[idPerm[i]]
				naming = append(naming, func() { res.Set("id", id) })
				o.stat("col.wrapper-named-after-add")
			} else {
				fill(res, idPool[idPerm[i]], vals)
				col.Add(res)
			}
			allVals = append(allVals, vals)
		}
		for _, f := range naming {
			f()
		}
		stale := ""
		if col.Len() != size {
			stale = fmt.Sprintf("FAIL:%d resources were added to the collection, it holds %d", size, col.Len())
		}
		if sc, isSC := col.(*jsonapi.SoftCollection); isSC && size > 0 && len(typ.Attrs) > 0 && r.chance(1, 3) {
			// the collection's type is edited in place after its elements were stored and
			// read: one attribute gives way to another of another name (same field count);
			// every element then has the new attribute at its zero value
			for i := 0; i < sc.Len(); i++ {
				_ = sc.At(i).Get("id")
			}
			an := sortedKeys(typ.Attrs)
			drop := an[r.IntN(len(an))]
			na := jsonapi.Attr{Name: "zz", Type: []int{jsonapi.AttrTypeString, jsonapi.AttrTypeInt, jsonapi.AttrTypeBool, jsonapi.AttrTypeBytes}[r.IntN(4)]}
			sc.Type.RemoveAttr(drop)
			_ = sc.Type.AddAttr(na)
			typ = copyTypeIndep(typ)
			delete(typ.Attrs, drop)
			typ.Attrs["zz"] = na
			for i := 0; i < sc.Len(); i++ {
				// expected: the values the generator wrote, zz at its zero - written down by
				// the harness (sxViewIndep), not read through a second resource of the library
				vs := map[string]any{}
				for k, v := range allVals[i] {
					if k != drop {
						vs[k] = v
					}
				}
				want := sxViewIndep(typ, idPool[idPerm[i]], vs)
				if got := sxResView(sc.At(i)); got != want && stale == "" {
					stale = fmt.Sprintf("FAIL:after the collection's type swapped attribute %s for zz, element %d reads %s, expected %s", drop, i, got, want)
				}
			}
			o.stat("col.type-swapped-in-place")
		}
		for i := 0; i < col.Len(); i++ {
			views = append(views, sxResView(col.At(i)))
		}
		// rules
		attrNames := sortedKeys(typ.Attrs)
		var rules []string
		tags := []string{}
		nr := r.IntN(4)
		idAt := -1
		if r.chance(2, 3) {
			idAt = r.IntN(nr + 1)
		}
		for i := 0; i <= nr; i++ {
			if i == idAt {
				if r.chance(1, 4) {
					rules = append(rules, "-id")
				} else {
					rules = append(rules, "id")
				}
				continue
			}
			if i == nr || len(attrNames) == 0 {
				continue
			}
			a := attrNames[r.IntN(len(attrNames))]
			tags = append(tags, "k"+kindNameIndep(typ.Attrs[a].Type, typ.Attrs[a].Nullable))
			o.stat("sortkind." + kindNameIndep(typ.Attrs[a].Type, typ.Attrs[a].Nullable))
			if r.chance(1, 3) || (c%2 == 1 && r.bool()) {
				a = "-" + a
			}
			rules = append(rules, a)
		}
		if idAt >= 0 {
			o.stat("rules.with-id")
		} else {
			o.stat("rules.without-id")
		}
		// ids
		var ids []string
		if r.chance(1, 3) {
			for _, i := range r.Perm(len(idPool))[:r.IntN(6)] {
				ids = append(ids, idPool[i])
			}
		}
		// filter
		var flt *jsonapi.Filter
		fsx := "none"
		if r.chance(1, 3) && size > 0 {
			// values of a random member as anchor so that the filter is selective but not empty
			anchor := col.At(r.IntN(col.Len()))
			vals := map[string]any{}
			for _, k := range fieldsIndep(typ) {
				vals[k] = anchor.Get(k)
				if vals[k] == nil { // wrapped nil pointer: typed nil of the attribute
					a := typ.Attrs[k]
					vals[k] = zeroIndep(a.Type, a.Nullable)
				}
			}
			flt = genFilterTree(r, typ, vals, r.IntN(2), &Out{stats: map[string]int{}})
			fsx = sxFilter(flt)
			o.stat("filter.yes")
		}
		// page geometry
		var psize, pnum uint
		switch r.IntN(8) {
		case 0:
			psize = 0
		case 1:
			psize = 1 << 63
		case 2:
			psize = 1<<64 - 1
		case 3:
			psize = uint(size) + 1
		default:
			psize = uint(1 + r.IntN(4))
		}
		pnum = uint(r.IntN(4))
		if psize >= 1<<62 {
			pnum = 0
		}
		o.stat(fmt.Sprintf("size.%s", map[bool]string{true: "huge", false: "small"}[psize >= 1<<62]))
		before := colIDs(col)
		op := lst("range", "run", lst(append([]string{"tags"}, tags...)...), lst(views...), hxs(ids), fsx, hxs(rules), fmt.Sprint(psize), fmt.Sprint(pnum))
		var page jsonapi.Collection
		asked := append([]string{}, rules...) // the rules as the caller wrote them
		p, _ := guard(func() { page = jsonapi.Range(col, ids, flt, rules, psize, pnum) })
		obs := "panic"
		pv := "ok"
		if !p {
			if page == nil {
				pv = "FAIL:nil collection returned"
				obs = "nil"
			} else {
				obs = "ok " + pageObs(rules, page)
			}
		} else {
			pv = "FAIL:panic"
		}
		if pv == "ok" && colIDs(col) != before {
			pv = "FAIL:input collection changed"
		}
		// pages partition the matching resources (rules with id: exact; else by count)
		if pv == "ok" && psize > 0 && psize < 1<<20 && r.chance(1, 4) {
			seen := map[string]int{}
			total := 0
			var all jsonapi.Collection
			// the whole selection, asked with rules of its own; the pages are asked the way a
			// caller walks them: the same rules slice every time
			fresh := append([]string{}, asked...)
			guard(func() { all = jsonapi.Range(col, ids, flt, fresh, 1<<20, 0) })
			var walked []string
			for k := uint(0); k < 40; k++ {
				var pg jsonapi.Collection
				guard(func() { pg = jsonapi.Range(col, ids, flt, rules, psize, k) })
				if pg == nil || pg.Len() == 0 {
					break
				}
				for i := 0; i < pg.Len(); i++ {
					seen[pg.At(i).Get("id").(string)]++
					walked = append(walked, pg.At(i).Get("id").(string))
					total++
				}
			}
			if all != nil {
				if total != all.Len() {
					pv = fmt.Sprintf("FAIL:pages hold %d resources, %d match", total, all.Len())
				} else if idAt >= 0 && strings.Join(walked, "\x00") != colIDs(all) {
					pv = "FAIL:the pages, one after the other, are not the matching resources in the order of the rules"
				}
				for _, cnt := range seen {
					if cnt > 1 && idAt >= 0 {
						pv = "FAIL:a resource appears on two pages"
					}
				}
			}
			o.stat("partition.checked")
		}
		if stale != "" {
			pv = stale
		}
		o.emit(op, obs, pv)
	}
}

func init() {
	suites["range"] = suiteRange
}
