package main

import (
	"fmt"
	"os"
	"reflect"
	"strconv"
	"sync"
	"time"

	"github.com/mfcochauxlaberge/jsonapi"
)

// racer mode (binary built with -race): G goroutines run random mixes of the read-only
// operations of C12 against one shared schema for the given time. The race detector
// reports on stderr and makes the process exit with status 66 (GORACE=exitcode=66).
func racerMain() {
	seed, _ := strconv.ParseUint(os.Args[2], 10, 64)
	g, _ := strconv.Atoi(os.Args[3])
	ms, _ := strconv.Atoi(os.Args[4])
	r0 := newRng(seed, "racer")
	o := &Out{stats: map[string]int{}}
	deadline := time.Now().Add(time.Duration(ms) * time.Millisecond)
	counts := make([]int, g)
	rounds := 0
	// rounds: each one builds a fresh schema (so that the first uses of its types, which
	// is when lazily initialised state would be written, happen concurrently), one type
	// being struct-backed with every attribute kind
	for time.Now().Before(deadline) {
		rounds++
		s, ts := genSchema(r0, o)
		addBareTypes(r0, s)
		all := jsonapi.Type{Name: "allkinds"}
		for k := 1; k <= 14; k++ {
			putAttr(&all, jsonapi.Attr{Name: "a" + strconv.Itoa(k), Type: k})
			putAttr(&all, jsonapi.Attr{Name: "n" + strconv.Itoa(k), Type: k, Nullable: true})
		}
		putRel(&all, jsonapi.Rel{FromType: "allkinds", FromName: "many", ToType: "allkinds"})
		if bt, err := jsonapi.BuildType(reflect.New(structTypeFor(all)).Interface()); err == nil {
			putType(s, bt)
			ts = append(ts, stype{bt, true})
		}
		roundEnd := time.Now().Add(15 * time.Millisecond)
		var wg sync.WaitGroup
		start := make(chan struct{})
		for i := 0; i < g; i++ {
			wg.Add(1)
			go func(i int) {
				defer wg.Done()
				r := newRng(seed+uint64(i)*7919+uint64(rounds)*104729, "racer-thread")
				lo := &Out{stats: map[string]int{}}
				<-start
				// first: everybody uses the all-kinds type at once
				func() {
					defer func() { _ = recover() }()
					t := s.GetType("allkinds")
					res := t.New()
					_ = res.Get("a14")
					_, _ = jsonapi.UnmarshalDocument([]byte(`{"data":{"id":"1","type":"allkinds"}}`), s)
				}()
				for time.Now().Before(roundEnd) {
					func() {
						defer func() { _ = recover() }()
						SharedOp(r, s, ts, lo)
					}()
					counts[i]++
				}
			}(i)
		}
		close(start)
		wg.Wait()
	}
	total := 0
	for _, c := range counts {
		total += c
	}
	fmt.Printf("racer goroutines=%d ops=%d rounds=%d\n", g, total, rounds)
}
