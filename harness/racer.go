package main

import (
	"fmt"
	"os"
	"strconv"
	"sync"
	"time"
)

// racer mode (binary built with -race): G goroutines run random mixes of the read-only
// operations of C12 against one shared schema for the given time. The race detector
// reports on stderr and makes the process exit with status 66 (GORACE=exitcode=66).
func racerMain() {
	seed, _ := strconv.ParseUint(os.Args[2], 10, 64)
	g, _ := strconv.Atoi(os.Args[3])
	ms, _ := strconv.Atoi(os.Args[4])
	r0 := newRng(seed, "racer")
	o := &Out{stats: map[string]int{}}
	s, ts := genSchema(r0, o)
	deadline := time.Now().Add(time.Duration(ms) * time.Millisecond)
	var wg sync.WaitGroup
	counts := make([]int, g)
	for i := 0; i < g; i++ {
		wg.Add(1)
		go func(i int) {
			defer wg.Done()
			r := newRng(seed+uint64(i)*7919, "racer-thread")
			lo := &Out{stats: map[string]int{}}
			for time.Now().Before(deadline) {
				func() {
					defer func() { _ = recover() }()
					SharedOp(r, s, ts, lo)
				}()
				counts[i]++
			}
		}(i)
	}
	wg.Wait()
	total := 0
	for _, c := range counts {
		total += c
	}
	fmt.Printf("racer goroutines=%d ops=%d\n", g, total)
}
