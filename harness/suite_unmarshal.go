package main

import (
	"bytes"
	"encoding/base64"
	"encoding/json"
	"fmt"
	"math/big"
	"net/http"
	"reflect"
	"sort"
	"strings"
	"time"

	"github.com/mfcochauxlaberge/jsonapi"
)

// ---------- schema with struct-backed and soft types ----------

type stype struct {
	typ    jsonapi.Type
	backed bool
}

func sxSSchema(ts []stype) string {
	items := make([]string, len(ts))
	for i, t := range ts {
		items[i] = lst(sxType(stripNewFunc(t.typ)), b01(t.backed))
	}
	return lst(items...)
}

func stripNewFunc(t jsonapi.Type) jsonapi.Type { t.NewFunc = nil; return t }

// genSchema: 1..3 types; a backed type is built with BuildType from the struct a user would declare.
func genSchema(r *Rng, o *Out) (*jsonapi.Schema, []stype) {
	names := []string{"t", "ts", "st"} // t+"s1" = ts+"1" and "1s"+t = "1"+st: joined strings collide
	if r.chance(1, 5) {
		names = []string{"t", "T", "st"} // names that differ by letter case only are different types
		o.stat("schema.case-variant-names")
	}
	n := 1 + r.IntN(3)
	s := &jsonapi.Schema{}
	var ts []stype
	for i := 0; i < n; i++ {
		typ := genTyp(r, genTypeOpts{name: names[i], maxAttrs: 5, maxRels: 3, targets: names[:n]})
		backed := r.bool()
		if backed {
			bt, err := jsonapi.BuildType(reflect.New(structTypeFor(typ)).Interface())
			if err != nil {
				panic("genSchema: BuildType: " + err.Error())
			}
			// what was built is what the struct declares (FromOne is not declared by a struct):
			// the built type is every later oracle's expectation, so it is compared here with
			// the type the struct was made from instead of being taken on trust
			decl := copyTypeIndep(typ)
			for k, rel := range decl.Rels {
				rel.FromOne = false
				decl.Rels[k] = rel
			}
			if sxType(stripNewFunc(bt)) != sxType(decl) {
				panic("genSchema: BuildType built " + sxType(stripNewFunc(bt)) + " from the struct declaring " + sxType(decl))
			}
			typ = bt
			o.stat("type.backed")
		} else {
			o.stat("type.soft")
			if r.chance(1, 4) {
				// a type written as a literal may leave FromType out: the definition is
				// what the schema holds, as it is
				for k, rel := range typ.Rels {
					rel.FromType = ""
					typ.Rels[k] = rel
				}
				o.stat("type.rels-without-fromtype")
			}
		}
		reused := false
		if !backed && r.chance(1, 5) {
			// the application asked the type value for a resource BEFORE registering it, and
			// afterwards goes on using its variable for something else: the schema's type is
			// what was registered
			_ = typ.New()
			reused = true
			o.stat("type.new-called-before-registration")
		}
		if !backed && r.chance(1, 6) {
			// a soft type whose resources come from a prototype resource (its New or its Copy)
			pt := copyTypeIndep(typ)
			proto := &jsonapi.SoftResource{Type: &pt}
			_ = proto.Attrs() // (used once: its lazily built value map exists before requests share it)
			if r.bool() {
				typ.NewFunc = proto.New
			} else {
				typ.NewFunc = proto.Copy
			}
			o.stat("type.soft-with-prototype")
		}
		putType(s, typ)
		ts = append(ts, stype{typ, backed})
		if reused {
			typ.Name, typ.Attrs, typ.Rels, typ.NewFunc = "used-for-something-else", nil, nil, nil
		}
	}
	if r.chance(1, 3) {
		ts = append(ts, schemaWithPast(s, o))
	}
	return s, ts
}

// schemaWithPast: the schema served before it got its present shape - a type that is no
// longer there was listed first and looked up, then removed, and another type was added, so
// that every type sits at another position than when the schema was first queried while the
// number of types is what it was. Returns the type that was added (part of the schema now).
func schemaWithPast(s *jsonapi.Schema, o *Out) stype {
	old := jsonapi.Type{Name: "zz-old", Attrs: map[string]jsonapi.Attr{"x": {Name: "x", Type: jsonapi.AttrTypeInt}}, Rels: map[string]jsonapi.Rel{}}
	// rebuilt the way an application builds it: the old type first, then every present
	// type, each through AddType
	present := s.Types
	s.Types = nil
	_ = s.AddType(old)
	for i := range present {
		_ = s.AddType(present[i])
	}
	for i := range s.Types {
		_ = s.HasType(s.Types[i].Name)
		_ = s.GetType(s.Types[i].Name)
	}
	_ = s.Check()
	_ = s.Rels()
	s.RemoveType("zz-old")
	added := jsonapi.Type{Name: "zz-new", Attrs: map[string]jsonapi.Attr{"y": {Name: "y", Type: jsonapi.AttrTypeString}}, Rels: map[string]jsonapi.Rel{}}
	_ = s.AddType(added)
	o.stat("schema.with-past")
	return stype{added, false}
}

// ---------- delegated decodes (exactly what the library asks encoding/json) ----------

func sxRawVal(raw json.RawMessage) string {
	var s string
	ds := "err"
	if json.Unmarshal(raw, &s) == nil {
		ds = lst("ok", hx(s))
	}
	var t time.Time
	dt := "err"
	if json.Unmarshal(raw, &t) == nil {
		_, off := t.Zone()
		dt = lst("ok", fmt.Sprint(t.Unix()), itoa(t.Nanosecond()), itoa(off))
	}
	b := make([]byte, len(raw))
	db := "err"
	if json.Unmarshal(raw, &b) == nil {
		if b == nil {
			db = lst("ok", "nil")
		} else {
			db = lst("ok", hx(string(b)))
		}
	}
	return lst("raw", hx(string(raw)), ds, dt, db)
}

func sxIdent(i jsonapi.Identifier) string { return lst(hx(i.ID), hx(i.Type)) }

func sxRelRaw(rs jsonapi.RelationshipSkeleton) string {
	present := len(rs.Data) > 0
	isNull := string(rs.Data) == "null"
	di, dis := "err", "err"
	if present {
		var iden jsonapi.Identifier
		if json.Unmarshal(rs.Data, &iden) == nil {
			di = lst("ok", sxIdent(iden))
		}
		var idens jsonapi.Identifiers
		if json.Unmarshal(rs.Data, &idens) == nil {
			items := make([]string, len(idens))
			for i := range idens {
				items[i] = sxIdent(idens[i])
			}
			dis = lst("ok", lst(items...))
		}
	}
	return lst("rel", b01(present), b01(isNull), di, dis)
}

func sxMetaMap(m jsonapi.Meta) string {
	if len(m) == 0 {
		return "(o)"
	}
	b, err := json.Marshal(m)
	if err != nil {
		return "(o)"
	}
	s, _ := jsonSx(b)
	return s
}

// skeleton of one resource payload, or "none" when it does not decode
func sxResSke(data []byte) string {
	var sk jsonapi.ResourceSkeleton
	if json.Unmarshal(data, &sk) != nil {
		return "none"
	}
	ak := sortedKeys(sk.Attributes)
	as := make([]string, len(ak))
	for i, k := range ak {
		as[i] = lst(hx(k), sxRawVal(sk.Attributes[k]))
	}
	rk := sortedKeys(sk.Relationships)
	rs := make([]string, len(rk))
	for i, k := range rk {
		rs[i] = lst(hx(k), sxRelRaw(sk.Relationships[k]))
	}
	return lst("ske", hx(sk.ID), hx(sk.Type), lst(as...), lst(rs...), sxMetaMap(sk.Meta))
}

func sxErrorObj(e jsonapi.Error) string {
	lk := sortedKeys(e.Links)
	ls := make([]string, len(lk))
	for i, k := range lk {
		ls[i] = lst(hx(k), hx(e.Links[k]))
	}
	return lst(hx(e.ID), hx(e.Code), hx(e.Status), hx(e.Title), hx(e.Detail), lst(ls...), sxMetaMap(jsonapi.Meta(e.Source)), sxMetaMap(e.Meta))
}

func sxDocSke(payload []byte) string {
	var ps jsonapi.PayloadSkeleton
	if json.Unmarshal(payload, &ps) != nil {
		return "none"
	}
	data := "absent"
	switch {
	case len(ps.Data) == 0:
	case ps.Data[0] == '{':
		data = lst("res", sxResSke(ps.Data))
	case ps.Data[0] == '[':
		var raws []json.RawMessage
		if json.Unmarshal(ps.Data, &raws) != nil {
			data = lst("col", "none")
		} else {
			items := make([]string, len(raws))
			for i := range raws {
				items[i] = sxResSke(raws[i])
			}
			data = lst("col", lst(items...))
		}
	case string(ps.Data) == "null":
		data = "null"
	default:
		data = "other"
	}
	errs := make([]string, len(ps.Errors))
	for i := range ps.Errors {
		errs[i] = sxErrorObj(ps.Errors[i])
	}
	incs := make([]string, len(ps.Included))
	for i, raw := range ps.Included {
		var iden jsonapi.Identifier
		incs[i] = lst(b01(json.Unmarshal(raw, &iden) == nil), sxResSke(raw))
	}
	return lst("doc", data, lst(errs...), lst(incs...), sxMetaMap(ps.Meta))
}

// ---------- observation of results ----------

func sxDocResult(d *jsonapi.Document) string {
	data := "none"
	switch x := d.Data.(type) {
	case jsonapi.Collection:
		items := make([]string, x.Len())
		for i := range items {
			items[i] = sxResView(x.At(i))
		}
		data = lst("col", lst(items...))
	case jsonapi.Resource:
		data = lst("res", sxResView(x))
	}
	incs := make([]string, len(d.Included))
	for i := range incs {
		incs[i] = sxResView(d.Included[i])
	}
	errs := make([]string, len(d.Errors))
	for i := range errs {
		errs[i] = sxErrorObj(d.Errors[i])
	}
	return lst(data, lst(incs...), lst(errs...), sxMetaMap(d.Meta))
}

// ---------- C05 conformance of a returned resource ----------

func conforms(res jsonapi.Resource, s *jsonapi.Schema) string {
	t := res.GetType()
	st, inSchema := lookupTypeIndep(s, t.Name) // the schema's own list, not Schema.GetType
	if t.Name == "" || !inSchema {
		return "resource type " + t.Name + " is not in the schema"
	}
	for name, a := range st.Attrs {
		v := res.Get(name)
		if v == nil && a.Nullable {
			continue
		}
		if !hasAttrGoType(v, a) {
			return fmt.Sprintf("attribute %s holds a %T", name, v)
		}
	}
	for name, rel := range st.Rels {
		v := res.Get(name)
		if _, ok := v.(string); ok != rel.ToOne {
			return fmt.Sprintf("relationship %s holds a %T", name, v)
		}
		if _, ok := v.([]string); ok == rel.ToOne {
			return fmt.Sprintf("relationship %s holds a %T", name, v)
		}
	}
	return ""
}

// ---------- payload generation ----------

func jstr(s string) string {
	b, _ := json.Marshal(s)
	return string(b)
}

var wrongLits = []string{"null", "true", "false", "0", "1", "-1", "1.5", "1e2", "\"\"", "\"x\"", "[]", "[1,2]", "{}", "{\"a\":1}", "\"2018-02-03T04:05:06Z\"", "\"aGVsbG8=\"", "300", "-129", "65536", "4294967296", "9223372036854775808", "18446744073709551616", "-0", "\"!!\"", "[256]", "[\"a\"]"}

// literal for a value of the kind (valid), as encoding/json would write it
func validLit(v any) string {
	b, _ := json.Marshal(v)
	return string(b)
}

type payloadParts struct {
	id, typ  string
	attrs    [][2]string // name, literal
	rels     [][2]string // name, relationship object text
	hasID    bool
	hasType  bool
	extra    string
	metaText string
}

func (p payloadParts) text(r *Rng) string {
	var ms []string
	if p.hasID {
		ms = append(ms, `"id":`+jstr(p.id))
	}
	if p.hasType {
		ms = append(ms, `"type":`+jstr(p.typ))
	}
	if len(p.attrs) > 0 {
		as := make([]string, len(p.attrs))
		for i, a := range p.attrs {
			as[i] = jstr(a[0]) + ":" + a[1]
		}
		ms = append(ms, `"attributes":{`+strings.Join(as, ",")+"}")
	}
	if len(p.rels) > 0 {
		rs := make([]string, len(p.rels))
		for i, a := range p.rels {
			rs[i] = jstr(a[0]) + ":" + a[1]
		}
		ms = append(ms, `"relationships":{`+strings.Join(rs, ",")+"}")
	}
	if p.metaText != "" {
		ms = append(ms, `"meta":`+p.metaText)
	}
	if p.extra != "" {
		ms = append(ms, p.extra)
	}
	if r != nil {
		r.Shuffle(len(ms), func(i, j int) { ms[i], ms[j] = ms[j], ms[i] })
	}
	return "{" + strings.Join(ms, ",") + "}"
}

func linkageText(r *Rng, rel jsonapi.Rel, o *Out) string {
	ident := func(id, typ string) string { return `{"id":` + jstr(id) + `,"type":` + jstr(typ) + `}` }
	typ := rel.ToType
	if r.chance(1, 8) {
		typ = []string{"wrong", ""}[r.IntN(2)]
		o.stat("linkage.wrong-type")
	}
	var data string
	switch {
	case r.chance(1, 8):
		return `{"links":{"self":"x"}}` // no data member
	case r.chance(1, 8):
		data = "null"
	case r.chance(1, 10):
		data = wrongLits[r.IntN(len(wrongLits))]
	case rel.ToOne && !r.chance(1, 8):
		data = ident(mStrPool[r.IntN(len(mStrPool))], typ)
	case r.chance(1, 10):
		data = `{"id":"only-id"}`
	default:
		n := r.IntN(4)
		items := make([]string, n)
		for i := range items {
			items[i] = ident(idPool[r.IntN(5)], typ) // repeats likely
		}
		data = "[" + strings.Join(items, ",") + "]"
	}
	if r.bool() {
		return `{"data":` + data + `}`
	}
	return `{"data":` + data + `,"links":{"self":"s","related":"r"},"meta":{"k":1}}`
}

// genPayload: a mostly valid resource payload for one of the schema's types, with
// optional faults (wrong JSON kind, unknown field, unknown type, …).
func genPayload(r *Rng, ts []stype, faulty bool, o *Out) payloadParts {
	st := ts[r.IntN(len(ts))]
	p := payloadParts{id: mStrPool[r.IntN(len(mStrPool))], typ: st.typ.Name, hasID: true, hasType: true}
	for _, name := range sortedKeys(st.typ.Attrs) {
		if r.chance(1, 3) {
			continue // absent
		}
		a := st.typ.Attrs[name]
		v := utf8ify(genVal(r, a.Type, a.Nullable))
		p.attrs = append(p.attrs, [2]string{name, validLit(v)})
	}
	for _, name := range sortedKeys(st.typ.Rels) {
		if r.chance(1, 3) {
			continue
		}
		p.rels = append(p.rels, [2]string{name, linkageText(r, st.typ.Rels[name], o)})
	}
	if r.chance(1, 6) {
		p.metaText = `{"m":1,"n":"x"}`
	}
	if !faulty {
		return p
	}
	switch r.IntN(9) {
	case 0:
		if len(p.attrs) > 0 {
			i := r.IntN(len(p.attrs))
			p.attrs[i][1] = wrongLits[r.IntN(len(wrongLits))]
			o.stat("fault.attr-literal")
		}
	case 1:
		name := "unknown"
		if rn := sortedKeys(st.typ.Rels); len(rn) > 0 && r.chance(1, 3) {
			name = rn[r.IntN(len(rn))] // a relationship's name among the attributes
		}
		p.attrs = append(p.attrs, [2]string{name, []string{"1", "null", `"x"`, "[]"}[r.IntN(4)]})
		o.stat("fault.unknown-attr")
	case 2:
		p.typ = []string{"nope", "", "T"}[r.IntN(3)]
		o.stat("fault.unknown-type")
	case 3:
		p.hasType = false
		if r.bool() {
			p.attrs, p.rels = nil, nil
		}
		o.stat("fault.no-type")
	case 4:
		name := "unknownrel"
		if an := sortedKeys(st.typ.Attrs); len(an) > 0 && r.chance(1, 3) {
			name = an[r.IntN(len(an))] // an attribute's name among the relationships
		}
		obj := []string{`{"data":null}`, `{}`, `{"links":{"self":"s"}}`, `{"meta":{"k":1}}`, `{"data":[]}`, `{"data":{"id":"1","type":"t"}}`}[r.IntN(6)]
		p.rels = append(p.rels, [2]string{name, obj})
		o.stat("fault.unknown-rel")
	case 5:
		if len(p.attrs) > 0 {
			p.attrs = append(p.attrs, p.attrs[0]) // duplicate key
			p.attrs[len(p.attrs)-1][1] = wrongLits[r.IntN(len(wrongLits))]
			o.stat("fault.duplicate-key")
		}
	case 6:
		p.extra = `"attributes":` + wrongLits[r.IntN(len(wrongLits))]
		p.attrs = nil
		o.stat("fault.attributes-kind")
	case 7:
		p.extra = `"ID":"x","Type":"t","links":{"self":1}`
		o.stat("fault.case-variant")
	case 8:
		p.hasID = false
		o.stat("fault.no-id")
	}
	return p
}

func mutateBytes(r *Rng, b []byte, o *Out) []byte {
	switch r.IntN(6) {
	case 0:
		if len(b) > 1 {
			o.stat("bytes.truncated")
			return b[:r.IntN(len(b))]
		}
	case 1:
		o.stat("bytes.random")
		n := r.IntN(12)
		out := make([]byte, n)
		for i := range out {
			pool := "{}[]\":,0a \\n\x00\xff"
			out[i] = pool[r.IntN(len(pool))]
		}
		return out
	case 2:
		o.stat("bytes.deep")
		d := 50 + r.IntN(300)
		return []byte(strings.Repeat("[", d) + strings.Repeat("]", d))
	case 3:
		o.stat("bytes.deep-object")
		d := 20 + r.IntN(100)
		return []byte(`{"data":` + strings.Repeat(`{"attributes":`, d) + "1" + strings.Repeat("}", d) + "}")
	case 4:
		if len(b) > 0 {
			o.stat("bytes.flip")
			c := append([]byte{}, b...)
			pool := "{}[]\":,0 "
			c[r.IntN(len(c))] = pool[r.IntN(len(pool))]
			return c
		}
	}
	return b
}

// ---------- suites ----------

func runUnmarshalRes(op string, data []byte, s *jsonapi.Schema, partial bool) (string, string, jsonapi.Resource) {
	var res jsonapi.Resource
	var err error
	p, msg := guard(func() {
		if partial {
			var sr *jsonapi.SoftResource
			sr, err = jsonapi.UnmarshalPartialResource(data, s)
			if sr != nil {
				res = sr
			}
		} else {
			res, err = jsonapi.UnmarshalResource(data, s)
		}
	})
	switch {
	case p:
		return "panic", "FAIL:" + op + " panicked: " + msg, nil
	case err != nil && res != nil && !isNilRes(res):
		return "err", "FAIL:" + op + " returned both a result and an error", nil
	case err != nil:
		return "err", "ok", nil
	case res == nil || isNilRes(res):
		return "nil", "FAIL:" + op + " returned neither a result nor an error", nil
	}
	return "ok " + sxResView(res), "ok", res
}

func isNilRes(r jsonapi.Resource) bool {
	rv := reflect.ValueOf(r)
	return rv.Kind() == reflect.Ptr && rv.IsNil()
}

// the `bytes` suite (C05, C13): resource payloads through full and partial unmarshaling,
// documents, collections, identifiers, NewRequest.
func suiteBytes(r *Rng, n int, thorough bool, o *Out) {
	for c := 0; c < n; c++ {
		s, ts := genSchema(r, o)
		ssx := sxSSchema(ts)
		faulty := r.chance(1, 2)
		pp := genPayload(r, ts, faulty, o)
		data := []byte(pp.text(r))
		if r.chance(1, 6) {
			data = mutateBytes(r, data, o)
		}
		ske := sxResSke(data)
		// full
		obsF, pvF, resF := runUnmarshalRes("UnmarshalResource", data, s, false)
		if resF != nil {
			if m := conforms(resF, s); m != "" {
				pvF = "FAIL[C05]:C05 " + m
			}
		}
		o.emit(lst("unm", "res", ssx, ske), obsF, pvF)
		// partial (C13)
		obsP, pvP, resP := runUnmarshalRes("UnmarshalPartialResource", data, s, true)
		if pvP == "ok" && (resP != nil) != (resF != nil) {
			pvP = "FAIL[C13]:C13 partial and full unmarshaling disagree on acceptance"
		}
		if pvP == "ok" && resP != nil {
			pvP = partialVerdict(resP, resF, data, s)
		}
		o.emit(lst("unm", "partial", ssx, ske), obsP, pvP)
		// document around it
		var doc []byte
		switch r.IntN(7) {
		case 0:
			doc = []byte(`{"data":` + string(data) + `}`)
		case 1:
			k := r.IntN(4)
			items := make([]string, k)
			for i := range items {
				items[i] = genPayload(r, ts, r.chance(1, 6), o).text(r)
			}
			doc = []byte(`{"data":[` + strings.Join(items, ",") + `],"meta":{"count":` + itoa(k) + `}}`)
		case 2:
			doc = []byte(`{"data":null,"included":[` + string(data) + `]}`)
		case 3:
			doc = []byte(`{"errors":[{"id":"e1","status":"400","title":"T","detail":"D","code":"c","links":{"about":"x"},"source":{"pointer":"/data"},"meta":{"m":true}},{"title":"second"}]}`)
		case 4:
			doc = []byte(`{"data":` + wrongLits[r.IntN(len(wrongLits))] + `,"included":` + wrongLits[r.IntN(len(wrongLits))] + `}`)
		case 5:
			doc = []byte(`{"data":` + string(data) + `,"included":[` + genPayload(r, ts, false, o).text(r) + `,` + wrongLits[r.IntN(len(wrongLits))] + `],"meta":{"a":[1,"b",null]}}`)
		default:
			doc = mutateBytes(r, []byte(`{"data":`+string(data)+`,"jsonapi":{"version":"1.0"}}`), o)
		}
		var d *jsonapi.Document
		var err error
		p, msg := guard(func() { d, err = jsonapi.UnmarshalDocument(doc, s) })
		obsD, pvD := "", "ok"
		switch {
		case p:
			obsD, pvD = "panic", "FAIL[C05]:C05 UnmarshalDocument panicked: "+msg
		case err != nil && d != nil:
			obsD, pvD = "err", "FAIL[C05]:C05 UnmarshalDocument returned both a result and an error"
		case err != nil:
			obsD = "err"
		case d == nil:
			obsD, pvD = "nil", "FAIL[C05]:C05 UnmarshalDocument returned neither"
		default:
			obsD = "ok " + sxDocResult(d)
			var all []jsonapi.Resource
			if col, ok := d.Data.(jsonapi.Collection); ok {
				for i := 0; i < col.Len(); i++ {
					all = append(all, col.At(i))
				}
			} else if res, ok := d.Data.(jsonapi.Resource); ok {
				all = append(all, res)
			}
			all = append(all, d.Included...)
			for _, res := range all {
				if m := conforms(res, s); m != "" {
					pvD = "FAIL[C05]:C05 " + m
				}
			}
		}
		o.emit(lst("unm", "doc", ssx, sxDocSke(doc)), obsD, pvD)
		// NewRequest carrying that body: URL part through NewSimpleURL/NewURL, body through
		// UnmarshalDocument for POST and PATCH
		if r.chance(1, 3) {
			method := []string{"POST", "PATCH", "GET", "DELETE", "post"}[r.IntN(5)]
			tn := ts[r.IntN(len(ts))].typ.Name
			paths := []string{"/" + tn, "/" + tn + "/1", "/" + tn + "?sort=id", "/" + tn + "?page%5Bsize%5D=2&page%5Bnumber%5D=1",
				"/nope", "/" + tn + "?fields%5B" + tn + "%5D=id", "/" + tn + "/1/relationships/nope", "/" + tn + "?include=nope", "/", "/" + tn + "?filter=lbl"}
			rawURL := paths[r.IntN(len(paths))]
			req, herr := http.NewRequest(method, rawURL, bytes.NewReader(doc))
			if herr == nil {
				var jr *jsonapi.Request
				var rerr error
				p, msg := guard(func() { jr, rerr = jsonapi.NewRequest(req, s) })
				obs, pv := "", "ok"
				switch {
				case p:
					obs, pv = "panic", "FAIL[C05]:C05 NewRequest panicked: "+msg
				case (rerr != nil) == (jr != nil):
					obs, pv = "both", "FAIL[C05]:C05 NewRequest returned neither or both of a request and an error"
				case rerr != nil:
					obs = "err"
				default:
					docPart := "nodoc"
					if jr.Doc != nil {
						docPart = sxDocResult(jr.Doc)
						var all []jsonapi.Resource
						if col, ok := jr.Doc.Data.(jsonapi.Collection); ok {
							for i := 0; i < col.Len(); i++ {
								all = append(all, col.At(i))
							}
						} else if res, ok := jr.Doc.Data.(jsonapi.Resource); ok {
							all = append(all, res)
						}
						all = append(all, jr.Doc.Included...)
						for _, res := range all {
							if m := conforms(res, s); m != "" {
								pv = "FAIL[C05]:C05 request document: " + m
							}
						}
					}
					if (jr.Doc != nil) != (method == "POST" || method == "PATCH") {
						pv = "FAIL[C05]:C05 request document present for " + method
					}
					obs = "ok " + lst(hx(jr.Method), sxURL(jr.URL), docPart)
				}
				o.stat("request." + obs[:2])
				o.emit(lst("request", hx(method), ssx, sxParsed(rawURL), sxDocSke(doc)), obs, pv)
			}
		}
		// identifiers
		if r.chance(1, 3) {
			lits := []string{`{"id":"1","type":"t"}`, `{"id":"","type":"t"}`, `{"id":"1"}`, `{"id":"1","type":"nope"}`, `null`, `[]`, `1`, `{"id":1,"type":"t"}`, `{"id":"1","type":"t","x":1}`}
			one := lits[r.IntN(len(lits))]
			var iden jsonapi.Identifier
			var ierr error
			p, _ := guard(func() { iden, ierr = jsonapi.UnmarshalIdentifier([]byte(one), s) })
			obs, pv := "", "ok"
			switch {
			case p:
				obs, pv = "panic", "FAIL[C05]:C05 UnmarshalIdentifier panicked"
			case ierr != nil:
				obs = "err"
				if iden != (jsonapi.Identifier{}) {
					pv = "FAIL[C05]:C05 UnmarshalIdentifier returned both"
				}
			default:
				obs = "ok " + sxIdent(iden)
				if !hasTypeIndep(s, iden.Type) {
					pv = "FAIL[C05]:C05 identifier type not in schema"
				}
			}
			var dec jsonapi.Identifier
			d1 := "err"
			if json.Unmarshal([]byte(one), &dec) == nil {
				d1 = lst("ok", sxIdent(dec))
			}
			o.emit(lst("unm", "ident", ssx, d1), obs, pv)
			k := r.IntN(4)
			items := make([]string, k)
			for i := range items {
				items[i] = lits[r.IntN(len(lits))]
			}
			many := "[" + strings.Join(items, ",") + "]"
			if r.chance(1, 8) {
				many = wrongLits[r.IntN(len(wrongLits))]
			}
			var idens jsonapi.Identifiers
			p, _ = guard(func() { idens, ierr = jsonapi.UnmarshalIdentifiers([]byte(many), s) })
			obs, pv = "", "ok"
			switch {
			case p:
				obs, pv = "panic", "FAIL[C05]:C05 UnmarshalIdentifiers panicked"
			case ierr != nil:
				obs = "err"
				if len(idens) > 0 {
					pv = "FAIL[C05]:C05 UnmarshalIdentifiers returned both a result and an error"
				}
			default:
				is := make([]string, len(idens))
				for i := range idens {
					is[i] = sxIdent(idens[i])
					if !hasTypeIndep(s, idens[i].Type) {
						pv = "FAIL[C05]:C05 identifier type not in schema"
					}
				}
				obs = "ok " + lst(is...)
			}
			var raws []json.RawMessage
			d2 := "err"
			if json.Unmarshal([]byte(many), &raws) == nil {
				ds := make([]string, len(raws))
				for i := range raws {
					var x jsonapi.Identifier
					if json.Unmarshal(raws[i], &x) == nil {
						ds[i] = lst("ok", sxIdent(x))
					} else {
						ds[i] = "err"
					}
				}
				d2 = lst("ok", lst(ds...))
			}
			o.emit(lst("unm", "idents", ssx, d2), obs, pv)
		}
	}
}

// C13: the partial resource has exactly the fields present in the payload (attributes
// object members; relationships whose object carries data), each with the schema's
// definition and the value full unmarshaling gives it.
func partialVerdict(part, full jsonapi.Resource, data []byte, s *jsonapi.Schema) string {
	var sk jsonapi.ResourceSkeleton
	if json.Unmarshal(data, &sk) != nil {
		return "FAIL[C13]:C13 accepted undecodable payload"
	}
	st, inSchema := lookupTypeIndep(s, sk.Type) // the schema's own list, not Schema.GetType
	pt := part.GetType()
	if !inSchema || pt.Name != st.Name {
		return "FAIL[C13]:C13 partial resource's type name"
	}
	wantA := sortedKeys(sk.Attributes)
	gotA := sortedKeys(pt.Attrs)
	if strings.Join(wantA, ",") != strings.Join(gotA, ",") {
		return fmt.Sprintf("FAIL[C13]:C13 partial attributes %v, payload has %v", gotA, wantA)
	}
	var wantR []string
	for k, v := range sk.Relationships {
		if len(v.Data) > 0 {
			wantR = append(wantR, k)
		}
	}
	sort.Strings(wantR)
	gotR := sortedKeys(pt.Rels)
	if strings.Join(wantR, ",") != strings.Join(gotR, ",") {
		return fmt.Sprintf("FAIL[C13]:C13 partial relationships %v, payload has data for %v", gotR, wantR)
	}
	for _, k := range gotA {
		if pt.Attrs[k] != st.Attrs[k] {
			return "FAIL[C13]:C13 attribute definition differs from the schema's"
		}
		if full != nil && canonSx(part.Get(k)) != canonSx(full.Get(k)) {
			return "FAIL[C13]:C13 partial value of " + k + " differs from full unmarshaling"
		}
	}
	for _, k := range gotR {
		if pt.Rels[k] != st.Rels[k] {
			return "FAIL[C13]:C13 relationship definition differs from the schema's"
		}
		if full != nil && canonSx(part.Get(k)) != canonSx(full.Get(k)) {
			return "FAIL[C13]:C13 partial value of " + k + " differs from full unmarshaling"
		}
	}
	if part.Get("id") != sk.ID {
		return "FAIL[C13]:C13 partial id"
	}
	return "ok"
}

// ---------- C06: literals ----------

func intRange(kind int) (*big.Int, *big.Int) {
	if b, ok := intBounds[kind]; ok {
		return big.NewInt(b[0]), big.NewInt(b[1])
	}
	return big.NewInt(0), new(big.Int).SetUint64(uintMax[kind])
}

func isIntLit(s string) bool {
	if strings.HasPrefix(s, "-") {
		s = s[1:]
	}
	if s == "" {
		return false
	}
	for _, c := range s {
		if c < '0' || c > '9' {
			return false
		}
	}
	return true
}

// faithful: independent reading of what an accepted literal denotes for the kind
func faithful(a jsonapi.Attr, lit string, got any) string {
	if lit == "null" {
		if !a.Nullable {
			return "null accepted for a non-nullable attribute"
		}
		if got != nil && !reflect.ValueOf(got).IsNil() {
			return "null stored as a non-nil value"
		}
		return ""
	}
	if got == nil || (reflect.ValueOf(got).Kind() == reflect.Ptr && reflect.ValueOf(got).IsNil()) {
		return "non-null literal stored as nil"
	}
	v := got
	if rv := reflect.ValueOf(got); rv.Kind() == reflect.Ptr {
		v = rv.Elem().Interface()
	}
	switch a.Type {
	case jsonapi.AttrTypeString:
		var s string
		if json.Unmarshal([]byte(lit), &s) != nil || !strings.HasPrefix(lit, "\"") {
			return "non-string literal accepted for a string"
		}
		if v.(string) != s {
			return "string differs"
		}
	case jsonapi.AttrTypeBool:
		if lit != "true" && lit != "false" {
			return "non-boolean literal accepted"
		}
		if v.(bool) != (lit == "true") {
			return "boolean differs"
		}
	case jsonapi.AttrTypeTime:
		var s string
		if json.Unmarshal([]byte(lit), &s) != nil || !strings.HasPrefix(lit, "\"") {
			return "non-string literal accepted for a time"
		}
		t, err := time.Parse(time.RFC3339, s)
		if err != nil {
			return "literal is not an RFC 3339 time"
		}
		if !t.Equal(v.(time.Time)) {
			return "time differs"
		}
	case jsonapi.AttrTypeBytes:
		var s string
		if json.Unmarshal([]byte(lit), &s) != nil || !strings.HasPrefix(lit, "\"") {
			return "non-string literal accepted for bytes"
		}
		b, err := base64.StdEncoding.DecodeString(strings.NewReplacer("\r", "", "\n", "").Replace(s))
		if err != nil {
			return "literal is not base64"
		}
		if !bytes.Equal(b, v.([]byte)) {
			return "bytes differ"
		}
	default:
		if !isIntLit(lit) {
			return "non-integer literal " + lit + " accepted for an integer kind"
		}
		n, _ := new(big.Int).SetString(lit, 10)
		lo, hi := intRange(a.Type)
		if n.Cmp(lo) < 0 || n.Cmp(hi) > 0 {
			return "out-of-range literal " + lit + " accepted"
		}
		stored, _ := new(big.Int).SetString(fmt.Sprint(v), 10)
		if stored.Cmp(n) != 0 {
			return fmt.Sprintf("literal %s stored as %v", lit, v)
		}
	}
	return ""
}

func genIntLit(r *Rng, kind int) string {
	lo, hi := intRange(kind)
	pick := func(b *big.Int, d int64) string { return new(big.Int).Add(b, big.NewInt(d)).String() }
	switch r.IntN(10) {
	case 0:
		return pick(lo, int64(r.IntN(5))-2)
	case 1:
		return pick(hi, int64(r.IntN(5))-2)
	case 2:
		return []string{"-0", "0", "00", "01", "+1", "1.0", "1e2", "1E2", "-", "1_000", "0x10", " 1"}[r.IntN(12)]
	case 3:
		n := new(big.Int).Lsh(big.NewInt(1), uint(60+r.IntN(11)))
		if r.bool() {
			n.Neg(n)
		}
		return pick(n, int64(r.IntN(3))-1)
	case 4:
		return pick(big.NewInt(0), int64(r.IntN(70000))-35000)
	case 5:
		return []string{"9223372036854775807", "9223372036854775808", "-9223372036854775808", "-9223372036854775809", "18446744073709551615", "18446744073709551616", "4294967295", "4294967296", "2147483647", "2147483648", "-2147483649"}[r.IntN(11)]
	default:
		span := new(big.Int).Sub(hi, lo)
		x := new(big.Int).Rand(newStdRand(r), span)
		return x.Add(x, lo).String()
	}
}

var timeLits = []string{`"2018-02-03T04:05:06Z"`, `"2018-02-03T04:05:06+00:00"`, `"2018-02-03T04:05:06.123456789-07:00"`, `"0001-01-01T00:00:00Z"`, `"9999-12-31T23:59:59.999999999Z"`, `"2018-02-03T04:05:06.5+23:59"`, `"2018-02-03 04:05:06Z"`, `"2018-02-03T04:05:06"`, `"2018-13-03T04:05:06Z"`, `"2018-02-03T24:05:06Z"`, `"2018-02-03t04:05:06z"`, `"2018-02-03T04:05:06.000Z"`, `""`, `"now"`}
var b64Lits = []string{`""`, `"aGVsbG8="`, `"aGVsbG8"`, `"aGVsbG9="`, `"aGVs\nbG8="`, `"AA=="`, `"AAA="`, `"AAAA"`, `"!!!!"`, `"AB=="`, `"/+8="`, `"_-8="`}
var strLits = []string{`""`, `"a"`, `"\u00e9"`, `"\ud83d\ude00"`, `"a\u0000b"`, `"<>&"`, `"\\\"/"`, `"\ud800"`, `"null"`}

func suiteLiterals(r *Rng, n int, thorough bool, o *Out) {
	s := &jsonapi.Schema{}
	typ := jsonapi.Type{Name: "t"}
	for k := 1; k <= 14; k++ {
		putAttr(&typ, jsonapi.Attr{Name: kindNameIndep(k, false), Type: k})
		putAttr(&typ, jsonapi.Attr{Name: "n" + kindNameIndep(k, false), Type: k, Nullable: true})
	}
	putAttr(&typ, jsonapi.Attr{Name: "type", Type: jsonapi.AttrTypeString}) // a legal field name
	putAttr(&typ, jsonapi.Attr{Name: "links", Type: jsonapi.AttrTypeInt, Nullable: true})
	putRel(&typ, jsonapi.Rel{FromType: "t", FromName: "one", ToOne: true, ToType: "t"})
	putRel(&typ, jsonapi.Rel{FromType: "t", FromName: "many", ToOne: false, ToType: "t"})
	putRel(&typ, jsonapi.Rel{FromType: "t", FromName: "one2", ToOne: true, ToType: "t"})
	putRel(&typ, jsonapi.Rel{FromType: "t", FromName: "one3", ToOne: true, ToType: "t"})
	putRel(&typ, jsonapi.Rel{FromType: "t", FromName: "many2", ToOne: false, ToType: "t"})
	putType(s, typ)
	ts := []stype{{typ, false}}
	ts = append(ts, schemaWithPast(s, o)) // one schema for the whole suite: it has a past
	ssx := sxSSchema(ts)
	// the same type as the struct a user would declare for it (its ID comes from an embedded
	// struct), built with BuildType: a third of the literals are read into it
	// (another struct declaring the same type name was wrapped earlier in this process:
	// what a struct type is never depends on another struct's)
	type otherT struct {
		ID    string `json:"id" api:"t"`
		Other int    `json:"other-field" api:"attr"`
	}
	guard(func() { _ = jsonapi.Wrap(&otherT{}) })
	sB := &jsonapi.Schema{}
	ssxB := ""
	if bt, err := jsonapi.BuildType(reflect.New(structTypeFor(typ)).Interface()); err == nil && sxType(stripNewFunc(bt)) == sxType(typ) {
		putType(sB, bt)
		ssxB = sxSSchema([]stype{{bt, true}})
	} else {
		// (not a silent fall-back to the soft type: a third of the suite would go unrun)
		panic("literals: BuildType does not build the declared type from its struct")
	}
	// ... and the same type once more from a struct whose ID has a defined string type
	sC := &jsonapi.Schema{}
	if bt, err := jsonapi.BuildType(reflect.New(structTypeForID(typ, 2)).Interface()); err == nil && sxType(stripNewFunc(bt)) == sxType(typ) {
		putType(sC, bt)
	}
	intoStruct := 0
	force := 0 // 1: into the soft type, 2: into the struct-built type, 0: drawn
	emitOne := func(name, lit string) {
		a := typ.Attrs[name]
		data := []byte(`{"id":"1","type":"t","attributes":{` + jstr(name) + `:` + lit + `}}`)
		s, ssx := s, ssx
		if ssxB != "" && (force == 2 || (force == 0 && r.chance(1, 3))) {
			s, ssx = sB, ssxB
			if intoStruct++; intoStruct%2 == 0 && len(sC.Types) == 1 {
				s = sC // (the model is told the same schema: the two structs declare one type)
			}
			o.stat("into-struct")
		}
		obs, pv, res := runUnmarshalRes("UnmarshalResource", data, s, false)
		if res != nil {
			if m := faithful(a, strings.TrimSpace(lit), res.Get(name)); m != "" {
				pv = "FAIL:" + kindNameIndep(a.Type, a.Nullable) + ": " + m
			} else if m := conforms(res, s); m != "" {
				pv = "FAIL:" + m
			} else {
				// absent fields hold their zero value (the harness's own zero, not what a
				// fresh resource of the library reads)
				for _, f := range fieldsIndep(typ) {
					if f != name && canonSx(res.Get(f)) != canonSx(zeroFieldIndep(typ, f)) {
						pv = "FAIL:absent field " + f + " is not zero"
					}
				}
			}
			if pv == "ok" {
				if m := remarshalVerdict(res, typ, map[string]string{name: strings.TrimSpace(lit)}, nil); m != "" {
					pv = "FAIL:" + m
				}
			}
			o.stat("accepted." + kindNameIndep(a.Type, false))
		} else {
			o.stat("rejected." + kindNameIndep(a.Type, false))
		}
		o.emit(lst("unm", "res", ssx, sxResSke(data)), obs, pv)
		if r.chance(1, 4) {
			// the same payload through partial unmarshaling: what is accepted is stored faithfully there too
			obsP, pvP, part := runUnmarshalRes("UnmarshalPartialResource", data, s, true)
			if part != nil {
				if _, has := part.Attrs()[name]; !has {
					pvP = "FAIL:attribute " + name + " of the payload is not in the partial resource"
				} else if m := faithful(a, strings.TrimSpace(lit), part.Get(name)); m != "" {
					pvP = "FAIL:partial, " + kindNameIndep(a.Type, a.Nullable) + ": " + m
				}
			}
			o.stat("partial")
			o.emit(lst("unm", "partial", ssx, sxResSke(data)), obsP, pvP)
		}
	}
	if thorough {
		// exhaustive for the 8- and 16-bit kinds over a window wider than their range
		for _, k := range []int{jsonapi.AttrTypeInt8, jsonapi.AttrTypeUint8} {
			for i := -400; i <= 400; i++ {
				emitOne(kindNameIndep(k, false), itoa(i))
			}
		}
		for _, k := range []int{jsonapi.AttrTypeInt16, jsonapi.AttrTypeUint16} {
			for i := -70000; i <= 70000; i += 1 {
				if i%7 == 0 || i > 65000 || i < -32000 || (i > 32000 && i < 33000) {
					emitOne(kindNameIndep(k, false), itoa(i))
				}
			}
		}
	}
	// directed rows, every run: null and the simplest valid literal for every kind, nullable
	// and not, into the soft type and into the struct-built one
	for k := 1; k <= 14; k++ {
		simple := "0"
		switch k {
		case jsonapi.AttrTypeString:
			simple = `""`
		case jsonapi.AttrTypeBool:
			simple = "false"
		case jsonapi.AttrTypeTime:
			simple = `"2018-02-03T04:05:06Z"`
		case jsonapi.AttrTypeBytes:
			simple = `""`
		}
		for force = 1; force <= 2; force++ {
			for _, nm := range []string{kindNameIndep(k, false), "n" + kindNameIndep(k, false)} {
				emitOne(nm, "null")
				emitOne(nm, simple)
			}
		}
	}
	force = 0
	for c := 0; c < n; c++ {
		k := 1 + r.IntN(14)
		name := kindNameIndep(k, false)
		if r.bool() {
			name = "n" + name
		}
		if r.chance(1, 20) {
			name, k = "type", jsonapi.AttrTypeString
		} else if r.chance(1, 20) {
			name, k = "links", jsonapi.AttrTypeInt
		}
		var lit string
		switch {
		case r.chance(1, 6):
			lit = wrongLits[r.IntN(len(wrongLits))]
		case k == jsonapi.AttrTypeString:
			lit = strLits[r.IntN(len(strLits))]
		case k == jsonapi.AttrTypeBool:
			lit = []string{"true", "false", "True", "1", "\"true\""}[r.IntN(5)]
		case k == jsonapi.AttrTypeTime:
			lit = timeLits[r.IntN(len(timeLits))]
			if r.chance(1, 3) {
				lit = validLit(genTime(r))
			}
		case k == jsonapi.AttrTypeBytes:
			lit = b64Lits[r.IntN(len(b64Lits))]
			if r.chance(1, 3) {
				lit = validLit(genBytes(r))
			}
		default:
			lit = genIntLit(r, k)
		}
		emitOne(name, lit)
	}
	// collections: every element is read on its own - what one element holds does not
	// depend on its neighbours (members an element omits are zero, also when the element
	// before it has them)
	valid := map[int][]string{
		jsonapi.AttrTypeString: {`"s1"`, `"s2"`, `""`}, jsonapi.AttrTypeInt: {"1", "-2", "0"}, jsonapi.AttrTypeInt8: {"7", "-8"},
		jsonapi.AttrTypeUint16: {"9", "65535"}, jsonapi.AttrTypeBool: {"true", "false"},
		jsonapi.AttrTypeTime: {`"2018-02-03T04:05:06Z"`, `"1999-12-31T23:59:59+01:00"`}, jsonapi.AttrTypeBytes: {`"aGVsbG8="`, `"AA=="`},
	}
	kindsUsed := []int{jsonapi.AttrTypeString, jsonapi.AttrTypeInt, jsonapi.AttrTypeInt8, jsonapi.AttrTypeUint16, jsonapi.AttrTypeBool, jsonapi.AttrTypeTime, jsonapi.AttrTypeBytes}
	for c := 0; c < n/6+1; c++ {
		ne := 2 + r.IntN(3)
		type elem struct {
			id    string
			attrs map[string]string
			rels  map[string]string
		}
		elems := make([]elem, ne)
		texts := make([]string, ne)
		for e := range elems {
			el := elem{id: itoa(e + 1), attrs: map[string]string{}, rels: map[string]string{}}
			var am, rm []string
			for _, k := range kindsUsed {
				if r.chance(1, 3) {
					name := kindNameIndep(k, false)
					if r.bool() {
						name = "n" + name
					}
					lit := valid[k][r.IntN(len(valid[k]))]
					el.attrs[name] = lit
					am = append(am, jstr(name)+":"+lit)
				}
			}
			for _, name := range []string{"one", "many"} {
				if r.chance(1, 3) {
					obj := `{"data":{"id":"x` + itoa(e) + `","type":"t"}}`
					if name == "many" {
						obj = `{"data":[{"id":"y` + itoa(e) + `","type":"t"},{"id":"z","type":"t"}]}`
					}
					el.rels[name] = obj
					rm = append(rm, jstr(name)+":"+obj)
				}
			}
			txt := `{"type":"t"`
			if e == 0 || r.chance(3, 4) { // sometimes an element without id
				txt += `,"id":` + jstr(el.id)
			} else {
				el.id = ""
			}
			if len(am) > 0 || r.bool() {
				txt += `,"attributes":{` + strings.Join(am, ",") + `}`
			}
			if len(rm) > 0 || r.bool() {
				txt += `,"relationships":{` + strings.Join(rm, ",") + `}`
			}
			texts[e] = txt + "}"
			elems[e] = el
		}
		doc := []byte(`{"data":[` + strings.Join(texts, ",") + `]}`)
		var d *jsonapi.Document
		var err error
		p, msg := guard(func() { d, err = jsonapi.UnmarshalDocument(doc, s) })
		obsD, pvD := "err", "ok"
		switch {
		case p:
			obsD, pvD = "panic", "FAIL:UnmarshalDocument panicked: "+msg
		case err != nil || d == nil:
			pvD = "FAIL:a collection of valid resources is rejected"
		default:
			obsD = "ok " + sxDocResult(d)
			col, ok := d.Data.(jsonapi.Collection)
			if !ok || col.Len() != ne {
				pvD = "FAIL:the collection does not come back with its elements"
				break
			}
			for e := 0; e < ne && pvD == "ok"; e++ {
				res := col.At(e)
				if res.Get("id") != any(elems[e].id) {
					pvD = fmt.Sprintf("FAIL:element %d has id %q, payload says %q", e, res.Get("id"), elems[e].id)
				}
				for _, f := range fieldsIndep(typ) {
					if lit, ok := elems[e].attrs[f]; ok {
						if m := faithful(typ.Attrs[f], lit, res.Get(f)); m != "" {
							pvD = fmt.Sprintf("FAIL:element %d attribute %s: %s", e, f, m)
						}
					} else if obj, ok := elems[e].rels[f]; ok {
						if m := linkageVerdict(res, f, typ.Rels[f], obj); m != "ok" {
							pvD = fmt.Sprintf("%s (element %d, %s)", m, e, f)
						}
					} else if canonSx(res.Get(f)) != canonSx(zeroFieldIndep(typ, f)) {
						pvD = fmt.Sprintf("FAIL:element %d: field %s is absent from the element but reads %s", e, f, canonSx(res.Get(f)))
					}
				}
			}
		}
		o.stat("collection")
		o.emit(lst("unm", "doc", ssx, sxDocSke(doc)), obsD, pvD)
	}
	// relationship linkage: exact IDs (repeats kept), linkage type = target type, re-marshal
	relNames := []string{"one", "many", "one2", "one3", "many2"}
	for c := 0; c < n/3+1; c++ {
		// one relationship, or several at once (each decoded on its own: what one holds
		// must not depend on the others, in whatever order the map is ranged over)
		k := 1
		if r.bool() {
			k = 2 + r.IntN(4)
		}
		perm := r.Perm(len(relNames))
		names := make([]string, 0, k)
		objs := map[string]string{}
		members := make([]string, 0, k)
		for _, i := range perm[:k] {
			name := relNames[i]
			obj := linkageText(r, typ.Rels[name], o)
			names = append(names, name)
			objs[name] = obj
			members = append(members, `"`+name+`":`+obj)
		}
		if k > 1 {
			o.stat("linkage.several")
		}
		data := []byte(`{"id":"1","type":"t","relationships":{` + strings.Join(members, ",") + `}}`)
		obs, pv, res := runUnmarshalRes("UnmarshalResource", data, s, false)
		if res != nil {
			for _, name := range names {
				if m := linkageVerdict(res, name, typ.Rels[name], objs[name]); m != "ok" {
					pv = m + " (" + name + ")"
					break
				}
			}
			if pv == "ok" {
				if m := remarshalVerdict(res, typ, nil, objs); m != "" {
					pv = "FAIL:" + m
				}
			}
		}
		o.emit(lst("unm", "res", ssx, sxResSke(data)), obs, pv)
		if r.chance(1, 3) {
			// the same linkage through partial unmarshaling: a relationship whose data member
			// is present (null included) is part of the result and holds the listed IDs
			obsP, pvP, part := runUnmarshalRes("UnmarshalPartialResource", data, s, true)
			if part != nil {
				for _, name := range names {
					n, _ := parseJSON([]byte(objs[name]))
					_, has := part.Rels()[name]
					if (n.get("data") != nil) != has {
						pvP = fmt.Sprintf("FAIL:partial: relationship %s (payload %s) present=%v", name, objs[name], has)
						break
					}
					if has {
						if m := linkageVerdict(part, name, typ.Rels[name], objs[name]); m != "ok" {
							pvP = m + " (partial, " + name + ")"
							break
						}
					}
				}
			}
			o.stat("partial.linkage")
			o.emit(lst("unm", "partial", ssx, sxResSke(data)), obsP, pvP)
		}
	}
}

// remarshalVerdict: C06's last clause. The accepted resource is marshaled again with every
// field and every relationship's data selected; id, type, each attribute of the payload and
// each relationship linkage of the payload must come out as the same JSON value (integers
// numerically, strings/booleans/null exactly, times as the same instant, byte strings as the
// same bytes, to-many linkage as the same multiset of identifiers).
func remarshalVerdict(res jsonapi.Resource, typ jsonapi.Type, attrs, rels map[string]string) string {
	relData := map[string][]string{typ.Name: sortedKeys(typ.Rels)}
	// the field list is asked of the library, as an application re-marshaling "all fields"
	// does - and judged here: it is the sorted names of the type's attributes and relationships
	var listed []string
	if p, msg := guard(func() { listed = typ.Fields() }); p {
		return "Type.Fields panicked: " + msg
	}
	if strings.Join(listed, "\x00") != strings.Join(fieldsIndep(typ), "\x00") {
		return fmt.Sprintf("re-marshaled resource lacks attribute or relationship: Type.Fields() lists %q, the type has %q", listed, fieldsIndep(typ))
	}
	var out []byte
	if p, msg := guard(func() { out = jsonapi.MarshalResource(res, "", listed, relData) }); p {
		return "re-marshaling the accepted resource panicked: " + msg
	}
	n, err := parseJSON(out)
	if err != nil || n.kind != 'o' {
		return "re-marshaling the accepted resource does not give a JSON object"
	}
	if x := n.get("id"); x == nil || x.kind != 's' || x.text != "1" {
		return "re-marshaled id differs from the payload's"
	}
	if x := n.get("type"); x == nil || x.kind != 's' || x.text != typ.Name {
		return "re-marshaled type differs from the payload's"
	}
	for _, name := range sortedKeys(attrs) {
		want, err := parseJSON([]byte(attrs[name]))
		if err != nil {
			return "harness: bad literal"
		}
		got := n.get("attributes").get(name)
		if got == nil {
			return "re-marshaled resource lacks attribute " + name
		}
		a := typ.Attrs[name]
		same := false
		switch {
		case want.kind == 'n' || got.kind == 'n' || want.kind == 't' || want.kind == 'f':
			same = want.kind == got.kind
		case want.kind == '0':
			x, ok1 := new(big.Int).SetString(want.text, 10)
			y, ok2 := new(big.Int).SetString(got.text, 10)
			same = got.kind == '0' && ok1 && ok2 && x.Cmp(y) == 0
		case want.kind == 's' && got.kind == 's' && a.Type == jsonapi.AttrTypeTime:
			x, e1 := time.Parse(time.RFC3339, want.text)
			y, e2 := time.Parse(time.RFC3339, got.text)
			same = e1 == nil && e2 == nil && x.Equal(y)
		case want.kind == 's' && got.kind == 's' && a.Type == jsonapi.AttrTypeBytes:
			x, e1 := base64.StdEncoding.DecodeString(strings.NewReplacer("\r", "", "\n", "").Replace(want.text))
			y, e2 := base64.StdEncoding.DecodeString(got.text)
			same = e1 == nil && e2 == nil && bytes.Equal(x, y)
		case want.kind == 's':
			same = got.kind == 's' && got.text == want.text
		}
		if !same {
			return fmt.Sprintf("attribute %s: payload %s re-marshals as %s", name, attrs[name], got.sx(new(bool)))
		}
	}
	ident := func(x *jnode) string {
		if x == nil || x.kind != 'o' || x.get("id") == nil || x.get("type") == nil {
			return "?"
		}
		return x.get("type").text + "\x00" + x.get("id").text
	}
	for _, name := range sortedKeys(rels) {
		obj, err := parseJSON([]byte(rels[name]))
		if err != nil {
			return "harness: bad relationship object"
		}
		want := obj.get("data")
		got := n.get("relationships").get(name).get("data")
		if want == nil {
			continue
		}
		if got == nil {
			return "re-marshaled resource lacks the linkage of " + name
		}
		switch {
		case want.kind == 'n' && typ.Rels[name].ToOne:
			if got.kind != 'n' {
				return "null linkage of " + name + " re-marshals as a value"
			}
		case want.kind == 'n':
			if got.kind != 'a' || len(got.items) != 0 {
				return "null to-many linkage of " + name + " does not re-marshal as an empty list"
			}
		case want.kind == 'o':
			if id := want.get("id"); got.kind == 'n' && (id == nil || (id.kind == 's' && id.text == "")) {
				// known finding C06-toone-empty-id (pinned by TestUnmarshalPartialResource)
				return "to-one linkage identifier without id accepted for " + name + " and re-marshaled as null"
			}
			if got.kind != 'o' || ident(got) != ident(want) {
				return "linkage of " + name + " " + rels[name] + " re-marshals as another identifier: " + got.sx(new(bool))
			}
		case want.kind == 'a':
			if got.kind != 'a' || len(got.items) != len(want.items) {
				return "linkage of " + name + " re-marshals with another number of identifiers"
			}
			a, b := []string{}, []string{}
			for i := range want.items {
				a = append(a, ident(want.items[i]))
				b = append(b, ident(got.items[i]))
			}
			sort.Strings(a)
			sort.Strings(b)
			if strings.Join(a, "\x01") != strings.Join(b, "\x01") {
				return "linkage of " + name + " re-marshals as other identifiers"
			}
		}
	}
	return ""
}

func linkageVerdict(res jsonapi.Resource, name string, rel jsonapi.Rel, obj string) string {
	n, err := parseJSON([]byte(obj))
	if err != nil {
		return "FAIL:harness: bad relationship object"
	}
	data := n.get("data")
	var ids []string
	switch {
	case data == nil:
	case data.kind == 'n':
	case data.kind == 'o' && rel.ToOne:
		if t := data.get("type"); t == nil || t.kind != 's' || t.text != rel.ToType {
			return "FAIL:linkage of another type accepted"
		}
		if i := data.get("id"); i == nil || i.kind != 's' {
			return "FAIL:linkage without string id accepted"
		} else {
			ids = []string{i.text}
		}
	case data.kind == 'a' && !rel.ToOne:
		for _, it := range data.items {
			if it.kind != 'o' {
				return "FAIL:non-object linkage accepted"
			}
			if t := it.get("type"); t == nil || t.kind != 's' || t.text != rel.ToType {
				return "FAIL:linkage of another type accepted"
			}
			i := it.get("id")
			if i == nil || i.kind != 's' {
				return "FAIL:linkage without string id accepted"
			}
			ids = append(ids, i.text)
		}
	default:
		return "FAIL:relationship data of the wrong JSON kind accepted"
	}
	if rel.ToOne {
		want := ""
		if len(ids) == 1 {
			want = ids[0]
		}
		if res.Get(name) != want {
			return "FAIL:to-one relationship does not hold the listed ID"
		}
	} else {
		got := append([]string{}, res.Get(name).([]string)...)
		sort.Strings(got)
		sort.Strings(ids)
		if strings.Join(got, "\x00") != strings.Join(ids, "\x00") {
			return "FAIL:to-many relationship does not hold exactly the listed IDs"
		}
	}
	return "ok"
}

func init() {
	suites["bytes"] = suiteBytes
	suites["literals"] = suiteLiterals
}
