package main

import (
	"bytes"
	"encoding/json"
	"fmt"
	"regexp"
	"strings"
	"unicode/utf8"

	"github.com/mfcochauxlaberge/jsonapi"
)

// The `filterjson` suite (C08): the JSON codec of the `filter` query parameter — what the
// model of Filter.UnmarshalJSON + json.Marshal(Filter) (lean/Jsonapi/Model/FilterJson.lean)
// says against the real calls of simple_url.go and url.go:
//
//	(filterjson dec x<text>)      json.Unmarshal(text, &jsonapi.Filter{}), then json.Marshal
//	(filterjson label x<label>)   json.Marshal(label) without the quotes, and
//	                              json.Unmarshal("\"" + body + "\"", &label) on it
//	(filterjson labeldec x<v>)    json.Unmarshal("\"" + v + "\"", &label)
//
// Texts are written token by token (not through encoding/json) so that member order, repeated
// and case-variant keys, unknown members, escapes inside strings and malformed texts are all
// under the generator's control. They stay inside what the model's reader covers: no
// whitespace between tokens, no surrogate escapes, valid UTF-8. Number literals are canonical
// integers within ±2^53 except for a few (`skip` on both sides: float64 formatting is a
// parameter of the model).
//
// Verdict: the canonical text is a fixed point — decoding the marshaled filter and marshaling
// again gives the same bytes (the codec law C08 is instantiated with).

var fjSafeNum = regexp.MustCompile(`^-?(0|[1-9][0-9]*)$`)

// fjNumbersSafe: every number literal of a valid JSON text is a canonical integer numeral of
// absolute value at most 2^53 (true for a text that is not valid JSON).
func fjNumbersSafe(text string) bool {
	if !json.Valid([]byte(text)) {
		return true
	}
	dec := json.NewDecoder(strings.NewReader(text))
	dec.UseNumber()
	for {
		tok, err := dec.Token()
		if err != nil { // io.EOF at the end
			return true
		}
		if n, ok := tok.(json.Number); ok {
			s := string(n)
			if !fjSafeNum.MatchString(s) {
				return false
			}
			d := strings.TrimPrefix(s, "-")
			if len(d) > 16 || (len(d) == 16 && d > "9007199254740992") {
				return false
			}
		}
	}
}

var fjStrPool = []string{"", "a", "b", "name", "and", "or", "=", "!=", "<", ">=", "\"", "\\", "a\"b\\c", "\n\r\t\b\f", "\x00\x01\x1f",
	"<>&", "\x7f", " ", " x", "é", "日本", "\U0001F600", "</script>", "a b ", "{}", "[1,2]", "null", " ", "/", "a/b",
	"f", "F", "v", "ſ", "K", "x y", "�", "â\u0080", "%7B"}

// fjStrLit writes a JSON string literal for s (valid UTF-8), choosing between the raw
// character, the short escape and the \u escape (either hex case) where JSON allows them.
func fjStrLit(r *Rng, s string) string {
	var b strings.Builder
	b.WriteByte('"')
	plain := r.chance(2, 3) // mostly the plainest spelling
	for _, c := range s {
		short := map[rune]string{'"': `\"`, '\\': `\\`, '/': `\/`, '\b': `\b`, '\f': `\f`, '\n': `\n`, '\r': `\r`, '\t': `\t`}[c]
		mustEsc := c < 0x20 || c == '"' || c == '\\'
		canU := c < 0x10000 && !(0xD800 <= c && c < 0xE000)
		switch {
		case mustEsc && short != "" && (plain || r.bool()):
			b.WriteString(short)
		case mustEsc:
			b.WriteString(fjU(r, c))
		case !plain && canU && r.chance(1, 4):
			b.WriteString(fjU(r, c))
		case !plain && short != "" && r.chance(1, 2):
			b.WriteString(short)
		default:
			b.WriteRune(c)
		}
	}
	b.WriteByte('"')
	return b.String()
}

func fjU(r *Rng, c rune) string {
	if r.bool() {
		return fmt.Sprintf(`\u%04x`, c)
	}
	return fmt.Sprintf(`\u%04X`, c)
}

func fjStr(r *Rng) string {
	s := fjStrPool[r.IntN(len(fjStrPool))]
	if r.chance(1, 5) {
		s += fjStrPool[r.IntN(len(fjStrPool))]
	}
	return s
}

func fjNum(r *Rng, o *Out) string {
	if r.chance(1, 25) {
		o.stat("num.outside-dom")
		return r.pick([]string{"1.5", "1e2", "1E-7", "1e999", "9007199254740993", "-9007199254740994", "0.0", "1.0", "12345678901234567890", "1e21", "-1.25e-3", "0e0"})
	}
	switch r.IntN(6) {
	case 0:
		return "0"
	case 1:
		return "-0"
	case 2:
		return r.pick([]string{"9007199254740992", "-9007199254740992", "9007199254740991", "4503599627370497", "1000000000000000", "999999999999999"})
	case 3:
		return fmt.Sprint(-int64(r.IntN(1 << 40)))
	default:
		return fmt.Sprint(r.IntN(100000))
	}
}

// fjAny: the text of any JSON value (objects with repeated and unsorted keys).
func fjAny(r *Rng, depth int, o *Out) string {
	k := r.IntN(10)
	if depth <= 0 && k >= 7 {
		k = r.IntN(7)
	}
	switch {
	case k == 0:
		return "null"
	case k == 1:
		return r.pick([]string{"true", "false"})
	case k <= 3:
		return fjNum(r, o)
	case k <= 6:
		return fjStrLit(r, fjStr(r))
	case k == 7:
		n := r.IntN(4)
		l := make([]string, n)
		for i := range l {
			l[i] = fjAny(r, depth-1, o)
		}
		return "[" + strings.Join(l, ",") + "]"
	default:
		n := r.IntN(5)
		l := make([]string, n)
		keys := []string{}
		for i := range l {
			key := fjStr(r)
			if len(keys) > 0 && r.chance(1, 4) {
				key = keys[r.IntN(len(keys))]
				o.stat("any.repeated-key")
			}
			keys = append(keys, key)
			l[i] = fjStrLit(r, key) + ":" + fjAny(r, depth-1, o)
		}
		return "{" + strings.Join(l, ",") + "}"
	}
}

var fjOps = []string{"=", "!=", "<", "<=", ">", ">=", "in", "", "AND", "And", "Or", "and ", "xor", "<>&", "é"}

// fjKey: the member name for a struct field tag, sometimes in upper case, sometimes escaped.
func fjKey(r *Rng, tag string, o *Out) string {
	if r.chance(1, 6) {
		tag = strings.ToUpper(tag)
		o.stat("key.upper-case")
	}
	if r.chance(1, 12) {
		o.stat("key.escaped")
		return fmt.Sprintf(`"\u%04x"`, tag[0])
	}
	return `"` + tag + `"`
}

// fjFilter: the text of a filter object; mostly accepted ones.
func fjFilter(r *Rng, depth int, o *Out) string {
	var ms []string
	add := func(tag, val string) { ms = append(ms, fjKey(r, tag, o)+":"+val) }
	junk := func() string { // a value the field rejects, or null, or a string
		switch r.IntN(8) {
		case 0:
			o.stat("field.type-error")
			return r.pick([]string{"1", "true", "[]", "{}", `["a"]`, `{"f":"a"}`, "false", "0"})
		case 1, 2:
			o.stat("field.null")
			return "null"
		default:
			return fjStrLit(r, fjStr(r))
		}
	}
	andor := depth > 0 && r.chance(2, 5)
	// f
	if r.chance(3, 4) {
		if r.chance(1, 8) {
			o.stat("member.repeated")
			add("f", junk())
		}
		if r.chance(1, 12) {
			add("f", junk())
		} else {
			add("f", fjStrLit(r, fjStr(r)))
		}
	}
	// o
	if andor {
		if r.chance(1, 8) {
			o.stat("member.repeated")
			add("o", r.pick([]string{`"="`, "null", `"or"`, `""`}))
		}
		add("o", r.pick([]string{`"and"`, `"or"`, `"and"`, `"or"`}))
		if r.chance(1, 10) {
			o.stat("member.repeated")
			add("o", "null") // leaves the op
		}
	} else if r.chance(5, 6) {
		if r.chance(1, 12) {
			add("o", junk())
		} else {
			add("o", fjStrLit(r, r.pick(fjOps)))
		}
	}
	// v
	genV := func() string {
		if !andor {
			if r.chance(1, 10) { // what would be a filter list, under an ordinary op
				return "[" + fjFilter(r, depth-1, o) + ",null]"
			}
			return fjAny(r, 2, o)
		}
		switch k := r.IntN(20); {
		case k == 0:
			o.stat("andor.v-null")
			return "null"
		case k == 1:
			o.stat("andor.v-not-array")
			return r.pick([]string{"{}", "1", `"x"`, "true", `{"f":"a"}`})
		default:
			n := r.IntN(4)
			l := make([]string, n)
			for i := range l {
				switch e := r.IntN(12); {
				case e <= 1:
					o.stat("andor.null-element")
					l[i] = "null"
				case e == 2 && r.chance(1, 3):
					o.stat("andor.bad-element")
					l[i] = r.pick([]string{"1", `"x"`, "[]", "true", "[null]", "-0"})
				default:
					l[i] = fjFilter(r, depth-1, o)
				}
			}
			return "[" + strings.Join(l, ",") + "]"
		}
	}
	switch {
	case andor && r.chance(1, 25):
		o.stat("andor.v-absent")
	case !andor && r.chance(1, 8):
		o.stat("leaf.v-absent")
	default:
		if r.chance(1, 8) {
			o.stat("member.repeated")
			add("v", r.pick([]string{"null", "1", "[]", `[{"o":"and"}]`, `{"a":1}`, `"x"`}))
		}
		add("v", genV())
		if andor && r.chance(1, 30) {
			o.stat("member.repeated")
			add("v", "null") // the later null wins: nil slice
		}
	}
	// c
	if r.chance(1, 2) {
		if r.chance(1, 12) {
			add("c", junk())
		} else {
			add("c", fjStrLit(r, fjStr(r)))
		}
	}
	// unknown members
	for r.chance(1, 4) {
		o.stat("member.unknown")
		key := r.pick([]string{"x", "ff", "", "vv", "ſ", "K", "é", "fo", "val", "O ", "0"})
		ms = append(ms, fjStrLit(r, key)+":"+fjAny(r, 1, o))
	}
	// order: mostly as written, sometimes shuffled (which may move a repeated member)
	if r.chance(1, 3) {
		r.Shuffle(len(ms), func(i, j int) { ms[i], ms[j] = ms[j], ms[i] })
	}
	return "{" + strings.Join(ms, ",") + "}"
}

// fjMangle makes a (most likely) malformed text out of a well-formed one without leaving
// the reader's alphabet: no whitespace, no cut inside a UTF-8 sequence other than by
// truncation (an unterminated string for both sides).
func fjMangle(r *Rng, t string) string {
	if t == "" {
		return t
	}
	switch r.IntN(5) {
	case 0: // truncate
		return t[:r.IntN(len(t))]
	case 1: // drop one structural byte
		for try := 0; try < 20; try++ {
			i := r.IntN(len(t))
			if strings.IndexByte(`{}[],:"`, t[i]) >= 0 {
				return t[:i] + t[i+1:]
			}
		}
		return t[:len(t)-1]
	case 2: // insert a stray byte at a character boundary
		for try := 0; try < 20; try++ {
			i := r.IntN(len(t) + 1)
			if i == len(t) || utf8.RuneStart(t[i]) {
				return t[:i] + r.pick([]string{",", "}", "]", "x", `"`, "{", "[", ":", "1", "\x01", "+", "."}) + t[i:]
			}
		}
		return t + "}"
	case 3: // trailing text
		return t + r.pick([]string{"}", "x", "{}", ",", "null", "]"})
	default: // a bad number or escape somewhere
		return strings.Replace(t, ":", ":"+r.pick([]string{"01", "+1", "1.", ".5", "1e", "-", `"\x"`, `"\u12"`, `"\u00g0"`, "nul", "True", "'a'"})+",\"q\":", 1)
	}
}

// fjShape: the dynamic types under Filter.Val (what the canonical text does not show).
func fjShape(f *jsonapi.Filter) string {
	switch v := f.Val.(type) {
	case []*jsonapi.Filter:
		if v == nil {
			return "n"
		}
		s := "["
		for _, e := range v {
			if e == nil {
				s += "-"
			} else {
				s += fjShape(e)
			}
		}
		return s + "]"
	default:
		return "a"
	}
}

func fjDec(o *Out, text string) {
	op := lst("filterjson", "dec", hx(text))
	if !utf8.ValidString(text) || !fjNumbersSafe(text) {
		o.stat("dec.skip")
		o.emit(op, "skip", "na")
		return
	}
	obs, pv := "err", "ok"
	panicked, msg := guard(func() {
		f := &jsonapi.Filter{}
		if err := json.Unmarshal([]byte(text), f); err != nil {
			o.stat("dec.rejected")
			return
		}
		out, err := json.Marshal(f)
		if err != nil {
			obs, pv = "marshal-error", "FAIL[C08]:json.Marshal rejects a filter json.Unmarshal returned: "+err.Error()
			return
		}
		o.stat("dec.accepted")
		obs = "ok " + hx(string(out)) + " " + fjShape(f)
		g := &jsonapi.Filter{}
		if err := json.Unmarshal(out, g); err != nil {
			pv = "FAIL[C08]:the marshaled filter is rejected by Filter.UnmarshalJSON: " + err.Error()
			return
		}
		out2, err := json.Marshal(g)
		if err != nil || !bytes.Equal(out, out2) {
			pv = "FAIL[C08]:the canonical filter text is not a fixed point of decode-then-marshal: " + string(out) + " becomes " + string(out2)
		} else if fjShape(g) != fjShape(f) {
			pv = "FAIL[C08]:decoding the canonical filter text gives other dynamic types under Val"
		}
	})
	if panicked {
		obs, pv = "panic", "FAIL[C08]:decoding or marshaling a filter panics: "+msg
	}
	o.emit(op, obs, pv)
}

func suiteFilterJSON(r *Rng, n int, thorough bool, o *Out) {
	// the shapes named in the model's header, always
	for _, t := range []string{`null`, `[]`, `{}`, `1`, `"x"`, `true`, ``, `{"f":1}`, `{"f":null}`, `{"o":"and"}`, `{"o":"and","v":null}`,
		`{"o":"and","v":[null]}`, `{"o":"=","v":{"b":1,"a":[true,null,"x"]}}`, `{"F":"a","f":"b"}`, `{"f":"b","F":"a"}`, `{"f":"a","f":null}`,
		`{"o":"and","v":[],"v":null}`, `{"o":"and","v":null,"v":[{}]}`, `{"o":"=","v":{"a":1,"a":2,"A":3}}`, `{"f":"<>&","v":" "}`,
		`{"o":"or","f":"cleared","c":"kept","v":[{"o":"and","v":[null,{"f":"a","o":"=","v":-0}]}]}`, `{"o":"and","v":[1]}`, `{"o":"and","v":{}}`,
		`{"x":1,"unknown":{"f":2},"f":"a"}`, `{"v":1e999}`, `{"o":"="}`, `{"o":"and","v":[{"o":"or"}]}`} {
		fjDec(o, t)
	}
	for c := 0; c < n; c++ {
		switch k := r.IntN(20); {
		case k < 12:
			o.stat("text.generated")
			fjDec(o, fjFilter(r, 3, o))
		case k < 15:
			o.stat("text.mangled")
			fjDec(o, fjMangle(r, fjFilter(r, 2, o)))
		case k == 15:
			o.stat("text.not-an-object")
			fjDec(o, fjAny(r, 1, o))
		case k < 18:
			l := fjStr(r)
			if r.chance(1, 3) {
				l += fjStr(r)
			}
			if r.chance(1, 8) {
				l += r.pick([]string{"\xff", "\xe2\x80", "\xc0\xaf", "\xed\xa0\x80", "\xf4\x90\x80\x80", "\x80", "\xe2\x80\xa8\xe2", "\xf0\x9f\x98", "\xe0\x9f\xbf", "\xc3"}) + r.pick([]string{"", "a", "\xa9", "\u2029"})
			}
			op := lst("filterjson", "label", hx(l))
			valid := utf8.ValidString(l)
			if valid {
				o.stat("label.utf8")
			} else {
				o.stat("label.not-utf8") // Go writes U+FFFD: the label is not recovered, by design
			}
			raw, err := json.Marshal(l)
			if err != nil || len(raw) < 2 {
				o.emit(op, "marshal-error", "FAIL[C08]:json.Marshal rejects a label")
				continue
			}
			body := string(raw[1 : len(raw)-1])
			var back string
			obs, pv := hx(body)+" none", "ok"
			if err := json.Unmarshal([]byte("\""+body+"\""), &back); err != nil {
				pv = "FAIL[C08]:the written label does not parse back: " + err.Error()
			} else {
				obs = hx(body) + " ok " + hx(back)
				if !valid {
					pv = "na"
				} else if back != l {
					pv = "FAIL[C08]:the written label parses back as another string"
				}
			}
			o.emit(op, obs, pv)
		default:
			// what a client may put after `filter=`: a label spelled with escapes, or broken
			lit := fjStrLit(r, fjStr(r))
			v := lit[1 : len(lit)-1]
			if r.chance(1, 4) {
				v = fjMangle(r, v)
			}
			op := lst("filterjson", "labeldec", hx(v))
			if !utf8.ValidString(v) {
				o.emit(op, "skip", "na")
				continue
			}
			var back string
			if err := json.Unmarshal([]byte("\""+v+"\""), &back); err != nil {
				o.stat("labeldec.rejected")
				o.emit(op, "none", "ok")
			} else {
				o.stat("labeldec.accepted")
				o.emit(op, "ok "+hx(back), "ok")
			}
		}
	}
}

func init() {
	suites["filterjson"] = suiteFilterJSON
}
