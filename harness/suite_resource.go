package main

import (
	"fmt"
	"reflect"
	"time"

	"github.com/mfcochauxlaberge/jsonapi"
)

// canonical reading of a value (C17): typed and untyped nil pointer -> nil,
// nil and empty byte string / ID list -> empty.
func canonSx(v any) string {
	switch x := v.(type) {
	case []byte:
		if x == nil {
			return sxVal([]byte{})
		}
	case []string:
		if x == nil {
			return sxVal([]string{})
		}
	case *[]byte:
		if x != nil && *x == nil {
			e := []byte{}
			return sxVal(&e)
		}
	}
	if v != nil {
		rv := reflect.ValueOf(v)
		if rv.Kind() == reflect.Ptr && rv.IsNil() {
			return "nil"
		}
	}
	return sxVal(v)
}

// zeroOf: the zero value of the attribute's kind, from the harness's own table (oracle_indep.go),
// not from the library's GetZeroValue.
func zeroOf(a jsonapi.Attr) any { return zeroIndep(a.Type, a.Nullable) }

// ownRes: an application's own Resource implementation whose dynamic type cannot be compared
// with == (a map with value receivers); every method is handed to the resource it carries.
type ownRes map[string]jsonapi.Resource

func (m ownRes) in() jsonapi.Resource           { return m["r"] }
func (m ownRes) Attrs() map[string]jsonapi.Attr { return m.in().Attrs() }
func (m ownRes) Rels() map[string]jsonapi.Rel   { return m.in().Rels() }
func (m ownRes) GetType() jsonapi.Type          { return m.in().GetType() }
func (m ownRes) Get(k string) any               { return m.in().Get(k) }
func (m ownRes) Set(k string, v any)            { m.in().Set(k, v) }

func suiteResource(r *Rng, n int, thorough bool, o *Out) {
	for c := 0; c < n; c++ {
		typ := genTyp(r, genTypeOpts{name: "t", maxAttrs: 5, maxRels: 3})
		soft := newSoftVia(r, typ, o)
		wr := newWrapped(typ)
		expect := map[string]string{}
		for k, a := range typ.Attrs {
			expect[k] = canonSx(zeroOf(a))
		}
		for k, rel := range typ.Rels {
			if rel.ToOne {
				expect[k] = sxVal("")
			} else {
				expect[k] = sxVal([]string{})
			}
		}
		expectID := ""
		verdict := func() string {
			for _, k := range fieldsIndep(typ) {
				var gs, gw string
				ps, _ := guard(func() { gs = canonSx(soft.Get(k)) })
				pw, _ := guard(func() { gw = canonSx(wr.Get(k)) })
				if ps || pw {
					return "FAIL:Get panicked on " + k
				}
				if gs != expect[k] {
					return fmt.Sprintf("FAIL:soft resource reads %s for %s, expected %s", gs, k, expect[k])
				}
				if gw != expect[k] {
					return fmt.Sprintf("FAIL:wrapped struct reads %s for %s, expected %s", gw, k, expect[k])
				}
			}
			if soft.Get("id") != expectID || wr.Get("id") != expectID {
				return "FAIL:id not read back"
			}
			if soft.GetType().Name != "t" || wr.GetType().Name != "t" {
				return "FAIL:type name"
			}
			st, wt := soft.GetType(), wr.GetType()
			if fmt.Sprint(st.Fields()) != fmt.Sprint(fieldsIndep(typ)) || fmt.Sprint(wt.Fields()) != fmt.Sprint(fieldsIndep(typ)) {
				return "FAIL:fresh resource does not have the type's fields"
			}
			return "ok"
		}
		obs := func() string { return sxResView(soft) + " " + sxResView(wr) }
		o.emit(lst("res", "new", sxType(typ)), obs(), verdict())
		fields := fieldsIndep(typ)
		lastKey := ""
		var keptS, keptW jsonapi.Resource
		keptSnapS, keptSnapW := "", ""
		for h := r.IntN(8); h > 0 && len(fields) > 0; h-- {
			var k string
			var v any
			if r.chance(1, 6) {
				k = "id"
				v = idPool[r.IntN(len(idPool))]
				expectID = v.(string)
				o.stat("set.id")
			} else {
				k = fields[r.IntN(len(fields))]
				if lastKey != "" && r.chance(1, 3) {
					k = lastKey // the same field again: what is read is the last value written
					o.stat("set.same-field-again")
				}
				lastKey = k
				if a, ok := typ.Attrs[k]; ok {
					v = genVal(r, a.Type, a.Nullable)
					if a.Nullable && r.chance(1, 5) {
						v = nil // untyped nil
						o.stat("set.untyped-nil")
					}
					o.stat("set.attr")
				} else if typ.Rels[k].ToOne {
					v = idPool[r.IntN(len(idPool))]
					o.stat("set.toone")
				} else {
					ids := []string{}
					for i := r.IntN(4); i > 0; i-- {
						ids = append(ids, idPool[r.IntN(len(idPool))])
					}
					if r.chance(1, 5) {
						ids = nil
					}
					v = ids
					o.stat("set.tomany")
				}
				expect[k] = canonSx(v)
			}
			op := lst("res", "set", hx(k), sxVal(v))
			ps, _ := guard(func() { soft.Set(k, cloneVal(v)) })
			pw, _ := guard(func() { wr.Set(k, cloneVal(v)) })
			if r.chance(1, 6) {
				// a copy of each is taken and marshaled with all relationship data (which
				// sorts the COPY's to-many IDs in place): what the originals read is what
				// was last set on them
				rd := map[string][]string{"t": sortedKeys(typ.Rels)}
				guard(func() { _ = jsonapi.MarshalResource(soft.Copy(), "", fieldsIndep(typ), rd) })
				guard(func() { _ = jsonapi.MarshalResource(wr.Copy(), "", fieldsIndep(typ), rd) })
				// ... and the bytes read from a second copy are overwritten in place, and
				// replaced through the pointer where the attribute is a pointer
				scribble := func(cp jsonapi.Resource) {
					for _, an := range sortedKeys(typ.Attrs) {
						switch b := cp.Get(an).(type) {
						case []byte:
							for i := range b {
								b[i] ^= 0xff
							}
						case *[]byte:
							if b != nil {
								for i := range *b {
									(*b)[i] ^= 0xff
								}
								*b = append(*b, 'x')
							}
						}
					}
				}
				guard(func() { scribble(soft.Copy()) })
				guard(func() { scribble(wr.Copy()) })
				// ... and a copy of each is KEPT: whatever is set on the originals from now on,
				// the kept copies read what they read when they were taken
				if keptS == nil {
					guard(func() { keptS, keptW = soft.Copy(), wr.Copy() })
					if keptS != nil && keptW != nil {
						keptSnapS, keptSnapW = sxResView(keptS), sxResView(keptW)
					}
				}
				o.stat("set.then-copy-marshaled")
			}
			pv := verdict()
			if ps || pw {
				pv = "FAIL:Set panicked"
			}
			if pv == "ok" && keptS != nil && keptW != nil {
				if sxResView(keptS) != keptSnapS {
					pv = "FAIL:a Set on a soft resource changed what is read from a copy taken before it"
				} else if sxResView(keptW) != keptSnapW {
					pv = "FAIL:a Set on a wrapped struct changed what is read from a copy taken before it"
				}
			}
			o.emit(op, obs(), pv)
		}
	}
	// a soft resource whose type is edited while it holds values (AddAttr, AddRel,
	// RemoveField, SetType between Sets): every read agrees with a plain map from the
	// current type's fields to the value last set since the field (re)appeared, else zero
	for c := 0; c < n/3+1; c++ {
		typ := genTyp(r, genTypeOpts{name: "t", maxAttrs: 4, maxRels: 2})
		soft := newSoftVia(r, typ, o)
		cur := copyTypeIndep(typ) // the type the resource should now have (the oracle's own copy)
		fresh := 0
		expect := map[string]string{}
		zero := func(t jsonapi.Type, k string) string {
			if a, ok := t.Attrs[k]; ok {
				return canonSx(zeroOf(a))
			}
			if t.Rels[k].ToOne {
				return sxVal("")
			}
			return sxVal([]string{})
		}
		for _, k := range fieldsIndep(cur) {
			expect[k] = zero(cur, k)
		}
		verdict := func() string {
			st := soft.GetType()
			if st.Name != cur.Name {
				return "FAIL:type name is " + st.Name
			}
			if fmt.Sprint(st.Fields()) != fmt.Sprint(fieldsIndep(cur)) {
				return fmt.Sprintf("FAIL:fields are %v, expected %v", st.Fields(), fieldsIndep(cur))
			}
			for _, k := range fieldsIndep(cur) {
				var g string
				if p, _ := guard(func() { g = canonSx(soft.Get(k)) }); p {
					return "FAIL:Get panicked on " + k
				}
				if g != expect[k] {
					return fmt.Sprintf("FAIL:field %s reads %s, expected %s", k, g, expect[k])
				}
			}
			return "ok"
		}
		o.emit(lst("res", "new", sxType(typ)), sxResView(soft)+" "+sxResView(newWrapped(typ)), verdict())
		for h := 2 + r.IntN(8); h > 0; h-- {
			var op string
			fields := fieldsIndep(cur)
			panicked := false
			if r.chance(1, 6) {
				// a new resource of the same type is created from this one and has ITS type
				// edited: that is no business of this resource (checked by the next verdict)
				guard(func() {
					child := soft.New()
					if c, ok := child.(*jsonapi.SoftResource); ok {
						c.AddAttr(jsonapi.Attr{Name: "child-only", Type: jsonapi.AttrTypeInt})
						for _, f := range fields {
							c.RemoveField(f)
						}
						c.Set("child-only", 5)
					}
				})
				o.stat("softedit.child-edited")
			}
			switch k := r.IntN(10); {
			case k < 4 && len(fields) > 0: // Set
				f := fields[r.IntN(len(fields))]
				var v any
				if a, ok := cur.Attrs[f]; ok {
					v = genVal(r, a.Type, a.Nullable)
				} else if cur.Rels[f].ToOne {
					v = idPool[r.IntN(len(idPool))]
				} else {
					v = []string{idPool[r.IntN(len(idPool))]}
				}
				expect[f] = canonSx(v)
				op = lst("res", "soft", "set", hx(f), sxVal(v))
				panicked, _ = guard(func() { soft.Set(f, cloneVal(v)) })
				o.stat("softedit.set")
			case k < 6: // AddAttr: a new name, or one already taken (then nothing happens)
				a := jsonapi.Attr{Name: fieldNames[r.IntN(len(fieldNames))], Type: 1 + r.IntN(14), Nullable: r.bool()}
				if _, taken := expect[a.Name]; !taken {
					cur.Attrs[a.Name] = a
					expect[a.Name] = canonSx(zeroOf(a))
				}
				op = lst("res", "soft", "addattr", sxAttr(a))
				panicked, _ = guard(func() { soft.AddAttr(a) })
				o.stat("softedit.addattr")
			case k < 7:
				rel := jsonapi.Rel{FromType: "t", FromName: fieldNames[r.IntN(len(fieldNames))], ToOne: r.bool(), ToType: "t"}
				if _, taken := expect[rel.FromName]; !taken {
					cur.Rels[rel.FromName] = rel
					expect[rel.FromName] = zero(cur, rel.FromName)
				}
				op = lst("res", "soft", "addrel", sxRel(rel))
				panicked, _ = guard(func() { soft.AddRel(rel) })
				o.stat("softedit.addrel")
			case k < 8 && len(fields) > 0: // RemoveField (sometimes of a name that is no field)
				f := fields[r.IntN(len(fields))]
				if r.chance(1, 5) {
					f = "nosuchfield"
				}
				delete(cur.Attrs, f)
				delete(cur.Rels, f)
				delete(expect, f)
				op = lst("res", "soft", "removefield", hx(f))
				panicked, _ = guard(func() { soft.RemoveField(f) })
				o.stat("softedit.removefield")
			default: // SetType: some fields kept (same definition), some renamed, some dropped, some new
				nt := jsonapi.Type{Name: cur.Name, Attrs: map[string]jsonapi.Attr{}, Rels: map[string]jsonapi.Rel{}}
				if r.chance(1, 4) {
					nt.Name = "t2"
				}
				sameCount := r.bool() // as many fields as before, under other names
				ne := map[string]string{}
				for _, f := range fields {
					keep := r.bool()
					name := f
					if !keep {
						if !sameCount && r.bool() {
							continue
						}
						// a name this resource never had (a name it has, or had, would keep
						// its stored value: the library cannot know a field was "renamed")
						fresh++
						name = fmt.Sprintf("%s'%d", f, fresh)
					}
					if a, ok := cur.Attrs[f]; ok {
						a.Name = name
						nt.Attrs[name] = a
					} else {
						rel := cur.Rels[f]
						rel.FromName = name
						nt.Rels[name] = rel
					}
					if keep {
						ne[name] = expect[f]
					} else {
						ne[name] = zero(nt, name)
					}
				}
				cur, expect = nt, ne
				t := nt.Copy()
				op = lst("res", "soft", "settype", sxType(nt))
				panicked, _ = guard(func() { soft.SetType(&t) })
				if r.bool() {
					// nothing reads the resource between this edit and the next one
					o.emit(lst("res", "soft", "settype-unread", sxType(nt)), "-", "na")
					o.stat("softedit.settype-unread")
					continue
				}
				o.stat("softedit.settype")
			}
			if op == "" {
				continue
			}
			pv := verdict()
			if panicked {
				pv = "FAIL:the call panicked"
			}
			o.emit(op, sxResView(soft), pv)
		}
	}
	// equality helpers
	for c := 0; c < n/2+1; c++ {
		typ := genTyp(r, genTypeOpts{name: "t", maxAttrs: 4, maxRels: 2})
		vals := genFieldVals(r, typ)
		for k, v := range vals { // no zone pointers: reflect.DeepEqual compares *time.Location
			switch x := v.(type) {
			case time.Time:
				vals[k] = x.UTC()
			case *time.Time:
				if x != nil {
					u := x.UTC()
					vals[k] = &u
				}
			}
		}
		mk := func(t jsonapi.Type, id string, vs map[string]any) jsonapi.Resource {
			var res jsonapi.Resource
			if r.bool() {
				res = newSoft(t)
			} else {
				res = newWrapped(t)
			}
			fill(res, id, vs)
			return res
		}
		a := mk(typ, "1", vals)
		typ2 := copyTypeIndep(typ)
		vals2 := map[string]any{}
		for k, v := range vals {
			vals2[k] = cloneVal(v)
		}
		id2 := "1"
		differ := "same"
		fields := fieldsIndep(typ)
		switch r.IntN(10) {
		case 8, 9: // null against a pointer to the zero value of a nullable attribute: different values
			for _, k := range sortedKeys(typ.Attrs) {
				at := typ.Attrs[k]
				if !at.Nullable {
					continue
				}
				a.Set(k, reflect.Zero(goTypeOf(at.Type, true)).Interface())
				pz := reflect.New(goTypeOf(at.Type, false))
				if at.Type == jsonapi.AttrTypeBytes && r.bool() {
					pz.Elem().Set(reflect.ValueOf([]byte{}))
				}
				vals2[k] = pz.Interface()
				differ = "value"
				o.stat("equal.null-vs-zero")
				break
			}
		case 7: // nil against empty byte strings: the same value
			for k, at := range typ.Attrs {
				if at.Type == jsonapi.AttrTypeBytes && !at.Nullable {
					a.Set(k, []byte{})
					vals2[k] = []byte(nil)
					o.stat("equal.nil-vs-empty-bytes")
				}
			}
		case 0:
			typ2.Name = "u"
			differ = "typename"
		case 1:
			if len(fields) > 0 {
				k := fields[r.IntN(len(fields))]
				old := canonSx(vals2[k])
				if at, ok := typ.Attrs[k]; ok {
					vals2[k] = genVal(r, at.Type, at.Nullable)
					if tv, ok := vals2[k].(time.Time); ok {
						vals2[k] = tv.UTC()
					}
					if tv, ok := vals2[k].(*time.Time); ok && tv != nil {
						u := tv.UTC()
						vals2[k] = &u
					}
				} else if typ.Rels[k].ToOne {
					vals2[k] = vals2[k].(string) + "x"
				} else {
					vals2[k] = append(vals2[k].([]string), "zz")
				}
				if canonSx(vals2[k]) != old {
					differ = "value"
				}
			}
		case 2:
			id2 = "2"
			differ = "id"
		case 3: // rename one attribute
			for _, k := range sortedKeys(typ.Attrs) {
				at := typ2.Attrs[k]
				delete(typ2.Attrs, k)
				at.Name = k + "q"
				typ2.Attrs[at.Name] = at
				vals2[at.Name] = vals2[k]
				delete(vals2, k)
				differ = "attrname"
				break
			}
		case 5: // the same IDs of a to-many relationship in another order: different values
			for _, k := range sortedKeys(typ.Rels) {
				if typ.Rels[k].ToOne {
					continue
				}
				ids := [][]string{{"t2", "t10", "t1"}, {"a", "b"}, {"b", "a", "c", "a"}}[r.IntN(3)]
				a.Set(k, append([]string{}, ids...))
				rev := make([]string, len(ids))
				for i := range ids {
					rev[len(ids)-1-i] = ids[i]
				}
				if r.bool() { // rotated instead of reversed
					rev = append(append([]string{}, ids[1:]...), ids[0])
				}
				vals2[k] = rev
				differ = "value"
				o.stat("equal.tomany-order")
				break
			}
		case 4: // rename one relationship
			for _, k := range sortedKeys(typ.Rels) {
				rel := typ2.Rels[k]
				delete(typ2.Rels, k)
				rel.FromName = k + "q"
				typ2.Rels[rel.FromName] = rel
				vals2[rel.FromName] = vals2[k]
				delete(vals2, k)
				differ = "relname"
				break
			}
		}
		b := mk(typ2, id2, vals2)
		if r.chance(1, 8) {
			// the helpers take any Resource, also an application's own implementation
			if _, soft := a.(*jsonapi.SoftResource); soft {
				a = ownRes{"r": a}
				if _, softB := b.(*jsonapi.SoftResource); softB && r.bool() {
					b = ownRes{"r": b}
				}
				o.stat("equal.own-implementation")
			}
		}
		o.stat("equal." + differ)
		var eab, eba, eaa, sab bool
		p, _ := guard(func() {
			eab = jsonapi.Equal(a, b)
			eba = jsonapi.Equal(b, a)
			eaa = jsonapi.Equal(a, a)
			sab = jsonapi.EqualStrict(a, b)
		})
		pv := "ok"
		switch {
		case p:
			pv = "FAIL:Equal panicked"
		case !eaa:
			pv = "FAIL:Equal is not reflexive"
		case eab != eba:
			pv = "FAIL:Equal is not symmetric"
		case differ != "same" && differ != "id" && eab:
			pv = "FAIL:Equal holds between resources that differ in " + differ
		case differ == "id" && sab:
			pv = "FAIL:EqualStrict holds between resources with different IDs"
		case sab && !eab:
			pv = "FAIL:EqualStrict holds but Equal does not"
		}
		obs := "panic"
		if !p {
			obs = b01(eab) + " " + b01(sab)
		}
		o.emit(lst("res", "equal", lst("tags", differ), sxResView(a), sxResView(b)), obs, pv)
	}
}

func init() { suites["resource"] = suiteResource }
