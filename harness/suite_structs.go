package main

import (
	"fmt"
	"reflect"
	"strings"

	"github.com/mfcochauxlaberge/jsonapi"
)

type namedStr string
type namedInt int

// field type grammar: the 28 attribute types, []string, and unsupported ones
type fieldTy struct {
	t  reflect.Type
	sx string
}

var otherTys = []fieldTy{
	{reflect.TypeOf(float64(0)), lst("o", "1", "0")},
	{reflect.TypeOf(map[string]int{}), lst("o", "2", "0")},
	{reflect.TypeOf(struct{}{}), lst("o", "3", "0")},
	{reflect.TypeOf(namedStr("")), lst("o", "4", "1")},
	{reflect.TypeOf(namedInt(0)), lst("o", "5", "0")},
	{reflect.TypeOf([]int{}), lst("o", "6", "0")},
	// interface, pointer-to-struct and func fields: their zero value is a nil that reflect
	// cannot be asked much about
	{reflect.TypeOf((*error)(nil)).Elem(), lst("o", "7", "0")},
	{reflect.TypeOf((*any)(nil)).Elem(), lst("o", "8", "0")},
	{reflect.TypeOf((*struct{ X int })(nil)), lst("o", "9", "0")},
	{reflect.TypeOf((func())(nil)), lst("o", "10", "0")},
}

func genFieldTy(r *Rng) fieldTy {
	switch r.IntN(10) {
	case 0:
		return otherTys[r.IntN(len(otherTys))]
	case 1, 2:
		return fieldTy{reflect.TypeOf([]string{}), "strs"}
	case 3, 4:
		return fieldTy{reflect.TypeOf(""), lst("a", "1", "0")}
	default:
		k := 1 + r.IntN(14)
		n := r.bool()
		return fieldTy{goTypeOf(k, n), lst("a", itoa(k), b01(n))}
	}
}

var apiTags = []string{"", "attr", "attr", "attr", "rel", "rel,", "rel,t", "rel,t", "rel,t,inv", "rel,a,b,c", "foo", "attr,x", "rel,,", "relx", "relations,x", "attrs", "Attr"}
var jsonTags = []string{"", "id", "a", "b", "a", "c", "d", "n,omitempty", "a,string"}

type structShape struct {
	fields []reflect.StructField
	sx     string
}

func mkTag(json, api string, hasJSON, hasAPI bool) reflect.StructTag {
	var parts []string
	if hasJSON {
		parts = append(parts, fmt.Sprintf(`json:"%s"`, json))
	}
	if hasAPI {
		parts = append(parts, fmt.Sprintf(`api:"%s"`, api))
	}
	return reflect.StructTag(strings.Join(parts, " "))
}

func genShape(r *Rng, o *Out) structShape {
	var sh structShape
	var sxs []string
	add := func(name string, ft fieldTy, json, api string) {
		sh.fields = append(sh.fields, reflect.StructField{Name: name, Type: ft.t, Tag: mkTag(json, api, json != "", api != "")})
		sxs = append(sxs, lst(hx(name), ft.sx, hx(json), hx(api)))
	}
	nf := r.IntN(5)
	idPos := r.IntN(nf + 1)
	if r.chance(1, 12) {
		idPos = -1
		o.stat("id.absent")
	}
	// mostly well-formed shapes, a fifth adversarial
	adversarial := r.chance(1, 3)
	for i := 0; i <= nf; i++ {
		if i == idPos {
			ft := fieldTy{reflect.TypeOf(""), lst("a", "1", "0")}
			api := []string{"t", "t", "t", "releases", "relx", "attrs", "rel-ations", "t,v2"}[r.IntN(8)] // legal names near the tag keywords; a name with a comma
			json := "id"
			if adversarial {
				switch r.IntN(6) {
				case 0:
					ft = fieldTy{reflect.TypeOf(int(0)), lst("a", "2", "0")}
					o.stat("id.int")
				case 1:
					ft = otherTys[r.IntN(len(otherTys))]
					o.stat("id.other")
				case 2:
					ft = fieldTy{reflect.TypeOf((*string)(nil)), lst("a", "1", "1")}
					o.stat("id.ptr")
				}
				switch r.IntN(5) {
				case 0:
					api = ""
					o.stat("id.noapi")
				case 1:
					api = []string{"attr", "rel,x", "rel"}[r.IntN(3)]
					o.stat("id.api-attr-or-rel")
				}
				switch r.IntN(5) {
				case 0:
					json = ""
					o.stat("id.nojson")
				case 1:
					json = []string{"other", "a"}[r.IntN(2)]
					o.stat("id.json-other")
				}
			}
			if r.chance(1, 6) {
				// the ID field promoted from an embedded struct: reflect's FieldByName("ID")
				// finds it (type, api tag), the loops over the struct's own fields (json-name
				// uniqueness, attributes, relationships, getField/setField) never see it: they
				// see an untagged struct field. In the model's terms that is an untagged field
				// of another type plus an ID field whose json tag is empty (an ID field's json
				// tag is only ever read by those loops; an empty one takes no part in them).
				base := reflect.StructOf([]reflect.StructField{{Name: "ID", Type: ft.t, Tag: mkTag(json, api, json != "", api != "")}})
				sh.fields = append(sh.fields, reflect.StructField{Name: "Base", Type: base, Anonymous: true})
				sxs = append(sxs, lst(hx("Base"), lst("o", "3", "0"), hx(""), hx("")))
				sxs = append(sxs, lst(hx("ID"), ft.sx, hx(""), hx(api)))
				o.stat("id.embedded")
				continue
			}
			add("ID", ft, json, api)
			continue
		}
		if i == nf {
			continue
		}
		ft := genFieldTy(r)
		var api, json string
		if adversarial {
			api = apiTags[r.IntN(len(apiTags))]
			json = jsonTags[r.IntN(len(jsonTags))]
		} else {
			json = []string{"a", "b", "c", "d", "e"}[i]
			if ft.sx == "strs" {
				api = []string{"rel,t", "rel,t,inv"}[r.IntN(2)]
			} else if strings.HasPrefix(ft.sx, "(a 1 0)") && r.bool() {
				api = "rel,t"
			} else if strings.HasPrefix(ft.sx, "(a") {
				api = "attr"
			} else {
				api = ""
			}
			if r.chance(1, 10) {
				// a relationship declared on a field of a defined string type (type Ref string):
				// neither string nor []string, so Check has to refuse the struct
				ft = otherTys[3]
				api = "rel,t"
				o.stat("shape.rel-of-named-string")
			}
			if r.chance(1, 6) {
				// a field the library must not see (no api tag) whose json name is that of
				// a neighbour the library does see: every lookup by name has to skip it
				api = ""
				json = []string{"a", "b", "c", "d", "e"}[(i+1+r.IntN(2)*3)%5]
				o.stat("shape.untagged-json-twin")
			}
		}
		add(fmt.Sprintf("F%d", i), ft, json, api)
	}
	if adversarial {
		o.stat("shape.adversarial")
	} else {
		o.stat("shape.plain")
	}
	sh.sx = lst(sxs...)
	return sh
}

// typed value for a struct field type (for Set)
func valForType(r *Rng, t reflect.Type) any {
	for k, kt := range kindGoType {
		if t == kt {
			return genVal(r, k, false)
		}
		if t == reflect.PtrTo(kt) {
			return genVal(r, k, true)
		}
	}
	if t == reflect.TypeOf([]string{}) {
		return []string{"x", "y"}
	}
	return reflect.Zero(t).Interface()
}

func suiteStructs(r *Rng, n int, thorough bool, o *Out) {
	for c := 0; c < n; c++ {
		sh := genShape(r, o)
		st := reflect.StructOf(sh.fields)
		byPtr := r.bool()
		mk := func() any {
			p := reflect.New(st)
			if byPtr {
				return p.Interface()
			}
			return p.Elem().Interface()
		}
		// Check (always by value: Check(&x) is "not a struct")
		var cerr error
		pc, _ := guard(func() { cerr = jsonapi.Check(reflect.New(st).Elem().Interface()) })
		accepted := !pc && cerr == nil
		if accepted {
			o.stat("check.accepted")
		} else {
			o.stat("check.rejected")
		}
		obsC := b01(accepted)
		if pc {
			obsC = "panic"
		}
		o.emit(lst("struct", "check", sh.sx), obsC, map[bool]string{true: "FAIL:Check panicked", false: "ok"}[pc])

		// BuildType
		var typ jsonapi.Type
		var berr error
		pb, _ := guard(func() { typ, berr = jsonapi.BuildType(mk()) })
		obsB := "panic"
		if !pb {
			if berr != nil {
				obsB = "err"
			} else {
				obsB = "ok " + sxType(typ)
			}
		}
		pvB := "ok"
		switch {
		case accepted && (pb || berr != nil):
			pvB = "FAIL:Check accepts but BuildType fails"
		case !accepted && (pb || berr == nil):
			pvB = "FAIL:Check rejects but BuildType does not return an error"
		case accepted:
			if m := declaredTypeMismatch(st, typ); m != "" {
				pvB = "FAIL:built type: " + m
			}
		}
		if accepted && pvB == "ok" && r.chance(1, 3) {
			// the type of a struct is what its tags declare every time it is built, whatever
			// the caller did to an earlier result (edit it: one more attribute, one field less)
			o.stat("build.again-after-edit")
			first := copyTypeIndep(typ) // (kept by the harness's own copy)
			if typ.Attrs != nil {
				typ.Attrs["added-by-the-caller"] = jsonapi.Attr{Name: "added-by-the-caller", Type: jsonapi.AttrTypeInt}
			}
			for k := range typ.Rels {
				delete(typ.Rels, k)
				break
			}
			for k := range typ.Attrs {
				if k != "added-by-the-caller" {
					delete(typ.Attrs, k)
					break
				}
			}
			var typ2 jsonapi.Type
			var err2 error
			if p2, _ := guard(func() { typ2, err2 = jsonapi.BuildType(mk()) }); p2 || err2 != nil {
				pvB = "FAIL:building the type a second time fails"
			} else if m := declaredTypeMismatch(st, typ2); m != "" {
				pvB = "FAIL:type built a second time (after the first result was edited): " + m
			}
			typ = first
			typ.NewFunc = typ2.NewFunc
		}
		o.emit(lst("struct", "build", sh.sx), obsB, pvB)

		// Wrap
		var w *jsonapi.Wrapper
		pw, _ := guard(func() { w = jsonapi.Wrap(mk()) })
		obsW := "panic"
		if !pw {
			obsW = "ok " + sxType(w.GetType())
		}
		pvW := "ok"
		switch {
		case accepted && pw:
			pvW = "FAIL:Check accepts but Wrap panics"
		case !accepted && !pw:
			pvW = "FAIL:Check rejects but Wrap accepts"
		case accepted && !pw && !pb && berr == nil && sxType(w.GetType()) != sxType(typ):
			pvW = "FAIL:wrapper and built type disagree"
		case accepted && !pw:
			wt := w.GetType()
			if m := declaredTypeMismatch(st, wt); m != "" {
				pvW = "FAIL:wrapper's type: " + m
			}
		}
		if accepted && !pw && pvW == "ok" && r.chance(1, 3) {
			// what a wrapper says about its struct is what the tags declare, whatever a caller
			// did to the Type an earlier wrapper of that struct type returned
			o.stat("wrap.again-after-edit")
			wt := w.GetType()
			if wt.Attrs != nil {
				wt.Attrs["added-by-the-caller"] = jsonapi.Attr{Name: "added-by-the-caller", Type: jsonapi.AttrTypeBool}
			}
			for k := range wt.Rels {
				delete(wt.Rels, k)
				break
			}
			for k := range w.Attrs() {
				delete(w.Attrs(), k)
				break
			}
			var w2 *jsonapi.Wrapper
			if p2, _ := guard(func() { w2 = jsonapi.Wrap(mk()) }); p2 {
				pvW = "FAIL:wrapping a second value of the struct type panics"
			} else if m := declaredTypeMismatch(st, w2.GetType()); m != "" {
				pvW = "FAIL:second wrapper's type (after the first one's was edited): " + m
			} else {
				w = w2
			}
		}
		o.emit(lst("struct", "wrap", sh.sx), obsW, pvW)
		if pw {
			continue
		}

		// use: get/set every declared field, id, copy, new, marshal
		var steps []string
		var ops []string
		fail := ""
		readback := ""
		step := func(name string, f func() string) {
			if fail != "" {
				return
			}
			var out string
			p, msg := guard(func() { out = f() })
			if p {
				fail = name + ": " + msg
				steps = append(steps, "panic")
				return
			}
			steps = append(steps, out)
		}
		wt := w.GetType()
		for _, k := range sortedKeys(wt.Attrs) {
			k := k
			var ft reflect.Type
			for _, f := range sh.fields {
				if f.Tag.Get("json") == k && f.Tag.Get("api") == "attr" {
					ft = f.Type
					break
				}
			}
			v := valForType(r, ft)
			ops = append(ops, lst("get", hx(k)), lst("set", hx(k), sxVal(v)), lst("get", hx(k)))
			step("Get "+k, func() string { return sxVal(w.Get(k)) })
			step("Set "+k, func() string { w.Set(k, v); return "ok" })
			step("Get "+k, func() string {
				got := w.Get(k)
				want := v
				if rv := reflect.ValueOf(v); rv.Kind() == reflect.Ptr && rv.IsNil() {
					want = nil
				}
				if !reflect.DeepEqual(got, want) && readback == "" {
					readback = fmt.Sprintf("Get %s after Set returns %s, not %s", k, sxVal(got), sxVal(want))
				}
				return sxVal(got)
			})
		}
		for _, k := range sortedKeys(wt.Rels) {
			k := k
			var v any = "r1"
			if !wt.Rels[k].ToOne {
				v = []string{"r2", "r1"}
			}
			ops = append(ops, lst("get", hx(k)), lst("set", hx(k), sxVal(v)), lst("get", hx(k)))
			step("Get "+k, func() string { return sxVal(w.Get(k)) })
			step("Set "+k, func() string { w.Set(k, v); return "ok" })
			step("Get "+k, func() string { return sxVal(w.Get(k)) })
		}
		ops = append(ops, lst("set", hx("id"), sxVal("i1")), lst("get", hx("id")), "copy", "new")
		step("Set id", func() string { w.Set("id", "i1"); return "ok" })
		step("Get id", func() string {
			if got := w.Get("id"); got != "i1" && readback == "" {
				readback = "Get id after Set id returns " + sxVal(got)
			}
			return sxVal(w.Get("id"))
		})
		step("Copy", func() string { return sxResView(w.Copy()) })
		step("New", func() string { return sxResView(w.New()) })
		// marshal is run for the verdict only (modelled in the marshal suites)
		if fail == "" {
			p, msg := guard(func() {
				_ = jsonapi.MarshalResource(w, "/", fieldsIndep(wt), map[string][]string{wt.Name: sortedKeys(wt.Rels)})
			})
			if p {
				fail = "MarshalResource: " + msg
			}
		}
		pvU := "ok"
		if fail != "" {
			pvU = "FAIL:Check accepts but " + fail
		} else if readback != "" {
			pvU = "FAIL:" + readback
		}
		o.emit(lst("struct", "use", sh.sx, lst(ops...)), lst(steps...), pvU)
	}
}

// declaredTypeMismatch: what the tags and Go field types of struct type st declare, read
// with reflect and the harness's own kind table (not the library's), against a Type the
// library produced for it. "" when they agree.
func declaredTypeMismatch(st reflect.Type, got jsonapi.Type) string {
	idf, ok := st.FieldByName("ID")
	if !ok {
		return "no ID field"
	}
	name := idf.Tag.Get("api")
	if got.Name != name {
		return fmt.Sprintf("name %q, the ID tag says %q", got.Name, name)
	}
	attrs := map[string]jsonapi.Attr{}
	rels := map[string]jsonapi.Rel{}
	for i := 0; i < st.NumField(); i++ {
		f := st.Field(i)
		api, js := f.Tag.Get("api"), f.Tag.Get("json")
		switch {
		case f.Name == "ID":
		case api == "attr":
			kind, nullable := 0, false
			for k, kt := range kindGoType {
				if f.Type == kt {
					kind = k
				}
				if f.Type == reflect.PtrTo(kt) {
					kind, nullable = k, true
				}
			}
			attrs[js] = jsonapi.Attr{Name: js, Type: kind, Nullable: nullable}
		case api == "rel" || strings.HasPrefix(api, "rel,"):
			parts := strings.Split(api, ",")
			rel := jsonapi.Rel{FromType: name, FromName: js, ToOne: f.Type != reflect.TypeOf([]string{})}
			if len(parts) > 1 {
				rel.ToType = parts[1]
			}
			if len(parts) > 2 {
				rel.ToName = parts[2]
			}
			rels[js] = rel
		}
	}
	if len(got.Attrs) != len(attrs) {
		return fmt.Sprintf("%d attributes, %d declared", len(got.Attrs), len(attrs))
	}
	for k, a := range attrs {
		if got.Attrs[k] != a {
			return fmt.Sprintf("attribute %q is %+v, declared %+v", k, got.Attrs[k], a)
		}
	}
	if len(got.Rels) != len(rels) {
		return fmt.Sprintf("%d relationships, %d declared", len(got.Rels), len(rels))
	}
	for k, rel := range rels {
		g := got.Rels[k]
		g.FromOne = false // not declared by a tag
		if g != rel {
			return fmt.Sprintf("relationship %q is %+v, declared %+v", k, g, rel)
		}
	}
	return ""
}

func init() {
	suites["structs"] = suiteStructs
}
