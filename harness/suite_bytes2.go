package main

import (
	"bytes"
	"encoding/json"
	"fmt"
	"regexp"
	"strconv"
	"strings"
	"unicode/utf8"

	"github.com/mfcochauxlaberge/jsonapi"
)

// The `bytes2` suite (C05, C13): the six unmarshaling entry points on payload BYTES, against
// the byte-level model (lean/Jsonapi/Spec/JsonFull.lean: full-grammar JSON reader;
// lean/Jsonapi/Model/Decode.lean: encoding/json's struct decoding of the library's skeletons;
// then the existing model of the entry point). Nothing but the bytes and the schema is handed
// over:
//
//	(bytes2 res|partial|col|doc|ident|idents <schema> x<payload>)
//
// Payloads are those of suite `bytes` written through a second stage that puts white space
// between any two tokens, re-spells string literals (keys included) with every escape form,
// writes member names in case variants (`Id`, `TYPE`, `attributeſ`, `linKs`: U+017F and U+212A
// fold to s and k), repeats members (`attributes` twice, `attributes` then null, `id` twice,
// `errors` arrays of different lengths one after the other), adds unknown members, puts bytes
// that are not UTF-8 and unpaired surrogate escapes into strings and keys, truncates, flips and
// randomises bytes, and nests arrays / objects to depths around encoding/json's limit of 10000.
//
// Verdicts are those of suite `bytes`: no panic, result XOR error, every returned resource
// conforms to the schema (C05); partial and full unmarshaling accept the same payloads and the
// partial resource has exactly the payload's fields (C13).
//
// Outside the model's domain, `skip` on both sides (dom = 0): a number that is not a canonical
// integer within ±2^53 under a `meta` / `source` member (float64 formatting is not modelled);
// a value of a time attribute that starts with a digit without being in the strict RFC 3339
// layout (Go's lenient fallback parser is not modelled). The generator stays inside the domain
// except for a few deliberate cases.

// ---------- domain flags (the same rules as lean/Jsonapi/Driver/Decode.lean) ----------

var b2SafeNum = regexp.MustCompile(`^-?(0|[1-9][0-9]*)$`)

func b2NumSafe(s string) bool {
	if !b2SafeNum.MatchString(s) {
		return false
	}
	d := strings.TrimPrefix(s, "-")
	return len(d) < 16 || (len(d) == 16 && d <= "9007199254740992")
}

func b2IsMetaKey(k string) bool {
	return strings.EqualFold(k, "meta") || strings.EqualFold(k, "source")
}

// b2MetaNumsOk: under every member whose key folds to meta or source all numbers are safe.
func b2MetaNumsOk(text []byte) bool {
	if !json.Valid(text) {
		return true
	}
	dec := json.NewDecoder(bytes.NewReader(text))
	dec.UseNumber()
	ok := true
	var walk func(in bool) bool
	walk = func(in bool) bool {
		tok, err := dec.Token()
		if err != nil {
			return false
		}
		switch t := tok.(type) {
		case json.Delim:
			if t == '{' {
				for dec.More() {
					kt, err := dec.Token()
					if err != nil {
						return false
					}
					k, _ := kt.(string)
					if !walk(in || b2IsMetaKey(k)) {
						return false
					}
				}
			} else {
				for dec.More() {
					if !walk(in) {
						return false
					}
				}
			}
			_, err := dec.Token() // closing delimiter
			return err == nil
		case json.Number:
			if in && !b2NumSafe(string(t)) {
				ok = false
			}
		}
		return true
	}
	walk(false)
	return ok
}

var b2TimeRe = regexp.MustCompile(`^(\d{4})-(\d{2})-(\d{2})T(\d{2}):(\d{2}):(\d{2})(\.\d{1,9})?(Z|[+-](\d{2}):(\d{2}))$`)

func b2StrictTime(body string) bool {
	m := b2TimeRe.FindStringSubmatch(body)
	if m == nil {
		return false
	}
	n := func(s string) int { v, _ := strconv.Atoi(s); return v }
	y, mo, d := n(m[1]), n(m[2]), n(m[3])
	days := 31
	switch mo {
	case 2:
		days = 28
		if y%4 == 0 && (y%100 != 0 || y%400 == 0) {
			days = 29
		}
	case 4, 6, 9, 11:
		days = 30
	}
	if mo < 1 || mo > 12 || d < 1 || d > days || n(m[4]) > 23 || n(m[5]) > 59 || n(m[6]) > 59 {
		return false
	}
	if m[8] != "Z" && (n(m[9]) > 23 || n(m[10]) > 59) {
		return false
	}
	return true
}

func b2TimeUncertain(raw []byte) bool {
	if len(raw) < 2 || raw[0] != '"' || raw[len(raw)-1] != '"' {
		return false
	}
	body := string(raw[1 : len(raw)-1])
	return !b2StrictTime(body) && len(body) > 0 && body[0] >= '0' && body[0] <= '9'
}

func b2ResUncertain(data []byte, s *jsonapi.Schema) bool {
	var sk jsonapi.ResourceSkeleton
	if json.Unmarshal(data, &sk) != nil || !hasTypeIndep(s, sk.Type) {
		return false
	}
	typ, _ := lookupTypeIndep(s, sk.Type)
	for k, v := range sk.Attributes {
		if a, ok := typ.Attrs[k]; ok && a.Type == jsonapi.AttrTypeTime && b2TimeUncertain(v) {
			return true
		}
	}
	return false
}

func b2ColUncertain(data []byte, s *jsonapi.Schema) bool {
	var raws []json.RawMessage
	if json.Unmarshal(data, &raws) != nil {
		return false
	}
	for _, r := range raws {
		if b2ResUncertain(r, s) {
			return true
		}
	}
	return false
}

func b2DocUncertain(data []byte, s *jsonapi.Schema) bool {
	var ps jsonapi.PayloadSkeleton
	if json.Unmarshal(data, &ps) != nil {
		return false
	}
	if len(ps.Data) > 0 {
		if ps.Data[0] == '{' && b2ResUncertain(ps.Data, s) {
			return true
		}
		if ps.Data[0] == '[' && b2ColUncertain(ps.Data, s) {
			return true
		}
	}
	for _, r := range ps.Included {
		if b2ResUncertain(r, s) {
			return true
		}
	}
	return false
}

// ---------- second-stage writers ----------

func b2Ws(r *Rng) string {
	switch r.IntN(6) {
	case 0:
		return " "
	case 1:
		return "\n\t"
	case 2:
		n := 1 + r.IntN(3)
		b := make([]byte, n)
		for i := range b {
			b[i] = " \t\r\n"[r.IntN(4)]
		}
		return string(b)
	}
	return ""
}

// b2Tokens: the text cut into string literals (complete, quotes included) and the runs
// between them; ok is false when a literal is not closed.
func b2Tokens(text string) (parts []string, isStr []bool) {
	i := 0
	for i < len(text) {
		if text[i] == '"' {
			j := i + 1
			for j < len(text) && text[j] != '"' {
				if text[j] == '\\' {
					j++
				}
				j++
			}
			if j >= len(text) {
				parts, isStr = append(parts, text[i:]), append(isStr, false)
				return
			}
			parts, isStr = append(parts, text[i:j+1]), append(isStr, true)
			i = j + 1
			continue
		}
		j := i
		for j < len(text) && text[j] != '"' {
			j++
		}
		parts, isStr = append(parts, text[i:j]), append(isStr, false)
		i = j
	}
	return
}

// b2InjectWs: white space before and after structural bytes outside string literals, and
// around the whole text.
func b2InjectWs(r *Rng, text string) string {
	parts, isStr := b2Tokens(text)
	var b strings.Builder
	b.WriteString(b2Ws(r))
	for i, p := range parts {
		if isStr[i] {
			b.WriteString(p)
			continue
		}
		for k := 0; k < len(p); k++ {
			c := p[k]
			if strings.IndexByte("{}[],:", c) >= 0 {
				b.WriteString(b2Ws(r))
				b.WriteByte(c)
				b.WriteString(b2Ws(r))
			} else {
				b.WriteByte(c)
			}
		}
	}
	b.WriteString(b2Ws(r))
	return b.String()
}

func b2U(r *Rng, c rune) string {
	f := `\u%04x`
	if r.bool() {
		f = `\u%04X`
	}
	if c >= 0x10000 {
		c -= 0x10000
		return fmt.Sprintf(f+f, 0xD800+(c>>10), 0xDC00+(c&0x3FF))
	}
	return fmt.Sprintf(f, c)
}

// b2StrLit writes a JSON string literal denoting s (any bytes: a byte that is not UTF-8 is
// written as it is), choosing between the character itself, the short escape and \u escapes.
func b2StrLit(r *Rng, s string) string {
	var b strings.Builder
	b.WriteByte('"')
	for i := 0; i < len(s); {
		c, n := utf8.DecodeRuneInString(s[i:])
		if c == utf8.RuneError && n == 1 {
			b.WriteByte(s[i])
			i++
			continue
		}
		i += n
		short := map[rune]string{'"': `\"`, '\\': `\\`, '/': `\/`, '\b': `\b`, '\f': `\f`, '\n': `\n`, '\r': `\r`, '\t': `\t`}[c]
		mustEsc := c < 0x20 || c == '"' || c == '\\'
		switch {
		case mustEsc && short != "" && r.chance(2, 3):
			b.WriteString(short)
		case mustEsc:
			b.WriteString(b2U(r, c))
		case r.chance(1, 4):
			b.WriteString(b2U(r, c))
		case short != "" && r.bool():
			b.WriteString(short)
		default:
			b.WriteRune(c)
		}
	}
	b.WriteByte('"')
	return b.String()
}

// b2Respell: every string literal of the text (keys included) is, with probability 1/2, decoded
// and written again with other escapes.
func b2Respell(r *Rng, text string) string {
	parts, isStr := b2Tokens(text)
	var b strings.Builder
	for i, p := range parts {
		var s string
		if isStr[i] && r.bool() && json.Unmarshal([]byte(p), &s) == nil {
			b.WriteString(b2StrLit(r, s))
		} else {
			b.WriteString(p)
		}
	}
	return b.String()
}

var b2Bad = []string{"\xff", "\xe2\x80", "\xed\xa0\x80", "\xc0\x80", "\xf4\x90\x80\x80", "\x80", `\ud800`, `\udc00`, `\udc00\ud800`, `\ud83dA`, `\ud83d😀`, `\uD83D`, "\xef\xbf\xbd", `�`, "\x7f"}

// b2Corrupt: bytes that are not UTF-8, or an unpaired surrogate escape, at the start or the end
// of one string literal.
func b2Corrupt(r *Rng, text string, o *Out) string {
	parts, isStr := b2Tokens(text)
	var idx []int
	for i := range parts {
		if isStr[i] {
			idx = append(idx, i)
		}
	}
	if len(idx) == 0 {
		return text
	}
	i := idx[r.IntN(len(idx))]
	bad := b2Bad[r.IntN(len(b2Bad))]
	p := parts[i]
	if r.bool() {
		parts[i] = `"` + bad + p[1:]
	} else {
		parts[i] = p[:len(p)-1] + bad + `"`
	}
	o.stat("b2.corrupt-string")
	return strings.Join(parts, "")
}

func b2CaseVariant(r *Rng, name string, o *Out) string {
	switch r.IntN(8) {
	case 0:
		o.stat("b2.key-upper")
		return strings.ToUpper(name)
	case 1:
		o.stat("b2.key-title")
		return strings.ToUpper(name[:1]) + name[1:]
	case 2:
		b := []byte(name)
		for i := range b {
			if r.bool() && b[i] >= 'a' && b[i] <= 'z' {
				b[i] -= 32
			}
		}
		o.stat("b2.key-mixed")
		return string(b)
	case 3:
		if i := strings.IndexAny(name, "sk"); i >= 0 {
			o.stat("b2.key-longs-kelvin")
			rep := "ſ"
			if name[i] == 'k' {
				rep = "K"
			}
			return name[:i] + rep + name[i+1:]
		}
	case 4:
		o.stat("b2.key-near-miss")
		return []string{name + "x", name + " ", " " + name, strings.Replace(name, "i", "ı", 1), strings.Replace(name, "e", "é", 1), name[:len(name)-1]}[r.IntN(6)]
	}
	return name
}

// b2Stage2: the text through the second stage.
func b2Stage2(r *Rng, text string, o *Out) string {
	if r.chance(1, 3) {
		text = b2Respell(r, text)
		o.stat("b2.respelled")
	}
	if r.chance(1, 10) {
		text = b2Corrupt(r, text, o)
	}
	if r.chance(1, 2) {
		text = b2InjectWs(r, text)
		o.stat("b2.white-space")
	}
	return text
}

// ---------- payloads ----------

func b2Member(r *Rng, name, val string, o *Out) string {
	if r.chance(1, 10) {
		name = b2CaseVariant(r, name, o)
	}
	return jstr(name) + ":" + val
}

func b2Obj(ms [][2]string) string {
	out := make([]string, len(ms))
	for i, m := range ms {
		out[i] = jstr(m[0]) + ":" + m[1]
	}
	return "{" + strings.Join(out, ",") + "}"
}

var b2Unknown = []string{`"links":{"self":"s"}`, `"links":5`, `"unknown":{"a":[1,2,{"b":null}]}`, `"jsonapi":{"version":"1.0"}`, `"":0`, `"x":[[],{},"",1.5e3]`, `"Attribute":1`}

// b2ResText: the resource payload of suite `bytes` with members renamed, repeated and added.
func b2ResText(r *Rng, p payloadParts, o *Out) string {
	var ms []string
	if p.hasID {
		switch r.IntN(12) {
		case 0:
			ms = append(ms, b2Member(r, "id", `"first"`, o), b2Member(r, "id", jstr(p.id), o))
			o.stat("b2.dup-id")
		case 1:
			ms = append(ms, b2Member(r, "id", jstr(p.id), o), b2Member(r, "id", "null", o))
			o.stat("b2.dup-id-null")
		default:
			ms = append(ms, b2Member(r, "id", jstr(p.id), o))
		}
	}
	if p.hasType {
		ms = append(ms, b2Member(r, "type", jstr(p.typ), o))
	}
	if len(p.attrs) > 0 {
		switch k := r.IntN(10); {
		case k == 0 && len(p.attrs) > 1:
			cut := 1 + r.IntN(len(p.attrs)-1)
			ms = append(ms, b2Member(r, "attributes", b2Obj(p.attrs[:cut]), o), b2Member(r, "attributes", b2Obj(p.attrs[cut:]), o))
			o.stat("b2.attributes-merged")
		case k == 1:
			ms = append(ms, b2Member(r, "attributes", `{"dropped":1}`, o), b2Member(r, "attributes", "null", o), b2Member(r, "attributes", b2Obj(p.attrs), o))
			o.stat("b2.attributes-null-between")
		case k == 2:
			ms = append(ms, b2Member(r, "attributes", b2Obj(p.attrs), o), b2Member(r, "attributes", "null", o))
			o.stat("b2.attributes-then-null")
		default:
			ms = append(ms, b2Member(r, "attributes", b2Obj(p.attrs), o))
		}
	}
	if len(p.rels) > 0 {
		switch k := r.IntN(10); {
		case k == 0 && len(p.rels) > 1:
			ms = append(ms, b2Member(r, "relationships", b2Obj(p.rels[:1]), o), b2Member(r, "relationships", b2Obj(p.rels[1:]), o))
			o.stat("b2.relationships-merged")
		case k == 1:
			// the same relationship twice inside one object: the second replaces the first
			dup := append([][2]string{{p.rels[0][0], `{"data":null,"meta":{"m":1}}`}}, p.rels...)
			ms = append(ms, b2Member(r, "relationships", b2Obj(dup), o))
			o.stat("b2.relationship-twice")
		case k == 2:
			dup := append(append([][2]string{}, p.rels...), [2]string{p.rels[0][0], []string{"null", "{}", `{"links":null}`, "5", `{"meta":[]}`, `{"links":1}`}[r.IntN(6)]})
			ms = append(ms, b2Member(r, "relationships", b2Obj(dup), o))
			o.stat("b2.relationship-replaced")
		default:
			ms = append(ms, b2Member(r, "relationships", b2Obj(p.rels), o))
		}
	}
	if p.metaText != "" {
		ms = append(ms, b2Member(r, "meta", p.metaText, o))
	} else if r.chance(1, 12) {
		ms = append(ms, b2Member(r, "meta", []string{"null", `{"a":{"b":1,"b":2},"a":"last"}`, `{"z":1,"y":[true,null,"s"],"z":-0}`, "5", "[]", `"m"`, `{"f":1.5}`, `{"big":12345678901234567890}`, `{"e":1e999}`}[r.IntN(9)], o))
		o.stat("b2.meta-variants")
	}
	if p.extra != "" {
		ms = append(ms, p.extra)
	}
	if r.chance(1, 6) {
		ms = append(ms, b2Unknown[r.IntN(len(b2Unknown))])
		o.stat("b2.unknown-member")
	}
	r.Shuffle(len(ms), func(i, j int) { ms[i], ms[j] = ms[j], ms[i] })
	return "{" + strings.Join(ms, ",") + "}"
}

var b2TimeLits = []string{`"2018-02-03T04:05:06Z"`, `"2018-02-03T04:05:06+00:00"`, `"2018-02-03T04:05:06.123456789-07:00"`, `"0001-01-01T00:00:00Z"`, `"9999-12-31T23:59:59.999999999Z"`,
	`"2018-02-03T04:05:06.5+23:59"`, `"2020-02-29T00:00:00Z"`, `"0000-01-01T00:00:00Z"`, `"now"`, `""`, `"T"`, `"x2018-02-03T04:05:06Z"`, `"2018-02-03T04:05:06Z"`, `" 2018-02-03T04:05:06Z"`,
	// outside the domain (skip): digit first, not the strict layout
	`"2018-02-03 04:05:06Z"`, `"2018-02-03T04:05:06"`, `"2018-13-03T04:05:06Z"`, `"2019-02-29T00:00:00Z"`, `"2018-02-03T4:05:06Z"`, `"2018-02-03T04:05:06,5Z"`, `"2018-02-03T04:05:06.1234567891Z"`, `"2018-02-03T04:05:06+24:00"`, `"1"`}
var b2B64Lits = []string{`""`, `"aGVsbG8="`, `"aGVsbG8"`, `"aGVsbG9="`, `"aGVs\nbG8="`, `"aGVs\r\nbG8=\n"`, `"AA=="`, `"AAA="`, `"AAAA"`, `"!!!!"`, `"AB=="`, `"/+8="`, `"_-8="`, `"AA=A"`, `"AA==AAAA"`, `"A"`, `"AA"`, `"===="`, `"AA=\n="`,
	`"AAAA="`, `"AA= ="`, `" AAAA"`, `"AAAAAA=="`, `"AAAAAAA="`, `"AAAA===="`, `"AAA=AAAA"`, `"AAAA"`, `"\/\/\/\/"`, `"AR=="`, `"AAF="`}
var b2StrVals = []string{"", "a", "é", "日本", "😀", "a\x00b", "<>&", "\\\"/", "\b\f\n\r\t", " ", "\x7f", "\xff", "a\xe2\x80", "\xed\xa0\x80", "null", "ſK", "�"}

// b2Literals: some attribute values rewritten with literals only a byte-level reader sees.
func b2Literals(r *Rng, p *payloadParts, ts []stype, o *Out) {
	var typ *jsonapi.Type
	for i := range ts {
		if ts[i].typ.Name == p.typ {
			typ = &ts[i].typ
		}
	}
	if typ == nil {
		return
	}
	for i := range p.attrs {
		a, ok := typ.Attrs[p.attrs[i][0]]
		if !ok || p.attrs[i][1] == "null" || !r.chance(1, 3) {
			continue
		}
		switch a.Type {
		case jsonapi.AttrTypeString:
			p.attrs[i][1] = b2StrLit(r, b2StrVals[r.IntN(len(b2StrVals))])
			o.stat("b2.lit-string")
		case jsonapi.AttrTypeTime:
			p.attrs[i][1] = b2TimeLits[r.IntN(len(b2TimeLits))]
			o.stat("b2.lit-time")
		case jsonapi.AttrTypeBytes:
			p.attrs[i][1] = b2B64Lits[r.IntN(len(b2B64Lits))]
			o.stat("b2.lit-bytes")
		case jsonapi.AttrTypeBool:
			p.attrs[i][1] = []string{"true", "false", "True", "1", `"true"`}[r.IntN(5)]
		default:
			p.attrs[i][1] = genIntLit(r, a.Type)
			o.stat("b2.lit-int")
		}
	}
}

func b2Payload(r *Rng, ts []stype, faulty bool, o *Out) string {
	pp := genPayload(r, ts, faulty, o)
	if r.chance(1, 2) {
		b2Literals(r, &pp, ts, o)
	}
	return b2ResText(r, pp, o)
}

// b2Deep: arrays / objects nested so that the whole text is `total` deep, inside `wrap`
// (`%s` is the place of the nest, itself at depth `at`).
func b2Deep(r *Rng, wrap string, at, total int) string {
	d := total - at
	var nest string
	if r.bool() {
		nest = strings.Repeat("[", d) + strings.Repeat("]", d)
	} else {
		nest = strings.Repeat(`{"a":`, d) + "1" + strings.Repeat("}", d)
	}
	return strings.Replace(wrap, "%s", nest, 1)
}

func b2Mutate(r *Rng, b []byte, wrap string, at int, o *Out) []byte {
	switch r.IntN(40) {
	case 0:
		if !r.chance(1, 4) {
			return b
		}
		total := []int{9999, 10000, 10001, 10002}[r.IntN(4)]
		o.stat(fmt.Sprintf("b2.depth-%d", total))
		return []byte(b2Deep(r, wrap, at, total))
	case 1, 2, 3, 4, 5, 6:
		return mutateBytes(r, b, o)
	case 7:
		o.stat("b2.trailing")
		return append(append([]byte{}, b...), []string{" x", "\f", ",", "}", "]", "\x00", "null", "\ufeff", "//c"}[r.IntN(9)]...)
	case 8:
		o.stat("b2.leading")
		return append([]byte([]string{"\ufeff", "\f", "\v", " ", "\x00", ","}[r.IntN(6)]), b...)
	case 9:
		o.stat("b2.grammar")
		return []byte(strings.Replace(string(b), ",", []string{",,", ", ,", ";", ""}[r.IntN(4)], 1))
	case 10:
		o.stat("b2.ctrl-in-string")
		return []byte(strings.Replace(string(b), `":"`, "\":\"a"+string(rune(r.IntN(0x20)))+"b", 1))
	case 11:
		o.stat("b2.bad-escape")
		return []byte(strings.Replace(string(b), `":"`, `":"`+[]string{`\a`, `\u12`, `\u12G4`, `\U0041`, `\x41`, `\`, `\u`, `\'`}[r.IntN(8)], 1))
	case 12:
		o.stat("b2.bad-number")
		return []byte(strings.Replace(string(b), `:`, `:`+[]string{"01", "-", "+1", "1.", ".5", "1e", "1e+", "0x10", "1_0", "-01", "1.e5", "NaN", "Infinity", "1ee5", "--1", "1.5.5"}[r.IntN(16)]+`,"k":`, 1))
	case 13:
		o.stat("b2.literal-case")
		return []byte(strings.Replace(string(b), `null`, []string{"Null", "nul", "nulll", "NULL", "n ull"}[r.IntN(5)], 1))
	}
	return b
}

// ---------- the suite ----------

func b2Skip(op string, o *Out) {
	o.stat("b2.skip")
	o.emit(op, "skip", "na")
}

func suiteBytes2(r *Rng, n int, thorough bool, o *Out) {
	for c := 0; c < n; c++ {
		s, ts := genSchema(r, o)
		ssx := sxSSchema(ts)
		faulty := r.chance(1, 2)
		data := []byte(b2Stage2(r, b2Payload(r, ts, faulty, o), o))
		data = b2Mutate(r, data, `{"id":"1","type":"t","x":%s}`, 1, o)
		numsOk := b2MetaNumsOk(data)
		// full and partial
		opF := lst("bytes2", "res", ssx, hx(string(data)))
		opP := lst("bytes2", "partial", ssx, hx(string(data)))
		if !numsOk || b2ResUncertain(data, s) {
			b2Skip(opF, o)
			b2Skip(opP, o)
		} else {
			obsF, pvF, resF := runUnmarshalRes("UnmarshalResource", data, s, false)
			if resF != nil {
				if m := conforms(resF, s); m != "" {
					pvF = "FAIL[C05]:C05 " + m
				}
			}
			o.stat("res." + obsF[:2])
			o.emit(opF, obsF, pvF)
			obsP, pvP, resP := runUnmarshalRes("UnmarshalPartialResource", data, s, true)
			if pvP == "ok" && (resP != nil) != (resF != nil) {
				pvP = "FAIL[C13]:C13 partial and full unmarshaling disagree on acceptance"
			}
			if pvP == "ok" && resP != nil {
				pvP = partialVerdict(resP, resF, data, s)
			}
			o.emit(opP, obsP, pvP)
		}
		// collection
		if r.chance(1, 3) {
			var col []byte
			switch r.IntN(8) {
			case 0:
				col = []byte([]string{"null", "[]", " [ ] ", "{}", "5", `"x"`, "[null]", "[1]", "[[]]", `[{}]`}[r.IntN(10)])
			default:
				k := r.IntN(4)
				items := make([]string, k)
				for i := range items {
					items[i] = b2Payload(r, ts, r.chance(1, 6), o)
				}
				col = []byte(b2Stage2(r, "["+strings.Join(items, ",")+"]", o))
			}
			col = b2Mutate(r, col, `[%s]`, 1, o)
			op := lst("bytes2", "col", ssx, hx(string(col)))
			if !b2MetaNumsOk(col) || b2ColUncertain(col, s) {
				b2Skip(op, o)
			} else {
				var res jsonapi.Collection
				var err error
				p, msg := guard(func() { res, err = jsonapi.UnmarshalCollection(col, s) })
				obs, pv := "", "ok"
				switch {
				case p:
					obs, pv = "panic", "FAIL[C05]:C05 UnmarshalCollection panicked: "+msg
				case err != nil && res != nil:
					obs, pv = "err", "FAIL[C05]:C05 UnmarshalCollection returned both a result and an error"
				case err != nil:
					obs = "err"
				case res == nil:
					obs, pv = "nil", "FAIL[C05]:C05 UnmarshalCollection returned neither"
				default:
					items := make([]string, res.Len())
					for i := range items {
						items[i] = sxResView(res.At(i))
						if m := conforms(res.At(i), s); m != "" {
							pv = "FAIL[C05]:C05 " + m
						}
					}
					obs = "ok " + lst(items...)
				}
				o.stat("col." + obs[:2])
				o.emit(op, obs, pv)
			}
		}
		// document
		var doc string
		switch r.IntN(10) {
		case 0:
			doc = `{"data":` + string(data) + `}`
		case 1:
			k := r.IntN(4)
			items := make([]string, k)
			for i := range items {
				items[i] = b2Payload(r, ts, r.chance(1, 6), o)
			}
			doc = `{"data":[` + strings.Join(items, ",") + `],"meta":{"count":` + itoa(k) + `}}`
		case 2:
			doc = `{"data":null,"included":[` + b2Payload(r, ts, false, o) + `]}`
		case 3:
			doc = b2ErrorsDoc(r, o)
		case 4:
			doc = `{"data":` + wrongLits[r.IntN(len(wrongLits))] + `,"included":` + wrongLits[r.IntN(len(wrongLits))] + `}`
		case 5:
			doc = `{"data":` + b2Payload(r, ts, false, o) + `,"included":[` + b2Payload(r, ts, false, o) + `,` + []string{"null", "{}", `{"id":"1","type":"t"}`, `{"id":1}`, "5", `"s"`, "[]", b2Payload(r, ts, false, o)}[r.IntN(8)] + `],"meta":{"a":[1,"b",null]}}`
		case 6:
			// members of the document repeated and in case variants
			ms := []string{b2Member(r, "data", "1", o), b2Member(r, "data", b2Payload(r, ts, false, o), o), b2Member(r, "meta", `{"a":1,"b":2}`, o), b2Member(r, "meta", `{"b":3,"c":{"x":1,"x":2}}`, o)}
			if r.bool() {
				ms = append(ms, b2Member(r, "included", `[`+b2Payload(r, ts, false, o)+`]`, o), b2Member(r, "included", []string{"null", "[]", `[` + b2Payload(r, ts, false, o) + `]`}[r.IntN(3)], o))
			}
			if r.chance(1, 3) {
				ms = append(ms, b2Member(r, "meta", "null", o))
			}
			r.Shuffle(len(ms), func(i, j int) { ms[i], ms[j] = ms[j], ms[i] })
			doc = "{" + strings.Join(ms, ",") + "}"
			o.stat("b2.doc-repeated-members")
		case 7:
			doc = []string{"null", " null ", "[]", "5", `"x"`, "{}", "{ }", `{"data":null}`, `{"data": null }`, `{"data":[]}`, `{"data":{}}`, `{"data":true}`, `{"DATA":[ ]}`, `{"meta":null}`, `{"included":null}`, `{"included":[]}`, `{"errors":[]}`}[r.IntN(17)]
		default:
			doc = `{"data":` + string(data) + `,"jsonapi":{"version":"1.0"}}`
		}
		if !strings.Contains(doc, string(data)) || len(data) < 4000 {
			doc = b2Stage2(r, doc, o)
		}
		docB := b2Mutate(r, []byte(doc), `{"data":%s}`, 1, o)
		opD := lst("bytes2", "doc", ssx, hx(string(docB)))
		if !b2MetaNumsOk(docB) || b2DocUncertain(docB, s) {
			b2Skip(opD, o)
		} else {
			var d *jsonapi.Document
			var err error
			p, msg := guard(func() { d, err = jsonapi.UnmarshalDocument(docB, s) })
			obsD, pvD := "", "ok"
			switch {
			case p:
				obsD, pvD = "panic", "FAIL[C05]:C05 UnmarshalDocument panicked: "+msg
			case err != nil && d != nil:
				obsD, pvD = "err", "FAIL[C05]:C05 UnmarshalDocument returned both a result and an error"
			case err != nil:
				obsD = "err"
			case d == nil:
				obsD, pvD = "nil", "FAIL[C05]:C05 UnmarshalDocument returned neither"
			default:
				obsD = "ok " + sxDocResult(d)
				var all []jsonapi.Resource
				if col, ok := d.Data.(jsonapi.Collection); ok {
					for i := 0; i < col.Len(); i++ {
						all = append(all, col.At(i))
					}
				} else if res, ok := d.Data.(jsonapi.Resource); ok {
					all = append(all, res)
				}
				all = append(all, d.Included...)
				for _, res := range all {
					if m := conforms(res, s); m != "" {
						pvD = "FAIL[C05]:C05 " + m
					}
				}
			}
			o.stat("doc." + obsD[:2])
			o.emit(opD, obsD, pvD)
		}
		// identifiers
		if r.chance(1, 3) {
			tn := ts[r.IntN(len(ts))].typ.Name
			lits := []string{`{"id":"1","type":"` + tn + `"}`, `{"id":"","type":"t"}`, `{"id":"1"}`, `{"id":"1","type":"nope"}`, `null`, `[]`, `1`, `{"id":1,"type":"t"}`, `{"id":"1","type":"t","x":1}`,
				`{"id":"a","id":"b","type":"` + tn + `"}`, `{"ID":"c","Type":"` + tn + `"}`, `{"id":"d","type":"` + tn + `","type":null}`, `{"id":null,"type":"t"}`, `{"id":"e","type":"` + tn + `","attributes":5,"meta":{"k":1.5}}`, `{"type":"` + tn + `","id":"😀\ud800"}`, `"x"`, `true`, `{}`}
			one := b2Stage2(r, lits[r.IntN(len(lits))], o)
			oneB := b2Mutate(r, []byte(one), `{"id":"1","type":"t","x":%s}`, 1, o)
			op := lst("bytes2", "ident", ssx, hx(string(oneB)))
			if !b2MetaNumsOk(oneB) {
				b2Skip(op, o)
			} else {
				var iden jsonapi.Identifier
				var ierr error
				p, _ := guard(func() { iden, ierr = jsonapi.UnmarshalIdentifier(oneB, s) })
				obs, pv := "", "ok"
				switch {
				case p:
					obs, pv = "panic", "FAIL[C05]:C05 UnmarshalIdentifier panicked"
				case ierr != nil:
					obs = "err"
					if iden != (jsonapi.Identifier{}) {
						pv = "FAIL[C05]:C05 UnmarshalIdentifier returned both"
					}
				default:
					obs = "ok " + sxIdent(iden)
					if !hasTypeIndep(s, iden.Type) {
						pv = "FAIL[C05]:C05 identifier type not in schema"
					}
				}
				o.emit(op, obs, pv)
			}
			k := r.IntN(4)
			items := make([]string, k)
			for i := range items {
				items[i] = lits[r.IntN(len(lits))]
			}
			many := "[" + strings.Join(items, ",") + "]"
			if r.chance(1, 8) {
				many = wrongLits[r.IntN(len(wrongLits))]
			}
			manyB := b2Mutate(r, []byte(b2Stage2(r, many, o)), `[%s]`, 1, o)
			op = lst("bytes2", "idents", ssx, hx(string(manyB)))
			if !b2MetaNumsOk(manyB) {
				b2Skip(op, o)
			} else {
				var idens jsonapi.Identifiers
				var ierr error
				p, _ := guard(func() { idens, ierr = jsonapi.UnmarshalIdentifiers(manyB, s) })
				obs, pv := "", "ok"
				switch {
				case p:
					obs, pv = "panic", "FAIL[C05]:C05 UnmarshalIdentifiers panicked"
				case ierr != nil:
					obs = "err"
					if len(idens) > 0 {
						pv = "FAIL[C05]:C05 UnmarshalIdentifiers returned both a result and an error"
					}
				default:
					is := make([]string, len(idens))
					for i := range idens {
						is[i] = sxIdent(idens[i])
						if !hasTypeIndep(s, idens[i].Type) {
							pv = "FAIL[C05]:C05 identifier type not in schema"
						}
					}
					obs = "ok " + lst(is...)
				}
				o.emit(op, obs, pv)
			}
		}
	}
}

// b2ErrorsDoc: a document whose `errors` member comes once or several times, with arrays of
// different lengths (encoding/json decodes the later ones INTO the slice the earlier ones left).
func b2ErrorsDoc(r *Rng, o *Out) string {
	strs := []string{`"a"`, `"b"`, `""`, `"400"`, "null", `"é"`}
	errObj := func() string {
		if r.chance(1, 8) {
			return []string{"null", "{}", "5", `"e"`, "[]"}[r.IntN(5)]
		}
		var ms []string
		for _, f := range []string{"id", "code", "status", "title", "detail"} {
			if r.chance(1, 3) {
				v := strs[r.IntN(len(strs))]
				if r.chance(1, 20) {
					v = []string{"5", "true", "[]", "{}"}[r.IntN(4)]
				}
				ms = append(ms, b2Member(r, f, v, o))
			}
		}
		if r.chance(1, 3) {
			ms = append(ms, b2Member(r, "links", []string{`{"about":"x"}`, `{"about":"y","self":"s"}`, `{"about":null}`, `{"k":"1","k":"2"}`, "null", "{}", `{"about":5}`, "5", "[]"}[r.IntN(9)], o))
		}
		if r.chance(1, 3) {
			ms = append(ms, b2Member(r, "source", []string{`{"pointer":"/data"}`, `{"parameter":"p","pointer":"/x"}`, "null", `{"a":{"b":[1,{"c":null}]},"a":2}`, "{}", "5", `"s"`, `{"n":1.5}`}[r.IntN(8)], o))
		}
		if r.chance(1, 3) {
			ms = append(ms, b2Member(r, "meta", []string{`{"m":true}`, `{"m":1,"n":"x"}`, "null", `{"m":{"x":1},"m":{"y":2}}`, "{}", "[]"}[r.IntN(6)], o))
		}
		if r.chance(1, 10) {
			ms = append(ms, `"unknown":[1,2]`)
		}
		return "{" + strings.Join(ms, ",") + "}"
	}
	arr := func() string {
		if r.chance(1, 8) {
			return []string{"null", "[]", "{}", "5", `"x"`}[r.IntN(5)]
		}
		k := r.IntN(6)
		if r.chance(1, 12) {
			k = 6 + r.IntN(14)
		}
		items := make([]string, k)
		for i := range items {
			items[i] = errObj()
		}
		return "[" + strings.Join(items, ",") + "]"
	}
	n := 1
	if r.bool() {
		n = 2 + r.IntN(3)
		o.stat("b2.errors-repeated")
	}
	var ms []string
	for i := 0; i < n; i++ {
		ms = append(ms, b2Member(r, "errors", arr(), o))
	}
	if r.chance(1, 4) {
		ms = append(ms, b2Member(r, "meta", `{"m":1}`, o))
	}
	if r.chance(1, 8) {
		ms = append(ms, b2Member(r, "data", []string{"null", "5", "[]"}[r.IntN(3)], o))
	}
	if r.chance(1, 4) {
		r.Shuffle(len(ms), func(i, j int) { ms[i], ms[j] = ms[j], ms[i] })
	}
	return "{" + strings.Join(ms, ",") + "}"
}

func init() {
	suites["bytes2"] = suiteBytes2
}
