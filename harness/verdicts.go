package main

import (
	"sort"
	"strings"
)

// verdicts collects, per property, the first clause of that property found to fail on the
// real code for one case. The verdict column reads "ok", or
// "FAIL[C03,C04]:C03 <what>; C04 <what>": a check for property P counts the case as a
// failing input only when P is in the bracket (an untagged "FAIL:..." counts for every
// property that runs the suite).
type verdicts struct {
	msgs map[string]string
}

func (v *verdicts) fail(props string, msg string) {
	if v.msgs == nil {
		v.msgs = map[string]string{}
	}
	for _, p := range strings.Split(props, ",") {
		if _, ok := v.msgs[p]; !ok {
			v.msgs[p] = msg
		}
	}
}

func (v *verdicts) failed(prop string) bool { _, ok := v.msgs[prop]; return ok }

func (v *verdicts) ok() bool { return len(v.msgs) == 0 }

func (v *verdicts) String() string {
	if len(v.msgs) == 0 {
		return "ok"
	}
	ps := make([]string, 0, len(v.msgs))
	for p := range v.msgs {
		ps = append(ps, p)
	}
	sort.Strings(ps)
	parts := make([]string, len(ps))
	for i, p := range ps {
		parts[i] = p + " " + strings.NewReplacer("\t", " ", "\n", " ").Replace(v.msgs[p])
	}
	return "FAIL[" + strings.Join(ps, ",") + "]:" + strings.Join(parts, "; ")
}
