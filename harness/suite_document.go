package main

import (
	"bytes"
	"fmt"
	"reflect"
	"sort"
	"strings"
	"time"

	"github.com/mfcochauxlaberge/jsonapi"
)

// ---------- encoding of a Document (matches Jsonapi/Driver/Marshal.lean decDocument) ----------

func sxDocData(d any) string {
	switch x := d.(type) {
	case nil:
		return "none"
	case jsonapi.Identifier:
		return lst("ident", hx(x.ID), hx(x.Type))
	case jsonapi.Identifiers:
		items := make([]string, len(x))
		for i := range x {
			items[i] = sxIdent(x[i])
		}
		return lst("idents", b01(x == nil), lst(items...))
	case jsonapi.Collection:
		items := make([]string, x.Len())
		for i := range items {
			items[i] = sxResView(x.At(i))
		}
		return lst("col", hx(x.GetType().Name), lst(items...))
	case jsonapi.Resource:
		return lst("res", sxResView(x))
	}
	return "other"
}

func sxDocument(d *jsonapi.Document) string {
	incs := make([]string, len(d.Included))
	for i := range incs {
		incs[i] = sxResView(d.Included[i])
	}
	lk := sortedKeys(d.Links)
	links := make([]string, len(lk))
	for i, k := range lk {
		links[i] = lst(hx(k), hx(d.Links[k].HRef), sxMetaMap(jsonapi.Meta(d.Links[k].Meta)))
	}
	errs := make([]string, len(d.Errors))
	for i := range errs {
		errs[i] = sxErrorObj(d.Errors[i])
	}
	return lst(sxDocData(d.Data), lst(incs...), lst(links...), sxFieldsMap(d.RelData), sxMetaMap(d.Meta), lst(errs...), hx(d.PrePath))
}

// ---------- same value (C01/C02) ----------

func sameVal(a, b any) bool {
	if isNilAny(a) || isNilAny(b) {
		return isNilAny(a) && isNilAny(b)
	}
	deref := func(v any) any {
		rv := reflect.ValueOf(v)
		if rv.Kind() == reflect.Ptr {
			return rv.Elem().Interface()
		}
		return v
	}
	a, b = deref(a), deref(b)
	switch x := a.(type) {
	case time.Time:
		y, ok := b.(time.Time)
		return ok && x.Equal(y)
	case []byte:
		y, ok := b.([]byte)
		return ok && bytes.Equal(x, y)
	case []string:
		y, ok := b.([]string)
		if !ok {
			return false
		}
		// "the same set of IDs"
		xs, ys := map[string]bool{}, map[string]bool{}
		for _, id := range x {
			xs[id] = true
		}
		for _, id := range y {
			ys[id] = true
		}
		return reflect.DeepEqual(xs, ys)
	}
	return reflect.DeepEqual(a, b)
}

func isNilAny(v any) bool {
	if v == nil {
		return true
	}
	rv := reflect.ValueOf(v)
	return rv.Kind() == reflect.Ptr && rv.IsNil()
}

func inList(l []string, s string) bool {
	for _, x := range l {
		if x == s {
			return true
		}
	}
	return false
}

// orig read back as `back` under the selection: selected attributes and selected
// relationships whose data was requested keep their value, everything else is zero.
// truth, when the generator has a record of orig, is what was written into it: type, ID and
// values are taken from there, not from orig's getters (orig is asked only when truth is nil);
// the zero of an unselected field is the harness's own (zeroFieldIndep).
func sameResource(orig, back jsonapi.Resource, fields []string, relData []string, truth *resTruth) string {
	ot, bt := orig.GetType(), back.GetType()
	var origID any = orig.Get("id")
	get := orig.Get
	if truth != nil {
		ot, origID = truth.typ, truth.id
		get = func(name string) any {
			if v, ok := truth.vals[name]; ok {
				return v
			}
			return zeroFieldIndep(truth.typ, name)
		}
	}
	if ot.Name != bt.Name {
		return "type name " + bt.Name
	}
	if origID != back.Get("id") {
		return "id"
	}
	for name := range ot.Attrs {
		want := get(name)
		if !inList(fields, name) {
			want = zeroFieldIndep(ot, name)
		}
		if !sameVal(want, back.Get(name)) {
			return fmt.Sprintf("attribute %s: %s became %s", name, sxVal(want), sxVal(back.Get(name)))
		}
	}
	for name := range ot.Rels {
		want := get(name)
		if !inList(fields, name) || !inList(relData, name) {
			want = zeroFieldIndep(ot, name)
		}
		if !sameVal(want, back.Get(name)) {
			return fmt.Sprintf("relationship %s: %s became %s", name, sxVal(want), sxVal(back.Get(name)))
		}
	}
	return ""
}

// ---------- generation ----------

func genResOf(r *Rng, st stype, o *Out) jsonapi.Resource {
	res, _ := genResOfT(r, st, o)
	return res
}

// genResOfT also returns the generator's record of what it wrote into the resource (the
// oracles' expected side: resTruth). Same random choices as genResOf, in the same order.
func genResOfT(r *Rng, st stype, o *Out) (jsonapi.Resource, *resTruth) {
	typ := stripNewFunc(st.typ)
	vals := genFieldVals(r, typ)
	for k, v := range vals {
		vals[k] = utf8ify(v)
		if p, ok := vals[k].(*[]byte); ok && p != nil && *p == nil {
			e := []byte{}
			vals[k] = &e // a non-nil pointer to a nil slice is outside the domain (C01)
		}
	}
	for k, rel := range typ.Rels {
		if rel.ToOne {
			vals[k] = mStrPool[r.IntN(len(mStrPool))]
		} else {
			ids := []string{}
			for i := r.IntN(4); i > 0; i-- {
				ids = append(ids, mStrPool[r.IntN(len(mStrPool))])
			}
			vals[k] = ids
		}
	}
	var res jsonapi.Resource
	id := mStrPool[1+r.IntN(len(mStrPool)-1)]
	if st.backed && r.bool() {
		o.stat("res.struct-literal")
		return newWrappedLiteral(typ, id, vals), &resTruth{typ: typ, id: id, vals: vals}
	}
	if st.backed {
		res = newWrapped(typ)
	} else {
		if r.chance(1, 5) {
			return newSoftShrunk(r, typ, id, vals, o), &resTruth{typ: typ, id: id, vals: vals}
		}
		sr := newSoftVia(r, typ, o)
		res = sr
		if r.chance(1, 3) {
			// only some of the fields are ever set: the others hold their zero value
			o.stat("res.soft-partly-set")
			sr.SetID(id)
			held := map[string]any{}
			for _, k := range sortedKeys(vals) {
				if r.bool() {
					sr.Set(k, cloneVal(vals[k]))
					held[k] = vals[k]
				} else {
					held[k] = zeroFieldIndep(typ, k)
				}
			}
			return res, &resTruth{typ: typ, id: id, vals: held}
		}
	}
	fill(res, id, vals)
	return res, &resTruth{typ: typ, id: id, vals: vals}
}

func genErrors(r *Rng) []jsonapi.Error {
	n := 1 + r.IntN(3)
	out := make([]jsonapi.Error, n)
	for i := range out {
		e := jsonapi.NewError()
		if r.bool() {
			e.ID = mStrPool[r.IntN(len(mStrPool))]
		}
		if r.bool() {
			e.Code = "c" + itoa(r.IntN(3))
		}
		if r.bool() {
			e.Status = []string{"400", "404", "500", ""}[r.IntN(4)]
		}
		if r.bool() {
			e.Title = mStrPool[r.IntN(len(mStrPool))]
		}
		if r.bool() {
			e.Detail = mStrPool[r.IntN(len(mStrPool))]
		}
		if r.chance(1, 3) {
			e.Links["about"] = "https://x/" + itoa(i)
		}
		if r.chance(1, 3) {
			e.Source["pointer"] = "/data/attributes/a"
		}
		if r.chance(1, 5) {
			// source is a map[string]any: values of any JSON kind travel as they are
			for k, v := range genMeta(r, 1) {
				e.Source[k] = v
			}
		}
		if r.chance(1, 3) {
			e.Meta = genMeta(r, 1)
		}
		if r.chance(1, 6) {
			e.Links, e.Source, e.Meta = nil, nil, nil
		}
		out[i] = e
	}
	return out
}

func docResources(d *jsonapi.Document) []jsonapi.Resource {
	var out []jsonapi.Resource
	switch x := d.Data.(type) {
	case jsonapi.Collection:
		for i := 0; i < x.Len(); i++ {
			out = append(out, x.At(i))
		}
	case jsonapi.Resource:
		out = append(out, x)
	}
	return out
}

func resKeyOf(r jsonapi.Resource) string { return r.Get("id").(string) + " " + r.GetType().Name }

// truthKeyOf: the (ID, type name) pair of a resource from the generator's record of it (the
// resource's own getters are asked only for a resource the generator has no record of).
func truthKeyOf(truth map[jsonapi.Resource]*resTruth, r jsonapi.Resource) string {
	if t := truth[r]; t != nil {
		return t.id + " " + t.typ.Name
	}
	return resKeyOf(r)
}

// document suite: marshal (C03, C04, C11), include histories (C03), round trip (C02, C01).
func suiteDocument(r *Rng, n int, thorough bool, o *Out) {
	reps := 3
	if thorough {
		reps = 25
	}
	for c := 0; c < n; c++ {
		s, ts := genSchema(r, o)
		doc := &jsonapi.Document{PrePath: prefixes[r.IntN(len(prefixes))]}
		uniquePrimary := true
		aliased := ""
		// the generator's record of every resource it made for this document, by identity
		truth := map[jsonapi.Resource]*resTruth{}
		var primTruth []*resTruth // of the members of a primary collection, in the order added
		// primary data
		dataKind := r.IntN(9)
		mixedTyped := false
		switch dataKind {
		case 0:
			doc.Data = nil
			o.stat("data.nil")
		case 1, 2:
			res, tr := genResOfT(r, ts[r.IntN(len(ts))], o)
			truth[res] = tr
			doc.Data = res
			o.stat("data.resource")
		case 3, 4, 5:
			st := ts[r.IntN(len(ts))]
			k := r.IntN(5)
			var col jsonapi.Collection
			switch impl := r.IntN(3); {
			case impl == 1 && !st.backed:
				t := stripNewFunc(st.typ).Copy()
				sc := &jsonapi.SoftCollection{}
				sc.SetType(&t)
				col = sc
				o.stat("data.SoftCollection")
			case impl == 2 && st.backed:
				col = jsonapi.WrapCollection(newWrapped(stripNewFunc(st.typ)))
				o.stat("data.WrapperCollection")
			default:
				col = &jsonapi.Resources{}
				o.stat("data.Resources")
			}
			seen := map[string]bool{}
			for i := 0; i < k; i++ {
				mst := st
				if _, isRes := col.(*jsonapi.Resources); isRes && r.chance(1, 3) {
					mst = ts[r.IntN(len(ts))] // Resources can mix types
				}
				if _, isWC := col.(*jsonapi.WrapperCollection); isWC && r.chance(1, 4) {
					// WrapperCollection.Add takes any wrapped struct: an element of another
					// struct-built type is marshaled as a resource of ITS type
					if other := ts[r.IntN(len(ts))]; other.backed && other.typ.Name != st.typ.Name {
						mst = other
						mixedTyped = true
						// outside WrapperCollection's documented contract ("only resources of
						// that type can be added"): Include trusts GetType(), so the pair rule
						// of C03 is not demanded of such a collection
						uniquePrimary = false
						o.stat("data.WrapperCollection-mixed")
					}
				}
				res, tr := genResOfT(r, mst, o)
				truth[res] = tr
				primTruth = append(primTruth, tr)
				if seen[truthKeyOf(truth, res)] {
					uniquePrimary = false
				}
				seen[truthKeyOf(truth, res)] = true
				if sc, isSC := col.(*jsonapi.SoftCollection); isSC && sc.Type != nil && r.chance(1, 3) {
					// the caller's row buffer: a soft resource typed with the collection's own
					// *Type, added, then written to again - the collection holds what it was
					// given at the time of Add
					sr := &jsonapi.SoftResource{}
					sr.SetType(sc.Type)
					sr.SetID(res.Get("id").(string))
					for _, f := range fieldsIndep(mst.typ) {
						sr.Set(f, cloneVal(res.Get(f)))
					}
					want := sxResView(sr)
					sc.Add(sr)
					other := genResOf(r, mst, o)
					for _, f := range fieldsIndep(mst.typ) {
						sr.Set(f, cloneVal(other.Get(f)))
					}
					if got := sxResView(sc.At(sc.Len() - 1)); got != want && aliased == "" {
						aliased = "C04 element " + itoa(sc.Len()-1) + " of the primary collection shows values written to the caller's resource after Add"
					}
					o.stat("data.SoftCollection-row-buffer")
					continue
				}
				col.Add(res)
			}
			doc.Data = col
		case 6:
			doc.Data = jsonapi.Identifier{ID: mStrPool[1+r.IntN(len(mStrPool)-1)], Type: ts[0].typ.Name}
			o.stat("data.identifier")
		case 7:
			var ids jsonapi.Identifiers
			if r.chance(2, 3) {
				ids = jsonapi.Identifiers{}
				for i := r.IntN(4); i > 0; i-- {
					ids = append(ids, jsonapi.Identifier{ID: mStrPool[1+r.IntN(len(mStrPool)-1)], Type: ts[r.IntN(len(ts))].typ.Name})
				}
			}
			doc.Data = ids
			o.stat("data.identifiers")
		default:
			if r.chance(1, 4) {
				doc.Data = 5
				o.stat("data.other")
			} else {
				doc.Errors = genErrors(r)
				o.stat("data.errors")
			}
		}
		// errors may also sit on a document that has data and included resources
		if len(doc.Errors) == 0 && r.chance(1, 7) {
			doc.Errors = genErrors(r)
			o.stat("data.errors-with-data")
		}
		// included through Include (fresh, repeated, and primary-data resources)
		if r.chance(1, 4) {
			// as UnmarshalDocument leaves it: a non-nil, empty index (the field plays no
			// part in Include or MarshalDocument)
			doc.Resources = map[string]map[string]struct{}{}
			o.stat("doc.resources-index-empty")
		}
		prim := docResources(doc)
		if _, isCol := doc.Data.(jsonapi.Collection); isCol && len(prim) == len(primTruth) {
			// (a collection may hold copies of what it was given: its members by position)
			for i := range prim {
				truth[prim[i]] = primTruth[i]
			}
		}
		var pool []jsonapi.Resource
		for i := r.IntN(5); i > 0; i-- {
			res, tr := genResOfT(r, ts[r.IntN(len(ts))], o)
			truth[res] = tr
			pool = append(pool, res)
		}
		if len(prim) > 0 && !mixedTyped && r.chance(1, 4) {
			// the same resource (type name and ID) as a primary one, held as a soft resource
			// whose Type value has one field less (what a partial read of it gives)
			src := prim[r.IntN(len(prim))]
			t := src.GetType().Copy()
			t.NewFunc = nil
			for k := range t.Attrs {
				delete(t.Attrs, k)
				break
			}
			twin := &jsonapi.SoftResource{Type: &t}
			twin.SetID(src.Get("id").(string))
			if p, _ := guard(func() { doc.Include(twin) }); p {
				o.emit(lst("marshal", "include-panic"), "panic", "FAIL[C03]:C03 Include panicked")
			}
			o.stat("include.twin-of-primary")
		}
		nInc := r.IntN(7)
		for i := 0; i < nInc; i++ {
			var res jsonapi.Resource
			if _, single := doc.Data.(jsonapi.Resource); single && len(pool) > 0 && r.chance(1, 8) {
				// the primary resource is replaced between two Include calls: what counts
				// is the primary data at the time of each call
				doc.Data = pool[r.IntN(len(pool))]
				prim = docResources(doc)
				for j := range doc.Included {
					if truthKeyOf(truth, doc.Included[j]) == truthKeyOf(truth, prim[0]) {
						uniquePrimary = false // it had been included before it became primary
					}
				}
				o.stat("include.data-replaced")
			}
			switch {
			case len(prim) > 0 && r.chance(1, 4) && !mixedTyped:
				res = prim[r.IntN(len(prim))]
				o.stat("include.primary")
			case len(pool) > 0:
				res = pool[r.IntN(len(pool))]
				o.stat("include.pool")
			default:
				continue
			}
			p, _ := guard(func() { doc.Include(res) })
			if p {
				o.emit(lst("marshal", "include-panic"), "panic", "FAIL[C03]:C03 Include panicked")
			}
		}
		// selection
		fields := map[string][]string{}
		for _, st := range ts {
			if r.chance(5, 6) {
				fields[st.typ.Name] = genSelection(r, fieldsIndep(st.typ))
				if r.chance(1, 2) {
					fields[st.typ.Name] = append([]string{}, fieldsIndep(st.typ)...)
				}
			}
		}
		doc.RelData = map[string][]string{}
		for _, st := range ts {
			if r.chance(3, 4) {
				doc.RelData[st.typ.Name] = genSelection(r, sortedKeys(st.typ.Rels))
				if r.chance(1, 2) {
					doc.RelData[st.typ.Name] = sortedKeys(st.typ.Rels)
				}
			}
		}
		if r.chance(1, 3) {
			doc.Meta = genMeta(r, 2)
		}
		if r.chance(1, 4) {
			doc.Links = map[string]jsonapi.Link{"next": {HRef: "/n"}}
			if r.bool() {
				doc.Links["prev"] = jsonapi.Link{HRef: "/p", Meta: map[string]any{"k": 1}}
			}
		}
		// the URL: a collection or a single-resource URL whose ID may need escaping; the self
		// link is computed from a separate copy, so that the URL handed to MarshalDocument has
		// not been read before
		frags := []string{ts[0].typ.Name}
		resID := ""
		if r.chance(1, 2) {
			resID = []string{"1", "a b", "50%", "é", "x/y", "a+b", "q?", "~.-_"}[r.IntN(8)]
			frags = append(frags, resID)
			o.stat("url.with-id")
		}
		// a collection URL may carry sorting rules, page parameters and a filter label whose
		// text needs escaping in the self link
		var rules []string
		var page map[string]any
		label := ""
		if resID == "" && r.bool() {
			for i := r.IntN(3); i >= 0; i-- {
				rules = append(rules, []string{"id", "-created at", "é", "a&b", "-n=m", "50%", "x+y"}[r.IntN(7)])
			}
			if r.bool() {
				page = map[string]any{"size": 10, "a b": "c&d"}
			}
			if r.bool() {
				label = []string{"top ten", "a&b", "é\"q\""}[r.IntN(3)]
			}
			o.stat("url.with-params")
		}
		if r.chance(1, 15) {
			// a hand-built URL that says nothing at all: with an empty path prefix the
			// document's self link is the empty string, and it is still written
			frags, resID, rules, page, label = []string{}, "", nil, nil, ""
			fields = map[string][]string{}
			o.stat("url.empty")
		}
		mkURL := func() *jsonapi.URL {
			pg := map[string]any{}
			for k, v := range page {
				pg[k] = v
			}
			return &jsonapi.URL{Fragments: append([]string{}, frags...), ResType: ts[0].typ.Name, ResID: resID, IsCol: resID == "",
				Params: &jsonapi.Params{Fields: fields, SortingRules: append([]string{}, rules...), Page: pg, FilterLabel: label}}
		}
		url := mkURL()
		urlSnap := func(u *jsonapi.URL) string {
			fs := map[string][]string{}
			for t, l := range u.Params.Fields {
				c := append([]string{}, l...)
				sort.Strings(c)
				fs[t] = c
			}
			return fmt.Sprintf("%q %q %q %v %s %q %v %q", u.Fragments, u.ResType, u.ResID, u.IsCol, sxFieldsMap(fs), u.Params.SortingRules, u.Params.Page, u.Params.FilterLabel)
		}
		urlBefore := urlSnap(url)
		selfHref := ""
		guard(func() { selfHref = doc.PrePath + mkURL().String() })
		op := lst("marshal", "doc", sxDocument(doc), sxFieldsMap(fields), hx(selfHref))
		before := map[string]map[string]string{}
		all := append(append([]jsonapi.Resource{}, prim...), doc.Included...)
		for i, res := range all {
			before[fmt.Sprint(i)] = snapshot(res)
		}
		var out []byte
		var err error
		p, msg := guard(func() { out, err = jsonapi.MarshalDocument(doc, url) })
		if p {
			o.emit(op, "panic", "FAIL:MarshalDocument panicked: "+msg)
			continue
		}
		if err != nil {
			pv := "ok"
			if _, isInt := doc.Data.(int); !isInt || len(doc.Errors) > 0 {
				pv = "FAIL[C02]:C02 MarshalDocument failed: " + err.Error()
			}
			o.emit(op, "err", pv)
			continue
		}
		obs, tree := jsonSx(out)
		var v verdicts
		if tree == nil || strings.HasPrefix(obs, "duplicate") || tree.kind != 'o' {
			v.fail("C03", "output is not a JSON object without duplicate keys")
		} else {
			// C03 top level
			if tree.get("jsonapi") == nil {
				v.fail("C03", "no jsonapi member")
			}
			if l := tree.get("links").get("self"); l == nil || l.kind != 's' || l.text != selfHref {
				v.fail("C03", "self link")
			} else if m := selfLinkVerdict(l.text, doc.PrePath, frags, resID == "", fields, rules, page, label); m != "" {
				// (selfHref is what URL.String says: the link must also SAY what the URL
				// holds, decided by decoding it - oracle_indep.go)
				v.fail("C03", m)
			}
			if tree.get("data") != nil && tree.get("errors") != nil {
				v.fail("C03", "both data and errors")
			}
			if tree.get("included") != nil && tree.get("data") == nil {
				v.fail("C03", "included without data")
			}
			if len(doc.Errors) > 0 && tree.get("errors") == nil {
				v.fail("C02", "errors missing")
			}
			// resource objects
			checkOne := func(n *jnode, res jsonapi.Resource) {
				tn := res.GetType().Name
				if t := truth[res]; t != nil {
					tn = t.typ.Name
				}
				checkResourceObject(&v, n, res, doc.PrePath, fields[tn], doc.RelData, truth[res])
			}
			if data := tree.get("data"); data != nil {
				switch {
				case data.kind == 'a' && len(prim) == len(data.items) && len(prim) > 0:
					for i := range prim {
						checkOne(data.items[i], prim[i])
					}
				case data.kind == 'o' && len(prim) == 1:
					checkOne(data, prim[0])
				}
			}
			if inc := tree.get("included"); inc != nil {
				if inc.kind != 'a' || len(inc.items) != len(doc.Included) {
					v.fail("C02", "included is not the list of included resources")
				} else {
					for i := range doc.Included { // doc.Included is sorted by MarshalDocument
						checkOne(inc.items[i], doc.Included[i])
					}
				}
			}
			// no (type, id) pair twice across primary data and included
			if uniquePrimary {
				seen := map[string]bool{}
				for _, res := range append(append([]jsonapi.Resource{}, prim...), doc.Included...) {
					k := truthKeyOf(truth, res)
					if seen[k] {
						v.fail("C03", "type/ID pair "+k+" appears twice across data and included")
					}
					seen[k] = true
				}
				// ... and read from the output itself: the type and id members of the resource
				// objects under data and included (primary data made of bare identifiers is no
				// resource object: the full resource may be included beside it)
				seenOut := map[string]bool{}
				var objs []*jnode
				_, isIdent := doc.Data.(jsonapi.Identifier)
				_, isIdents := doc.Data.(jsonapi.Identifiers)
				if isIdent || isIdents {
					// only the included list is read
				} else if data := tree.get("data"); data != nil && data.kind == 'a' {
					objs = append(objs, data.items...)
				} else if data != nil && data.kind == 'o' {
					objs = append(objs, data)
				}
				if inc := tree.get("included"); inc != nil && inc.kind == 'a' {
					objs = append(objs, inc.items...)
				}
				for _, ob := range objs {
					ty, id := ob.get("type"), ob.get("id")
					if ob.kind != 'o' || ty == nil || id == nil || ty.kind != 's' || id.kind != 's' {
						continue
					}
					k := id.text + " " + ty.text
					if seenOut[k] {
						v.fail("C03", "type/ID pair "+k+" appears twice in the output across data and included")
					}
					seenOut[k] = true
				}
			}
		}
		// C02 / C01: round trip (before the C11 block permutes the document)
		var back *jsonapi.Document
		var uerr error
		obsU := ""
		if p, msg := guard(func() { back, uerr = jsonapi.UnmarshalDocument(out, s) }); p {
			v.fail("C02", "round trip: UnmarshalDocument panicked: "+msg)
			obsU = "panic"
		} else if uerr != nil {
			v.fail("C02", "round trip: UnmarshalDocument failed: "+uerr.Error())
			obsU = "err"
		} else {
			obsU = "ok " + sxDocResult(back)
			if props, m := roundTrip(back, doc, fields, prim, truth); m != "" {
				v.fail(props, "round trip: "+m)
			}
		}
		// C11: same bytes again, and after permuting the order-irrelevant parts
		for k := 0; k < reps; k++ {
			for t := range fields {
				l := fields[t]
				r.Shuffle(len(l), func(i, j int) { l[i], l[j] = l[j], l[i] })
			}
			for t := range doc.RelData {
				l := doc.RelData[t]
				r.Shuffle(len(l), func(i, j int) { l[i], l[j] = l[j], l[i] })
			}
			ids := map[string]bool{}
			distinct := true
			for _, res := range doc.Included {
				if ids[res.Get("id").(string)] {
					distinct = false
				}
				ids[res.Get("id").(string)] = true
			}
			if distinct {
				r.Shuffle(len(doc.Included), func(i, j int) { doc.Included[i], doc.Included[j] = doc.Included[j], doc.Included[i] })
			}
			var out2 []byte
			guard(func() { out2, _ = jsonapi.MarshalDocument(doc, url) })
			if !bytes.Equal(out, out2) {
				v.fail("C11", "output changes between calls or under reordering")
			}
		}
		for i, res := range all {
			after := snapshot(res)
			for k, x := range before[fmt.Sprint(i)] {
				if after[k] != x {
					v.fail("C11", "marshaling changed what is read from a resource ("+k+")")
				}
			}
		}
		if a := urlSnap(url); a != urlBefore {
			v.fail("C11", "marshaling changed what is read from the URL: "+urlBefore+" became "+a)
		}
		// the output depends on the URL's content only: the URL that was just used, its
		// selection edited (one name swapped for another, as many names as before), gives
		// what a fresh URL of the same content gives
		if err == nil && r.chance(1, 4) {
			for _, st := range ts {
				sel := fields[st.typ.Name]
				var other string
				for _, f := range fieldsIndep(st.typ) {
					if !inList(sel, f) {
						other = f
						break
					}
				}
				if len(sel) > 0 && other != "" {
					c2 := append([]string{}, sel...)
					c2[r.IntN(len(c2))] = other
					fields[st.typ.Name] = c2
					var outUsed, outFresh []byte
					guard(func() { outUsed, _ = jsonapi.MarshalDocument(doc, url) })
					guard(func() { outFresh, _ = jsonapi.MarshalDocument(doc, mkURL()) })
					if !bytes.Equal(outUsed, outFresh) {
						v.fail("C11", "a URL that was used before and a fresh URL of the same content give different output")
					}
					fields[st.typ.Name] = sel
					o.stat("url.edited-and-reused")
					break
				}
			}
		}
		if aliased != "" {
			v.fail("C04", aliased)
		}
		pv := v.String()
		o.emit(op, obs, pv)
		if c%2 == 0 {
			emitJSONText(o, out, obs, tree)
		}
		// the unmarshaling half of the round trip, against the model's UnmarshalDocument
		o.emit(lst("unm", "doc", sxSSchema(ts), sxDocSke(out)), obsU, "na")
	}
}

func roundTrip(back *jsonapi.Document, doc *jsonapi.Document, fields map[string][]string, prim []jsonapi.Resource, truth map[jsonapi.Resource]*resTruth) (string, string) {
	if len(doc.Errors) > 0 {
		if back.Data != nil {
			return "C02", "errors document came back with data"
		}
		if len(back.Errors) != len(doc.Errors) {
			return "C02", "number of errors"
		}
		for i := range doc.Errors {
			a, b := doc.Errors[i], back.Errors[i]
			if a.ID != b.ID || a.Code != b.Code || a.Status != b.Status || a.Title != b.Title || a.Detail != b.Detail {
				return "C02", "error object members"
			}
			if sxErrorObj(a) != sxErrorObj(b) {
				return "C02", "error object links/source/meta"
			}
		}
		return "", ""
	}
	cmp := func(a, b jsonapi.Resource) string {
		t := a.GetType().Name
		if tr := truth[a]; tr != nil {
			t = tr.typ.Name
		}
		return sameResource(a, b, fields[t], doc.RelData[t], truth[a])
	}
	switch x := doc.Data.(type) {
	case nil:
		if back.Data != nil {
			return "C02", "null data came back as something"
		}
	case jsonapi.Identifier:
		res, ok := back.Data.(jsonapi.Resource)
		if !ok || res.Get("id") != x.ID || res.GetType().Name != x.Type {
			return "C02", "identifier"
		}
	case jsonapi.Identifiers:
		col, ok := back.Data.(jsonapi.Collection)
		if !ok || col.Len() != len(x) {
			return "C02", fmt.Sprintf("identifiers came back as %T", back.Data)
		}
		for i := range x {
			if col.At(i).Get("id") != x[i].ID || col.At(i).GetType().Name != x[i].Type {
				return "C02", "identifiers: element"
			}
		}
	case jsonapi.Collection:
		col, ok := back.Data.(jsonapi.Collection)
		if !ok || col.Len() != len(prim) {
			return "C02", fmt.Sprintf("collection came back as %T", back.Data)
		}
		for i := range prim {
			if m := cmp(prim[i], col.At(i)); m != "" {
				return "C01,C02", m
			}
		}
	case jsonapi.Resource:
		res, ok := back.Data.(jsonapi.Resource)
		if !ok {
			return "C02", fmt.Sprintf("resource came back as %T", back.Data)
		}
		if m := cmp(x, res); m != "" {
			return "C01,C02", m
		}
	}
	if len(back.Included) != len(doc.Included) {
		return "C02", "number of included resources"
	}
	for _, a := range doc.Included {
		found := false
		for _, b := range back.Included {
			if truthKeyOf(truth, a) == resKeyOf(b) && cmp(a, b) == "" {
				found = true
			}
		}
		if !found {
			return "C02", "included resource " + truthKeyOf(truth, a) + " did not come back with equal values"
		}
	}
	if sxMetaMap(doc.Meta) != sxMetaMap(back.Meta) {
		return "C02", "meta"
	}
	return "", ""
}

func init() { suites["document"] = suiteDocument }
