module verif/harness

go 1.22

require github.com/mfcochauxlaberge/jsonapi v0.0.0

replace github.com/mfcochauxlaberge/jsonapi => /repo
