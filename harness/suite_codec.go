package main

import (
	"encoding/base64"
	"encoding/json"
	"fmt"
	"time"
)

// The `codec` suite (C01, C02, C06): the two delegated decoders against the modelled ones,
// on what the encoders write. For a generated time / byte string: the real encoder's text
// and what the real decoder (encoding/json into time.Time / []byte, as the library decodes
// attributes) reads back from it, against the model's formatTime + parseRFC3339 and
// b64enc + b64decode. Verdict: the decoder gives the value back (the codec law the round
// trip theorems are instantiated with).
func suiteCodec(r *Rng, n int, thorough bool, o *Out) {
	for c := 0; c < n; c++ {
		if r.bool() {
			t := genTime(r)
			_, off := t.Zone()
			op := lst("codec", "time", fmt.Sprint(t.Unix()), itoa(t.Nanosecond()), itoa(off))
			raw, err := json.Marshal(t)
			if err != nil || len(raw) < 2 {
				o.emit(op, "encode-error", "FAIL:harness: generated a time outside MarshalJSON's domain")
				continue
			}
			txt := string(raw[1 : len(raw)-1])
			var back time.Time
			pv := "ok"
			obs := "none"
			if err := json.Unmarshal(raw, &back); err != nil {
				pv = "FAIL[C01,C02,C06]:the written time does not parse back: " + err.Error()
			} else {
				_, boff := back.Zone()
				obs = lst("ok", fmt.Sprint(back.Unix()), itoa(back.Nanosecond()), itoa(boff))
				if !back.Equal(t) || boff != off {
					pv = "FAIL[C01,C02,C06]:the written time parses back as another instant or zone"
				}
			}
			switch {
			case off == 0:
				o.stat("time.utc")
			default:
				o.stat("time.zoned")
			}
			if t.Nanosecond() == 0 {
				o.stat("time.nofrac")
			}
			o.emit(op, lst(hx(txt), obs), pv)
		} else {
			b := genBytes(r)
			if r.chance(1, 3) {
				b = make([]byte, r.IntN(40))
				for i := range b {
					b[i] = byte(r.IntN(256))
				}
			}
			op := lst("codec", "b64", hx(string(b)))
			raw, _ := json.Marshal(b)
			txt := string(raw[1 : len(raw)-1])
			pv := "ok"
			obs := "none"
			var back []byte
			if err := json.Unmarshal(raw, &back); err != nil {
				pv = "FAIL[C01,C02,C06]:the written byte string does not parse back"
			} else {
				obs = lst("ok", hx(string(back)))
				if string(back) != string(b) {
					pv = "FAIL[C01,C02,C06]:the written byte string parses back differently"
				}
			}
			if d, err := base64.StdEncoding.DecodeString(txt); err != nil || string(d) != string(b) {
				pv = "FAIL[C01,C02,C06]:base64.StdEncoding does not decode what encoding/json wrote"
			}
			o.stat(fmt.Sprintf("b64.len%%3=%d", len(b)%3))
			o.emit(op, lst(hx(txt), obs), pv)
		}
	}
}

func init() { suites["codec"] = suiteCodec }
