package main

import (
	"encoding/base64"
	"encoding/json"
	"fmt"
	"strings"
	"time"
)

// The `codec` suite (C01, C02, C06): the two delegated decoders against the modelled ones,
// on what the encoders write. For a generated time / byte string: the real encoder's text
// and what the real decoder (encoding/json into time.Time / []byte, as the library decodes
// attributes) reads back from it, against the model's formatTime + parseRFC3339 and
// b64enc + b64decode. Verdict: the decoder gives the value back (the codec law the round
// trip theorems are instantiated with).
func suiteCodec(r *Rng, n int, thorough bool, o *Out) {
	for c := 0; c < n; c++ {
		if r.bool() {
			t := genTime(r)
			_, off := t.Zone()
			op := lst("codec", "time", fmt.Sprint(t.Unix()), itoa(t.Nanosecond()), itoa(off))
			raw, err := json.Marshal(t)
			if err != nil || len(raw) < 2 {
				o.emit(op, "encode-error", "FAIL:harness: generated a time outside MarshalJSON's domain")
				continue
			}
			txt := string(raw[1 : len(raw)-1])
			var back time.Time
			pv := "ok"
			obs := "none"
			if err := json.Unmarshal(raw, &back); err != nil {
				pv = "FAIL[C01,C02,C06]:the written time does not parse back: " + err.Error()
			} else {
				_, boff := back.Zone()
				obs = lst("ok", fmt.Sprint(back.Unix()), itoa(back.Nanosecond()), itoa(boff))
				if !back.Equal(t) || boff != off {
					pv = "FAIL[C01,C02,C06]:the written time parses back as another instant or zone"
				}
			}
			switch {
			case off == 0:
				o.stat("time.utc")
			default:
				o.stat("time.zoned")
			}
			if t.Nanosecond() == 0 {
				o.stat("time.nofrac")
			}
			o.emit(op, lst(hx(txt), obs), pv)
		} else {
			b := genBytes(r)
			if r.chance(1, 3) {
				b = make([]byte, r.IntN(40))
				for i := range b {
					b[i] = byte(r.IntN(256))
				}
			}
			op := lst("codec", "b64", hx(string(b)))
			raw, _ := json.Marshal(b)
			txt := string(raw[1 : len(raw)-1])
			pv := "ok"
			obs := "none"
			var back []byte
			if err := json.Unmarshal(raw, &back); err != nil {
				pv = "FAIL[C01,C02,C06]:the written byte string does not parse back"
			} else {
				obs = lst("ok", hx(string(back)))
				if string(back) != string(b) {
					pv = "FAIL[C01,C02,C06]:the written byte string parses back differently"
				}
			}
			if d, err := base64.StdEncoding.DecodeString(txt); err != nil || string(d) != string(b) {
				pv = "FAIL[C01,C02,C06]:base64.StdEncoding does not decode what encoding/json wrote"
			}
			o.stat(fmt.Sprintf("b64.len%%3=%d", len(b)%3))
			o.emit(op, lst(hx(txt), obs), pv)
		}
	}
}

// emitJSONText: the bytes encoding/json wrote against the model's byte-level rendering of
// the tree the harness's reader made of them, and the model's parser on the real bytes.
func emitJSONText(o *Out, out []byte, treeSx string, tree *jnode) {
	if tree == nil || strings.HasPrefix(treeSx, "duplicate") || strings.HasPrefix(treeSx, "invalid") {
		return
	}
	o.emit(lst("json", "text", treeSx), lst(hx(string(out)), "ok"), "na")
	o.emit(lst("json", "parse", hx(string(out)), treeSx), "same-tree", "na")
}

var jsonStrPool = []string{"", "a", "\"", "\\", "a\"b\\c", "\n\r\t\b\f", "\x00\x01\x1f", "<>&", "\x7f", "\u2028", "\u2029x", "é", "日本", "\U0001F600", "</script>", "a\u2028b\u2029", "\xe2\x80", "{}", "[1,2]", "null", " ", "/"}

func genJSONValue(r *Rng, depth int) any {
	switch k := r.IntN(9); {
	case k == 0:
		return nil
	case k == 1:
		return r.bool()
	case k == 2:
		return []any{int64(0), int64(-1), int64(r.IntN(100000)), -int64(r.IntN(1 << 40)), uint64(1<<63 + 5)}[r.IntN(5)]
	case k == 3:
		return []float64{0.5, -1.25, 1e21, 1e-7, 1e20, 123456.789, 3}[r.IntN(7)]
	case k <= 5 || depth <= 0:
		s := jsonStrPool[r.IntN(len(jsonStrPool))]
		if r.chance(1, 4) {
			s += jsonStrPool[r.IntN(len(jsonStrPool))]
		}
		return utf8ify(s)
	case k == 6:
		n := r.IntN(4)
		l := make([]any, n)
		for i := range l {
			l[i] = genJSONValue(r, depth-1)
		}
		return l
	default:
		n := r.IntN(4)
		m := map[string]any{}
		for i := 0; i < n; i++ {
			m[utf8ify(jsonStrPool[r.IntN(len(jsonStrPool))]).(string)] = genJSONValue(r, depth-1)
		}
		return m
	}
}

// the `jsontext` suite (C03): encoding/json's bytes for random value trees full of
// escape-worthy strings against the model's rendering and parser.
func suiteJSONText(r *Rng, n int, thorough bool, o *Out) {
	for c := 0; c < n; c++ {
		v := genJSONValue(r, 3)
		out, err := json.Marshal(v)
		if err != nil {
			continue
		}
		obs, tree := jsonSx(out)
		if tree == nil {
			o.emit(lst("json", "text", "null"), "invalid", "FAIL[C03]:C03 encoding/json wrote bytes the harness's reader rejects")
			continue
		}
		emitJSONText(o, out, obs, tree)
	}
}

func init() {
	suites["codec"] = suiteCodec
	suites["jsontext"] = suiteJSONText
}
