package main

import (
	"fmt"
	"reflect"
	"strings"

	"github.com/mfcochauxlaberge/jsonapi"
)

// alias suite (C18): copy / New, then mutate one side through every channel and read
// all resources after each step.

type aliasRes struct {
	res  jsonapi.Resource
	keys []string // fields set at creation
}

func aliasObs(rs []aliasRes) string {
	items := make([]string, len(rs))
	for i, ar := range rs {
		t := ar.res.GetType()
		fields := fieldsIndep(t) // (the names in the type's maps, read directly)
		vals := []string{}
		for _, k := range ar.keys {
			if inList(fields, k) {
				vals = append(vals, lst(hx(k), canonSx(ar.res.Get(k))))
			}
		}
		items[i] = lst(hxs(fields), hx(ar.res.Get("id").(string)), lst(vals...))
	}
	return lst(items...)
}

func suiteAlias(r *Rng, n int, thorough bool, o *Out) {
	kinds := []int{jsonapi.AttrTypeBytes, jsonapi.AttrTypeBytes, jsonapi.AttrTypeString, jsonapi.AttrTypeInt, jsonapi.AttrTypeTime}
	for c := 0; c < n; c++ {
		ks := kinds
		if r.chance(1, 3) {
			ks = nil // every kind: a copy has the source's value whatever the attribute's Go type
		}
		typ := genTyp(r, genTypeOpts{name: "t", maxAttrs: 4, maxRels: 3, kinds: ks})
		wrapped := r.bool()
		var res jsonapi.Resource
		if wrapped {
			res = newWrapped(typ)
			o.stat("kind.wrapped")
		} else {
			res = newSoft(typ)
			o.stat("kind.soft")
			if r.chance(1, 3) {
				// a soft resource over a type that was built from a struct (it carries a
				// NewFunc): Copy and New still give soft resources with this resource's fields
				if bt, err := jsonapi.BuildType(reflect.New(structTypeFor(typ)).Interface()); err == nil && sxType(stripNewFunc(bt)) == sxType(typ) {
					res = &jsonapi.SoftResource{Type: &bt}
					o.stat("kind.soft-with-newfunc")
				}
			}
		}
		vals := genFieldVals(r, typ)
		for k, rel := range typ.Rels {
			if !rel.ToOne {
				vals[k] = []string{"c", "a", "b"}[:1+r.IntN(3)]
			}
		}
		for k, a := range typ.Attrs {
			if a.Type == jsonapi.AttrTypeBytes && r.chance(2, 3) {
				b := []byte{3, 1, 2}
				if a.Nullable && r.chance(1, 3) {
					b = []byte{} // a non-nil pointer to an empty slice is a value too
				}
				if a.Nullable {
					vals[k] = &b
				} else {
					vals[k] = b
				}
			}
		}
		fill(res, "1", vals)
		keys := sortedKeys(vals)
		rs := []aliasRes{{res, keys}}
		vs := make([]string, len(keys))
		for i, k := range keys {
			vs[i] = lst(hx(k), sxVal(vals[k])) // what was written (not what Get says was)
		}
		o.emit(lst("alias", "new", b01(wrapped), sxType(typ), lst(vs...)), aliasObs(rs), "ok")
		for h := 2 + r.IntN(8); h > 0; h-- {
			i := r.IntN(len(rs))
			target := rs[i]
			if r.chance(1, 3) {
				// a nullable bytes attribute read from the target is REPLACED through the
				// pointer Get hands out (also when it points to an empty slice), the other
				// resources are read, and the old value is put back: nothing read from another
				// resource may move (no state changes, so the model is not told)
				for _, k := range target.keys {
					p, isPtr := target.res.Get(k).(*[]byte)
					if !isPtr || p == nil {
						continue
					}
					others := make([]string, len(rs))
					for j := range rs {
						others[j] = aliasObs(rs[j : j+1])
					}
					old := *p
					*p = []byte("written through the pointer")
					for j := range rs {
						if j != i && aliasObs(rs[j:j+1]) != others[j] {
							o.emit(lst("alias", "pointer-write", itoa(i), hx(k)), "changed", fmt.Sprintf("FAIL:replacing the bytes of resource %d through the pointer read from it changed what is read from resource %d", i, j))
						}
					}
					*p = old
					o.stat("op.pointer-write-undone")
					break
				}
			}
			before := make([]string, len(rs))
			for j := range rs {
				before[j] = aliasObs(rs[j : j+1])
			}
			var op string
			created := false
			panicked := false
			msg := ""
			tt := target.res.GetType()
			fields := fieldsIndep(tt)
			pick := func(pred func(k string) bool) string {
				var c []string
				for _, k := range target.keys {
					if inList(fields, k) && pred(k) {
						c = append(c, k)
					}
				}
				if len(c) == 0 {
					return ""
				}
				return c[r.IntN(len(c))]
			}
			isBytes := func(k string) bool {
				switch v := target.res.Get(k).(type) {
				case []byte:
					return len(v) > 0
				case *[]byte:
					return v != nil && len(*v) > 0
				}
				return false
			}
			isStrs := func(k string) bool { v, ok := target.res.Get(k).([]string); return ok && len(v) > 0 }
			switch r.IntN(9) {
			case 0:
				op = lst("alias", "copy", itoa(i))
				panicked, msg = guard(func() { rs = append(rs, aliasRes{target.res.(jsonapi.Copier).Copy(), target.keys}) })
				created = true
				o.stat("op.copy")
			case 1:
				op = lst("alias", "newof", itoa(i))
				panicked, msg = guard(func() { rs = append(rs, aliasRes{target.res.(jsonapi.Copier).New(), nil}) })
				created = true
				o.stat("op.new")
			case 2:
				if k := pick(isBytes); k != "" {
					idx := 0
					op = lst("alias", "op", itoa(i), lst("writebytes", hx(k), itoa(idx), "9"))
					panicked, msg = guard(func() {
						switch v := target.res.Get(k).(type) {
						case []byte:
							v[idx] = 9
						case *[]byte:
							(*v)[idx] = 9
						}
					})
					o.stat("op.writebytes")
				}
			case 3:
				if k := pick(isStrs); k != "" {
					op = lst("alias", "op", itoa(i), lst("writestr", hx(k), "0", hx("zz")))
					panicked, msg = guard(func() { target.res.Get(k).([]string)[0] = "zz" })
					o.stat("op.writestr")
				}
			case 4:
				op = lst("alias", "op", itoa(i), lst("marshal"))
				panicked, msg = guard(func() {
					_ = jsonapi.MarshalResource(target.res, "/", fields, map[string][]string{tt.Name: fields})
				})
				o.stat("op.marshal")
			case 5:
				if k := pick(isStrs); k != "" {
					n := len(target.res.Get(k).([]string))
					cv := make([]string, n)
					for j := range cv {
						cv[j] = "q"
					}
					op = lst("alias", "op", itoa(i), lst("filter", hx(k)))
					panicked, msg = guard(func() { (&jsonapi.Filter{Field: k, Op: "=", Val: cv}).IsAllowed(target.res) })
					o.stat("op.filter")
				}
			case 6:
				if k := pick(func(k string) bool {
					_, ok := tt.Attrs[k]
					return ok && tt.Attrs[k].Type == jsonapi.AttrTypeBytes && !tt.Attrs[k].Nullable
				}); k != "" {
					nb := []byte{7, 7}
					op = lst("alias", "op", itoa(i), lst("setbytes", hx(k), hx(string(nb))))
					panicked, msg = guard(func() { target.res.Set(k, nb) })
					o.stat("op.setbytes")
				}
			case 7:
				op = lst("alias", "op", itoa(i), lst("setid", hx("changed")))
				panicked, msg = guard(func() { target.res.Set("id", "changed") })
			default:
				if sr, ok := target.res.(*jsonapi.SoftResource); ok {
					if r.bool() && len(fields) > 0 {
						f := fields[r.IntN(len(fields))]
						op = lst("alias", "op", itoa(i), lst("removefield", hx(f)))
						panicked, msg = guard(func() { sr.RemoveField(f) })
						o.stat("op.removefield")
					} else {
						a := jsonapi.Attr{Name: "extra", Type: jsonapi.AttrTypeInt}
						op = lst("alias", "op", itoa(i), lst("addattr", sxAttr(a)))
						panicked, msg = guard(func() { sr.AddAttr(a) })
						o.stat("op.addattr")
					}
				}
			}
			if op == "" {
				continue
			}
			if panicked {
				o.emit(op, "panic", "FAIL:panic: "+msg)
				break
			}
			pv := "ok"
			for j := range before {
				if j == i && !created {
					continue
				}
				if aliasObs(rs[j:j+1]) != before[j] {
					pv = fmt.Sprintf("FAIL:an operation on resource %d changed what is read from resource %d", i, j)
				}
			}
			if created {
				nw := rs[len(rs)-1]
				if strings.HasPrefix(op, "(alias copy") && aliasObs([]aliasRes{{nw.res, target.keys}}) != before[i] {
					pv = "FAIL:the copy does not read like its source"
				}
				if strings.HasPrefix(op, "(alias newof") {
					nt := nw.res.GetType()
					if nt.Name != tt.Name || strings.Join(nt.Fields(), ",") != strings.Join(fields, ",") || nw.res.Get("id") != "" {
						pv = "FAIL:New does not return a zero-valued resource of the same type"
					}
					// zero-valued: every field reads the zero of its kind (the harness's own)
					for _, f := range fields {
						if got, want := canonSx(nw.res.Get(f)), canonSx(zeroFieldIndep(tt, f)); got != want && pv == "ok" {
							pv = fmt.Sprintf("FAIL:New: field %s of the new resource reads %s, not its zero value %s", f, got, want)
						}
					}
				}
			}
			o.emit(op, aliasObs(rs), pv)
		}
	}
}

func init() { suites["alias"] = suiteAlias }
