package main

import (
	"encoding/hex"
	"strconv"
	"strings"
)

// Wire format shared with the Lean driver: S-expressions, byte strings as x<hex>.

func hx(s string) string { return "x" + hex.EncodeToString([]byte(s)) }

func lst(items ...string) string { return "(" + strings.Join(items, " ") + ")" }

func b01(b bool) string {
	if b {
		return "1"
	}
	return "0"
}

func itoa(i int) string { return strconv.Itoa(i) }

func hxs(l []string) string {
	out := make([]string, len(l))
	for i := range l {
		out[i] = hx(l[i])
	}
	return lst(out...)
}
