package main

import (
	"errors"
	"strings"
	"unicode/utf16"
	"unicode/utf8"
)

// An independent JSON reader: parses bytes into a tree keeping object member order,
// number literals as text and strings decoded; reports syntax errors. Used to observe
// what the library marshals (syntactic validity is checked on every case here rather
// than assumed from encoding/json).

type jnode struct {
	kind  byte // 'n' null, 't' true, 'f' false, '0' number, 's' string, 'a' array, 'o' object
	text  string
	items []*jnode
	keys  []string
}

type jparser struct {
	b []byte
	i int
}

func parseJSON(b []byte) (*jnode, error) {
	p := &jparser{b: b}
	p.ws()
	n, err := p.value(0)
	if err != nil {
		return nil, err
	}
	p.ws()
	if p.i != len(p.b) {
		return nil, errors.New("trailing data")
	}
	return n, nil
}

func (p *jparser) ws() {
	for p.i < len(p.b) && (p.b[p.i] == ' ' || p.b[p.i] == '\t' || p.b[p.i] == '\n' || p.b[p.i] == '\r') {
		p.i++
	}
}

func (p *jparser) lit(s string, k byte) (*jnode, error) {
	if strings.HasPrefix(string(p.b[p.i:]), s) {
		p.i += len(s)
		return &jnode{kind: k}, nil
	}
	return nil, errors.New("bad literal")
}

func (p *jparser) value(depth int) (*jnode, error) {
	if depth > 10000 {
		return nil, errors.New("too deep")
	}
	if p.i >= len(p.b) {
		return nil, errors.New("unexpected end")
	}
	switch c := p.b[p.i]; {
	case c == 'n':
		return p.lit("null", 'n')
	case c == 't':
		return p.lit("true", 't')
	case c == 'f':
		return p.lit("false", 'f')
	case c == '"':
		s, err := p.str()
		if err != nil {
			return nil, err
		}
		return &jnode{kind: 's', text: s}, nil
	case c == '[':
		p.i++
		n := &jnode{kind: 'a'}
		p.ws()
		if p.i < len(p.b) && p.b[p.i] == ']' {
			p.i++
			return n, nil
		}
		for {
			p.ws()
			v, err := p.value(depth + 1)
			if err != nil {
				return nil, err
			}
			n.items = append(n.items, v)
			p.ws()
			if p.i >= len(p.b) {
				return nil, errors.New("unexpected end")
			}
			if p.b[p.i] == ',' {
				p.i++
				continue
			}
			if p.b[p.i] == ']' {
				p.i++
				return n, nil
			}
			return nil, errors.New("bad array")
		}
	case c == '{':
		p.i++
		n := &jnode{kind: 'o'}
		p.ws()
		if p.i < len(p.b) && p.b[p.i] == '}' {
			p.i++
			return n, nil
		}
		for {
			p.ws()
			if p.i >= len(p.b) || p.b[p.i] != '"' {
				return nil, errors.New("bad key")
			}
			k, err := p.str()
			if err != nil {
				return nil, err
			}
			p.ws()
			if p.i >= len(p.b) || p.b[p.i] != ':' {
				return nil, errors.New("missing colon")
			}
			p.i++
			p.ws()
			v, err := p.value(depth + 1)
			if err != nil {
				return nil, err
			}
			n.keys = append(n.keys, k)
			n.items = append(n.items, v)
			p.ws()
			if p.i >= len(p.b) {
				return nil, errors.New("unexpected end")
			}
			if p.b[p.i] == ',' {
				p.i++
				continue
			}
			if p.b[p.i] == '}' {
				p.i++
				return n, nil
			}
			return nil, errors.New("bad object")
		}
	case c == '-' || (c >= '0' && c <= '9'):
		start := p.i
		if c == '-' {
			p.i++
		}
		if p.i >= len(p.b) {
			return nil, errors.New("bad number")
		}
		if p.b[p.i] == '0' {
			p.i++
		} else if p.b[p.i] >= '1' && p.b[p.i] <= '9' {
			for p.i < len(p.b) && p.b[p.i] >= '0' && p.b[p.i] <= '9' {
				p.i++
			}
		} else {
			return nil, errors.New("bad number")
		}
		if p.i < len(p.b) && p.b[p.i] == '.' {
			p.i++
			d := p.i
			for p.i < len(p.b) && p.b[p.i] >= '0' && p.b[p.i] <= '9' {
				p.i++
			}
			if p.i == d {
				return nil, errors.New("bad fraction")
			}
		}
		if p.i < len(p.b) && (p.b[p.i] == 'e' || p.b[p.i] == 'E') {
			p.i++
			if p.i < len(p.b) && (p.b[p.i] == '+' || p.b[p.i] == '-') {
				p.i++
			}
			d := p.i
			for p.i < len(p.b) && p.b[p.i] >= '0' && p.b[p.i] <= '9' {
				p.i++
			}
			if p.i == d {
				return nil, errors.New("bad exponent")
			}
		}
		return &jnode{kind: '0', text: string(p.b[start:p.i])}, nil
	}
	return nil, errors.New("unexpected character")
}

func hex4(b []byte) (rune, bool) {
	if len(b) < 4 {
		return 0, false
	}
	var r rune
	for _, c := range b[:4] {
		r <<= 4
		switch {
		case c >= '0' && c <= '9':
			r |= rune(c - '0')
		case c >= 'a' && c <= 'f':
			r |= rune(c-'a') + 10
		case c >= 'A' && c <= 'F':
			r |= rune(c-'A') + 10
		default:
			return 0, false
		}
	}
	return r, true
}

func (p *jparser) str() (string, error) {
	p.i++ // opening quote
	var sb []byte
	for {
		if p.i >= len(p.b) {
			return "", errors.New("unterminated string")
		}
		c := p.b[p.i]
		switch {
		case c == '"':
			p.i++
			return string(sb), nil
		case c < 0x20:
			return "", errors.New("control character in string")
		case c == '\\':
			p.i++
			if p.i >= len(p.b) {
				return "", errors.New("bad escape")
			}
			e := p.b[p.i]
			p.i++
			switch e {
			case '"', '\\', '/':
				sb = append(sb, e)
			case 'b':
				sb = append(sb, '\b')
			case 'f':
				sb = append(sb, '\f')
			case 'n':
				sb = append(sb, '\n')
			case 'r':
				sb = append(sb, '\r')
			case 't':
				sb = append(sb, '\t')
			case 'u':
				r, ok := hex4(p.b[p.i:])
				if !ok {
					return "", errors.New("bad \\u escape")
				}
				p.i += 4
				if utf16.IsSurrogate(r) {
					if p.i+6 <= len(p.b) && p.b[p.i] == '\\' && p.b[p.i+1] == 'u' {
						if r2, ok := hex4(p.b[p.i+2:]); ok {
							if dec := utf16.DecodeRune(r, r2); dec != utf8.RuneError {
								p.i += 6
								sb = utf8.AppendRune(sb, dec)
								continue
							}
						}
					}
					r = utf8.RuneError
				}
				sb = utf8.AppendRune(sb, r)
			default:
				return "", errors.New("bad escape")
			}
		default:
			sb = append(sb, c)
			p.i++
		}
	}
}

// sx of a tree; dup reports duplicate object keys found anywhere
func (n *jnode) sx(dup *bool) string {
	switch n.kind {
	case 'n':
		return "null"
	case 't':
		return "(b 1)"
	case 'f':
		return "(b 0)"
	case '0':
		return lst("n", hx(n.text))
	case 's':
		return lst("s", hx(n.text))
	case 'a':
		items := make([]string, len(n.items))
		for i := range n.items {
			items[i] = n.items[i].sx(dup)
		}
		return lst(append([]string{"a"}, items...)...)
	default:
		seen := map[string]bool{}
		items := make([]string, len(n.items))
		for i := range n.items {
			if seen[n.keys[i]] {
				*dup = true
			}
			seen[n.keys[i]] = true
			items[i] = lst(hx(n.keys[i]), n.items[i].sx(dup))
		}
		return lst(append([]string{"o"}, items...)...)
	}
}

func (n *jnode) get(k string) *jnode {
	if n == nil || n.kind != 'o' {
		return nil
	}
	for i := range n.keys {
		if n.keys[i] == k {
			return n.items[i]
		}
	}
	return nil
}

// jsonSx parses marshaled bytes and returns the tree's sx, or "invalid-json".
func jsonSx(b []byte) (string, *jnode) {
	n, err := parseJSON(b)
	if err != nil {
		return "invalid-json", nil
	}
	dup := false
	s := n.sx(&dup)
	if dup {
		return "duplicate-keys " + s, n
	}
	return s, n
}
