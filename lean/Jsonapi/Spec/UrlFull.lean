/-
net/url on ARBITRARY raw strings: `url.Parse(s)` (error or `u.Path`) and `u.Query()`.

Go version modelled: go1.23.5 (`$GOROOT/src/net/url/url.go`: Parse, parse, getScheme,
parseAuthority, parseHost, validOptionalPort, validUserinfo, setPath, setFragment, unescape,
shouldEscape, Query, ParseQuery, parseQuery, stringContainsCTLByte). Only what decides the two
results `NewSimpleURL` reads — the error, `u.Path`, `u.Query()` — is computed; scheme, user,
host, opaque text, fragment are validated (their errors make Parse fail) and dropped.

  Parse(s):  cut at the first '#'  (u, frag);  parse(u);  then, when frag ≠ "", the fragment
             must unescape (only its %-escapes are checked: control bytes are legal there).
  parse(u):  a control byte (< 0x20 or 0x7f) anywhere in u is an error;
             getScheme: `[a-zA-Z][a-zA-Z0-9+-.]*:` is a scheme; a leading ':' is an error; any
             other byte before a ':' means "no scheme";
             the rest is cut at the first '?' (RawQuery; a lone trailing '?' — ForceQuery —
             gives the same rest and an empty RawQuery);
             rest without a leading '/':  with a scheme the URL is opaque (`Path = ""`, the
             query is kept); without one, a ':' in the first segment is an error;
             rest starting with "//" (and, without a scheme, not with "///") has an authority
             up to the next '/': userinfo '@' host, validated; the path is what follows;
             Path = unescape(rest) in path mode ('+' stays), an invalid escape is an error.
  Query():   RawQuery split on '&'; a piece containing ';' is dropped; an empty piece is
             skipped; key = text before the first '=', value after it ("" without '=');
             both unescaped in query mode ('+' is a space); a piece whose key or value has an
             invalid escape is dropped, the others are kept (Query() ignores the error).
             The model's map lists the keys in order of first occurrence (a Go map has no
             order: the harness sorts, and C07's theorems are order-independent).

`parse`'s special case `rawURL == "*"` is not a separate branch here: the general path gives
the same answer (`goUrlParse_star`).
-/
import Jsonapi.Spec.Url
namespace Jsonapi.Spec
open Jsonapi

def isCTL (b : UInt8) : Bool := b < 32 || b = 127

/-- `stringContainsCTLByte` -/
def hasCTL (s : GoString) : Bool := s.any isCTL

def isAlpha (c : UInt8) : Bool := (97 ≤ c && c ≤ 122) || (65 ≤ c && c ≤ 90)
def isDigit (c : UInt8) : Bool := 48 ≤ c && c ≤ 57

/-- a byte that may follow the first byte of a scheme: letter, digit, '+', '-', '.' -/
def isSchemeByte (c : UInt8) : Bool := isAlpha c || isDigit c || c = 43 || c = 45 || c = 46

/-- `getScheme` after the first (alphabetic) byte: the text after the ':' that ends the
scheme, `none` when a byte that cannot be in a scheme (or the end) comes first -/
def schemeTail : GoString → Option GoString
  | [] => none
  | c :: rest =>
    if isSchemeByte c then schemeTail rest
    else if c = 58 then some rest
    else none

inductive Scheme where
  | missing                    -- "missing protocol scheme": the string starts with ':'
  | absent                     -- no scheme: the whole string is the rest
  | present (rest : GoString)  -- `scheme:` + rest
deriving Repr, DecidableEq

/-- `getScheme` -/
def getScheme : GoString → Scheme
  | [] => .absent
  | c :: rest =>
    if isAlpha c then (match schemeTail rest with | some r => .present r | none => .absent)
    else if c = 58 then .missing
    else .absent

/-- split at the LAST occurrence of `sep`: (text before it, text after it) -/
def cutLast (sep : UInt8) (s : GoString) : Option (GoString × GoString) :=
  match cut sep s.reverse with
  | (_, none) => none
  | (b, some a) => some (a.reverse, b.reverse)

/-- `validOptionalPort`: "" or ':' followed by digits only -/
def validOptionalPort : GoString → Bool
  | [] => true
  | c :: ds => c = 58 && ds.all isDigit

/-- `!shouldEscape(c, encodeHost)` for an ASCII byte: alphanumerics,
`! $ & ' ( ) * + , ; = : [ ] < > "` and `- _ . ~` -/
def asciiHostOk (c : UInt8) : Bool :=
  isAlpha c || isDigit c ||
  [33, 36, 38, 39, 40, 41, 42, 43, 44, 59, 61, 58, 91, 93, 60, 62, 34, 45, 95, 46, 126].contains c

/-- a literal byte of a host or zone: non-ASCII bytes pass, ASCII ones must not need escaping -/
def hostByteOk (c : UInt8) : Bool := c ≥ 128 || asciiHostOk c

/-- `unescape(s, encodeHost)` succeeds: every '%' is followed by two hex digits and escapes
an non-ASCII byte (first digit ≥ 8) or is "%25"; every other ASCII byte is a host byte -/
def unescHostOk : GoString → Bool
  | [] => true
  | 37 :: a :: b :: rest =>
    (match hexVal? a, hexVal? b with
      | some x, some _ => !(x < 8 && !(a = 50 && b = 53))
      | _, _ => false) && unescHostOk rest
  | 37 :: _ => false
  | c :: rest => hostByteOk c && unescHostOk rest

/-- `unescape(s, encodeZone)` succeeds: an escape must be "%25", a space, or an ASCII byte
that could have been written directly -/
def unescZoneOk : GoString → Bool
  | [] => true
  | 37 :: a :: b :: rest =>
    (match hexVal? a, hexVal? b with
      | some x, some y =>
        (a = 50 && b = 53) || x * 16 + y = 32 || (x < 8 && asciiHostOk (UInt8.ofNat (x * 16 + y)))
      | _, _ => false) && unescZoneOk rest
  | 37 :: _ => false
  | c :: rest => hostByteOk c && unescZoneOk rest

/-- `strings.Index(s, "%25")`: the text before the first "%25" and the text from it on -/
def cutAtZone : GoString → Option (GoString × GoString)
  | [] => none
  | c :: rest =>
    if hasPrefix (c :: rest) [37, 50, 53] then some ([], c :: rest)
    else (cutAtZone rest).map (fun p => (c :: p.1, p.2))

/-- `parseHost` succeeds -/
def hostOk (h : GoString) : Bool :=
  if h.head? = some 91 then
    match cutLast 93 h with
    | none => false                       -- missing ']'
    | some (inside, after) =>             -- host[:i], host[i+1:]
      validOptionalPort after &&
      (match cutAtZone inside with
        | some (h1, zone) => unescHostOk h1 && unescZoneOk zone && unescHostOk (93 :: after)
        | none => unescHostOk h)
  else
    (match cutLast 58 h with
      | some (_, port) => port.all isDigit   -- validOptionalPort(host[i:]), host[i] = ':'
      | none => true) && unescHostOk h

/-- `validUserinfo` (it ranges over runes: a non-ASCII byte is never accepted) -/
def validUserinfo (s : GoString) : Bool :=
  s.all (fun c => isAlpha c || isDigit c ||
    [45, 46, 95, 58, 126, 33, 36, 38, 39, 40, 41, 42, 43, 44, 59, 61, 37, 64].contains c)

/-- `parseAuthority` succeeds -/
def authorityOk (a : GoString) : Bool :=
  match cutLast 64 a with
  | none => hostOk a
  | some (ui, h) =>
    hostOk h && validUserinfo ui &&
    (match cut 58 ui with
      | (u, none) => (unescape false u).isSome
      | (u, some p) => (unescape false u).isSome && (unescape false p).isSome)

/-- `parse` after `getScheme` and after the query is cut off: `u.Path` or an error -/
def pathOf (hasScheme : Bool) (rest : GoString) : Option GoString :=
  if rest.head? ≠ some 47 then
    if hasScheme then some []                               -- opaque: Path stays ""
    else if ((cut 47 rest).1).contains 58 then none         -- first path segment with a colon
    else unescape false rest
  else if hasPrefix rest [47, 47] && (hasScheme || !hasPrefix rest [47, 47, 47]) then
    if authorityOk (cut 47 (rest.drop 2)).1 then
      unescape false ((rest.drop 2).drop (cut 47 (rest.drop 2)).1.length)
    else none
  else unescape false rest

/-- `parse` after `getScheme`: the rest is cut at the first '?'; `(u.Path, u.RawQuery)` or an
error -/
def afterScheme (hasScheme : Bool) (rest0 : GoString) : Option (GoString × GoString) :=
  (pathOf hasScheme (cut 63 rest0).1).map (fun p => (p, ((cut 63 rest0).2).getD []))

/-- `parse(u, false)`: `(u.Path, u.RawQuery)` or an error -/
def goParseNoFrag (s : GoString) : Option (GoString × GoString) :=
  if hasCTL s then none
  else match getScheme s with
    | .missing => none
    | .present r => afterScheme true r
    | .absent => afterScheme false s

/-- one piece of the query (`parseQuery`'s loop body after the ';' test) -/
def queryStep (m : GoMap (List GoString)) (pair : GoString) : GoMap (List GoString) :=
  if pair = [] then m
  else
    let (k, v) := cut 61 pair
    match unescape true k, unescape true (v.getD []) with
    | some k', some v' => m.set k' ((m.get? k').getD [] ++ [v'])
    | _, _ => m

/-- `ParseQuery(q)` with the error ignored, as `Query()` does -/
def goParseQuery (q : GoString) : GoMap (List GoString) :=
  ((splitOn 38 q).filter (fun pair => !pair.contains 59)).foldl queryStep []

/-! ### `Query()` said differently: the kept pairs, decoded, grouped by key -/

/-- what one `&`-separated piece contributes: nothing (empty, contains ';', key or value
does not unescape) or a decoded (key, value) -/
def pairEntry (pair : GoString) : Option (GoString × GoString) :=
  if pair = [] ∨ pair.contains 59 = true then none
  else
    match unescape true (cut 61 pair).1, unescape true (((cut 61 pair).2).getD []) with
    | some k, some v => some (k, v)
    | _, _ => none

/-- `m[k] = append(m[k], v)` -/
def addPair (m : GoMap (List GoString)) (kv : GoString × GoString) : GoMap (List GoString) :=
  m.set kv.1 ((m.get? kv.1).getD [] ++ [kv.2])

/-- the values map of a list of decoded pairs -/
def groupPairs (l : List (GoString × GoString)) : GoMap (List GoString) := l.foldl addPair []

/-- `url.Parse(s)`: `none` for an error, else `(u.Path, u.Query())` -/
def goUrlParse (s : GoString) : Option (GoString × GoMap (List GoString)) :=
  match goParseNoFrag (cut 35 s).1 with
  | none => none
  | some (path, rawq) =>
    if (unescape false (((cut 35 s).2).getD [])).isSome then some (path, goParseQuery rawq)
    else none

/-- The strings on which the full parser is `Spec.parseRaw`: no control byte, no '#', no
scheme-like first segment (no ':' before the first '/' or '?'), no authority (`//x`; `///` is
a path), no ';' in the query. Everything `URL.String()` writes is of this form. -/
def plainRef (s : GoString) : Bool :=
  !hasCTL s && !s.contains 35 &&
  !((cut 47 (cut 63 s).1).1).contains 58 &&
  !(hasPrefix (cut 63 s).1 [47, 47] && !hasPrefix (cut 63 s).1 [47, 47, 47]) &&
  !(((cut 63 s).2).getD []).contains 59

end Jsonapi.Spec
