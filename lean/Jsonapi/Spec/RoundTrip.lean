/-
Definitions for the round-trip properties C01 / C02: how `encoding/json` hands a tree
produced by the model's own marshaling back to the unmarshaling code (the skeleton of a
resource object), the codec laws of the delegated decoders, and "same value".
-/
import Jsonapi.Model.Unmarshal
import Jsonapi.Spec.Marshal
import Jsonapi.Spec.Resource
namespace Jsonapi.Spec
open Jsonapi

/-- The delegated decoders of the standard library, with the laws the round trip uses
(parametric treatment: the theorems hold for every decoder satisfying them; the
correspondence harness runs the real ones on every generated case). -/
structure Codecs where
  parseTime : GoString → Option Time          -- time.Time.UnmarshalJSON on the string's content
  b64dec : GoString → Option (List UInt8)     -- base64.StdEncoding decoding
  /-- a time in the domain of time.Time.MarshalJSON (years 1..9999, whole-minute zone
  within ±23:59) parses back to the same instant and zone -/
  TimeOk : Time → Prop
  time_law : ∀ t, TimeOk t → parseTime (formatTime t) = some t
  b64_law : ∀ l, b64dec (b64enc l) = some l

/-- What `encoding/json` decodes one JSON value of the tree to, for the three delegated
target types. Raw bytes: the literal for numbers/booleans/null; for a string only its
first byte (the quote) matters to the library. -/
def rawOf (c : Codecs) : Json → RawVal
  | .null => { bytes := sNull, decStr := some [], decTime := some default, decBytes := some none }
  | .bool b => { bytes := if b then sTrue else sFalse, decStr := none, decTime := none, decBytes := none }
  | .num lit => { bytes := lit, decStr := none, decTime := none, decBytes := none }
  | .str s => { bytes := [34] ++ s ++ [34], decStr := some s, decTime := c.parseTime s,
                decBytes := (c.b64dec s).map some }
  | .arr _ => { bytes := [91], decStr := none, decTime := none, decBytes := none }
  | .obj _ => { bytes := [123], decStr := none, decTime := none, decBytes := none }

/-- An identifier object `{"id":…,"type":…}` decoded into (id, type). -/
def identOf : Json → Option (GoString × GoString)
  | .obj ms =>
    (match (Json.obj ms).get? K.id, (Json.obj ms).get? K.type with
      | some (Json.str i), some (Json.str t) => some (i, t)
      | _, _ => none)
  | .null => some ([], [])
  | _ => none

/-- A relationship object of the tree as the relationship skeleton. -/
def relRawOf (j : Json) : RelRaw :=
  match j.get? K.data with
  | none => { present := false, isNull := false, decIdent := none, decIdents := none }
  | some .null => { present := true, isNull := true, decIdent := some ([], []), decIdents := some [] }
  | some (.arr l) => { present := true, isNull := false, decIdent := none,
                       decIdents := (l.map identOf).foldr (fun x acc => match x, acc with
                         | some i, some rest => some (i :: rest) | _, _ => none) (some []) }
  | some d => { present := true, isNull := false, decIdent := identOf d, decIdents := none }

def strOf : Option Json → GoString
  | some (.str s) => s
  | _ => []

def membersOf : Option Json → List (GoString × Json)
  | some (.obj ms) => ms
  | _ => []

/-- The resource skeleton `encoding/json` produces from a resource object of the tree. -/
def skeletonOf (c : Codecs) (o : Json) : ResSke :=
  { id := strOf (o.get? K.id), typ := strOf (o.get? K.type),
    attrs := (membersOf (o.get? K.attributes)).map (fun p => (p.1, rawOf c p.2)),
    rels := (membersOf (o.get? K.relationships)).map (fun p => (p.1, relRawOf p.2)),
    smeta := membersOf (o.get? K.kmeta) }

/-- "Same value" of C01: integers, strings, booleans exactly; times as the same instant;
byte strings byte for byte (nil and empty alike); null-ness preserved; to-one IDs equal;
to-many relationships the same IDs up to order. -/
def sameVal : GoVal → GoVal → Prop
  | .strs a, .strs b => a.Perm b
  | a, b =>
    match Spec.canon a, Spec.canon b with
    | GoVal.val k (.t x), GoVal.val k' (.t y) => k = k' ∧ x.sec = y.sec ∧ x.nsec = y.nsec
    | GoVal.ptr k (some (.t x)), GoVal.ptr k' (some (.t y)) => k = k' ∧ x.sec = y.sec ∧ x.nsec = y.nsec
    | x, y => x = y

/-- The domain of the delegated decoders for one attribute value: a time payload satisfies
`TimeOk`. (No restriction on byte strings: a nil slice, by value or behind a non-nil pointer,
is written as `""`.) -/
def codecDom (c : Codecs) (v : GoVal) : Prop :=
  ∀ k t, (v = .val k (.t t) ∨ v = .ptr k (some (.t t))) → c.TimeOk t

/-- The fields of a relationship definition the library looks at when it marshals and
unmarshals a resource (a wrapped struct's view has `fromType` / `fromOne` normalised and
`toName` is not read on either side, so views and schema types are compared up to these). -/
def relCore (rel : Rel) : GoString × Bool × GoString := (rel.fromName, rel.toOne, rel.toType)

/-- all field names of a view, as the "all fields selected" list -/
def allFields (r : ResView) : List GoString := r.attrs.keys ++ r.rels.keys

/-! ### documents (C02) -/

/-- What `encoding/json` decodes an error object written by `Error.MarshalJSON` to: every
member it finds, the empty value for an absent member; the `links` map in the order of the
object's members (sorted by key, as `encoding/json` writes maps). -/
def errorOfJson (j : Json) : ErrorObj :=
  { id := strOf (j.get? K.id), code := strOf (j.get? K.code), status := strOf (j.get? K.status),
    title := strOf (j.get? K.title), detail := strOf (j.get? K.detail),
    links := (membersOf (j.get? K.links)).map (fun p => (p.1, strOf (some p.2))),
    source := membersOf (j.get? K.source), emeta := membersOf (j.get? K.kmeta) }

/-- The representation of an error's `links` map that reading back produces: keys in
ascending order (a Go map has no order; the model's list is compared in this canonical one). -/
def linksSorted (e : ErrorObj) : Prop := e.links.Pairwise (fun a b => ¬ (b.1 < a.1))

/-- one raw resource of a `data` / `included` array: an object decodes into the resource
skeleton, anything else fails -/
def resSkeOf (c : Codecs) (j : Json) : ResSke? := if j.isObj then some (skeletonOf c j) else none

/-- the `data` member of a payload, by its first byte: null, one object, an array -/
def dataSkeOf (c : Codecs) : Json → DataSke
  | .null => .null
  | .obj ms => .res (resSkeOf c (.obj ms))
  | .arr l => .col (some (l.map (resSkeOf c)))
  | _ => .other

/-- The payload skeleton `encoding/json` produces from a document tree written by the
model's marshaling (`Spec.documentTree`): the data member absent / null / one object / an
array; the error objects; per included value whether it decodes into an Identifier and its
resource skeleton; the top-level meta members. -/
def docSkeletonOf (c : Codecs) (t : Json) : DocSke :=
  { data := (match t.get? K.data with
      | none => .absent
      | some dj => dataSkeOf c dj),
    errors := (match t.get? K.errors with
      | some (.arr l) => l.map errorOfJson
      | _ => []),
    included := (match t.get? K.included with
      | some (.arr l) => l.map (fun j => (j.isObj && (identOf j).isSome, resSkeOf c j))
      | _ => []),
    dmeta := membersOf (t.get? K.kmeta) }

end Jsonapi.Spec
