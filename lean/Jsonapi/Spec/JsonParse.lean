/-
A strict parser of compact JSON text (RFC 8259 without any whitespace), the reference
against which the rendering of `Model/JsonText.lean` is proved correct
(`JsonL.parseJson_render`: parsing the rendered text of a tree gives the tree back).

  value   = "null" | "true" | "false" | number | string | array | object
  number  = -?(0|[1-9][0-9]*)(\.[0-9]+)?([eE][+-]?[0-9]+)?      kept as its literal bytes
  string  = '"' char* '"'   char = a byte >= 0x20 other than '"' and '\', copied verbatim,
            or one of the escapes \" \\ \/ \b \f \n \r \t, or \uXXXX (4 hex digits of either
            case) decoded to the UTF-8 encoding of the code point; surrogate code points
            (D800..DFFF) are rejected (a deliberate restriction: the renderer never
            writes them)
  array   = '[' ']' | '[' value (',' value)* ']'
  object  = '{' '}' | '{' string ':' value (',' string ':' value)* '}'

The whole input must be one value. Number tokens are taken by maximal munch over the bytes
that can occur in a number (`0-9 + - . e E`) and then checked against the grammar; since
none of these bytes may follow a value in whitespace-free JSON, this accepts exactly the
same texts as a grammar-driven lexer. Everything is total: strings are parsed by structural
recursion on the input, values by structural recursion on a fuel argument that
`parseJson` sets to `2 * length + 2` (every two nested calls consume a byte).
-/
import Jsonapi.Model.JsonText
import Jsonapi.Model.Unmarshal
namespace Jsonapi.Spec
open Jsonapi

/-! ### numbers -/

/-- `[+-]?` -/
def dropSign : GoString → GoString
  | [] => []
  | c :: t => if c = 43 ∨ c = 45 then t else c :: t

/-- `([eE][+-]?[0-9]+)?` up to the end -/
def expPartOk : GoString → Bool
  | [] => true
  | e :: t => (e = 101 ∨ e = 69) && (dropSign t ≠ [] && (dropSign t).all isDigit)

/-- `(\.[0-9]+)?` followed by the exponent part -/
def fracPartOk : GoString → Bool
  | [] => true
  | c :: t =>
    if c = 46 then
      (match t with
        | [] => false
        | d :: _ => isDigit d) && expPartOk (t.dropWhile isDigit)
    else expPartOk (c :: t)

/-- `(0|[1-9][0-9]*)` followed by the fraction and exponent parts -/
def intPartOk : GoString → Bool
  | [] => false
  | c :: t =>
    if c = 48 then fracPartOk t
    else if isDigit c then fracPartOk (t.dropWhile isDigit)
    else false

/-- the literal matches `-?(0|[1-9][0-9]*)(\.[0-9]+)?([eE][+-]?[0-9]+)?` -/
def numOk : GoString → Bool
  | [] => false
  | c :: t => if c = 45 then intPartOk t else intPartOk (c :: t)

/-- the bytes a number token is made of -/
def isNumByte (c : UInt8) : Bool :=
  isDigit c || c = 43 || c = 45 || c = 46 || c = 101 || c = 69

/-! ### strings -/

/-- value of a hex digit of either case -/
def jsonHexVal (c : UInt8) : Option Nat :=
  if 48 ≤ c ∧ c ≤ 57 then some (c.toNat - 48)
  else if 97 ≤ c ∧ c ≤ 102 then some (c.toNat - 87)
  else if 65 ≤ c ∧ c ≤ 70 then some (c.toNat - 55)
  else none

/-- UTF-8 encoding of a code point below 0x10000 -/
def utf8Enc (cp : Nat) : GoString :=
  if cp < 0x80 then [UInt8.ofNat cp]
  else if cp < 0x800 then [UInt8.ofNat (0xC0 + cp / 64), UInt8.ofNat (0x80 + cp % 64)]
  else [UInt8.ofNat (0xE0 + cp / 4096), UInt8.ofNat (0x80 + cp / 64 % 64),
        UInt8.ofNat (0x80 + cp % 64)]

/-- the byte a one-letter escape stands for -/
def jsonUnescape (e : UInt8) : Option UInt8 :=
  if e = 34 then some 34          -- \"
  else if e = 92 then some 92     -- \\
  else if e = 47 then some 47     -- \/
  else if e = 98 then some 8      -- \b
  else if e = 102 then some 12    -- \f
  else if e = 110 then some 10    -- \n
  else if e = 114 then some 13    -- \r
  else if e = 116 then some 9     -- \t
  else none

/-- prepend decoded bytes to the result of the rest of the string -/
def consStr (pre : GoString) : Option (GoString × GoString) → Option (GoString × GoString)
  | none => none
  | some (s, r) => some (pre ++ s, r)

/-- the inside of a string literal up to and including the closing quote: the decoded
bytes and the remaining input -/
def parseStrBody : GoString → Option (GoString × GoString)
  | [] => none
  | b :: r =>
    if b = 34 then some ([], r)
    else if b = 92 then
      match r with
      | [] => none
      | e :: r1 =>
        if e = 117 then
          match r1 with
          | h1 :: h2 :: h3 :: h4 :: r2 =>
            match jsonHexVal h1, jsonHexVal h2, jsonHexVal h3, jsonHexVal h4 with
            | some a, some b, some c, some d =>
              let cp := ((a * 16 + b) * 16 + c) * 16 + d
              if 0xD800 ≤ cp ∧ cp < 0xE000 then none
              else consStr (utf8Enc cp) (parseStrBody r2)
            | _, _, _, _ => none
          | _ => none
        else
          match jsonUnescape e with
          | some c => consStr [c] (parseStrBody r1)
          | none => none
    else if b < 32 then none
    else consStr [b] (parseStrBody r)

/-! ### values -/

/-- `stripPrefix p s = some r` iff `s = p ++ r` -/
def stripPrefix : GoString → GoString → Option GoString
  | [], s => some s
  | _ :: _, [] => none
  | a :: p, b :: s => if a = b then stripPrefix p s else none

mutual
/-- one value at the head of the input, and the remaining input -/
def parseValue : Nat → GoString → Option (Json × GoString)
  | 0, _ => none
  | fuel + 1, s =>
    match s with
    | [] => none
    | c :: t =>
      if isNumByte c then
        (if numOk (s.takeWhile isNumByte) then
          some (.num (s.takeWhile isNumByte), s.dropWhile isNumByte)
        else none)
      else if c = 110 then (stripPrefix [117, 108, 108] t).map (fun r => (Json.null, r))
      else if c = 116 then (stripPrefix [114, 117, 101] t).map (fun r => (Json.bool true, r))
      else if c = 102 then
        (stripPrefix [97, 108, 115, 101] t).map (fun r => (Json.bool false, r))
      else if c = 34 then (parseStrBody t).map (fun p => (Json.str p.1, p.2))
      else if c = 91 then
        match t with
        | [] => none
        | d :: t' =>
          if d = 93 then some (.arr [], t')
          else (parseElems fuel t).map (fun p => (Json.arr p.1, p.2))
      else if c = 123 then
        match t with
        | [] => none
        | d :: t' =>
          if d = 125 then some (.obj [], t')
          else (parseMembers fuel t).map (fun p => (Json.obj p.1, p.2))
      else none
/-- `value (',' value)* ']'` -/
def parseElems : Nat → GoString → Option (List Json × GoString)
  | 0, _ => none
  | fuel + 1, s =>
    match parseValue fuel s with
    | none => none
    | some (v, r) =>
      match r with
      | [] => none
      | d :: r' =>
        if d = 93 then some ([v], r')
        else if d = 44 then
          match parseElems fuel r' with
          | none => none
          | some (vs, r'') => some (v :: vs, r'')
        else none
/-- `string ':' value (',' string ':' value)* '}'` -/
def parseMembers : Nat → GoString → Option (List (GoString × Json) × GoString)
  | 0, _ => none
  | fuel + 1, s =>
    match s with
    | [] => none
    | q :: s1 =>
      if q = 34 then
        match parseStrBody s1 with
        | none => none
        | some (k, s2) =>
          match s2 with
          | [] => none
          | col :: s3 =>
            if col = 58 then
              match parseValue fuel s3 with
              | none => none
              | some (v, r) =>
                match r with
                | [] => none
                | d :: r' =>
                  if d = 125 then some ([(k, v)], r')
                  else if d = 44 then
                    match parseMembers fuel r' with
                    | none => none
                    | some (ms, r'') => some ((k, v) :: ms, r'')
                  else none
            else none
      else none
end

/-- the whole input is one JSON value -/
def parseJson (s : GoString) : Option Json :=
  match parseValue (2 * s.length + 2) s with
  | some (v, []) => some v
  | _ => none

end Jsonapi.Spec

namespace Jsonapi
open Spec

mutual
/-- every number literal in the tree matches the JSON number grammar -/
def Json.numsOk : Json → Bool
  | .num lit => numOk lit
  | .arr l => Json.numsOkList l
  | .obj ms => Json.numsOkMembers ms
  | _ => true
def Json.numsOkList : List Json → Bool
  | [] => true
  | v :: vs => v.numsOk && Json.numsOkList vs
def Json.numsOkMembers : List (GoString × Json) → Bool
  | [] => true
  | (_, v) :: ms => v.numsOk && Json.numsOkMembers ms
end

end Jsonapi
