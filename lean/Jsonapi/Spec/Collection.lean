/-
C19 — definitions only: the operations of a SoftCollection as a history, the step of
the model (`colStep`), the step of the plain ordered list (`Spec.Store.step`), the
domain of histories and the abstraction relation between the two.
Core-only and computable: the driver can link this file.
-/
import Jsonapi.Spec.Resource
namespace Jsonapi

/-! ### Operations and the model's step -/

inductive ColOp where
  | add (r : ResView)
  | remove (id : GoString)
  | addAttr (a : Attr)
  | addRel (r : Rel)
  | setType (t : Typ)

/-- One call on the model. `AddAttr`/`AddRel` return an `error` besides editing the
type; the error is not part of the state (and the state is unchanged on error, see
`Typ.addAttr_err`), so the step keeps the state only. Only `Add` can panic. -/
def colStep (c : SColl) : ColOp → Res SColl
  | .add r => c.add r
  | .remove id => .ok (c.remove id)
  | .addAttr a => .ok (c.addAttr a).1
  | .addRel r => .ok (c.addRel r).1
  | .setType t => .ok (c.setType t)

/-- A history on the model; stops at the first step that does not return normally. -/
def colRun (c : SColl) : List ColOp → Res SColl
  | [] => .ok c
  | op :: ops =>
    match colStep c op with
    | .ok c' => colRun c' ops
    | .err => .err
    | .panic => .panic

namespace Spec

/-- Is `f` a field (attribute or relationship key) of the type? -/
def isField (t : Typ) (f : GoString) : Bool := t.attrs.has f || t.rels.has f

/-- The zero value a stored row shows for a field it has no value for (the inner
`match` of `Row.get`). -/
def fieldZero (t : Typ) (f : GoString) : GoVal :=
  match t.attrs.get? f with
  | some a => a.zero
  | none => (match t.rels.get? f with | some r => r.zero | none => .nil)

/-! ### The plain ordered list: one step -/

/-- `Add`, one attribute `a` of the given resource (whose value for it is `v`): the
type gains `a` when the name is free; the value is recorded iff the (possibly
extended) type accepts it for that name. -/
def addAttrField (v : GoVal) (acc : Typ × GoMap GoVal) (a : Attr) : Typ × GoMap GoVal :=
  let t := if isField acc.1 a.name then acc.1 else { acc.1 with attrs := acc.1.attrs.set a.name a }
  (t, if accepts t a.name v then acc.2.set a.name (stored t a.name v) else acc.2)

/-- `Add`, one relationship of the given resource. -/
def addRelField (v : GoVal) (acc : Typ × GoMap GoVal) (r : Rel) : Typ × GoMap GoVal :=
  let t := if isField acc.1 r.fromName then acc.1 else { acc.1 with rels := acc.1.rels.set r.fromName r }
  (t, if accepts t r.fromName v then acc.2.set r.fromName (stored t r.fromName v) else acc.2)

/-- The type and the recorded values after going through the attributes, then the
relationships, of `r` in order. -/
def addFields (t : Typ) (r : ResView) : Typ × GoMap GoVal :=
  let a1 := r.attrs.foldl (fun acc p => addAttrField (r.get p.2.name) acc p.2) (t, [])
  r.rels.foldl (fun acc p => addRelField (r.get p.2.fromName) acc p.2) a1

namespace Store

/-- `Add`: append a snapshot (ID + accepted field values), extending the type. -/
def add (σ : Store) (r : ResView) : Store :=
  { typ := (addFields σ.typ r).1,
    rows := σ.rows ++ [{ id := r.id, vals := (addFields σ.typ r).2 }] }

/-- `Remove`: erase the first row with that ID. -/
def remove (σ : Store) (id : GoString) : Store :=
  { σ with rows := Schema.eraseFirst (fun row => row.id = id) σ.rows }

/-- `AddAttr` / `AddRel`: `Type.AddAttr` / `Type.AddRel` on the type (unchanged on error). -/
def addAttr (σ : Store) (a : Attr) : Store := { σ with typ := (σ.typ.addAttr a).1 }
def addRel (σ : Store) (r : Rel) : Store := { σ with typ := (σ.typ.addRel r).1 }

/-- `SetType`: replace the type; every row forgets the values whose name is no field
of the new type. -/
def setType (σ : Store) (t : Typ) : Store :=
  { typ := t,
    rows := σ.rows.map (fun row => { row with vals := row.vals.filter (fun p => isField t p.1) }) }

def step (σ : Store) : ColOp → Store
  | .add r => σ.add r
  | .remove id => σ.remove id
  | .addAttr a => σ.addAttr a
  | .addRel r => σ.addRel r
  | .setType t => σ.setType t

def run (σ : Store) (ops : List ColOp) : Store := ops.foldl step σ

end Store
end Spec

/-! ### Domain -/

/-- What C19 needs of a collection's type (the part of `TypWF` without the validity of
names and kinds): key = name, no key twice, attributes and relationships disjoint. -/
structure TypKeyed (t : Typ) : Prop where
  attrs : ∀ p ∈ t.attrs, p.1 = p.2.name
  rels : ∀ p ∈ t.rels, p.1 = p.2.fromName
  ndA : t.attrs.keys.Nodup
  ndR : t.rels.keys.Nodup
  disj : ∀ k ∈ t.attrs.keys, k ∉ t.rels.keys

instance (t : Typ) : Decidable (TypKeyed t) :=
  decidable_of_iff
    ((∀ p ∈ t.attrs, p.1 = p.2.name) ∧ (∀ p ∈ t.rels, p.1 = p.2.fromName) ∧
      t.attrs.keys.Nodup ∧ t.rels.keys.Nodup ∧ ∀ k ∈ t.attrs.keys, k ∉ t.rels.keys)
    ⟨fun ⟨a, b, c, d, e⟩ => ⟨a, b, c, d, e⟩, fun h => ⟨h.attrs, h.rels, h.ndA, h.ndR, h.disj⟩⟩

/-- The Go type of the view's value for one of its relationships matches that
relationship's own cardinality (`Add` asserts it: `.(string)` / `.([]string)`). -/
def relValOk (r : ResView) (rel : Rel) : Bool :=
  match r.get rel.fromName with
  | .val .string (.s _) => rel.toOne
  | .strs _ => !rel.toOne
  | _ => false

/-- A resource that may be handed to `Add`: no field of it is called "id", and every
relationship holds a value of its own cardinality. -/
def ViewWF (r : ResView) : Prop :=
  (∀ p ∈ r.attrs, p.2.name ≠ idName) ∧
  (∀ p ∈ r.rels, p.2.fromName ≠ idName ∧ relValOk r p.2 = true)

instance (r : ResView) : Decidable (ViewWF r) := by unfold ViewWF; exact inferInstance

/-- `t'` is compatible with `t`: a name that is a field of both keeps its definition. -/
def Compat (t t' : Typ) : Prop :=
  ∀ f ∈ t.attrs.keys ++ t.rels.keys, Spec.isField t' f = true →
    t'.attrs.get? f = t.attrs.get? f ∧ t'.rels.get? f = t.rels.get? f

instance (t t' : Typ) : Decidable (Compat t t') := by unfold Compat; exact inferInstance

/-- Is the operation in the domain, given the collection's current type? -/
def ColOp.ok (t : Typ) : ColOp → Prop
  | .add r => ViewWF r
  | .setType t' => TypKeyed t' ∧ Compat t t'
  | _ => True

instance ColOp.okDec (t : Typ) (op : ColOp) : Decidable (op.ok t) := by
  cases op <;> unfold ColOp.ok <;> exact inferInstance

/-- The domain of histories: every operation is in the domain for the type current
when it is issued (evaluated along the run of the plain list). -/
def HistOk (σ : Spec.Store) : List ColOp → Prop
  | [] => True
  | op :: ops => op.ok σ.typ ∧ HistOk (σ.step op) ops

instance HistOk.dec : (σ : Spec.Store) → (ops : List ColOp) → Decidable (HistOk σ ops)
  | _, [] => isTrue trivial
  | σ, op :: ops =>
    have := HistOk.dec (σ.step op) ops
    inferInstanceAs (Decidable (op.ok σ.typ ∧ HistOk (σ.step op) ops))

/-! ### Abstraction relation -/

/-- Model data `d` of a stored resource against the recorded values `vals` of its row:
`d` holds exactly the recorded values plus, possibly, materialised zero values; all
keys are fields of the type. -/
structure RowInv (t : Typ) (d vals : GoMap GoVal) : Prop where
  dField : ∀ f, d.has f = true → Spec.isField t f = true
  vField : ∀ f, vals.has f = true → Spec.isField t f = true
  sub : ∀ f v, vals.get? f = some v → d.get? f = some v
  zero : ∀ f v, d.get? f = some v → vals.get? f = none → v = Spec.fieldZero t f

/-- One stored resource of the model against one row: same ID, the same value through
`Get` for every name, and the data invariant. -/
structure RowAbs (t : Typ) (m : GoString × GoMap GoVal) (row : Spec.Row) : Prop where
  id : m.1 = row.id
  get : ∀ f, ({ typ := t, id := m.1, data := m.2 } : Soft).get f = Spec.Row.get t row f
  inv : RowInv t m.2 row.vals

/-- The model collection against the plain list: same type (which is keyed), and the
rows correspond one to one in order. -/
structure Abs (c : SColl) (σ : Spec.Store) : Prop where
  typ : c.typ = σ.typ
  keyed : TypKeyed c.typ
  rows : Forall2 (RowAbs c.typ) c.col σ.rows

end Jsonapi
