/-
Specification of a marshaled resource object (C04, and the resource-level clauses of
C03), written from the property text: which members are present, not how they are built.
-/
import Jsonapi.Model.Marshal
namespace Jsonapi.Spec
open Jsonapi

/-- The identifier(s) a relationship's data member lists. -/
def relDataJson (r : ResView) (rel : Rel) : Json :=
  if rel.toOne then
    match r.get rel.fromName with
    | .val .string (.s id) => if id = [] then .null else identifierJson id rel.toType
    | _ => .null
  else
    match r.get rel.fromName with
    | .strs ids => .arr ((Typ.sortStrings ids).map (fun id => identifierJson id rel.toType))
    | _ => .arr []

/-- One relationship object: always both links; `data` iff the document asks for it. -/
def relObject (r : ResView) (prepath : GoString) (rel : Rel) (wantData : Bool) : Json :=
  .obj ((if wantData then [(K.data, relDataJson r rel)] else []) ++
        [(K.links, buildRelationshipLinks r prepath rel.fromName)])

/-- The resource object the property describes: `attributes` holds exactly the type's
attributes that the selection lists, `relationships` exactly the selected relationships,
each with a data member iff its name is in the document's list for the resource's type. -/
def resourceObject (r : ResView) (prepath : GoString) (fields : List GoString)
    (relData : GoMap (List GoString)) (rmeta : Meta := []) : Json :=
  let selAttrs := r.attrs.vals.filter (fun a => fields.contains a.name)
  let selRels := r.rels.vals.filter (fun rel => fields.contains rel.fromName)
  let want := (relData.get? r.typeName).getD []
  let attrs := selAttrs.map (fun a => (a.name, encodeAttr (r.get a.name)))
  let rels := selRels.map (fun rel => (rel.fromName, relObject r prepath rel (want.contains rel.fromName)))
  .obj (sortMembers (
    [(K.id, Json.str r.id), (K.type, Json.str r.typeName),
     (K.links, Json.obj [(K.self, .str (buildSelfLink r prepath))])] ++
    (if attrs.isEmpty then [] else [(K.attributes, Json.obj (sortMembers attrs))]) ++
    (if rels.isEmpty then [] else [(K.relationships, Json.obj (sortMembers rels))]) ++
    (if rmeta.isEmpty then [] else [(K.kmeta, Json.obj rmeta)])))

end Jsonapi.Spec
