/-
Specification of a marshaled resource object (C04, and the resource-level clauses of
C03), written from the property text: which members are present, not how they are built.
-/
import Jsonapi.Model.Marshal
namespace Jsonapi.Spec
open Jsonapi

/-- The identifier(s) a relationship's data member lists. -/
def relDataJson (r : ResView) (rel : Rel) : Json :=
  if rel.toOne then
    match r.get rel.fromName with
    | .val .string (.s id) => if id = [] then .null else identifierJson id rel.toType
    | _ => .null
  else
    match r.get rel.fromName with
    | .strs ids => .arr ((Typ.sortStrings ids).map (fun id => identifierJson id rel.toType))
    | _ => .arr []

/-- One relationship object: always both links; `data` iff the document asks for it. -/
def relObject (r : ResView) (prepath : GoString) (rel : Rel) (wantData : Bool) : Json :=
  .obj ((if wantData then [(K.data, relDataJson r rel)] else []) ++
        [(K.links, buildRelationshipLinks r prepath rel.fromName)])

/-- The resource object the property describes: `attributes` holds exactly the type's
attributes that the selection lists, `relationships` exactly the selected relationships,
each with a data member iff its name is in the document's list for the resource's type. -/
def resourceObject (r : ResView) (prepath : GoString) (fields : List GoString)
    (relData : GoMap (List GoString)) (rmeta : Meta := []) : Json :=
  let selAttrs := r.attrs.vals.filter (fun a => fields.contains a.name)
  let selRels := r.rels.vals.filter (fun rel => fields.contains rel.fromName)
  let want := (relData.get? r.typeName).getD []
  let attrs := selAttrs.map (fun a => (a.name, encodeAttr (r.get a.name)))
  let rels := selRels.map (fun rel => (rel.fromName, relObject r prepath rel (want.contains rel.fromName)))
  .obj (sortMembers (
    [(K.id, Json.str r.id), (K.type, Json.str r.typeName),
     (K.links, Json.obj [(K.self, .str (buildSelfLink r prepath))])] ++
    (if attrs.isEmpty then [] else [(K.attributes, Json.obj (sortMembers attrs))]) ++
    (if rels.isEmpty then [] else [(K.relationships, Json.obj (sortMembers rels))]) ++
    (if rmeta.isEmpty then [] else [(K.kmeta, Json.obj rmeta)])))

end Jsonapi.Spec

namespace Jsonapi.Spec
open Jsonapi

/-- The field selection of a type: its entry in the URL's `fields` map; a type without an
entry exposes no attributes or relationships. -/
def selection (fields : GoMap (List GoString)) (typeName : GoString) : List GoString :=
  (fields.get? typeName).getD []

/-- The primary data member of a marshaled document (`none`: no data member). -/
def dataMember (doc : Document) (fields : GoMap (List GoString)) : Option Json :=
  match doc.data with
  | .none => if doc.errors.isEmpty then some .null else none
  | .res r => some (resourceObject r doc.prePath (selection fields r.typeName) doc.relData)
  | .col _ ms => some (.arr (ms.map (fun r => resourceObject r doc.prePath (selection fields r.typeName) doc.relData)))
  | .ident id typ => some (identifierJson id typ)
  | .idents _ l => some (.arr (l.map (fun p => identifierJson p.1 p.2)))
  | .other => none

/-- The whole document tree the properties describe: errors or data (never both),
included only alongside data (sorted by ID), meta when non-empty, links with self,
and the jsonapi member. `none` when marshaling fails (data of an unknown Go type). -/
def documentTree (doc : Document) (fields : GoMap (List GoString)) (selfHref : GoString) : Option Json :=
  if (doc.data matches .other) && doc.errors.isEmpty then none
  else
    let body : List (GoString × Json) :=
      if !doc.errors.isEmpty then [(K.errors, .arr (doc.errors.map ErrorObj.toJson))]
      else match dataMember doc fields with
        | some dj =>
          [(K.data, dj)] ++
          (if doc.included.isEmpty then []
           else [(K.included, .arr ((sortById doc.included).map (fun r =>
              resourceObject r doc.prePath (selection fields r.typeName) doc.relData)))])
        | none => []
    let links := (doc.links.filter (fun p => p.1 ≠ K.self)).map (fun p => (p.1, p.2.toJson)) ++
                 [(K.self, Json.str selfHref)]
    some (.obj (sortMembers (body ++
      (if doc.dmeta.isEmpty then [] else [(K.kmeta, Json.obj doc.dmeta)]) ++
      [(K.links, Json.obj (sortMembers links)), (K.jsonapi, Json.obj [(K.version, .str K.v10)])])))

/-- (type, id) key of a resource, as `Include` compares them. -/
def primaryKeys (doc : Document) : List GoString :=
  match doc.data with
  | .res r => [resKey r]
  | .col _ ms => ms.map resKey
  | _ => []

end Jsonapi.Spec
