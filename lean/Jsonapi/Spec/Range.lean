/-
Specification of Range (C09), from the property text: select by ID, filter, order by the
rules (ascending, '-' descending, nil before non-nil, later rules break ties), cut a page.
-/
import Jsonapi.Model.Range
import Jsonapi.Spec.Filter
namespace Jsonapi.Spec
open Jsonapi

/-- Natural order of two payloads for sorting (booleans: false before true). -/
def cmpPay : Pay → Pay → Ordering
  | .s a, .s b => if a < b then .lt else if a = b then .eq else .gt
  | .i a, .i b => if a < b then .lt else if a = b then .eq else .gt
  | .b a, .b b => if a = b then .eq else if a = false then .lt else .gt
  | .t a, .t b => if a.before b then .lt else if a.equal b then .eq else .gt
  | .bs a, .bs b =>
    let x := Pay.bytesOf a; let y := Pay.bytesOf b
    if x < y then .lt else if x = y then .eq else .gt
  | _, _ => .eq

/-- nil before non-nil. -/
def cmpSVal : SVal → SVal → Ordering
  | .nil, .nil => .eq
  | .nil, .pay _ => .lt
  | .pay _, .nil => .gt
  | .pay a, .pay b => cmpPay a b
  | _, _ => .eq

def cmpIds (a b : GoString) : Ordering := if a < b then .lt else if a = b then .eq else .gt

/-- One rule; '-' reverses it exactly. -/
def cmpRule (rule : GoString) (a b : ResView) : Ordering :=
  let (inv, name) := splitRule rule
  let o := if name = idName then cmpIds a.id b.id
           else cmpSVal (sval (a.get name)) (sval (b.get name))
  if inv then o.swap else o

/-- Later rules break ties. -/
def cmpRules : List GoString → ResView → ResView → Ordering
  | [], _, _ => .eq
  | r :: rs, a, b => match cmpRule r a b with
    | .eq => cmpRules rs a b
    | o => o

def le (rules : List GoString) (a b : ResView) : Bool := cmpRules rules a b != .gt

/-- The resources whose ID is listed (all if the list is empty) and that the filter allows. -/
def matching (c : List ResView) (ids : List GoString) (f : Option Filter) : List ResView :=
  c.filter (fun r => (ids.isEmpty || ids.contains r.id) &&
    (match f with | none => true | some flt => eval r flt))

def insertBy (le : ResView → ResView → Bool) (x : ResView) : List ResView → List ResView
  | [] => [x]
  | y :: ys => if le x y then x :: y :: ys else y :: insertBy le x ys

/-- A sorted permutation (stable insertion sort; any sorted permutation has the same
sequence of sort keys, and is the same list when the rules contain `id`). -/
def sortBy (le : ResView → ResView → Bool) (l : List ResView) : List ResView :=
  l.foldr (insertBy le) []

/-- Positions [number*size, (number+1)*size). -/
def page (l : List ResView) (size num : Nat) : List ResView := (l.drop (num * size)).take size

def range (c : List ResView) (ids : List GoString) (f : Option Filter)
    (rules : List GoString) (size num : Nat) : List ResView :=
  let rules' := if rules.isEmpty then [idName] else rules
  page (sortBy (le rules') (matching c ids f)) size num

end Jsonapi.Spec
