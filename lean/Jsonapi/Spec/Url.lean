/-
The part of net/url that C08 needs, modelled on the grammar URL.String emits:
  "/" seg ("/" seg)* [ "?" pair ("&" pair)* ]      pair ::= name "=" value
(no scheme, host, fragment or user info). Validated against the real url.Parse /
Query() on every String() output the harness sees (suite `url`, op `reparse`).
Also the specification predicates of C07.
-/
import Jsonapi.Model.Url
namespace Jsonapi.Spec
open Jsonapi

def hexVal? (c : UInt8) : Option Nat :=
  if 48 ≤ c && c ≤ 57 then some (c.toNat - 48)
  else if 65 ≤ c && c ≤ 70 then some (c.toNat - 55)
  else if 97 ≤ c && c ≤ 102 then some (c.toNat - 87)
  else none

/-- percent-decoding; `plus`: '+' means space (query component) -/
def unescape (plus : Bool) : GoString → Option GoString
  | [] => some []
  | 37 :: a :: b :: rest =>
    match hexVal? a, hexVal? b, unescape plus rest with
    | some x, some y, some r => some (UInt8.ofNat (x * 16 + y) :: r)
    | _, _, _ => none
  | 37 :: _ => none
  | c :: rest =>
    match unescape plus rest with
    | some r => some ((if plus && c = 43 then 32 else c) :: r)
    | none => none

/-- split at the first occurrence of `sep` -/
def cut (sep : UInt8) : GoString → GoString × Option GoString
  | [] => ([], none)
  | c :: rest =>
    if c = sep then ([], some rest)
    else let (a, b) := cut sep rest; (c :: a, b)

/-- `url.ParseQuery` on a query without ';': pairs in order, grouped by name. Pairs with
an invalid escape are dropped (Query() ignores the error). -/
def parseQuery (q : GoString) : GoMap (List GoString) :=
  (splitOn 38 q).foldl (fun m pair =>
    if pair = [] then m
    else
      let (k, v) := cut 61 pair
      match unescape true k, unescape true (v.getD []) with
      | some k', some v' => m.set k' ((m.get? k').getD [] ++ [v'])
      | _, _ => m) []

/-- `url.Parse(s)` for s of the emitted grammar: decoded path and values (`none`: invalid
escape in the path). -/
def parseRaw (s : GoString) : Option (GoString × GoMap (List GoString)) :=
  let (p, q) := cut 63 s
  match unescape false p with
  | some path => some (path, parseQuery (q.getD []))
  | none => none

/-! ### C07 predicates -/

/-- a chain of relationships that exists in the schema from `resType` -/
def validChain (σ : Schema) (resType : GoString) : List Rel → Bool
  | [] => true
  | rel :: rest =>
    let typ := σ.getType resType
    typ.name ≠ [] && typ.rels.get? rel.fromName = some rel && σ.hasType rel.toType &&
    validChain σ rel.toType rest

def stripDash (rule : GoString) : GoString := match rule with | 45 :: r => r | r => r

/-- the caller's rules that name `id` or an attribute of the type, in order -/
def validRules (σ : Schema) (resType : GoString) (rules : List GoString) : List GoString :=
  rules.filter (fun rule => stripDash rule = idName || ((σ.getType resType).attrs.vals.map (·.name)).contains (stripDash rule))

end Jsonapi.Spec
