/-
Specification of filter evaluation (C10), written from the property text and not from
the algorithm: a filter tree read as logic over the natural order of each kind.
-/
import Jsonapi.Model.Filter
namespace Jsonapi.Spec
open Jsonapi

/-- Natural order of two non-nil payloads of one kind; `none` when the kind has no
order (booleans) or the payloads are not of one class. -/
def ord : Pay → Pay → Option Ordering
  | .s a, .s b => some (if a < b then .lt else if a = b then .eq else .gt)
  | .i a, .i b => some (if a < b then .lt else if a = b then .eq else .gt)
  | .t a, .t b => some (if a.before b then .lt else if a.equal b then .eq else .gt)
  | .bs a, .bs b =>
    let x := Pay.bytesOf a; let y := Pay.bytesOf b
    some (if x < y then .lt else if x = y then .eq else .gt)
  | _, _ => none

/-- Equality of two non-nil payloads ("byte for byte", "same instant", nil and empty
byte strings alike). -/
def payEq : Pay → Pay → Bool
  | .s a, .s b => a = b
  | .i a, .i b => a = b
  | .b a, .b b => a = b
  | .t a, .t b => a.equal b
  | .bs a, .bs b => Pay.bytesOf a = Pay.bytesOf b
  | _, _ => false

/-- Values as the specification sees them: nil, a payload, or a set of IDs. -/
inductive SVal where
  | nil
  | pay (p : Pay)
  | ids (l : List GoString)

def sval : GoVal → SVal
  | .val _ p => .pay p
  | .ptr _ (some p) => .pay p
  | .ptr _ none => .nil
  | .strs l => .ids l
  | .nil => .nil
  | .other _ => .nil

/-- Equality: nil equals only nil; payloads by `payEq`; ID lists as multisets. -/
def valEq : SVal → SVal → Bool
  | .nil, .nil => true
  | .pay a, .pay b => payEq a b
  | .ids a, .ids b => a.length = b.length ∧ Typ.sortStrings a = Typ.sortStrings b
  | _, _ => false

/-- Strict order: only between two non-nil payloads of an ordered kind. -/
def valLt : SVal → SVal → Bool
  | .pay a, .pay b => ord a b = some .lt
  | _, _ => false

def valOrdered : SVal → SVal → Bool
  | .pay a, .pay b => (ord a b).isSome
  | _, _ => false

/-- A comparison filter read as logic. -/
def evalCmp (op : GoString) (v c : SVal) : Bool :=
  if op = Op.eq then valEq v c
  else if op = Op.ne then !valEq v c
  else if op = Op.lt then valLt v c
  else if op = Op.le then valLt v c || (valOrdered v c && valEq v c)
  else if op = Op.gt then valLt c v
  else if op = Op.ge then valLt c v || (valOrdered v c && valEq v c)
  else false    -- an unknown operator allows nothing

/-- The value of a field as the property reads it: typed and untyped nil are nil. -/
def fieldSVal (r : ResView) (field : GoString) : SVal :=
  if r.rels.has field ∨ r.attrs.has field then sval (r.get field) else .nil

mutual
/-- `and` holds iff all children hold, `or` iff some child holds, `in`/`has` are
membership tests, the rest are comparisons. -/
def eval (r : ResView) : Filter → Bool
  | .node true fs => evalAll r fs
  | .node false fs => evalAny r fs
  | .leaf field op val =>
    if op = Op.in_ then
      (match fieldSVal r field, val with
        | .pay (.s id), .strs ids => ids.contains id
        | _, _ => false)
    else if op = Op.has then
      (match val, fieldSVal r field with
        | .val _ (.s id), .ids ids => ids.contains id
        | _, _ => false)
    else evalCmp op (fieldSVal r field) (sval val)
def evalAll (r : ResView) : List Filter → Bool
  | [] => true
  | f :: fs => eval r f && evalAll r fs
def evalAny (r : ResView) : List Filter → Bool
  | [] => false
  | f :: fs => eval r f || evalAny r fs
end

end Jsonapi.Spec

namespace Jsonapi
/-! ### The property's domain: well-typed resources and well-typed filter trees
(decidable, so that the driver can report whether a generated case is inside it). -/

/-- Every attribute holds a value of its declared Go type (a nil nullable one may also
read as untyped nil, as wrapped structs do); every relationship holds a string or a
string list according to its cardinality; attribute and relationship names are disjoint. -/
def ResView.wf (r : ResView) : Bool :=
  r.attrs.all (fun p =>
    !r.rels.has p.1 &&
    match r.attrs.get? p.1 with
    | some a => (match Kind.ofCode? a.ty with
      | some k => (r.get p.1).hasAttrType k a.nullable || (a.nullable && r.get p.1 = .nil)
      | none => false)
    | none => false) &&
  r.rels.all (fun p =>
    match r.rels.get? p.1 with
    | some rel => (match r.get p.1 with
      | .val .string (.s _) => rel.toOne
      | .strs _ => !rel.toOne
      | _ => false)
    | none => false)

def leafWellTyped (r : ResView) (field op : GoString) (val : GoVal) : Bool :=
  op ≠ Op.and_ && op ≠ Op.or_ &&
  match r.rels.get? field with
  | some rel =>
    if op = Op.in_ then rel.toOne && (match val with | .strs _ => true | _ => false)
    else if op = Op.has then !rel.toOne && (match val with | .val .string (.s _) => true | _ => false)
    else if rel.toOne then (match val with | .val .string (.s _) => true | _ => false)
    else (match val with | .strs _ => true | _ => false)
  | none =>
    match r.attrs.get? field with
    | some a => (match Kind.ofCode? a.ty with
      | some k =>
        if op = Op.in_ then k = .string && !a.nullable && (match val with | .strs _ => true | _ => false)
        else if op = Op.has then false
        else val.hasAttrType k a.nullable
      | none => false)
    | none => false

mutual
def wellTyped (r : ResView) : Filter → Bool
  | .node _ fs => wellTypedAll r fs
  | .leaf field op val => leafWellTyped r field op val
def wellTypedAll (r : ResView) : List Filter → Bool
  | [] => true
  | f :: fs => wellTyped r f && wellTypedAll r fs
end
end Jsonapi
