/-
A reader of the FULL JSON grammar as `encoding/json` (Go 1.23) accepts it for one value,
every rule found by experiment against `json.Valid` / `json.Unmarshal`
(scratch programs exp1, exp2; the `bytes2` suite compares it on every generated payload):

  text    = ws value ws                                ws = (0x20 | 0x09 | 0x0A | 0x0D)*
  value   = "null" | "true" | "false" | number | string | array | object
  number  = -?(0|[1-9][0-9]*)(\.[0-9]+)?([eE][+-]?[0-9]+)?        kept as its literal bytes
  string  = '"' char* '"'   char = any byte >= 0x20 other than '"' and '\' (0x7F and bytes
            that are not UTF-8 included), or one of the escapes \" \\ \/ \b \f \n \r \t, or
            \uXXXX with four hex digits of either case
  array   = '[' ws ']' | '[' ws value ws (',' ws value ws)* ']'
  object  = '{' ws '}' | '{' ws string ws ':' ws value ws (',' ws string ws ':' ws value ws)* '}'

and nothing else: no other white space (form feed, vertical tab, NBSP, BOM), no comments, no
trailing comma, nothing after the value. Arrays and objects may be nested 10000 deep; the
10001st opening bracket makes the whole text invalid (`scanner.pushParseState`; every entry
point of the library answers with an error because `json.Unmarshal` validates the whole text
first).

The reader keeps the CONCRETE syntax (`CJson`): white space, the raw bytes of every string
and number. `CJson.raw` writes a sub-value back byte for byte: it is what `encoding/json`
stores in a `json.RawMessage` (the value without the white space around it, the white space
inside it kept). `CJson.toJson` forgets the concrete syntax: members in source order,
repeated keys kept, strings decoded as Go decodes them (`unquote`):

  * `\uXXXX` is the UTF-8 encoding of the code point; a high surrogate followed by a
    `\uXXXX` low surrogate is the pair's code point; any other surrogate escape is U+FFFD
    (and the escape after it is read on its own);
  * a byte that does not start a well-formed UTF-8 sequence (`utf8.DecodeRune`: no overlong
    form, no encoded surrogate, at most U+10FFFF) is replaced by U+FFFD, one per byte.

`parseJsonFull = toJson ∘ parseJsonC`. Everything is total: strings are scanned by structural
recursion on the input, decoded by recursion on a fuel argument (the length), values by
recursion on a fuel argument set to `2 * length + 2` of the input after its leading white space
(every two nested calls consume a byte).
-/
import Jsonapi.Spec.JsonParse
namespace Jsonapi.Spec
open Jsonapi

/-! ### white space -/

/-- the four white-space bytes of JSON -/
def isWs (c : UInt8) : Bool := c = 32 || c = 9 || c = 10 || c = 13

def takeWs (s : GoString) : GoString := s.takeWhile isWs
def dropWs (s : GoString) : GoString := s.dropWhile isWs

/-! ### concrete syntax -/

/-- A JSON value as written. `str raw`: the bytes between the quotes. An array element is
`(ws, value, ws)`; an object member `(ws, raw key, ws ':' ws, value, ws)`; `ws` of an
array / object: the white space between the brackets when it is empty. -/
inductive CJson where
  | null
  | bool (b : Bool)
  | num (lit : GoString)
  | str (raw : GoString)
  | arr (ws : GoString) (items : List (GoString × CJson × GoString))
  | obj (ws : GoString) (members : List (GoString × GoString × GoString × CJson × GoString))
deriving Inhabited

abbrev CItem := GoString × CJson × GoString
abbrev CMember := GoString × GoString × GoString × CJson × GoString

/-! ### strings -/

/-- The inside of a string literal, validated as `encoding/json`'s scanner does: the raw
bytes up to the closing quote, and the input after the quote. -/
def scanStr : GoString → Option (GoString × GoString)
  | [] => none
  | b :: r =>
    if b = 34 then some ([], r)
    else if b = 92 then
      match r with
      | [] => none
      | e :: r1 =>
        if e = 117 then
          match r1 with
          | h1 :: h2 :: h3 :: h4 :: r2 =>
            if (jsonHexVal h1).isSome && (jsonHexVal h2).isSome && (jsonHexVal h3).isSome &&
                (jsonHexVal h4).isSome then
              consStr [92, 117, h1, h2, h3, h4] (scanStr r2)
            else none
          | _ => none
        else if (jsonUnescape e).isSome then consStr [92, e] (scanStr r1)
        else none
    else if b < 32 then none
    else consStr [b] (scanStr r)

/-- value of four hex digits -/
def hex4 (h1 h2 h3 h4 : UInt8) : Option Nat :=
  match jsonHexVal h1, jsonHexVal h2, jsonHexVal h3, jsonHexVal h4 with
  | some a, some b, some c, some d => some (((a * 16 + b) * 16 + c) * 16 + d)
  | _, _, _, _ => none

/-- UTF-8 encoding of a code point below 0x110000 -/
def utf8EncFull (cp : Nat) : GoString :=
  if cp < 0x10000 then utf8Enc cp
  else [UInt8.ofNat (0xF0 + cp / 262144), UInt8.ofNat (0x80 + cp / 4096 % 64),
        UInt8.ofNat (0x80 + cp / 64 % 64), UInt8.ofNat (0x80 + cp % 64)]

/-- U+FFFD in UTF-8 -/
def replChar : GoString := [0xEF, 0xBF, 0xBD]

/-- `encoding/json`'s `unquote` on the raw inside of a validated string literal. -/
def unquoteAux : Nat → GoString → GoString
  | 0, _ => []
  | _, [] => []
  | fuel + 1, b :: r =>
    if b = 92 then
      match r with
      | [] => []
      | e :: r1 =>
        if e = 117 then
          match r1 with
          | h1 :: h2 :: h3 :: h4 :: r2 =>
            match hex4 h1 h2 h3 h4 with
            | none => []
            | some cp =>
              if 0xD800 ≤ cp ∧ cp < 0xDC00 then
                match r2 with
                | 92 :: 117 :: g1 :: g2 :: g3 :: g4 :: r3 =>
                  match hex4 g1 g2 g3 g4 with
                  | some lo =>
                    if 0xDC00 ≤ lo ∧ lo < 0xE000 then
                      utf8EncFull (0x10000 + (cp - 0xD800) * 1024 + (lo - 0xDC00)) ++
                        unquoteAux fuel r3
                    else replChar ++ unquoteAux fuel r2
                  | none => replChar ++ unquoteAux fuel r2
                | _ => replChar ++ unquoteAux fuel r2
              else if 0xDC00 ≤ cp ∧ cp < 0xE000 then replChar ++ unquoteAux fuel r2
              else utf8Enc cp ++ unquoteAux fuel r2
          | _ => []
        else
          match jsonUnescape e with
          | some c => c :: unquoteAux fuel r1
          | none => []
    else if b < 0x80 then b :: unquoteAux fuel r
    else if 0xC2 ≤ b ∧ b ≤ 0xDF then
      match r with
      | c :: r' =>
        if (0x80 ≤ c && c ≤ 0xBF) = true then b :: c :: unquoteAux fuel r'
        else replChar ++ unquoteAux fuel r
      | [] => replChar
    else if 0xE0 ≤ b ∧ b ≤ 0xEF then
      match r with
      | c :: d :: r' =>
        if (((if b = 0xE0 then 0xA0 else 0x80) ≤ c && c ≤ (if b = 0xED then 0x9F else 0xBF)) &&
            (0x80 ≤ d && d ≤ 0xBF)) = true then b :: c :: d :: unquoteAux fuel r'
        else replChar ++ unquoteAux fuel r
      | _ => replChar ++ unquoteAux fuel r
    else if 0xF0 ≤ b ∧ b ≤ 0xF4 then
      match r with
      | c :: d :: e :: r' =>
        if (((if b = 0xF0 then 0x90 else 0x80) ≤ c && c ≤ (if b = 0xF4 then 0x8F else 0xBF)) &&
            (0x80 ≤ d && d ≤ 0xBF) && (0x80 ≤ e && e ≤ 0xBF)) = true then
          b :: c :: d :: e :: unquoteAux fuel r'
        else replChar ++ unquoteAux fuel r
      | _ => replChar ++ unquoteAux fuel r
    else replChar ++ unquoteAux fuel r

/-- the Go string a string literal denotes, from the bytes between its quotes -/
def unquote (raw : GoString) : GoString := unquoteAux (raw.length + 1) raw

/-! ### values -/

/-- `encoding/json`'s `maxNestingDepth` -/
def maxDepth : Nat := 10000

mutual
/-- one value at the head of the input (no white space before it), and the remaining input;
`depth`: how many more arrays / objects may be opened -/
def parseC : Nat → Nat → GoString → Option (CJson × GoString)
  | 0, _, _ => none
  | fuel + 1, depth, s =>
    match s with
    | [] => none
    | c :: t =>
      if isNumByte c then
        (if numOk (s.takeWhile isNumByte) then
          some (.num (s.takeWhile isNumByte), s.dropWhile isNumByte)
        else none)
      else if c = 110 then (stripPrefix [117, 108, 108] t).map (fun r => (CJson.null, r))
      else if c = 116 then (stripPrefix [114, 117, 101] t).map (fun r => (CJson.bool true, r))
      else if c = 102 then
        (stripPrefix [97, 108, 115, 101] t).map (fun r => (CJson.bool false, r))
      else if c = 34 then (scanStr t).map (fun p => (CJson.str p.1, p.2))
      else if c = 91 then
        match depth with
        | 0 => none
        | depth' + 1 =>
          match dropWs t with
          | [] => none
          | d :: t' =>
            if d = 93 then some (.arr (takeWs t) [], t')
            else (parseElemsC fuel depth' (takeWs t) (d :: t')).map
              (fun p => (CJson.arr [] p.1, p.2))
      else if c = 123 then
        match depth with
        | 0 => none
        | depth' + 1 =>
          match dropWs t with
          | [] => none
          | d :: t' =>
            if d = 125 then some (.obj (takeWs t) [], t')
            else (parseMembersC fuel depth' (takeWs t) (d :: t')).map
              (fun p => (CJson.obj [] p.1, p.2))
      else none
/-- `value ws (',' ws value ws)* ']'`; `pre`: the white space already read before the value -/
def parseElemsC : Nat → Nat → GoString → GoString → Option (List CItem × GoString)
  | 0, _, _, _ => none
  | fuel + 1, depth, pre, s =>
    match parseC fuel depth s with
    | none => none
    | some (v, r) =>
      match dropWs r with
      | [] => none
      | d :: r' =>
        if d = 93 then some ([(pre, v, takeWs r)], r')
        else if d = 44 then
          match parseElemsC fuel depth (takeWs r') (dropWs r') with
          | none => none
          | some (vs, r'') => some ((pre, v, takeWs r) :: vs, r'')
        else none
/-- `string ws ':' ws value ws (',' ws string ws ':' ws value ws)* '}'` -/
def parseMembersC : Nat → Nat → GoString → GoString → Option (List CMember × GoString)
  | 0, _, _, _ => none
  | fuel + 1, depth, pre, s =>
    match s with
    | [] => none
    | q :: s1 =>
      if q = 34 then
        match scanStr s1 with
        | none => none
        | some (k, s2) =>
          match dropWs s2 with
          | [] => none
          | col :: s3 =>
            if col = 58 then
              match parseC fuel depth (dropWs s3) with
              | none => none
              | some (v, r) =>
                match dropWs r with
                | [] => none
                | d :: r' =>
                  if d = 125 then
                    some ([(pre, k, takeWs s2 ++ 58 :: takeWs s3, v, takeWs r)], r')
                  else if d = 44 then
                    match parseMembersC fuel depth (takeWs r') (dropWs r') with
                    | none => none
                    | some (ms, r'') =>
                      some ((pre, k, takeWs s2 ++ 58 :: takeWs s3, v, takeWs r) :: ms, r'')
                  else none
            else none
      else none
end

/-- the whole input is one JSON value with white space around it -/
def parseJsonC (s : GoString) : Option CJson :=
  match parseC (2 * (dropWs s).length + 2) maxDepth (dropWs s) with
  | some (v, r) => if dropWs r = [] then some v else none
  | none => none

/-! ### raw text and abstract tree of a value -/

mutual
/-- the bytes of the value as written (what a `json.RawMessage` receives) -/
def CJson.raw : CJson → GoString
  | .null => sNull
  | .bool b => if b then sTrue else sFalse
  | .num lit => lit
  | .str r => 34 :: (r ++ [34])
  | .arr ws items => 91 :: ((if items.isEmpty then ws else CJson.rawItems items) ++ [93])
  | .obj ws ms => 123 :: ((if ms.isEmpty then ws else CJson.rawMembers ms) ++ [125])
def CJson.rawItems : List CItem → GoString
  | [] => []
  | (pre, v, post) :: rest =>
    pre ++ v.raw ++ post ++ (if rest.isEmpty then [] else 44 :: CJson.rawItems rest)
def CJson.rawMembers : List CMember → GoString
  | [] => []
  | (pre, k, mid, v, post) :: rest =>
    pre ++ 34 :: (k ++ 34 :: (mid ++ v.raw ++ post ++
      (if rest.isEmpty then [] else 44 :: CJson.rawMembers rest)))
end

mutual
/-- the tree of the value: members in source order, repeated keys kept -/
def CJson.toJson : CJson → Json
  | .null => .null
  | .bool b => .bool b
  | .num lit => .num lit
  | .str r => .str (unquote r)
  | .arr _ items => .arr (CJson.toJsonItems items)
  | .obj _ ms => .obj (CJson.toJsonMembers ms)
def CJson.toJsonItems : List CItem → List Json
  | [] => []
  | (_, v, _) :: rest => v.toJson :: CJson.toJsonItems rest
def CJson.toJsonMembers : List CMember → List (GoString × Json)
  | [] => []
  | (_, k, _, v, _) :: rest => (unquote k, v.toJson) :: CJson.toJsonMembers rest
end

/-- `encoding/json` reading one JSON value from the bytes: its tree, `none` when
`json.Valid` is false. -/
def parseJsonFull (s : GoString) : Option Json := (parseJsonC s).map CJson.toJson

end Jsonapi.Spec
