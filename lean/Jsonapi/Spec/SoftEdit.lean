/-
C17S — definitions only: the operations of a SoftResource whose type is edited while it
holds values, the model's step (`Soft.apply`), the specification state (a plain map from the
current type's field names to values) with its own step, the domain of operation lists and
the abstraction relation between the two.

The specification is written without looking at `check`: it never materialises or prunes
anything lazily; a field gets its zero value at the moment it (re)appears and loses its value
at the moment it disappears.
Core-only and computable.
-/
import Jsonapi.Spec.Collection
namespace Jsonapi

/-! ### Operations and the model's step -/

inductive SoftOp where
  | set (k : GoString) (v : GoVal)
  | addAttr (a : Attr)
  | addRel (r : Rel)
  | removeField (f : GoString)
  | setType (t : Typ)
deriving Repr

/-- One call on the model (none of these calls returns anything or can fail). -/
def Soft.apply (s : Soft) : SoftOp → Soft
  | .set k v => s.set k v
  | .addAttr a => s.addAttr a
  | .addRel r => s.addRel r
  | .removeField f => s.removeField f
  | .setType t => s.setType t

def Soft.run (s : Soft) (ops : List SoftOp) : Soft := ops.foldl Soft.apply s

namespace Spec

/-- The ID a `Set("id", v)` stores: `v` when it is a string, else the empty string. -/
def idOfVal : GoVal → GoString
  | .val .string (.s id) => id
  | _ => []

/-- The specification state: the current type, the ID, and one value per field name of
the current type. -/
structure SoftSt where
  typ : Typ
  id : GoString
  vals : GoMap GoVal
deriving Repr

namespace SoftSt

/-- Reading: the ID for "id", the field's value for a field, nil for any other name. -/
def get (σ : SoftSt) (f : GoString) : GoVal :=
  if f = idName then .val .string (.s σ.id) else (σ.vals.get? f).getD .nil

/-- One operation on the plain map.
* `Set` of "id" stores the ID; `Set` of a value the field's definition accepts replaces
  the field's value (`Spec.stored`: an untyped nil for a nullable attribute is the typed nil);
  any other `Set` is ignored.
* `AddAttr` / `AddRel` of a name that is already a field is a no-op; otherwise the type gains
  the field and the field holds its zero value.
* `RemoveField` drops the name from the type, and its value.
* `SetType t'`: every field of `t'` that was a field before keeps its value, every other
  field of `t'` holds its zero value; nothing else is kept. -/
def step (σ : SoftSt) : SoftOp → SoftSt
  | .set k v =>
    if k = idName then { σ with id := idOfVal v }
    else if accepts σ.typ k v then { σ with vals := σ.vals.set k (stored σ.typ k v) }
    else σ
  | .addAttr a =>
    if isField σ.typ a.name then σ
    else { σ with typ := { σ.typ with attrs := σ.typ.attrs.set a.name a },
                  vals := σ.vals.set a.name a.zero }
  | .addRel r =>
    if isField σ.typ r.fromName then σ
    else { σ with typ := { σ.typ with rels := σ.typ.rels.set r.fromName r },
                  vals := σ.vals.set r.fromName r.zero }
  | .removeField f =>
    { σ with typ := { σ.typ with attrs := σ.typ.attrs.del f, rels := σ.typ.rels.del f },
             vals := σ.vals.del f }
  | .setType t =>
    { σ with typ := t,
             vals := (t.attrs.keys ++ t.rels.keys).map
               (fun f => (f, (σ.vals.get? f).getD (fieldZero t f))) }

def run (σ : SoftSt) (ops : List SoftOp) : SoftSt := ops.foldl step σ

/-- The plain map standing for a resource as it is found: every field of its type holds
the value stored for it, or its zero value when none is stored. -/
def ofSoft (s : Soft) : SoftSt :=
  { typ := s.typ, id := s.id,
    vals := (s.typ.attrs.keys ++ s.typ.rels.keys).map
      (fun f => (f, (s.data.get? f).getD (fieldZero s.typ f))) }

end SoftSt
end Spec

/-! ### Domain -/

/-- Is the operation in the domain, given the resource's current type?
* `AddAttr` / `AddRel`: the new field is not called "id" (`Get("id")` is the resource's ID);
* `SetType t'`: `t'` is keyed (map key = stored name, attribute and relationship names
  disjoint: the part of `TypWF` the start type is required to have), none of its fields is
  called "id", and a field name kept by SetType keeps its definition (`Compat`, the C19
  domain decision);
* `Set` (any key, any value, well-typed or not) and `RemoveField` (any name): no condition. -/
def SoftOp.ok (t : Typ) : SoftOp → Prop
  | .addAttr a => a.name ≠ idName
  | .addRel r => r.fromName ≠ idName
  | .setType t' => TypKeyed t' ∧ Spec.isField t' idName = false ∧ Compat t t'
  | _ => True

instance SoftOp.okDec (t : Typ) (op : SoftOp) : Decidable (op.ok t) := by
  cases op <;> unfold SoftOp.ok <;> exact inferInstance

/-- The domain of operation lists: every operation is in the domain for the type current
when it is issued (evaluated along the run of the plain map). -/
def SoftHistOk (σ : Spec.SoftSt) : List SoftOp → Prop
  | [] => True
  | op :: ops => op.ok σ.typ ∧ SoftHistOk (σ.step op) ops

instance SoftHistOk.dec : (σ : Spec.SoftSt) → (ops : List SoftOp) → Decidable (SoftHistOk σ ops)
  | _, [] => isTrue trivial
  | σ, op :: ops =>
    have := SoftHistOk.dec (σ.step op) ops
    inferInstanceAs (Decidable (op.ok σ.typ ∧ SoftHistOk (σ.step op) ops))

/-! ### Abstraction relation (the invariant of every reachable state) -/

/-- The model resource against the plain map: same type and ID; the type is keyed and has
no field called "id"; and the map holds, for exactly the fields of the type, the value the
resource stores for the name, or the field's zero value when it stores none (values the
resource still stores under names that are no field - left behind by RemoveField / SetType
until the next `check` - do not count). -/
structure SoftAbs (s : Soft) (σ : Spec.SoftSt) : Prop where
  typ : s.typ = σ.typ
  id : s.id = σ.id
  keyed : TypKeyed σ.typ
  noId : Spec.isField σ.typ idName = false
  vals : ∀ f, σ.vals.get? f =
    if Spec.isField σ.typ f = true then some ((s.data.get? f).getD (Spec.fieldZero σ.typ f)) else none

/-- Every value of the plain map is acceptable for its field's current definition, or is
that definition's zero value (the two differ only for an attribute whose kind code is not
one of the fourteen kinds: nothing is acceptable for it and its zero value is untyped nil). -/
def SoftTyped (σ : Spec.SoftSt) : Prop :=
  ∀ f v, σ.vals.get? f = some v → Spec.accepts σ.typ f v = true ∨ v = Spec.fieldZero σ.typ f

end Jsonapi
