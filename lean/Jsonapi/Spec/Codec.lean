/-
Real decoders for the two delegated codecs of the round trip (C01 / C02): a base64
(StdEncoding, padded) decoder for what `b64enc` writes, and an RFC 3339 decoder for what
`formatTime` writes. Both are total and computable; that they invert the model's encoders
is proved in `Proofs/RoundTripCodecs.lean` and `Proofs/TimeCodecLemmas.lean`.
-/
import Jsonapi.Model.Json
import Jsonapi.Model.Value
namespace Jsonapi.Spec
open Jsonapi

/-! ### base64 -/

/-- value of a base64 (StdEncoding) alphabet byte -/
def b64Val (c : UInt8) : Nat :=
  let x := c.toNat
  if 65 ≤ x ∧ x ≤ 90 then x - 65
  else if 97 ≤ x ∧ x ≤ 122 then x - 71
  else if 48 ≤ x ∧ x ≤ 57 then x + 4
  else if x = 43 then 62 else 63

/-- a decoder for what `b64enc` writes (padded StdEncoding) -/
def b64decode : List UInt8 → Option (List UInt8)
  | [] => some []
  | a :: b :: c :: d :: rest =>
    if c = 61 ∧ d = 61 ∧ rest = [] then
      some [UInt8.ofNat ((b64Val a * 64 + b64Val b) / 16)]
    else if d = 61 ∧ rest = [] then
      let n := b64Val a * 4096 + b64Val b * 64 + b64Val c
      some [UInt8.ofNat (n / 1024), UInt8.ofNat ((n / 4) % 256)]
    else
      let n := b64Val a * 262144 + b64Val b * 4096 + b64Val c * 64 + b64Val d
      match b64decode rest with
      | some r => some (UInt8.ofNat (n / 65536) :: UInt8.ofNat ((n / 256) % 256) :: UInt8.ofNat (n % 256) :: r)
      | none => none
  | _ => none

/-! ### RFC 3339 -/

/-- day number (counted from 1970-01-01) of a civil date of the proleptic Gregorian
calendar; the inverse of `civilFromDays` (Howard Hinnant's `days_from_civil`; `/` on `Int`
rounds down for a positive divisor, so the era needs no case distinction). -/
def daysFromCivil (y m d : Int) : Int :=
  let y' := if m ≤ 2 then y - 1 else y
  let era := y' / 400
  let yoe := y' - era * 400
  let mp := if m ≤ 2 then m + 9 else m - 3
  let doy := (153 * mp + 2) / 5 + d - 1
  let doe := yoe * 365 + yoe / 4 - yoe / 100 + doy
  era * 146097 + doe - 719468

/-- an ASCII digit -/
def isDig (c : UInt8) : Bool := 48 ≤ c && c ≤ 57

/-- value of a string of ASCII digits (0 for the empty string) -/
def decVal (s : GoString) : Nat := s.foldl (fun acc c => acc * 10 + (c.toNat - 48)) 0

/-- exactly `w` ASCII digits at the front: their value and the rest -/
def takeNum (w : Nat) (s : GoString) : Option (Nat × GoString) :=
  let a := s.take w
  if a.length = w ∧ a.all isDig = true then some (decVal a, s.drop w) else none

/-- the byte `c` at the front: the rest -/
def expect (c : UInt8) : GoString → Option GoString
  | x :: r => if x = c then some r else none
  | [] => none

/-- an optional fraction `.d{1,9}` at the front, right-padded with zeros to nanoseconds:
the nanoseconds (0 when there is no fraction) and the rest -/
def parseFrac : GoString → Option (Nat × GoString)
  | [] => some (0, [])
  | c :: r =>
    if c = 46 then
      let ds := r.takeWhile isDig
      if 1 ≤ ds.length ∧ ds.length ≤ 9 then
        some (decVal (ds ++ List.replicate (9 - ds.length) 48), r.dropWhile isDig)
      else none
    else some (0, c :: r)

/-- the zone, up to the end of the text: `Z`, or `+HH:MM` / `-HH:MM`; seconds east of UTC -/
def parseZone : GoString → Option Int
  | [] => none
  | c :: r =>
    if c = 90 then (if r = [] then some 0 else none)
    else if c = 43 ∨ c = 45 then
      (takeNum 2 r).bind fun (hh, r1) =>
      (expect 58 r1).bind fun r2 =>
      (takeNum 2 r2).bind fun (mm, r3) =>
      if r3 = [] then
        let a : Int := (hh * 3600 + mm * 60 : Nat)
        some (if c = 45 then -a else a)
      else none
    else none

/-- A decoder for `YYYY-MM-DDTHH:MM:SS[.d{1,9}](Z|(+|-)HH:MM)`: fixed-width ASCII digit
fields, the separators exactly as written, nothing after the zone. The instant is the
civil time minus the zone offset; field ranges (month ≤ 12, hour ≤ 23, …) are not checked. -/
def parseRFC3339 (s : GoString) : Option Time :=
  (takeNum 4 s).bind fun (y, s) =>
  (expect 45 s).bind fun s =>
  (takeNum 2 s).bind fun (m, s) =>
  (expect 45 s).bind fun s =>
  (takeNum 2 s).bind fun (d, s) =>
  (expect 84 s).bind fun s =>
  (takeNum 2 s).bind fun (hh, s) =>
  (expect 58 s).bind fun s =>
  (takeNum 2 s).bind fun (mi, s) =>
  (expect 58 s).bind fun s =>
  (takeNum 2 s).bind fun (ss, s) =>
  (parseFrac s).bind fun (ns, s) =>
  (parseZone s).bind fun off =>
  some { sec := daysFromCivil y m d * 86400 + ((hh * 3600 + mi * 60 + ss : Nat) : Int) - off,
         nsec := ns, off := off }

/-- The domain on which `parseRFC3339` inverts `formatTime`: the local civil year is
0..9999 (four digits), the nanoseconds are below one second, the zone offset is a whole
number of minutes strictly within a day. -/
def TimeDom (t : Time) : Prop :=
  -62167219200 ≤ t.sec + t.off ∧ t.sec + t.off < 253402300800 ∧
  t.nsec < 1000000000 ∧ t.off % 60 = 0 ∧ -86400 < t.off ∧ t.off < 86400

instance instDecidableTimeDom (t : Time) : Decidable (TimeDom t) := by
  unfold TimeDom; exact inferInstance

end Jsonapi.Spec
