/-
Specification of resources (C17) and of SoftCollection (C19), from the property texts.
-/
import Jsonapi.Model.Soft
import Jsonapi.Model.Struct
import Jsonapi.Model.Equal
namespace Jsonapi.Spec
open Jsonapi

/-- Canonical reading of a value: typed and untyped nil pointers are nil; nil and empty
byte strings are the empty byte string. -/
def canon : GoVal → GoVal
  | .ptr _ none => .nil
  | .val .bytes (.bs none) => .val .bytes (.bs (some []))
  | .ptr .bytes (some (.bs none)) => .ptr .bytes (some (.bs (some [])))
  | v => v

/-- Zero value of a field of the type: the kind's zero (nil for nullable attributes),
empty string / empty list for relationships; untyped nil for a name that is no field. -/
def zeroOf (t : Typ) (f : GoString) : GoVal :=
  match t.attrs.get? f with
  | some a => canon a.zero
  | none => match t.rels.get? f with
    | some r => r.zero
    | none => .nil

/-- A Set call is well-typed for the type: the ID with a string, an attribute with a
value of its declared Go type (or untyped nil for a nullable one), a relationship with a
string / string list according to its cardinality. -/
def setOk (t : Typ) (k : GoString) (v : GoVal) : Bool :=
  if k = idName then (match v with | .val .string (.s _) => true | _ => false)
  else match t.attrs.get? k with
  | some a => (match Kind.ofCode? a.ty with
    | some kind => v.hasAttrType kind a.nullable || (a.nullable && v = .nil)
    | none => false)
  | none => match t.rels.get? k with
    | some r => (match v with
      | .val .string (.s _) => r.toOne
      | .strs _ => !r.toOne
      | _ => false)
    | none => false

/-- The abstract resource: the value most recently set for the field, else its zero. -/
def specGet (t : Typ) (hist : List (GoString × GoVal)) (f : GoString) : GoVal :=
  match hist.reverse.find? (fun p => p.1 = f) with
  | some p => canon p.2
  | none => zeroOf t f

def specId (hist : List (GoString × GoVal)) : GoString :=
  match hist.reverse.find? (fun p => p.1 = idName) with
  | some (_, .val .string (.s id)) => id
  | _ => []

/-- Field names of a type usable by both implementations: none is "id" (or empty). -/
def namesOk (t : Typ) : Bool :=
  (t.attrs.keys ++ t.rels.keys).all (fun k => k ≠ idName && k ≠ [])

/-! ### SoftCollection as a plain ordered list (C19) -/

/-- One stored row: the ID and the snapshot of explicitly stored field values. -/
structure Row where
  id : GoString
  vals : GoMap GoVal
deriving Repr

/-- The abstract store: the current type and the rows in order. -/
structure Store where
  typ : Typ
  rows : List Row

/-- What a stored row exposes: exactly the current fields; the stored value, or the
field's zero value when it has none (fields added after the row was stored). -/
def Row.get (t : Typ) (row : Row) (f : GoString) : GoVal :=
  if f = idName then .val .string (.s row.id)
  else if t.attrs.has f ∨ t.rels.has f then
    match row.vals.get? f with
    | some v => v
    | none => match t.attrs.get? f with
      | some a => a.zero
      | none => (match t.rels.get? f with | some r => r.zero | none => .nil)
  else .nil

/-- Is `v` acceptable for the name under the type's definition of it? -/
def accepts (t : Typ) (f : GoString) (v : GoVal) : Bool :=
  match t.attrs.get? f with
  | some a => v.attrType = (a.ty, a.nullable) || (v = .nil && a.nullable)
  | none => match t.rels.get? f with
    | some r => (match v with
      | .val .string (.s _) => r.toOne
      | .strs _ => !r.toOne
      | _ => false)
    | none => false

/-- The value actually stored for an accepted Set (untyped nil becomes the typed zero). -/
def stored (t : Typ) (f : GoString) (v : GoVal) : GoVal :=
  match t.attrs.get? f with
  | some a => if v = .nil && a.nullable && v.attrType ≠ (a.ty, a.nullable) then a.zero else v
  | none => v

end Jsonapi.Spec
