/-
Model of schema.go and the Type/Attr/Rel part of type.go.

Go maps are association lists; the list order stands for whatever iteration
order the runtime picks, so theorems that must hold "for every iteration order"
are stated for all permutations of these lists.
-/
import Jsonapi.Basic.Core
namespace Jsonapi

/-! ### Go map as association list -/

abbrev GoMap (β : Type) := List (GoString × β)

namespace GoMap
variable {β : Type}

def keys (m : GoMap β) : List GoString := m.map (·.1)
def vals (m : GoMap β) : List β := m.map (·.2)

def get? (m : GoMap β) (k : GoString) : Option β :=
  match m with
  | [] => none
  | (k', v) :: rest => if k' = k then some v else get? rest k

def has (m : GoMap β) (k : GoString) : Bool := (get? m k).isSome

/-- `m[k] = v` -/
def set (m : GoMap β) (k : GoString) (v : β) : GoMap β :=
  match m with
  | [] => [(k, v)]
  | (k', v') :: rest => if k' = k then (k, v) :: rest else (k', v') :: set rest k v

/-- `delete(m, k)` -/
def del (m : GoMap β) (k : GoString) : GoMap β := m.filter (fun p => p.1 ≠ k)

end GoMap

/-! ### Attr, Rel, Type, Schema -/

structure Attr where
  name : GoString
  ty : Nat            -- the Go `int` code; 1..14 are the valid kinds
  nullable : Bool
deriving DecidableEq, Repr, Inhabited

/-- `GetAttrTypeString(t, nullable) != ""`: exactly the fourteen valid kinds,
nullable or not. -/
def attrTypeStringNonEmpty (ty : Nat) (_nullable : Bool) : Bool :=
  1 ≤ ty && ty ≤ 14

structure Rel where
  fromType : GoString
  fromName : GoString
  toOne : Bool
  toType : GoString
  toName : GoString
  fromOne : Bool
deriving DecidableEq, Repr, Inhabited

namespace Rel

/-- type.go `Rel.Invert` -/
def invert (r : Rel) : Rel :=
  { fromType := r.toType, fromName := r.toName, toOne := r.fromOne,
    toType := r.fromType, toName := r.fromName, fromOne := r.toOne }

/-- type.go `Rel.Normalize`: keep `r` when it is one-way or when
`(FromType, FromName) ≤ (ToType, ToName)` as a pair, else invert. -/
def normalize (r : Rel) : Rel :=
  if r.toName = [] then r
  else if r.fromType < r.toType then r
  else if r.fromType = r.toType ∧ (r.fromName < r.toName ∨ r.fromName = r.toName) then r
  else r.invert

def us : GoString := [95]  -- "_"

/-- type.go `Rel.String` -/
def string (r : Rel) : GoString :=
  let n := r.normalize
  let id := n.fromType ++ us ++ n.fromName
  if n.toName ≠ [] then id ++ us ++ n.toType ++ us ++ n.toName else id

/-- The total order `relLess` used by `Schema.Rels` to sort: lexicographic on
(FromType, FromName, ToType, ToName, ToOne, FromOne); `false < true`. -/
def key (r : Rel) : List GoString :=
  [r.fromType, r.fromName, r.toType, r.toName,
   [if r.toOne then 1 else 0], [if r.fromOne then 1 else 0]]

def less (a b : Rel) : Bool := decide (a.key < b.key)
def le (a b : Rel) : Bool := !(less b a)

end Rel

structure Typ where
  name : GoString
  attrs : GoMap Attr
  rels : GoMap Rel
deriving DecidableEq, Repr, Inhabited

namespace Typ

def empty : Typ := { name := [], attrs := [], rels := [] }

/-- Is `n` the Name of some attribute value / FromName of some relationship value? -/
def attrNameUsed (t : Typ) (n : GoString) : Bool := t.attrs.any (fun p => p.2.name = n)
def relNameUsed (t : Typ) (n : GoString) : Bool := t.rels.any (fun p => p.2.fromName = n)

/-- type.go `Type.AddAttr` (with the shared attribute/relationship namespace). -/
def addAttr (t : Typ) (a : Attr) : Typ × Res Unit :=
  if a.name = [] then (t, .err)
  else if !attrTypeStringNonEmpty a.ty a.nullable then (t, .err)
  else if t.attrNameUsed a.name then (t, .err)
  else if t.relNameUsed a.name then (t, .err)
  else ({ t with attrs := t.attrs.set a.name a }, .ok ())

/-- type.go `Type.RemoveAttr` -/
def removeAttr (t : Typ) (n : GoString) : Typ :=
  if t.attrNameUsed n then { t with attrs := t.attrs.del n } else t

/-- type.go `Type.AddRel` -/
def addRel (t : Typ) (r : Rel) : Typ × Res Unit :=
  if r.fromName = [] then (t, .err)
  else if r.toType = [] then (t, .err)
  else if t.relNameUsed r.fromName then (t, .err)
  else if t.attrNameUsed r.fromName then (t, .err)
  else ({ t with rels := t.rels.set r.fromName r }, .ok ())

/-- type.go `Type.RemoveRel` -/
def removeRel (t : Typ) (n : GoString) : Typ :=
  if t.relNameUsed n then { t with rels := t.rels.del n } else t

/-- Insertion sort on Go strings: the model's `sort.Strings` (the result of
sorting under a total order is unique, so any algorithm will do). -/
def insertSorted (x : GoString) : List GoString → List GoString
  | [] => [x]
  | y :: ys => if x < y ∨ x = y then x :: y :: ys else y :: insertSorted x ys
def sortStrings (l : List GoString) : List GoString := l.foldr insertSorted []

/-- type.go `Type.Fields` -/
def fields (t : Typ) : List GoString :=
  sortStrings (t.attrs.vals.map (·.name) ++ t.rels.vals.map (·.fromName))

end Typ

structure Schema where
  types : List Typ
deriving DecidableEq, Repr, Inhabited

namespace Schema

def empty : Schema := { types := [] }

/-- schema.go `HasType` -/
def hasType (s : Schema) (n : GoString) : Bool := s.types.any (fun t => t.name = n)

/-- schema.go `GetType`: first type with that name, else the zero `Type`. -/
def getType (s : Schema) (n : GoString) : Typ :=
  match s.types.find? (fun t => t.name = n) with
  | some t => t
  | none => Typ.empty

/-- schema.go `AddType` -/
def addType (s : Schema) (t : Typ) : Schema × Res Unit :=
  if t.name = [] then (s, .err)
  else if s.hasType t.name then (s, .err)
  else ({ types := s.types ++ [t] }, .ok ())

/-- Remove the first element satisfying `p`. -/
def eraseFirst {α} (p : α → Bool) : List α → List α
  | [] => []
  | x :: xs => if p x then xs else x :: eraseFirst p xs

/-- schema.go `RemoveType`: splice out the first type of that name and stop. -/
def removeType (s : Schema) (n : GoString) : Schema :=
  { types := eraseFirst (fun t => t.name = n) s.types }

/-- Apply `f` to the first type named `n` (the `for i := range s.Types … return`
pattern of AddAttr / AddRel); `none` if no such type. -/
def updFirst (n : GoString) (f : Typ → Typ × Res Unit) : List Typ → Option (List Typ × Res Unit)
  | [] => none
  | t :: ts =>
    if t.name = n then
      let (t', r) := f t
      some (t' :: ts, r)
    else match updFirst n f ts with
      | none => none
      | some (ts', r) => some (t :: ts', r)

/-- Apply `f` to every type named `n` (the pattern of RemoveAttr / RemoveRel,
which do not stop at the first match). -/
def updAll (n : GoString) (f : Typ → Typ) (ts : List Typ) : List Typ :=
  ts.map (fun t => if t.name = n then f t else t)

def addAttr (s : Schema) (n : GoString) (a : Attr) : Schema × Res Unit :=
  match updFirst n (fun t => t.addAttr a) s.types with
  | none => (s, .err)
  | some (ts, r) => ({ types := ts }, r)

def removeAttr (s : Schema) (n a : GoString) : Schema :=
  { types := updAll n (fun t => t.removeAttr a) s.types }

def addRel (s : Schema) (n : GoString) (r : Rel) : Schema × Res Unit :=
  match updFirst n (fun t => t.addRel r) s.types with
  | none => (s, .err)
  | some (ts, r) => ({ types := ts }, r)

def removeRel (s : Schema) (n a : GoString) : Schema :=
  { types := updAll n (fun t => t.removeRel a) s.types }

/-- Apply `f` to the type(s) named `n`. In Go, `AddTwoWayRel` remembers the index of
the last type with each name and edits `s.Types[i]`; on a schema with unique type
names (C14's invariant — every schema reachable through the API) that is the one
type of that name, which is what this does. -/
def mapNamed (n : GoString) (f : Typ → Typ) (ts : List Typ) : List Typ :=
  ts.map (fun t => if t.name = n then f t else t)

/-- Result of `s.Types[i].AddRel(x)` when a type named `x.FromType` exists, else ok. -/
def twRes (s : Schema) (x : Rel) : Res Unit :=
  if s.hasType x.fromType then ((s.getType x.fromType).addRel x).2 else .ok ()

/-- The schema after that `AddRel`. -/
def twAdd (s : Schema) (x : Rel) : Schema :=
  { types := mapNamed x.fromType (fun t => (t.addRel x).1) s.types }

/-- `s.Types[i].RemoveRel(x.FromName)`: undo one half. -/
def twUndo (s : Schema) (x : Rel) : Schema :=
  { types := mapNamed x.fromType (fun t => t.removeRel x.fromName) s.types }

/-- schema.go `AddTwoWayRel` -/
def addTwoWayRel (s : Schema) (rel : Rel) : Schema × Res Unit :=
  let rel1 := rel.normalize
  let rel2 := rel1.invert
  if twRes s rel1 ≠ .ok () then (s, twRes s rel1)
  else
    let s1 := twAdd s rel1
    if twRes s1 rel2 ≠ .ok () then (twUndo s1 rel1, twRes s1 rel2)
    else
      let s2 := twAdd s1 rel2
      if s.hasType rel1.fromType && s.hasType rel2.fromType then (s2, .ok ())
      else (twUndo (twUndo s2 rel1) rel2, .err)

/-! ### Check -/

/-- First test of `Check` for one relationship: the target type does not exist. -/
def checkTarget (s : Schema) (r : Rel) : Nat :=
  if (s.getType r.toType).name = [] then 1 else 0

/-- Second test: a relationship naming an inverse must be declared from its own type
and be reciprocated by a relationship of the target type. -/
def checkInverse (s : Schema) (t : Typ) (r : Rel) : Nat :=
  if r.toName = [] then 0
  else if r.fromType ≠ t.name then 1
  else if (s.getType r.toType).rels.any (fun p =>
      r.fromName = p.2.toName ∧ r.toName = p.2.fromName ∧ p.2.toType = t.name) then 0
  else 1

/-- One relationship of one type, as `Check` looks at it: number of errors appended. -/
def checkRel (s : Schema) (t : Typ) (r : Rel) : Nat := checkTarget s r + checkInverse s t r

/-- schema.go `Check`: the list of (type name, relationship name, #errors) with #errors > 0,
in iteration order. -/
def check (s : Schema) : List (GoString × GoString × Nat) :=
  s.types.flatMap (fun t =>
    t.rels.filterMap (fun p =>
      let n := checkRel s t p.2
      if n = 0 then none else some (t.name, p.2.fromName, n)))

def checkCount (s : Schema) : Nat := (check s).foldl (fun acc e => acc + e.2.2) 0

/-! ### Rels -/

/-- keep the last occurrence of each element -/
def dedup {α} [DecidableEq α] : List α → List α
  | [] => []
  | a :: l => if a ∈ l then dedup l else a :: dedup l

/-- The relationships of the target type that point back at `r` of type `t`: the
matching criterion of `Check` (`checkInverse`), which `buildRels` uses too. -/
def backRels (s : Schema) (t : Typ) (r : Rel) : List Rel :=
  (s.getType r.toType).rels.vals.filter (fun inv =>
    decide (inv.fromName = r.toName ∧ inv.toName = r.fromName ∧ inv.toType = t.name))

/-- schema.go `buildRels`, the completion of one relationship before it is normalised:
the cardinality of the other side of a two-way relationship is the one its inverse(s)
declare - `FromOne` becomes the conjunction of their `ToOne` - when at least one exists.
A one-way relationship, and one that nothing points back at, is left as it is. -/
def complete (s : Schema) (t : Typ) (r : Rel) : Rel :=
  if r.toName = [] then r
  else if (backRels s t r).isEmpty then r
  else { r with fromOne := (backRels s t r).all (·.toOne) }

/-- schema.go `buildRels`: the set of completed, normalised relationships. -/
def relSet (s : Schema) : List Rel :=
  dedup (s.types.flatMap (fun t => t.rels.vals.map (fun r => (complete s t r).normalize)))

/-- schema.go `Rels`: the set sorted by `relLess`. -/
def relsSorted (s : Schema) : List Rel := (relSet s).mergeSort Rel.le

end Schema
end Jsonapi
