/-
Go values as the library sees them (`any` holding one of the 30 dynamic types it
switches on), attribute kinds, and the abstract view of a Resource.
-/
import Jsonapi.Model.Schema
namespace Jsonapi

def idName : GoString := [105, 100]  -- "id"

/-- The fourteen attribute kinds, in the order of the `AttrType*` constants (1..14). -/
inductive Kind where
  | string | int | int8 | int16 | int32 | int64
  | uint | uint8 | uint16 | uint32 | uint64
  | bool | time | bytes
deriving DecidableEq, Repr, Inhabited

namespace Kind
def all : List Kind :=
  [string, int, int8, int16, int32, int64, uint, uint8, uint16, uint32, uint64, bool, time, bytes]

def code : Kind → Nat
  | string => 1 | int => 2 | int8 => 3 | int16 => 4 | int32 => 5 | int64 => 6
  | uint => 7 | uint8 => 8 | uint16 => 9 | uint32 => 10 | uint64 => 11
  | bool => 12 | time => 13 | bytes => 14

def ofCode? (n : Nat) : Option Kind := all.find? (fun k => k.code = n)

/-- Inclusive range of the integer kinds (`int`/`uint` are 64-bit on the target). -/
def range? : Kind → Option (Int × Int)
  | int => some (-(2^63), 2^63 - 1) | int8 => some (-128, 127) | int16 => some (-32768, 32767)
  | int32 => some (-(2^31), 2^31 - 1) | int64 => some (-(2^63), 2^63 - 1)
  | uint => some (0, 2^64 - 1) | uint8 => some (0, 255) | uint16 => some (0, 65535)
  | uint32 => some (0, 2^32 - 1) | uint64 => some (0, 2^64 - 1)
  | _ => none

def isInt (k : Kind) : Bool := k.range?.isSome

/-- `fmt.Sprintf("%T", v)` for a non-pointer value of the kind. -/
def goName : Kind → String
  | string => "string" | int => "int" | int8 => "int8" | int16 => "int16" | int32 => "int32"
  | int64 => "int64" | uint => "uint" | uint8 => "uint8" | uint16 => "uint16" | uint32 => "uint32"
  | uint64 => "uint64" | bool => "bool" | time => "time.Time" | bytes => "[]uint8"
end Kind

/-- A `time.Time`: the instant (Unix seconds + nanoseconds) and the zone offset in
seconds east of UTC. Comparison (`Equal`/`Before`/`After`) looks at the instant only. -/
structure Time where
  sec : Int
  nsec : Nat
  off : Int
deriving DecidableEq, Repr, Inhabited

namespace Time
def before (a b : Time) : Bool := decide (a.sec < b.sec ∨ (a.sec = b.sec ∧ a.nsec < b.nsec))
def equal (a b : Time) : Bool := decide (a.sec = b.sec ∧ a.nsec = b.nsec)
def after (a b : Time) : Bool := before b a
end Time

/-- Payload of an attribute value. `bs none` is a nil byte slice. -/
inductive Pay where
  | s (v : GoString)
  | i (v : Int)
  | b (v : Bool)
  | t (v : Time)
  | bs (v : Option (List UInt8))
deriving DecidableEq, Repr, Inhabited

/-- Does the payload have the shape (and range) of the kind? -/
def Kind.payOk (k : Kind) : Pay → Bool
  | .s _ => k = .string
  | .i v => match k.range? with
    | some (lo, hi) => decide (lo ≤ v ∧ v ≤ hi)
    | none => false
  | .b _ => k = .bool
  | .t _ => k = .time
  | .bs _ => k = .bytes

/-- A Go value held in an `any`. -/
inductive GoVal where
  | val (k : Kind) (p : Pay)            -- `T` for the kind
  | ptr (k : Kind) (p : Option Pay)     -- `*T`; `none` is a typed nil pointer
  | strs (l : List GoString)            -- `[]string` (nil and empty are not distinguishable through the library)
  | nil                                 -- untyped nil
  | other (tag : Nat)                   -- any other dynamic type
deriving DecidableEq, Repr, Inhabited

namespace GoVal

/-- `fmt.Sprintf("%T", v)` -/
def goType : GoVal → String
  | val k _ => k.goName
  | ptr k _ => "*" ++ k.goName
  | strs _ => "[]string"
  | nil => "<nil>"
  | other _ => "other"

/-- The value has exactly the Go type declared by (kind, nullable), payload in range. -/
def hasAttrType (v : GoVal) (k : Kind) (nullable : Bool) : Bool :=
  match v with
  | val k' p => !nullable && k' = k && k.payOk p
  | ptr k' none => nullable && k' = k
  | ptr k' (some p) => nullable && k' = k && k.payOk p
  | _ => false

/-- `GetZeroValue(kind, nullable)` -/
def zero (k : Kind) (nullable : Bool) : GoVal :=
  if nullable then ptr k none
  else val k (match k with
    | .string => .s []
    | .bool => .b false
    | .time => .t { sec := -62135596800, nsec := 0, off := 0 }  -- time.Time{}: 0001-01-01T00:00:00Z
    | .bytes => .bs (some [])
    | _ => .i 0)

end GoVal

/-- What the library reads from a `Resource`: its attribute and relationship
definitions, its ID, and `Get`. The list order of `attrs`/`rels` is the map
iteration order. -/
structure ResView where
  typeName : GoString
  id : GoString
  attrs : GoMap Attr
  rels : GoMap Rel
  vals : GoMap GoVal
deriving Repr, Inhabited

namespace ResView
/-- `res.Get(key)` for a field (untyped nil when absent, as `SoftResource.Get`). -/
def get (r : ResView) (k : GoString) : GoVal := (r.vals.get? k).getD .nil
end ResView

end Jsonapi
