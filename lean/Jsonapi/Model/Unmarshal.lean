/-
Model of the unmarshaling side: Attr.UnmarshalToType (type.go), UnmarshalResource /
UnmarshalPartialResource (resource.go), UnmarshalCollection (collection.go),
UnmarshalDocument (document.go), UnmarshalIdentifier(s) (identifiers.go).

The model starts where the library's own code starts: at the skeleton structs that
`encoding/json` decoded. Decoding of a raw JSON value into a Go string, time.Time,
[]byte or Identifier is *delegated* to the standard library: the skeleton carries,
for each raw value, what `json.Unmarshal` returns for it, and the theorems quantify
over every possible such result. Integer and boolean literals are parsed by the
library's own use of strconv, which is modelled here.
-/
import Jsonapi.Model.Marshal
import Jsonapi.Model.Soft
import Jsonapi.Model.Struct
namespace Jsonapi

/-! ### strconv -/

def isDigit (c : UInt8) : Bool := 48 ≤ c && c ≤ 57

/-- value of a non-empty all-digit string -/
def digitsVal (s : GoString) : Nat := s.foldl (fun acc c => acc * 10 + (c.toNat - 48)) 0

/-- `strconv.ParseUint(s, 10, bits)` -/
def parseUint (bits : Nat) (s : GoString) : Option Nat :=
  if s = [] then none
  else if s.all isDigit then
    let n := digitsVal s
    if n < 2 ^ bits then some n else none
  else none

/-- `strconv.ParseInt(s, 10, bits)` (`Atoi` is the 64-bit case): optional sign, digits, range. -/
def parseInt (bits : Nat) (s : GoString) : Option Int :=
  let (neg, rest) : Bool × GoString :=
    match s with
    | 43 :: r => (false, r)
    | 45 :: r => (true, r)
    | _ => (false, s)
  if rest = [] then none
  else if rest.all isDigit then
    let n := digitsVal rest
    if neg then (if n ≤ 2 ^ (bits - 1) then some (-(n : Int)) else none)
    else (if n < 2 ^ (bits - 1) then some (n : Int) else none)
  else none

def sNull : GoString := [110, 117, 108, 108]
def sTrue : GoString := [116, 114, 117, 101]
def sFalse : GoString := [102, 97, 108, 115, 101]

/-! ### raw values -/

/-- One raw JSON value of the payload with what the standard library decodes it to. -/
structure RawVal where
  bytes : GoString
  decStr : Option GoString                -- json.Unmarshal(raw, &string); none = error
  decTime : Option Time                   -- json.Unmarshal(raw, &time.Time)
  decBytes : Option (Option (List UInt8)) -- json.Unmarshal(raw, &[]byte)
deriving Repr, Inhabited

def Kind.bits : Kind → Nat
  | .int8 | .uint8 => 8
  | .int16 | .uint16 => 16
  | .int32 | .uint32 => 32
  | _ => 64

def Kind.isSigned : Kind → Bool
  | .int | .int8 | .int16 | .int32 | .int64 => true
  | _ => false

def Kind.isUnsigned : Kind → Bool
  | .uint | .uint8 | .uint16 | .uint32 | .uint64 => true
  | _ => false

def mkVal (k : Kind) (nullable : Bool) (p : Pay) : GoVal :=
  if nullable then .ptr k (some p) else .val k p

/-- type.go `Attr.unmarshalToType` (the non-panicking variant the entry points use). -/
def unmarshalToType (a : Attr) (raw : RawVal) : Res GoVal :=
  if raw.bytes = sNull then
    (if a.nullable then .ok a.zero else .err)
  else match Kind.ofCode? a.ty with
  | none => .err
  | some k =>
    if k = .string then
      (match raw.decStr with | some s => .ok (mkVal k a.nullable (.s s)) | none => .err)
    else if k.isSigned then
      (match parseInt k.bits raw.bytes with | some n => .ok (mkVal k a.nullable (.i n)) | none => .err)
    else if k.isUnsigned then
      (match parseUint k.bits raw.bytes with | some n => .ok (mkVal k a.nullable (.i n)) | none => .err)
    else if k = .bool then
      (if raw.bytes = sTrue then .ok (mkVal k a.nullable (.b true))
       else if raw.bytes = sFalse then .ok (mkVal k a.nullable (.b false)) else .err)
    else if k = .time then
      (match raw.decTime with | some t => .ok (mkVal k a.nullable (.t t)) | none => .err)
    else
      -- bytes: only a JSON string (encoding/json would also take an array of numbers)
      (if raw.bytes.head? ≠ some 34 then .err
       else match raw.decBytes with | some b => .ok (mkVal k a.nullable (.bs b)) | none => .err)

/-- A relationship object of the payload. `present`: `len(v.Data) > 0` (also for an
explicit null); the two decodes are `json.Unmarshal(v.Data, &Identifier{})` and
`json.Unmarshal(v.Data, &Identifiers{})`. -/
structure RelRaw where
  present : Bool
  isNull : Bool
  decIdent : Option (GoString × GoString)          -- (id, type)
  decIdents : Option (List (GoString × GoString))
deriving Repr, Inhabited

/-- resourceSkeleton as decoded by encoding/json (map order = iteration order). -/
structure ResSke where
  id : GoString
  typ : GoString
  attrs : GoMap RawVal
  rels : GoMap RelRaw
  smeta : Meta
deriving Repr, Inhabited

/-- A resource under construction: SoftResource or wrapped struct. -/
inductive AnyRes where
  | soft (s : Soft)
  | wrapped (w : Wrapped)
deriving Repr, Inhabited

namespace AnyRes
def set (r : AnyRes) (k : GoString) (v : GoVal) : Res AnyRes :=
  match r with
  | soft s => .ok (soft (s.set k v))
  | wrapped w => (match w.set k v with | .ok w' => .ok (wrapped w') | .err => .err | .panic => .panic)

def view? (r : AnyRes) : Option ResView :=
  match r with
  | soft s => some s.view
  | wrapped w => w.view
end AnyRes

/-- A schema type with the way `Type.New` creates its resources: soft (NewFunc nil) or
the struct-backed wrapper BuildType installs. -/
structure SType where
  typ : Typ
  backed : Bool
deriving Repr, Inhabited

abbrev SSchema := List SType

def SSchema.getType (σ : SSchema) (n : GoString) : Option SType :=
  σ.find? (fun t => t.typ.name = n)

def SSchema.toSchema (σ : SSchema) : Schema := { types := σ.map (·.typ) }

/-- `typ.New()` -/
def SType.new (t : SType) : Res AnyRes :=
  if t.backed then
    (match wrap (declOfTyp t.typ) (Wrapped.zeroVals (declOfTyp t.typ)) with
      | .ok w => .ok (.wrapped w)
      | _ => .panic)
  else .ok (.soft { typ := t.typ, id := [], data := [] })

/-- the relationship part shared by full and partial unmarshaling: the value to Set
(if any) and whether an error is returned -/
def relValue (rel : Rel) (v : RelRaw) : Option GoVal × Bool :=
  if !v.present then (none, false)
  else if rel.toOne then
    match v.decIdent with
    | none => (some (.val .string (.s [])), true)
    | some (id, ty) => (some (.val .string (.s id)), !v.isNull && ty ≠ rel.toType)
  else
    match v.decIdents with
    | none => (some (.strs []), true)
    | some l => (some (.strs (l.map (·.1))), l.any (fun p => p.2 ≠ rel.toType))

/-- resource.go `UnmarshalResource`, from the decoded skeleton. -/
def unmarshalResource (σ : SSchema) (sk : ResSke) : Res AnyRes :=
  match σ.getType sk.typ with
  | none => .err
  | some st =>
    if st.typ.name = [] then .err
    else
    match st.new with
    | .ok r0 =>
      (match r0.set idName (.val .string (.s sk.id)) with
      | .ok r1 =>
        let afterAttrs : Res AnyRes := sk.attrs.foldl (fun acc p =>
          match acc with
          | .ok r =>
            (match st.typ.attrs.get? p.1 with
              | some a => (match unmarshalToType a p.2 with
                | .ok v => r.set a.name v
                | .err => .err
                | .panic => .panic)
              | none => .err)
          | e => e) (.ok r1)
        sk.rels.foldl (fun acc p =>
          match acc with
          | .ok r =>
            (match st.typ.rels.get? p.1 with
              | some rel =>
                let (v, bad) := relValue rel p.2
                (match v with
                  | some x => (match r.set rel.fromName x with
                    | .ok r' => if bad then .err else .ok r'
                    | .err => .err
                    | .panic => .panic)
                  | none => if bad then .err else .ok r)
              | none => .err)
          | e => e) afterAttrs
      | .err => .err
      | .panic => .panic)
    | .err => .err
    | .panic => .panic

/-- resource.go `UnmarshalPartialResource`: a SoftResource whose type holds only the
fields present in the payload. -/
def unmarshalPartialResource (σ : SSchema) (sk : ResSke) : Res Soft :=
  match σ.getType sk.typ with
  | none => .err
  | some st =>
    if st.typ.name = [] then .err
    else
    let s0 : Soft := { typ := { name := st.typ.name, attrs := [], rels := [] }, id := sk.id, data := [] }
    let afterAttrs : Res Soft := sk.attrs.foldl (fun acc p =>
      match acc with
      | .ok s =>
        (match st.typ.attrs.get? p.1 with
          | some a => (match unmarshalToType a p.2 with
            | .ok v => .ok (({ s with typ := (s.typ.addAttr a).1 } : Soft).set a.name v)
            | .err => .err
            | .panic => .panic)
          | none => .err)
      | e => e) (.ok s0)
    sk.rels.foldl (fun acc p =>
      match acc with
      | .ok s =>
        (match st.typ.rels.get? p.1 with
          | some rel =>
            let (v, bad) := relValue rel p.2
            (match v with
              | some x =>
                let s' := ({ s with typ := (s.typ.addRel rel).1 } : Soft).set rel.fromName x
                if bad then .err else .ok s'
              | none => if bad then .err else .ok s)
          | none => .err)
      | e => e) afterAttrs

/-! ### documents -/

/-- What UnmarshalResource receives for one raw resource: `none` when
`json.Unmarshal` into the skeleton failed. -/
abbrev ResSke? := Option ResSke

inductive DataSke where
  | absent                         -- len(ske.Data) == 0
  | null
  | res (sk : ResSke?)             -- first byte '{'
  | col (l : Option (List ResSke?)) -- first byte '['; none: decoding into []RawMessage failed
  | other                          -- any other literal
deriving Repr, Inhabited

structure DocSke where
  data : DataSke
  errors : List ErrorObj
  /-- per included raw value: did it decode into an Identifier, and its skeleton -/
  included : List (Bool × ResSke?)
  dmeta : Meta
deriving Repr, Inhabited

inductive UDocData where
  | none
  | res (r : AnyRes)
  | col (l : List AnyRes)
deriving Repr, Inhabited

structure UDoc where
  data : UDocData
  included : List AnyRes
  errors : List ErrorObj
  dmeta : Meta
deriving Repr, Inhabited

def unmarshalRes? (σ : SSchema) : ResSke? → Res AnyRes
  | none => .err
  | some sk => unmarshalResource σ sk

def unmarshalList (σ : SSchema) : List ResSke? → Res (List AnyRes)
  | [] => .ok []
  | x :: xs =>
    match unmarshalRes? σ x with
    | .ok r => (match unmarshalList σ xs with
      | .ok rs => .ok (r :: rs)
      | .err => .err
      | .panic => .panic)
    | .err => .err
    | .panic => .panic

/-- document.go `UnmarshalDocument`; `none` skeleton: the payload is not valid JSON for
the payload skeleton. -/
def unmarshalDocument (σ : SSchema) (sk : Option DocSke) : Res UDoc :=
  match sk with
  | none => .err
  | some sk =>
    let dataRes : Res (UDocData × List ErrorObj) :=
      match sk.data with
      | .res r => (match unmarshalRes? σ r with
        | .ok x => .ok (.res x, []) | .err => .err | .panic => .panic)
      | .col none => .err
      | .col (some l) => (match unmarshalList σ l with
        | .ok xs => .ok (.col xs, []) | .err => .err | .panic => .panic)
      | .null => .ok (.none, [])
      | .other => .err
      | .absent => .ok (.none, sk.errors)
    match dataRes with
    | .ok (d, errs) =>
      if sk.included.any (fun p => !p.1) then .err
      else (match unmarshalList σ (sk.included.map (·.2)) with
        | .ok incs => .ok { data := d, included := incs, errors := errs, dmeta := sk.dmeta }
        | .err => .err
        | .panic => .panic)
    | .err => .err
    | .panic => .panic

/-- identifiers.go `UnmarshalIdentifier`: decoded (id, type) or decode failure. -/
def unmarshalIdentifier (σ : Option SSchema) (dec : Option (GoString × GoString)) : Res (GoString × GoString) :=
  match dec with
  | none => .err
  | some (id, ty) =>
    if id = [] then .err
    else if ty = [] then .err
    else match σ with
      | some s => if (s.toSchema.hasType ty) then .ok (id, ty) else .err
      | none => .ok (id, ty)

/-- identifiers.go `UnmarshalIdentifiers` -/
def unmarshalIdentifiers (σ : Option SSchema) (dec : Option (List (Option (GoString × GoString)))) :
    Res (List (GoString × GoString)) :=
  match dec with
  | none => .err
  | some l => l.foldr (fun x acc =>
      match unmarshalIdentifier σ x, acc with
      | .ok i, .ok rest => .ok (i :: rest)
      | .panic, _ => .panic
      | _, .panic => .panic
      | _, _ => .err) (.ok [])

end Jsonapi
