/-
Heap model for C18 (copies and new instances are independent of their source).

Everything that can be shared between two resources is a heap cell: the backing array
of a []byte / []string value, and the *Type a SoftResource points to. Values hold
addresses. What `copyData` / `Wrapper.Copy` store for the slice-carrying Go types —
a fresh slice or the source's own — is read from the regenerated facts
(Facts.copyStores, Facts.copyValReturns, Facts.wrapperCopySets).
-/
import Jsonapi.Model.Value
import Jsonapi.Generated.Facts
namespace Jsonapi

abbrev Addr := Nat

inductive Cell where
  | bytes (l : List UInt8)
  | strs (l : List GoString)
  | typ (t : Typ)
deriving Repr, Inhabited

/-- The heap: allocated cells, addressed by position. -/
structure Heap where
  cells : List Cell
deriving Repr, Inhabited

namespace Heap
def empty : Heap := { cells := [] }
def alloc (h : Heap) (c : Cell) : Heap × Addr := ({ cells := h.cells ++ [c] }, h.cells.length)
def read (h : Heap) (a : Addr) : Option Cell := h.cells[a]?
def write (h : Heap) (a : Addr) (c : Cell) : Heap := { cells := h.cells.set a c }
end Heap

/-- A field value in the heap world. Scalars (and pointers to scalars) by value;
slices by the address of their backing array (`none`: nil slice). -/
inductive HVal where
  | scalar (v : GoVal)
  | bytes (a : Option Addr)            -- []byte
  | ptrBytes (p : Option (Option Addr)) -- *[]byte: nil pointer / pointer to a (nil or allocated) slice
  | strs (a : Option Addr)             -- []string
deriving Repr, Inhabited, DecidableEq

/-- A resource (soft or wrapped) in the heap world. `typ`: address of its *Type cell
(a wrapped struct's type is immutable; it gets a cell all the same). -/
structure HRes where
  typ : Addr
  id : GoString
  data : GoMap HVal
deriving Repr, Inhabited

/-- how a slice-carrying value is handed over by a copy -/
inductive StoreMode where
  | fresh    -- a newly allocated slice with the same contents
  | shared   -- the source's own slice
deriving DecidableEq, Repr

/-- copyData: per Go type, read from the regenerated case table: a case that stores
`copyVal(v2)` whose `copyVal` case returns the new slice `nv` / `&nv` is fresh. -/
def softStoreMode (goType : String) : StoreMode :=
  if Facts.copyStores.lookup goType = some ["copyVal(v2)"] ∧
     (Facts.copyValReturns.lookup goType = some ["v2", "nv"] ∨
      Facts.copyValReturns.lookup goType = some ["v2", "&nv"]) then .fresh else .shared

/-- Wrapper.Copy: attributes go through `copyVal(w.Get(attr.Name))`, to-many
relationships through `copyVal(w.Get(rel.FromName).([]string))`. -/
def wrappedStoreMode (goType : String) : StoreMode :=
  let viaCopyVal := if goType = "[]string" then "copyVal(w.Get(rel.FromName).([]string))" ∈ Facts.wrapperCopySets
                    else "copyVal(w.Get(attr.Name))" ∈ Facts.wrapperCopySets
  if viaCopyVal ∧ (Facts.copyValReturns.lookup goType = some ["v2", "nv"] ∨
                   Facts.copyValReturns.lookup goType = some ["v2", "&nv"]) then .fresh else .shared

/-- copy one value under the given modes -/
def copyHVal (mode : String → StoreMode) (h : Heap) (v : HVal) : Heap × HVal :=
  match v with
  | .scalar x => (h, .scalar x)
  | .bytes none => (h, .bytes none)
  | .bytes (some a) =>
    (match mode "[]uint8", h.read a with
      | .fresh, some c => let (h', a') := h.alloc c; (h', .bytes (some a'))
      | _, _ => (h, .bytes (some a)))
  | .strs none => (h, .strs none)
  | .strs (some a) =>
    (match mode "[]string", h.read a with
      | .fresh, some c => let (h', a') := h.alloc c; (h', .strs (some a'))
      | _, _ => (h, .strs (some a)))
  | .ptrBytes none => (h, .ptrBytes none)
  | .ptrBytes (some none) => (h, .ptrBytes (some none))
  | .ptrBytes (some (some a)) =>
    (match mode "*[]uint8", h.read a with
      | .fresh, some c => let (h', a') := h.alloc c; (h', .ptrBytes (some (some a')))
      | _, _ => (h, .ptrBytes (some (some a))))

def copyData (mode : String → StoreMode) (h : Heap) (d : GoMap HVal) : Heap × GoMap HVal :=
  d.foldl (fun acc p =>
    let (h', v') := copyHVal mode acc.1 p.2
    (h', acc.2 ++ [(p.1, v')])) (h, [])

/-- `Copy` (soft: Type.Copy into a new *Type + copyData; wrapped: a new struct whose
fields are Set from copyVal of the source's). -/
def HRes.copy (mode : String → StoreMode) (h : Heap) (r : HRes) : Heap × HRes :=
  match h.read r.typ with
  | some tc =>
    let (h1, ta) := h.alloc tc
    let (h2, d) := copyData mode h1 r.data
    (h2, { typ := ta, id := r.id, data := d })
  | none => (h, r)

/-- `New`: a zero-valued resource with its own copy of the type, no data. -/
def HRes.new (h : Heap) (r : HRes) : Heap × HRes :=
  match h.read r.typ with
  | some tc => let (h1, ta) := h.alloc tc; (h1, { typ := ta, id := [], data := [] })
  | none => (h, r)

/-- addresses reachable from a resource -/
def HRes.reach (r : HRes) : List Addr :=
  r.typ :: r.data.flatMap (fun p => match p.2 with
    | .bytes (some a) => [a]
    | .strs (some a) => [a]
    | .ptrBytes (some (some a)) => [a]
    | _ => [])

/-- what is read from a resource: its type, ID and, per field, the contents -/
def HRes.observe (h : Heap) (r : HRes) : Option Cell × GoString × List (GoString × HVal × Option Cell) :=
  (h.read r.typ, r.id, r.data.map (fun p => (p.1, p.2, match p.2 with
    | .bytes (some a) => h.read a
    | .strs (some a) => h.read a
    | .ptrBytes (some (some a)) => h.read a
    | _ => none)))

/-- Mutations applied to one resource after copying. Every write goes through an
address the resource itself reaches (obtained by Get), or stores a value whose slices
are freshly allocated by the caller. -/
inductive HOp where
  | setScalar (k : GoString) (v : GoVal)
  | setBytes (k : GoString) (content : Option (List UInt8))   -- Set with a fresh slice
  | setStrs (k : GoString) (content : Option (List GoString))
  | setID (id : GoString)
  | writeBytes (k : GoString) (i : Nat) (b : UInt8)           -- b := r.Get(k).([]byte); b[i] = x (also through *[]byte)
  | writeStr (k : GoString) (i : Nat) (s : GoString)          -- ids := r.Get(k).([]string); ids[i] = s
  | sortStrs (k : GoString)                                   -- marshaling / filtering sort to-many IDs in place
  | editType (f : Typ → Typ)                                  -- AddAttr / AddRel / RemoveField on the resource's type

def HRes.apply (h : Heap) (r : HRes) : HOp → Heap × HRes
  | .setScalar k v => (h, { r with data := r.data.set k (.scalar v) })
  | .setBytes k none => (h, { r with data := r.data.set k (.bytes none) })
  | .setBytes k (some l) => let (h', a) := h.alloc (.bytes l); (h', { r with data := r.data.set k (.bytes (some a)) })
  | .setStrs k none => (h, { r with data := r.data.set k (.strs none) })
  | .setStrs k (some l) => let (h', a) := h.alloc (.strs l); (h', { r with data := r.data.set k (.strs (some a)) })
  | .setID id => (h, { r with id := id })
  | .writeBytes k i b =>
    (match r.data.get? k with
      | some (.bytes (some a)) | some (.ptrBytes (some (some a))) =>
        (match h.read a with
          | some (.bytes l) => (h.write a (.bytes (l.set i b)), r)
          | _ => (h, r))
      | _ => (h, r))
  | .writeStr k i s =>
    (match r.data.get? k with
      | some (.strs (some a)) =>
        (match h.read a with
          | some (.strs l) => (h.write a (.strs (l.set i s)), r)
          | _ => (h, r))
      | _ => (h, r))
  | .sortStrs k =>
    (match r.data.get? k with
      | some (.strs (some a)) =>
        (match h.read a with
          | some (.strs l) => (h.write a (.strs (Typ.sortStrings l)), r)
          | _ => (h, r))
      | _ => (h, r))
  | .editType f =>
    (match h.read r.typ with
      | some (.typ t) => (h.write r.typ (.typ (f t)), r)
      | _ => (h, r))

def HRes.applyAll (h : Heap) (r : HRes) (ops : List HOp) : Heap × HRes :=
  ops.foldl (fun acc op => HRes.apply acc.1 acc.2 op) (h, r)

end Jsonapi
