/-
Model of helpers.go (Check, BuildType, IDAndType) and wrapper.go (Wrap, Get/Set,
getField/setField, Copy, New) over an explicit model of a Go struct declaration with
tags. Every reflect/index panic of the Go code is an explicit `Res.panic`.
-/
import Jsonapi.Model.Value
import Jsonapi.Generated.Facts
namespace Jsonapi

/-- Go type of a struct field, as far as the library distinguishes them. -/
inductive GoTy where
  | attr (k : Kind) (nullable : Bool)   -- one of the 28 attribute types (`string` is `attr .string false`)
  | strs                                -- []string
  | other (n : Nat) (stringKind : Bool)  -- anything else (named types, maps, floats, …); `stringKind`: reflect.Kind is String
deriving DecidableEq, Repr, Inhabited

namespace GoTy
/-- `reflect.Type.String()` -/
def name : GoTy → String
  | attr k false => k.goName
  | attr k true => "*" ++ k.goName
  | strs => "[]string"
  | other n _ => "other" ++ toString n

/-- zero value of the Go type (`reflect.New(t).Elem()`) -/
def zero : GoTy → GoVal
  | attr k n => GoVal.zero' k n
  | strs => .strs []
  | other n _ => .other n
where
  /-- struct zero values: like `GetZeroValue` except that a zero `[]byte` field is nil -/
  GoVal.zero' (k : Kind) (n : Bool) : GoVal :=
    if n then .ptr k none else match k with
      | .bytes => .val .bytes (.bs none)
      | _ => GoVal.zero k false

/-- dynamic type of a value equals the field type (`val.Type() == field.Type()`) -/
def accepts (t : GoTy) (v : GoVal) : Bool :=
  match t, v with
  | attr k false, .val k' _ => k = k'
  | attr k true, .ptr k' _ => k = k'
  | strs, .strs _ => true
  | other n _, .other m => n = m
  | _, _ => false

/-- `reflect.Type.Kind() == reflect.String` -/
def isStringKind : GoTy → Bool
  | attr .string false => true
  | other _ sk => sk
  | _ => false
end GoTy

structure SField where
  name : GoString     -- Go field name
  ty : GoTy
  json : GoString     -- value of the json tag ("" when absent)
  api : GoString      -- value of the api tag ("" when absent)
deriving DecidableEq, Repr, Inhabited

abbrev StructDecl := List SField

def comma : UInt8 := 44
def sID : GoString := [73, 68]             -- "ID"
def sAttr : GoString := [97, 116, 116, 114] -- "attr"
def sRel : GoString := [114, 101, 108]      -- "rel"
def sRelComma : GoString := [114, 101, 108, 44] -- "rel,"

/-- `strings.Split(s, ",")` -/
def splitComma (s : GoString) : List GoString :=
  let rec go (cur : GoString) : GoString → List GoString
    | [] => [cur.reverse]
    | c :: rest => if c = comma then cur.reverse :: go [] rest else go (c :: cur) rest
  go [] s

def SField.isAttr (f : SField) : Bool := f.api = sAttr
def SField.isRelTagged (f : SField) : Bool := f.api = sRel || hasPrefix f.api sRelComma

/-- helpers.go `Check`: true = nil error. -/
def checkStruct (d : StructDecl) : Bool :=
  match d.find? (fun f => f.name = sID) with
  | none => false
  | some idf =>
    idf.ty.isStringKind &&
    idf.api ≠ [] &&
    !(idf.api = sAttr || idf.api = sRel || hasPrefix idf.api sRelComma) &&
    -- names
    namesOk [] d &&
    -- attributes
    d.all (fun f => !f.isAttr || (f.ty.name ∈ Facts.checkAttrTypes)) &&
    -- relationships
    d.all (fun f => !f.isRelTagged ||
      ((let n := (splitComma f.api).length; 2 ≤ n && n ≤ 3) &&
       (f.ty = .attr .string false || f.ty = .strs)))
where
  namesOk (seen : List GoString) : StructDecl → Bool
    | [] => true
    | f :: rest =>
      if f.api = [] then namesOk seen rest
      else
        let isField := f.name ≠ sID && (f.isAttr || f.isRelTagged)
        if (isField && (f.json = [] || f.json = idName)) || (f.json ≠ [] && seen.contains f.json) then false
        else namesOk (f.json :: seen) rest

/-- helpers.go `IDAndType` on a struct: the type name is the ID field's api tag when the
ID field is of string kind, else "". -/
def structTypeName (d : StructDecl) : GoString :=
  match d.find? (fun f => f.name = sID) with
  | some idf => if idf.ty.isStringKind then idf.api else []
  | none => []

/-- The attribute map built by Wrap / BuildType. -/
def structAttrs (d : StructDecl) : GoMap Attr :=
  d.foldl (fun m f =>
    if f.isAttr then
      match f.ty with
      | .attr k n => m.set f.json { name := f.json, ty := k.code, nullable := n }
      | _ => m.set f.json { name := f.json, ty := 0, nullable := false }  -- GetAttrType default
    else m) []

/-- The relationship loop of Wrap / BuildType: `relTag[1]` indexes out of range when the
tag is exactly "rel". -/
def structRels (typeName : GoString) (d : StructDecl) : Res (GoMap Rel) :=
  d.foldl (fun acc f =>
    match acc with
    | .ok m =>
      let tag := splitComma f.api
      let inv := if tag.length = 3 then tag[2]?.getD [] else []
      if tag.head? = some sRel then
        match tag[1]? with
        | none => .panic
        | some target =>
          .ok (m.set f.json { fromName := f.json, toOne := f.ty ≠ .strs, toType := target,
                              toName := inv, fromType := typeName, fromOne := false })
      else .ok m
    | e => e) (.ok [])

/-- helpers.go `BuildType` (without the NewFunc closure). -/
def buildType (d : StructDecl) : Res Typ :=
  if !checkStruct d then .err
  else match structRels (structTypeName d) d with
    | .ok rels => .ok { name := structTypeName d, attrs := structAttrs d, rels := rels }
    | .err => .err
    | .panic => .panic

/-- A wrapped struct value. -/
structure Wrapped where
  decl : StructDecl
  vals : List GoVal       -- one per field, in declaration order
  typ : GoString
  attrs : GoMap Attr
  rels : GoMap Rel
deriving Repr, Inhabited

/-- wrapper.go `Wrap` on a struct value with the given field values. -/
def wrap (d : StructDecl) (vals : List GoVal) : Res Wrapped :=
  if !checkStruct d then .panic
  else match structRels (structTypeName d) d with
    | .ok rels => .ok { decl := d, vals := vals, typ := structTypeName d, attrs := structAttrs d, rels := rels }
    | _ => .panic

namespace Wrapped

def zeroVals (d : StructDecl) : List GoVal := d.map (fun f => f.ty.zero)

/-- wrapper.go `New` -/
def new (w : Wrapped) : Res Wrapped := wrap w.decl (zeroVals w.decl)

/-- index of the first field selected by getField / setField -/
def fieldIdx (w : Wrapped) (key : GoString) : Option Nat :=
  w.decl.findIdx? (fun f => f.json = key && f.api ≠ [])

/-- wrapper.go `getField` -/
def getField (w : Wrapped) (key : GoString) : Res GoVal :=
  if key = [] then .panic
  else match w.fieldIdx key with
    | none => .panic
    | some i =>
      match w.vals[i]? with
      | none => .panic
      | some (.ptr _ none) => .ok .nil     -- nil pointer fields read as untyped nil
      | some v => .ok v

/-- wrapper.go `GetID`: the ID field when it is of string kind, else "". -/
def getID (w : Wrapped) : GoString :=
  match w.decl.findIdx? (fun f => f.name = sID) with
  | some i => (match w.vals[i]? with | some (.val .string (.s id)) => id | _ => [])
  | none => []

/-- wrapper.go `Get` -/
def get (w : Wrapped) (key : GoString) : Res GoVal :=
  if key = idName then .ok (.val .string (.s w.getID)) else w.getField key

/-- wrapper.go `setField` -/
def setField (w : Wrapped) (key : GoString) (v : GoVal) : Res Wrapped :=
  if key = [] then .panic
  else match w.fieldIdx key with
    | none => .panic
    | some i =>
      match w.decl[i]? with
      | none => .panic
      | some f =>
        if v = .nil then .ok { w with vals := w.vals.set i f.ty.zero }
        else if f.ty.accepts v then .ok { w with vals := w.vals.set i v }
        else .panic

/-- wrapper.go `SetID`: `FieldByName("ID").SetString` panics unless the field is of string kind. -/
def setID (w : Wrapped) (id : GoString) : Res Wrapped :=
  match w.decl.findIdx? (fun f => f.name = sID) with
  | some i =>
    (match w.decl[i]? with
      | some f => if f.ty.isStringKind then .ok { w with vals := w.vals.set i (.val .string (.s id)) } else .panic
      | none => .panic)
  | none => .panic

/-- wrapper.go `Set` -/
def set (w : Wrapped) (key : GoString) (v : GoVal) : Res Wrapped :=
  if key = idName then
    w.setID (match v with | .val .string (.s id) => id | _ => [])
  else w.setField key v

/-- wrapper.go `Copy`: a new zero instance, then Set-from-Get for every attribute and
relationship (with the relationships' type assertions). -/
def copy (w : Wrapped) : Res Wrapped :=
  match w.new.bind (fun nw => nw.setID w.getID) with
  | .ok nw =>
    let afterAttrs := w.attrs.foldl (fun acc p =>
      match acc with
      | .ok (x : Wrapped) => (match w.get p.2.name with
        | .ok v => x.set p.2.name v
        | _ => .panic)
      | e => e) (.ok nw)
    w.rels.foldl (fun acc p =>
      match acc with
      | .ok (x : Wrapped) => (match w.get p.2.fromName with
        | .ok (.val .string (.s id)) => if p.2.toOne then x.set p.2.fromName (.val .string (.s id)) else .panic
        | .ok (.strs l) => if p.2.toOne then .panic else x.set p.2.fromName (.strs l)
        | _ => .panic)
      | e => e) afterAttrs
  | e => e

/-- What the library reads through the Resource interface (`none` if a Get panics). -/
def view (w : Wrapped) : Option ResView :=
  let names := w.attrs.keys ++ w.rels.keys
  let vals := names.filterMap (fun n => match w.get n with | .ok v => some (n, v) | _ => none)
  if vals.length = names.length then
    some { typeName := w.typ, id := w.getID, attrs := w.attrs, rels := w.rels, vals := vals }
  else none

end Wrapped

/-- sort a map's entries by key (unique keys: the order is determined) -/
def Typ.sortByKey {β} (m : GoMap β) : GoMap β :=
  m.mergeSort (fun a b => !(decide (b.1 < a.1)))

/-- The struct declaration the harness builds (reflect.StructOf) for a type:
ID, then attributes sorted by name, then relationships sorted by name. -/
def declOfTyp (t : Typ) : StructDecl :=
  let idf : SField := { name := sID, ty := .attr .string false, json := idName, api := t.name }
  let afs := (Typ.sortByKey t.attrs).map (fun p =>
    ({ name := [70], ty := (match Kind.ofCode? p.2.ty with | some k => .attr k p.2.nullable | none => .other 0 false),
       json := p.2.name, api := sAttr } : SField))
  let rfs := (Typ.sortByKey t.rels).map (fun p =>
    ({ name := [70], ty := if p.2.toOne then .attr .string false else .strs, json := p.2.fromName,
       api := sRelComma ++ p.2.toType ++ (if p.2.toName = [] then [] else comma :: p.2.toName) } : SField))
  idf :: (afs ++ rfs)


end Jsonapi
