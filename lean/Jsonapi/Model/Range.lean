/-
Model of range.go: `Range` and `sortedResources.Less`.
-/
import Jsonapi.Model.Filter
namespace Jsonapi


/-- A sorting rule: optional leading '-' and a field name. -/
def splitRule (r : GoString) : Bool × GoString :=
  match r with
  | 45 :: rest => (true, rest)     -- strings.HasPrefix(r, "-")
  | _ => (false, r)

/-- `x != inverse` -/
def xorInv (x inverse : Bool) : Bool := x != inverse

/-- Outcome of one rule in `Less`: decided, tie (`continue`), or a failed type assertion. -/
inductive RuleRes where
  | decided (b : Bool)
  | tie
  | panic
deriving DecidableEq, Repr

/-- Compare two non-nil payloads of one class as the cases of `Less` do. -/
def lessPay (inverse : Bool) : Pay → Pay → RuleRes
  | .s a, .s b => if a = b then .tie else .decided (xorInv (decide (a < b)) inverse)
  | .i a, .i b => if a = b then .tie else .decided (xorInv (decide (a < b)) inverse)
  | .b a, .b b => if a = b then .tie else .decided (xorInv (!a) inverse)
  | .t a, .t b => if a.equal b then .tie else .decided (xorInv (a.before b) inverse)
  | .bs a, .bs b =>
    let x := Pay.bytesOf a; let y := Pay.bytesOf b
    if x = y then .tie else .decided (xorInv (decide (x < y)) inverse)
  | _, _ => .panic

/-- The type switch of `Less` on one pair of values. A Go type without a case in the
switch (table regenerated from the source) matches nothing: the loop goes on to the
next rule, i.e. a tie. -/
def lessVal (inverse : Bool) (v v2 : GoVal) : RuleRes :=
  let tn := if v.goType = "[]uint8" then "[]byte" else if v.goType = "*[]uint8" then "*[]byte" else v.goType
  if tn ∉ Facts.lessCases then .tie
  else match v, v2 with
  | .val k p, .val k' p' => if k = k' then lessPay inverse p p' else .panic
  | .ptr k p, .ptr k' p' =>
    if k ≠ k' then .panic
    else match p, p' with
      | none, none => .tie
      | none, some _ => .decided (!inverse)
      | some _, none => .decided inverse
      | some a, some b => lessPay inverse a b
  | _, _ => .panic

/-- range.go `sortedResources.Less` -/
def less (rules : List GoString) (a b : ResView) : Res Bool :=
  match rules with
  | [] => .ok false
  | r :: rest =>
    let (inverse, name) := splitRule r
    if name = idName then .ok (xorInv (decide (a.id < b.id)) inverse)
    else match lessVal inverse (getAttrVal a name) (getAttrVal b name) with
      | .decided x => .ok x
      | .tie => less rest a b
      | .panic => .panic

def lessB (rules : List GoString) (a b : ResView) : Bool :=
  match less rules a b with
  | .ok x => x
  | _ => false

/-- `sort.Sort`: any function returning a permutation that is sorted whenever the
comparator is a strict weak order (parametric treatment; the driver instantiates it
with merge sort). -/
structure Sorter where
  sort : (ResView → ResView → Bool) → List ResView → List ResView
  perm : ∀ lt l, (sort lt l).Perm l
  sorted : ∀ lt l,
    (∀ a, lt a a = false) →
    (∀ a b c, lt a b = true → lt b c = true → lt a c = true) →
    (∀ a b c, lt a b = false → lt b c = false → lt a c = false) →
    (sort lt l).Pairwise (fun a b => lt b a = false)

def mergeSorter : Sorter where
  sort lt l := l.mergeSort (fun a b => !lt b a)
  perm lt l := List.mergeSort_perm l _
  sorted lt l hirr htr hntr := by
    have := List.pairwise_mergeSort (le := fun a b => !lt b a)
      (fun a b c h1 h2 => by
        simp only [Bool.not_eq_true'] at *
        exact hntr c b a h2 h1)
      (fun a b => by
        simp only [Bool.or_eq_true, Bool.not_eq_true']
        cases hba : lt b a
        · exact .inl rfl
        · right
          cases hab : lt a b
          · rfl
          · have := htr a b a hab hba; rw [hirr] at this; cases this) l
    exact this.imp (fun h => by simpa using h)

/-- "Filter IDs": for each resource, once per matching entry of `ids`. -/
def selectIds (c : List ResView) (ids : List GoString) : List ResView :=
  if ids.isEmpty then c
  else c.flatMap (fun r => (ids.filter (fun i => r.id = i)).map (fun _ => r))

/-- The filter loop: keep the allowed ones; a panic inside `IsAllowed` propagates. -/
def applyFilter (f : Option Filter) : List ResView → Res (List ResView)
  | [] => .ok []
  | r :: rs =>
    match f with
    | none => .ok (r :: rs)
    | some flt =>
      match isAllowed r flt with
      | .ok keep =>
        (match applyFilter f rs with
          | .ok rest => .ok (if keep then r :: rest else rest)
          | .err => .err
          | .panic => .panic)
      | .err => .err
      | .panic => .panic

/-- Pagination on 64-bit machine integers:
`skip := int(num*size)`; `for i := skip; i < len && uint(i-skip) < size; i++`. -/
def paginate (col : List ResView) (size num : Nat) : Res (List ResView) :=
  let prod := (num * size) % 2^64
  if prod ≥ 2^63 then
    -- negative skip: `skip >= len` is false and the loop indexes col[skip]
    if size % 2^64 = 0 then .ok [] else .panic
  else if prod ≥ col.length then .ok []
  else .ok ((col.drop prod).take (size % 2^64))

/-- range.go `Range` -/
def range (S : Sorter) (c : List ResView) (ids : List GoString) (f : Option Filter)
    (rules : List GoString) (size num : Nat) : Res (List ResView) :=
  match applyFilter f (selectIds c ids) with
  | .ok col =>
    let rules' := if rules.isEmpty then [idName] else rules
    -- a failed type assertion inside Less panics out of sort.Sort
    if col.any (fun a => col.any (fun b => (less rules' a b).isPanic)) then .panic
    else paginate (S.sort (lessB rules') col) size num
  | .err => .err
  | .panic => .panic

end Jsonapi
