/-
Model of the library's remaining small pieces:

  1. collection.go `Resources`, wrapper_collection.go `WrapCollection` / `WrapperCollection`
  2. identifiers.go `NewIdentifiers`, `Identifiers.IDs`
  3. type.go `Type.Fields`, `Type.Equal`, `Type.Copy` on `TypeV` (a `Typ` plus what
     `reflect.DeepEqual` can see and `Typ` cannot say: nil maps, and whether NewFunc is set)
  4. error.go `Error.Error()` and the 28 `NewErr…` constructors (+ `NewError`)
  5. meta.go `Has`, `GetString`, `GetInt`, `GetBool`, `GetTime`

Standard library: `strconv.Atoi` is modelled (`goAtoi`, on `parseInt`); `http.StatusText`
is a parameter of `errorString` with a transcribed finite table `httpStatusText` as the
driver's instance; `strconv.Quote` (the `%q` verb) is modelled on ASCII strings
(`quoteAscii`) and delegated on the others (the constructors take `quote` as a parameter);
`encoding/json`'s replacement of invalid UTF-8 by U+FFFD is modelled (`utf8Coerce`);
`time.Parse` is delegated (parameter of `getTime`); `fmt.Sprint` is modelled for nil,
bool, string and int only.

Executable, core-only; every definition is validated against the real code by the
`misc` correspondence suite (harness/suite_misc.go ↔ Driver/Misc.lean).
-/
import Jsonapi.Model.Unmarshal
namespace Jsonapi

/-! ### 3. `Type` values as `reflect.DeepEqual` sees them -/

/-- A `Type` value: the `Typ` plus the nil-ness of its two maps and of `NewFunc`.
The effective maps (`attrs`, `rels`) are empty when the map is nil. -/
structure TypeV where
  typ : Typ
  attrsNil : Bool := false
  relsNil : Bool := false
  hasNew : Bool := false
deriving DecidableEq, Repr, Inhabited

namespace TypeV

/-- `Type{}` -/
def zero : TypeV := { typ := Typ.empty, attrsNil := true, relsNil := true, hasNew := false }

def name (t : TypeV) : GoString := t.typ.name
def attrs (t : TypeV) : GoMap Attr := if t.attrsNil then [] else t.typ.attrs
def rels (t : TypeV) : GoMap Rel := if t.relsNil then [] else t.typ.rels

/-- What reading the maps gives (a nil map reads as an empty one). -/
def eff (t : TypeV) : Typ := { name := t.typ.name, attrs := t.attrs, rels := t.rels }

/-- Keys are unique (true of every Go map). -/
def WF (t : TypeV) : Prop := t.attrs.keys.Nodup ∧ t.rels.keys.Nodup

/-- type.go `Type.Fields`: the `Name` of every attribute value and the `FromName` of every
relationship value, sorted (`sort.Strings`). Never nil (`make(…, 0, n)`). -/
def fields (t : TypeV) : List GoString := t.eff.fields

/-- `reflect.DeepEqual` on two maps with comparable values: both nil or both non-nil, same
length, and every key of the first is a key of the second with an equal value. -/
def mapDeepEqual {β : Type} [DecidableEq β] (nil₁ nil₂ : Bool) (m₁ m₂ : GoMap β) : Bool :=
  decide (nil₁ = nil₂) && decide (m₁.length = m₂.length) &&
    m₁.all (fun p => decide (m₂.get? p.1 = some p.2))

/-- type.go `Type.Equal`: `reflect.DeepEqual` with NewFunc cleared on both sides. -/
def equal (t u : TypeV) : Bool :=
  decide (t.name = u.name) &&
    mapDeepEqual t.attrsNil u.attrsNil t.attrs u.attrs &&
    mapDeepEqual t.relsNil u.relsNil t.rels u.rels

/-- type.go `Type.Copy`: fresh non-nil maps holding the same entries; NewFunc kept. -/
def copy (t : TypeV) : TypeV :=
  { typ := t.eff, attrsNil := false, relsNil := false, hasNew := t.hasNew }

end TypeV

/-! ### 1. `Resources` and `WrapperCollection` -/

/-- A `Resource` interface value handed to `Add`, as the two collections see it: an opaque
identity and whether its dynamic type is `*Wrapper` (a nil `*Wrapper` included). The nil
interface is an `other`. -/
inductive RArg (α : Type) where
  | wrapper (w : α)
  | other (x : α)
deriving DecidableEq, Repr, Inhabited

/-- collection.go `Resources` (`[]Resource` behind a pointer). -/
structure RColl (α : Type) where
  col : List (RArg α) := []
deriving Repr, Inhabited

namespace RColl
variable {α : Type}

/-- `GetType`: the zero `Type`. -/
def getType (_ : RColl α) : TypeV := TypeV.zero
def len (c : RColl α) : Nat := c.col.length
/-- `At`: nil outside `0 ≤ i < Len()`. -/
def at? (c : RColl α) (i : Int) : Option (RArg α) :=
  if 0 ≤ i ∧ i < c.col.length then c.col[i.toNat]? else none
/-- `Add`: append, whatever the value. -/
def add (c : RColl α) (r : RArg α) : RColl α := { col := c.col ++ [r] }
def run (c : RColl α) (rs : List (RArg α)) : RColl α := rs.foldl add c
end RColl

/-- wrapper_collection.go `WrapperCollection`. -/
structure WColl (α : Type) where
  typ : TypeV
  col : List α := []
deriving Repr, Inhabited

namespace WColl
variable {α : Type}

/-- `WrapCollection(r)`: `r.GetType()` on a nil interface is a nil dereference. -/
def wrap (sampleType : Option TypeV) : Res (WColl α) :=
  match sampleType with
  | some t => .ok { typ := t, col := [] }
  | none => .panic

def getType (c : WColl α) : TypeV := c.typ
def len (c : WColl α) : Nat := c.col.length
/-- `At`: the only test is `len(wc.col) > i`, so a negative index reaches `wc.col[i]`. -/
def at? (c : WColl α) (i : Int) : Res (Option α) :=
  if i < c.col.length then
    (if i < 0 then .panic else .ok c.col[i.toNat]?)
  else .ok none
/-- `Add`: only a `*Wrapper` is appended, anything else is ignored. -/
def add (c : WColl α) (r : RArg α) : WColl α :=
  match r with
  | .wrapper w => { c with col := c.col ++ [w] }
  | .other _ => c
def run (c : WColl α) (rs : List (RArg α)) : WColl α := rs.foldl add c
end WColl

/-- The elements a `WrapperCollection` accepts from a list of `Add` arguments. -/
def RArg.accepted {α : Type} (rs : List (RArg α)) : List α :=
  rs.filterMap (fun r => match r with | .wrapper w => some w | .other _ => none)

/-! ### 2. Identifiers -/

structure Ident where
  id : GoString
  typ : GoString
deriving DecidableEq, Repr, Inhabited

/-- identifiers.go `NewIdentifiers`. `none` is a nil slice; the result never is. -/
def newIdentifiers (t : GoString) (ids : Option (List GoString)) : Option (List Ident) :=
  some ((ids.getD []).map (fun id => { id := id, typ := t }))

/-- identifiers.go `Identifiers.IDs` (`make([]string, len(i))`: never nil). -/
def identIDs (l : Option (List Ident)) : Option (List GoString) :=
  some ((l.getD []).map (·.id))

/-! ### 4. error.go -/

/-- `strconv.Atoi` as `Error()` uses it (the error is dropped): the value on success, 0 on
a syntax error, the nearest bound on a range error. -/
def goAtoi (s : GoString) : Int :=
  match parseInt 64 s with
  | some v => v
  | none =>
    let (neg, rest) : Bool × GoString :=
      match s with
      | 43 :: r => (false, r)
      | 45 :: r => (true, r)
      | _ => (false, s)
    if rest ≠ [] ∧ rest.all isDigit then (if neg then -(2 ^ 63 : Int) else (2 ^ 63 : Int) - 1)
    else 0

namespace K
def colonSp : GoString := [58, 32]
def sp : GoString := [32]
end K

/-- error.go `Error.Error()`; `statusText` is `http.StatusText`. -/
def ErrorObj.errorString (statusText : Int → GoString) (e : ErrorObj) : GoString :=
  let fullName := statusText (goAtoi e.status)
  if fullName ≠ [] ∧ e.status ≠ [] then
    if e.detail ≠ [] then e.status ++ K.sp ++ fullName ++ K.colonSp ++ e.detail
    else if e.title ≠ [] then e.status ++ K.sp ++ fullName ++ K.colonSp ++ e.title
    else e.status ++ K.sp ++ fullName
  else if e.detail ≠ [] then e.detail
  else e.title

/-- `http.StatusText` of the Go toolchain in use, transcribed (every other code: ""). -/
def httpStatusTable : List (Nat × GoString) :=
  [(100, gs "Continue"), (101, gs "Switching Protocols"), (102, gs "Processing"),
   (103, gs "Early Hints"),
   (200, gs "OK"), (201, gs "Created"), (202, gs "Accepted"),
   (203, gs "Non-Authoritative Information"), (204, gs "No Content"),
   (205, gs "Reset Content"), (206, gs "Partial Content"), (207, gs "Multi-Status"),
   (208, gs "Already Reported"), (226, gs "IM Used"),
   (300, gs "Multiple Choices"), (301, gs "Moved Permanently"), (302, gs "Found"),
   (303, gs "See Other"), (304, gs "Not Modified"), (305, gs "Use Proxy"),
   (307, gs "Temporary Redirect"), (308, gs "Permanent Redirect"),
   (400, gs "Bad Request"), (401, gs "Unauthorized"), (402, gs "Payment Required"),
   (403, gs "Forbidden"), (404, gs "Not Found"), (405, gs "Method Not Allowed"),
   (406, gs "Not Acceptable"), (407, gs "Proxy Authentication Required"),
   (408, gs "Request Timeout"), (409, gs "Conflict"), (410, gs "Gone"),
   (411, gs "Length Required"), (412, gs "Precondition Failed"),
   (413, gs "Request Entity Too Large"), (414, gs "Request URI Too Long"),
   (415, gs "Unsupported Media Type"), (416, gs "Requested Range Not Satisfiable"),
   (417, gs "Expectation Failed"), (418, gs "I'm a teapot"),
   (421, gs "Misdirected Request"), (422, gs "Unprocessable Entity"), (423, gs "Locked"),
   (424, gs "Failed Dependency"), (425, gs "Too Early"), (426, gs "Upgrade Required"),
   (428, gs "Precondition Required"), (429, gs "Too Many Requests"),
   (431, gs "Request Header Fields Too Large"), (451, gs "Unavailable For Legal Reasons"),
   (500, gs "Internal Server Error"), (501, gs "Not Implemented"), (502, gs "Bad Gateway"),
   (503, gs "Service Unavailable"), (504, gs "Gateway Timeout"),
   (505, gs "HTTP Version Not Supported"), (506, gs "Variant Also Negotiates"),
   (507, gs "Insufficient Storage"), (508, gs "Loop Detected"), (510, gs "Not Extended"),
   (511, gs "Network Authentication Required")]

def httpStatusText (code : Int) : GoString :=
  if code < 0 then []
  else match httpStatusTable.find? (fun p => p.1 = code.toNat) with
    | some p => p.2
    | none => []

/-! #### `strconv.Quote` on ASCII -/

/-- lowercase hex digit of `n % 16` -/
def lowerHex (n : Nat) : UInt8 :=
  let d := n % 16
  if d < 10 then UInt8.ofNat (48 + d) else UInt8.ofNat (87 + d)

/-- one byte below 0x80 inside `strconv.Quote`'s output -/
def quoteAsciiByte (b : UInt8) : GoString :=
  if b = 34 then [92, 34]
  else if b = 92 then [92, 92]
  else if 32 ≤ b ∧ b < 127 then [b]
  else if b = 7 then [92, 97]
  else if b = 8 then [92, 98]
  else if b = 12 then [92, 102]
  else if b = 10 then [92, 110]
  else if b = 13 then [92, 114]
  else if b = 9 then [92, 116]
  else if b = 11 then [92, 118]
  else [92, 120, lowerHex (b.toNat / 16), lowerHex b.toNat]

def isAscii (s : GoString) : Bool := s.all (fun b => b < 128)

def quoteAscii (s : GoString) : GoString := 34 :: (s.flatMap quoteAsciiByte ++ [34])

/-- `strconv.Quote`: modelled on ASCII strings, `delegated` on the others. -/
def goQuote (delegated : GoString → GoString) (s : GoString) : GoString :=
  if isAscii s then quoteAscii s else delegated s

/-! #### The constructors, transcribed -/

/-- A piece of a string a constructor builds: a literal, the i-th argument, or the i-th
argument through `%q`. -/
inductive Piece where
  | lit (s : GoString)
  | arg (i : Nat)
  | quoted (i : Nat)
deriving DecidableEq, Repr, Inhabited

/-- One `NewErr…` constructor as it is written: the `http.Status…` constant, the pieces
of Title and Detail, the entries written into Source and Meta (in source order). -/
structure ErrCtor where
  name : String
  arity : Nat
  status : Nat
  title : List Piece
  detail : List Piece := []
  source : List (GoString × List Piece) := []
  emeta : List (GoString × List Piece) := []
deriving Repr, Inhabited

namespace ErrCtor

private def L (s : String) : List Piece := [.lit (gs s)]
private def Q0 (s : String) : List Piece := [.quoted 0, .lit (gs s)]
private def filterSrc : List (GoString × List Piece) := [(gs "parameter", L "filter")]

def table : List ErrCtor := [
  { name := "NewErrBadRequest", arity := 2, status := 400, title := [.arg 0], detail := [.arg 1] },
  { name := "NewErrMalformedFilterParameter", arity := 1, status := 400,
    title := L "Malformed filter parameter",
    detail := L "The filter parameter is not a string or a valid JSON object.",
    source := filterSrc, emeta := [(gs "bad-filter", [.arg 0])] },
  { name := "NewErrInvalidPageNumberParameter", arity := 1, status := 400,
    title := L "Invalid page number parameter",
    detail := L "The page number parameter is not positive integer (including 0).",
    source := [(gs "parameter", L "page[number]")], emeta := [(gs "bad-page-number", [.arg 0])] },
  { name := "NewErrInvalidPageSizeParameter", arity := 1, status := 400,
    title := L "Invalid page size parameter",
    detail := L "The page size parameter is not positive integer (including 0).",
    source := [(gs "parameter", L "page[size]")], emeta := [(gs "bad-page-size", [.arg 0])] },
  { name := "NewErrInvalidFieldValueInBody", arity := 3, status := 400,
    title := L "Invalid field value in body",
    detail := L "The field value is invalid for the expected type.",
    emeta := [(gs "field", [.arg 0]), (gs "bad-value", [.arg 1]), (gs "type", [.arg 2])] },
  { name := "NewErrDuplicateFieldInFieldsParameter", arity := 2, status := 400,
    title := L "Duplicate field",
    detail := L "The fields parameter contains the same field more than once.",
    source := [(gs "parameter", [.lit (gs "fields["), .arg 0, .lit (gs "]")])],
    emeta := [(gs "duplicate-field", [.arg 1])] },
  { name := "NewErrMissingDataMember", arity := 0, status := 400,
    title := L "Missing data member", detail := L "Missing data top-level member in payload." },
  { name := "NewErrUnknownFieldInBody", arity := 2, status := 400,
    title := L "Unknown field in body",
    detail := [.quoted 1, .lit (gs " is not a known field.")],
    source := [(gs "pointer", [])],
    emeta := [(gs "unknown-field", [.arg 1]), (gs "type", [.arg 0])] },
  { name := "NewErrUnknownFieldInURL", arity := 1, status := 400,
    title := L "Unknown field in URL", detail := Q0 " is not a known field.",
    emeta := [(gs "unknown-field", [.arg 0])] },
  { name := "NewErrUnknownParameter", arity := 1, status := 400,
    title := L "Unknown parameter", detail := Q0 " is not a known parameter.",
    source := [(gs "parameter", [.arg 0])], emeta := [(gs "unknown-parameter", [.arg 0])] },
  { name := "NewErrUnknownRelationshipInPath", arity := 3, status := 400,
    title := L "Unknown relationship",
    detail := [.quoted 1, .lit (gs " is not a relationship of "), .quoted 0, .lit (gs ".")],
    emeta := [(gs "unknown-relationship", [.arg 1]), (gs "type", [.arg 0]), (gs "path", [.arg 2])] },
  { name := "NewErrUnknownTypeInURL", arity := 1, status := 400,
    title := L "Unknown type in URL", detail := Q0 " is not a known type.",
    emeta := [(gs "unknown-type", [.arg 0])] },
  { name := "NewErrUnknownFieldInFilterParameter", arity := 1, status := 400,
    title := L "Unknown field in filter parameter", detail := Q0 " is not a known field.",
    source := filterSrc, emeta := [(gs "unknown-field", [.arg 0])] },
  { name := "NewErrUnknownOperatorInFilterParameter", arity := 1, status := 400,
    title := L "Unknown operator in filter parameter", detail := Q0 " is not a known operator.",
    source := filterSrc, emeta := [(gs "unknown-operator", [.arg 0])] },
  { name := "NewErrInvalidValueInFilterParameter", arity := 2, status := 400,
    title := L "Unknown value in filter parameter", detail := Q0 " is not a known value.",
    source := filterSrc, emeta := [(gs "invalid-value", [.arg 0])] },
  { name := "NewErrUnknownCollationInFilterParameter", arity := 1, status := 400,
    title := L "Unknown collation in filter parameter", detail := Q0 " is not a known collation.",
    source := filterSrc, emeta := [(gs "unknown-collation", [.arg 0])] },
  { name := "NewErrUnknownFilterParameterLabel", arity := 1, status := 400,
    title := L "Unknown label in filter parameter",
    detail := Q0 " is not a known filter query label.",
    source := filterSrc, emeta := [(gs "unknown-label", [.arg 0])] },
  { name := "NewErrUnauthorized", arity := 0, status := 401, title := L "Unauthorized",
    detail := L "Authentification is required to perform this request." },
  { name := "NewErrForbidden", arity := 0, status := 403, title := L "Forbidden",
    detail := L "Permission is required to perform this request." },
  { name := "NewErrNotFound", arity := 0, status := 404, title := L "Not found",
    detail := L "The URI does not exist." },
  { name := "NewErrPayloadTooLarge", arity := 0, status := 413, title := L "Payload too large",
    detail := L "That's what she said." },
  { name := "NewErrRequestURITooLong", arity := 0, status := 414, title := L "URI too long" },
  { name := "NewErrUnsupportedMediaType", arity := 0, status := 415,
    title := L "Unsupported media type" },
  { name := "NewErrTooManyRequests", arity := 0, status := 429, title := L "Too many requests" },
  { name := "NewErrRequestHeaderFieldsTooLarge", arity := 0, status := 431,
    title := L "Header fields too large" },
  { name := "NewErrInternalServerError", arity := 0, status := 500,
    title := L "Internal server error" },
  { name := "NewErrServiceUnavailable", arity := 0, status := 503, title := L "Service unavailable" },
  { name := "NewErrNotImplemented", arity := 0, status := 501, title := L "Not Implemented" }]

/-- the string a list of pieces builds from the arguments (a missing argument reads "") -/
def inst (quote : GoString → GoString) (args : List GoString) : List Piece → GoString
  | [] => []
  | .lit s :: ps => s ++ inst quote args ps
  | .arg i :: ps => args.getD i [] ++ inst quote args ps
  | .quoted i :: ps => quote (args.getD i []) ++ inst quote args ps

/-- the writes `m[k] = v`, in order, into an empty map -/
def instMap (quote : GoString → GoString) (args : List GoString)
    (ws : List (GoString × List Piece)) : Meta :=
  ws.foldl (fun m w => GoMap.set m w.1 (Json.str (inst quote args w.2))) []

/-- The `Error` value the constructor returns. Source and Meta are listed by sorted key
(the order `ErrorObj.toJson` expects of an opaque object). -/
def build (c : ErrCtor) (quote : GoString → GoString) (args : List GoString) : ErrorObj :=
  { status := printNat c.status,
    title := inst quote args c.title,
    detail := inst quote args c.detail,
    source := sortMembers (instMap quote args c.source),
    emeta := sortMembers (instMap quote args c.emeta) }

def find? (name : String) : Option ErrCtor := table.find? (fun c => c.name = name)

end ErrCtor

/-- error.go `NewError` -/
def newError : ErrorObj := {}

/-! #### `encoding/json` on strings that are not valid UTF-8 -/

def isCont (b : UInt8) : Bool := 128 ≤ b && b ≤ 191

/-- second byte in `[lo, hi]`, then `more` continuation bytes -/
def utf8Tail (lo hi : UInt8) (more : Nat) : GoString → Bool
  | [] => false
  | b1 :: r => lo ≤ b1 && b1 ≤ hi && decide ((r.take more).length = more) && (r.take more).all isCont

/-- Width of the UTF-8 sequence the string starts with, 0 when its first byte does not
start a valid one (`utf8.DecodeRuneInString` returning `RuneError, 1`). -/
def utf8Len : GoString → Nat
  | [] => 0
  | b0 :: rest =>
    if b0 < 128 then 1
    else if 194 ≤ b0 ∧ b0 ≤ 223 then (if utf8Tail 128 191 0 rest then 2 else 0)
    else if b0 = 224 then (if utf8Tail 160 191 1 rest then 3 else 0)
    else if (225 ≤ b0 ∧ b0 ≤ 236) ∨ b0 = 238 ∨ b0 = 239 then (if utf8Tail 128 191 1 rest then 3 else 0)
    else if b0 = 237 then (if utf8Tail 128 159 1 rest then 3 else 0)
    else if b0 = 240 then (if utf8Tail 144 191 2 rest then 4 else 0)
    else if 241 ≤ b0 ∧ b0 ≤ 243 then (if utf8Tail 128 191 2 rest then 4 else 0)
    else if b0 = 244 then (if utf8Tail 128 143 2 rest then 4 else 0)
    else 0

/-- `skip` bytes of an accepted sequence are still to be copied. -/
def utf8CoerceGo : Nat → GoString → GoString
  | _, [] => []
  | k + 1, b :: rest => b :: utf8CoerceGo k rest
  | 0, b :: rest =>
    match utf8Len (b :: rest) with
    | 0 => [239, 191, 189] ++ utf8CoerceGo 0 rest
    | n + 1 => b :: utf8CoerceGo n rest

/-- What `encoding/json` writes for a Go string, as the string a JSON reader gets back:
every byte that is not part of a valid UTF-8 sequence becomes U+FFFD. -/
def utf8Coerce (s : GoString) : GoString := utf8CoerceGo 0 s

mutual
/-- `json.Marshal` of a tree of Go strings read back: all strings and keys coerced. -/
def Json.coerce : Json → Json
  | .str s => .str (utf8Coerce s)
  | .arr l => .arr (Json.coerceList l)
  | .obj ms => .obj (Json.coerceMembers ms)
  | j => j
def Json.coerceList : List Json → List Json
  | [] => []
  | v :: vs => v.coerce :: Json.coerceList vs
def Json.coerceMembers : List (GoString × Json) → List (GoString × Json)
  | [] => []
  | (k, v) :: ms => (utf8Coerce k, v.coerce) :: Json.coerceMembers ms
end

/-! ### 5. meta.go getters -/

/-- A value held in a `Meta` map. `fmt.Sprint` is modelled for the first four only. -/
inductive MetaVal where
  | nil
  | bool (b : Bool)
  | str (s : GoString)
  | int (i : Int)          -- Go `int`
  | other (tag : Nat)      -- any other dynamic type (float64, int64, a map, …)
deriving DecidableEq, Repr, Inhabited

abbrev MetaMap := GoMap MetaVal

namespace MetaMap

def sNil : GoString := [60, 110, 105, 108, 62]   -- "<nil>"

/-- `m[key]`: the nil interface when absent (a nil map reads as an empty one). -/
def index (m : MetaMap) (key : GoString) : MetaVal := (GoMap.get? m key).getD .nil

/-- meta.go `Has` -/
def has (m : MetaMap) (key : GoString) : Bool := GoMap.has m key

/-- meta.go `GetString`: `fmt.Sprint(m[key])`; `none` = a dynamic type outside the model. -/
def getString (m : MetaMap) (key : GoString) : Option GoString :=
  match index m key with
  | .nil => some sNil
  | .bool b => some (if b then sTrue else sFalse)
  | .str s => some s
  | .int i => some (printInt i)
  | .other _ => none

/-- meta.go `GetInt` -/
def getInt (m : MetaMap) (key : GoString) : Int :=
  match index m key with
  | .int i => i
  | _ => 0

/-- meta.go `GetBool` -/
def getBool (m : MetaMap) (key : GoString) : Bool :=
  match index m key with
  | .bool b => b
  | _ => false

/-- `time.Time{}` -/
def zeroTime : Time := { sec := -62135596800, nsec := 0, off := 0 }

/-- meta.go `GetTime`; `parse` is `time.Parse(time.RFC3339Nano, ·)` (`none` = error, for
which `time.Parse` returns the zero time). -/
def getTime (parse : GoString → Option Time) (m : MetaMap) (key : GoString) : Time :=
  match index m key with
  | .str s => (parse s).getD zeroTime
  | _ => zeroTime

end MetaMap

end Jsonapi
