/-
Model of soft_resource.go and soft_collection.go.
A `*Type` shared by several SoftResources (a SoftCollection's resources all point to
the collection's type) is modelled by keeping the type in the owner and passing its
current value to the resource operations.
-/
import Jsonapi.Model.Value
namespace Jsonapi

/-- `GetZeroValue(attr.Type, attr.Nullable)` (untyped nil for an invalid kind). -/
def Attr.zero (a : Attr) : GoVal :=
  match Kind.ofCode? a.ty with
  | some k => GoVal.zero k a.nullable
  | none => .nil

/-- `GetAttrType(fmt.Sprintf("%T", v))`: (kind code, nullable); (0, false) for every
other dynamic type. -/
def GoVal.attrType : GoVal → Nat × Bool
  | .val k _ => (k.code, false)
  | .ptr k _ => (k.code, true)
  | _ => (0, false)

def Rel.zero (r : Rel) : GoVal := if r.toOne then .val .string (.s []) else .strs []

/-- A SoftResource: the current value of `*sr.Type`, `id`, `data`. -/
structure Soft where
  typ : Typ
  id : GoString
  data : GoMap GoVal
deriving Repr, Inhabited

namespace Soft

def fields (t : Typ) : List GoString := t.attrs.vals.map (·.name) ++ t.rels.vals.map (·.fromName)

/-- soft_resource.go `check` on the data map: add the zero value of every field that
has none, then drop the values whose key is not a field (the Go code does the second
step only when there are more values than fields). -/
def checkData (t : Typ) (data : GoMap GoVal) : GoMap GoVal :=
  let d1 := t.attrs.foldl (fun d p => if d.has p.2.name then d else d.set p.2.name p.2.zero) data
  let d2 := t.rels.foldl (fun d p => if d.has p.2.fromName then d else d.set p.2.fromName p.2.zero) d1
  if (fields t).length < d2.length then d2.filter (fun p => (fields t).contains p.1) else d2

def check (s : Soft) : Soft := { s with data := checkData s.typ s.data }

/-- soft_resource.go `Get` -/
def get (s : Soft) (key : GoString) : GoVal :=
  let s := s.check
  if key = idName then .val .string (.s s.id)
  else if s.typ.attrs.has key then (s.data.get? key).getD .nil
  else if s.typ.rels.has key then (s.data.get? key).getD .nil
  else .nil

/-- soft_resource.go `Set` -/
def set (s : Soft) (key : GoString) (v : GoVal) : Soft :=
  let s := s.check
  if key = idName then
    { s with id := match v with | .val .string (.s id) => id | _ => [] }
  else match s.typ.attrs.get? key with
  | some a =>
    if v.attrType = (a.ty, a.nullable) then { s with data := s.data.set key v }
    else if v = .nil ∧ a.nullable then { s with data := s.data.set key a.zero }
    else s
  | none =>
    match s.typ.rels.get? key with
    | some r =>
      (match v with
        | .val .string (.s _) => if r.toOne then { s with data := s.data.set key v } else s
        | .strs _ => if r.toOne then s else { s with data := s.data.set key v }
        | _ => s)
    | none => s

/-- soft_resource.go `AddAttr` (writes into the shared type) -/
def addAttr (s : Soft) (a : Attr) : Soft :=
  let s := s.check
  if (fields s.typ).contains a.name then s
  else { s with typ := { s.typ with attrs := s.typ.attrs.set a.name a } }

/-- soft_resource.go `AddRel` -/
def addRel (s : Soft) (r : Rel) : Soft :=
  let s := s.check
  if (fields s.typ).contains r.fromName then s
  else { s with typ := { s.typ with rels := s.typ.rels.set r.fromName r } }

/-- soft_resource.go `RemoveField` -/
def removeField (s : Soft) (f : GoString) : Soft :=
  let s := s.check
  { s with typ := { s.typ with attrs := s.typ.attrs.del f, rels := s.typ.rels.del f } }

/-- soft_resource.go `SetType`: `check()` against the old type, then the pointer is replaced
(the values are reconciled with the new type by the next `check()`). -/
def setType (s : Soft) (t : Typ) : Soft := { s.check with typ := t }

/-- soft_resource.go `New` -/
def new (s : Soft) : Soft := { typ := s.check.typ, id := [], data := [] }

/-- soft_resource.go `Copy` (values are immutable here; sharing of slices is the
subject of the heap model of C18). -/
def copy (s : Soft) : Soft := s.check

/-- What the library reads through the Resource interface. -/
def view (s : Soft) : ResView :=
  let s := s.check
  { typeName := s.typ.name, id := s.id, attrs := s.typ.attrs, rels := s.typ.rels,
    vals := (s.typ.attrs.keys ++ s.typ.rels.keys).map (fun k => (k, s.get k)) }

end Soft

/-! ### SoftCollection -/

/-- A SoftCollection: the current value of `*s.Type` and, per stored resource, its id
and data map (every stored resource points to the collection's type). -/
structure SColl where
  typ : Typ
  col : List (GoString × GoMap GoVal)
deriving Repr, Inhabited

namespace SColl

def soft (c : SColl) (row : GoString × GoMap GoVal) : Soft := { typ := c.typ, id := row.1, data := row.2 }

/-- soft_collection.go `SetType` -/
def setType (c : SColl) (t : Typ) : SColl :=
  { typ := t, col := c.col.map (fun row => (row.1, Soft.checkData t row.2)) }

def addAttr (c : SColl) (a : Attr) : SColl × Res Unit :=
  let (t, r) := c.typ.addAttr a
  ({ c with typ := t }, r)

def addRel (c : SColl) (rel : Rel) : SColl × Res Unit :=
  let (t, r) := c.typ.addRel rel
  ({ c with typ := t }, r)

def len (c : SColl) : Nat := c.col.length

/-- soft_collection.go `At`: nil outside the range. -/
def at? (c : SColl) (i : Int) : Option Soft :=
  if 0 ≤ i ∧ i < c.col.length then (c.col[i.toNat]?).map c.soft else none

/-- soft_collection.go `Resource` -/
def resource? (c : SColl) (id : GoString) : Option Soft :=
  (c.col.find? (fun row => row.1 = id)).map c.soft

/-- soft_collection.go `Remove` -/
def remove (c : SColl) (id : GoString) : SColl :=
  { c with col := Schema.eraseFirst (fun row => row.1 = id) c.col }

/-- soft_collection.go `Add`: a fresh SoftResource sharing the collection's type; for
every attribute / relationship of `r`: AddAttr/AddRel (extends the shared type when the
name is free) then Set with `r`'s value (kept only when it has the collection's type
for that field). The relationship branch asserts the Go type of `r`'s value. -/
def add (c : SColl) (r : ResView) : Res SColl :=
  let s0 : Soft := { typ := c.typ, id := r.id, data := [] }
  let s1 := r.attrs.foldl (fun (s : Soft) p => (s.addAttr p.2).set p.2.name (r.get p.2.name)) s0
  let s2 := r.rels.foldl (fun (acc : Res Soft) p =>
    match acc with
    | .ok s =>
      let s' := s.addRel p.2
      (match r.get p.2.fromName with
        | .val .string (.s id) => if p.2.toOne then .ok (s'.set p.2.fromName (.val .string (.s id))) else .panic
        | .strs l => if p.2.toOne then .panic else .ok (s'.set p.2.fromName (.strs l))
        | _ => .panic)
    | e => e) (.ok s1)
  match s2 with
  | .ok s => .ok { typ := s.typ, col := c.col ++ [(s.id, s.data)] }
  | .err => .err
  | .panic => .panic

end SColl
end Jsonapi
