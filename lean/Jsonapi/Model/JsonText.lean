/-
The text `encoding/json` writes for a JSON tree (`json.Marshal`, HTML escaping on, no
indentation): the byte-level rendering of `Json`.

`renderStr` is Go's `appendString(…, escapeHTML = true)`:
  `"` and `\` get a backslash; 08 0c 0a 0d 09 become `\b \f \n \r \t`; every other byte
  below 0x20 and the three HTML bytes `<` `>` `&` become backslash-u-0-0 followed by two
  lowercase hex digits; U+2028 and U+2029 (the byte sequences E2 80 A8 / E2 80 A9) become
  backslash-u-2-0-2-8 / backslash-u-2-0-2-9; everything else (0x7f included) is copied.
Go replaces every byte that is not part of a valid UTF-8 sequence by the six bytes
backslash-u-f-f-f-d; the model copies all other bytes >= 0x80 verbatim, so it is only
compared with Go on strings that are valid UTF-8.

That the rendered text is valid JSON denoting exactly the tree is
`JsonL.parseJson_render` (Proofs/JsonTextLemmas.lean).
-/
import Jsonapi.Model.Json
namespace Jsonapi

/-- lowercase hex digit of `n % 16` -/
def jsonHexDigit (n : Nat) : UInt8 :=
  let d := n % 16
  if d < 10 then UInt8.ofNat (48 + d) else UInt8.ofNat (87 + d)

/-- backslash, 'u', '0', '0', two lowercase hex digits -/
def escU00 (b : UInt8) : GoString :=
  [92, 117, 48, 48, jsonHexDigit (b.toNat / 16), jsonHexDigit b.toNat]

/-- what one byte becomes inside a string literal (U+2028/9 are handled by the caller) -/
def escByte (b : UInt8) : GoString :=
  if b = 34 then [92, 34]            -- \"
  else if b = 92 then [92, 92]       -- \\
  else if b = 8 then [92, 98]        -- \b
  else if b = 12 then [92, 102]      -- \f
  else if b = 10 then [92, 110]      -- \n
  else if b = 13 then [92, 114]      -- \r
  else if b = 9 then [92, 116]       -- \t
  else if b < 32 ∨ b = 60 ∨ b = 62 ∨ b = 38 then escU00 b
  else [b]

/-- the characters of a string literal, without the quotes -/
def renderStrBody : GoString → GoString
  | [] => []
  | b :: c :: d :: rest =>
    if b = 0xE2 ∧ c = 0x80 ∧ d = 0xA8 then
      [92, 117, 50, 48, 50, 56] ++ renderStrBody rest      -- U+2028
    else if b = 0xE2 ∧ c = 0x80 ∧ d = 0xA9 then
      [92, 117, 50, 48, 50, 57] ++ renderStrBody rest      -- U+2029
    else escByte b ++ renderStrBody (c :: d :: rest)
  | b :: rest => escByte b ++ renderStrBody rest

/-- a JSON string literal as `encoding/json` writes it -/
def renderStr (s : GoString) : GoString := 34 :: (renderStrBody s ++ [34])

/-- `[44]` between two elements, nothing after the last one -/
def sepBefore {α : Type} (rest : List α) : GoString :=
  match rest with
  | [] => []
  | _ :: _ => [44]

mutual
/-- compact rendering, no whitespace, members in list order -/
def Json.render : Json → GoString
  | .null => [110, 117, 108, 108]
  | .bool true => [116, 114, 117, 101]
  | .bool false => [102, 97, 108, 115, 101]
  | .num lit => lit
  | .str s => renderStr s
  | .arr l => 91 :: (Json.renderList l ++ [93])
  | .obj ms => 123 :: (Json.renderMembers ms ++ [125])
/-- elements separated by `,` -/
def Json.renderList : List Json → GoString
  | [] => []
  | v :: vs => v.render ++ (sepBefore vs ++ Json.renderList vs)
/-- `key:value` members separated by `,` -/
def Json.renderMembers : List (GoString × Json) → GoString
  | [] => []
  | (k, v) :: ms => renderStr k ++ (58 :: (v.render ++ (sepBefore ms ++ Json.renderMembers ms)))
end

end Jsonapi
