/-
Model of what `encoding/json` does when the library decodes a payload into its skeleton
structs (skeletons.go `payloadSkeleton`, `resourceSkeleton`, `relationshipSkeleton`;
identifiers.go `Identifier`, `Identifiers`; error.go `Error`; meta.go `Meta`), from the concrete
syntax tree of the payload (`Spec.parseJsonC`) to exactly the skeleton values
`Model/Unmarshal.lean` starts from, and the six entry points FROM BYTES by composition.

Rules of `encoding/json` (Go 1.23) modelled here, each found by experiment and compared with
the real decoder on every case of suite `bytes2`:

* a struct: JSON `null` is a no-op (every field keeps its value), an object sets fields member
  by member in source order, anything else is an `UnmarshalTypeError`. `encoding/json` records
  such an error and goes on, the call fails in the end: here the decode is `none` at once
  (every caller in the library returns an error whenever `json.Unmarshal` does).
* a member is matched to a field by its exact name, else by case folding (`foldKey`: ASCII
  letters, plus the only two non-ASCII runes that fold into ASCII: U+017F LATIN SMALL LETTER LONG S is
  `S`, U+212A KELVIN SIGN is `K` - `"attributeſ"` IS `attributes`); the key is the DECODED string (escapes
  resolved, bytes that are not UTF-8 replaced by U+FFFD); unknown members are skipped whatever
  their value; later members overwrite earlier ones.
* `string` field: a JSON string sets it, `null` leaves it as it is, anything else is an error.
* `json.RawMessage` field: the raw text of the value, `null` included (the text `null`);
  without the white space around the value, with the white space inside it.
* map field (`attributes`, `relationships`, `meta`, `links`, `source`): `null` sets the map to
  nil (everything read so far is dropped); an object is MERGED into the map already there (a
  repeated `attributes` member adds to the first one's entries); inside one object a repeated
  key keeps its last value; anything else is an error. The VALUE of a map entry always starts
  from the zero value: a repeated key of `relationships` replaces the whole relationship.
* slice field (`errors`, `included`): `null` sets it to nil; `[]` to a fresh empty slice; an
  array is decoded INTO the slice already there: element `i` is decoded into the existing
  element `i` when there is one (a struct element is merged: a second `errors` member adds
  members to the first one's error objects), the slice is cut to the new length, and - as long
  as the capacity is not exceeded - an element beyond the old length is the STALE element an
  earlier, longer array left in the backing array (`reflect.Value.SetLen` does not clear).
  `ErrBuf` models the backing array; `growCap` is the capacity `reflect.Value.Grow(1)` gives
  for this element size, observed up to 39 elements.
* `any` (the values of `Meta`, `Error.Source`): objects become maps (last value of a repeated
  key) that `json.Marshal` writes sorted by key; numbers become float64: the text Go prints
  for it is the parameter `numCanon` (`none`: outside float64, an error).

Delegated (parameters, `Delegated`): `decTime`, what `json.Unmarshal(raw, &time.Time{})`
returns for the raw text of a value (`time.Time.UnmarshalJSON` parses the RAW bytes between
the quotes, without resolving escapes), and `numCanon`. Modelled: the string decode
(`decStr`: a string literal's value, `null` leaves "") and the `[]byte` decode of a STRING
(`goB64`: base64.StdEncoding with `\r` `\n` ignored, padding required, trailing bits not
checked). `RawVal.decBytes` of a value that is neither a string nor `null` is `none` here
(`encoding/json` would accept an array of small numbers; `Attr.unmarshalToType` consults the
decode for strings only).
-/
import Jsonapi.Spec.JsonFull
import Jsonapi.Model.Unmarshal
namespace Jsonapi
open Spec

/-- The two decodes left to the standard library. -/
structure Delegated where
  /-- `json.Unmarshal(raw, &time.Time{})` on the raw text of a value; `none`: error -/
  decTime : GoString → Option Time
  /-- the text `json.Marshal` prints for the float64 a number literal denotes; `none`: the
  literal is outside float64 (`1e999`), which is an `UnmarshalTypeError` -/
  numCanon : GoString → Option GoString

/-! ### member names -/

namespace DK
def id : GoString := [105, 100]
def type : GoString := [116, 121, 112, 101]
def attributes : GoString := [97, 116, 116, 114, 105, 98, 117, 116, 101, 115]
def relationships : GoString := [114, 101, 108, 97, 116, 105, 111, 110, 115, 104, 105, 112, 115]
def meta' : GoString := [109, 101, 116, 97]
def data : GoString := [100, 97, 116, 97]
def errors : GoString := [101, 114, 114, 111, 114, 115]
def included : GoString := [105, 110, 99, 108, 117, 100, 101, 100]
def links : GoString := [108, 105, 110, 107, 115]
def code : GoString := [99, 111, 100, 101]
def status : GoString := [115, 116, 97, 116, 117, 115]
def title : GoString := [116, 105, 116, 108, 101]
def detail : GoString := [100, 101, 116, 97, 105, 108]
def source : GoString := [115, 111, 117, 114, 99, 101]
end DK

/-- `encoding/json`'s `foldName` as far as it can produce an ASCII name: ASCII letters to upper
case, U+017F (C5 BF) to `S`, U+212A (E2 84 AA) to `K`; every other byte is copied (no other
rune folds into ASCII, so a key containing one matches no field of these structs). -/
def foldKey : GoString → GoString
  | [] => []
  | 0xC5 :: 0xBF :: r => 83 :: foldKey r
  | 0xE2 :: 0x84 :: 0xAA :: r => 75 :: foldKey r
  | c :: r => (if 97 ≤ c ∧ c ≤ 122 then c - 32 else c) :: foldKey r

/-- the index of the struct field a key names: exact name first, else folded name -/
def fieldIdx (fields : List GoString) (key : GoString) : Option Nat :=
  match fields.findIdx? (fun f => f = key) with
  | some i => some i
  | none => fields.findIdx? (fun f => foldKey f = foldKey key)

/-- a `string` field reads a value -/
def setStrC (cur : GoString) : CJson → Option GoString
  | .str r => some (unquote r)
  | .null => some cur
  | _ => none

/-! ### `Identifier`, `Identifiers` -/

def identFields : List GoString := [DK.id, DK.type]

def identMembers (acc : GoString × GoString) : List CMember → Option (GoString × GoString)
  | [] => some acc
  | (_, k, _, v, _) :: ms =>
    match fieldIdx identFields (unquote k) with
    | some 0 => (match setStrC acc.1 v with
      | some s => identMembers (s, acc.2) ms
      | none => none)
    | some 1 => (match setStrC acc.2 v with
      | some s => identMembers (acc.1, s) ms
      | none => none)
    | _ => identMembers acc ms

/-- `json.Unmarshal(raw, &Identifier{})`: (id, type) -/
def decodeIdent : CJson → Option (GoString × GoString)
  | .null => some ([], [])
  | .obj _ ms => identMembers ([], []) ms
  | _ => none

def identItems : List CItem → Option (List (GoString × GoString))
  | [] => some []
  | (_, v, _) :: rest =>
    match decodeIdent v, identItems rest with
    | some i, some is => some (i :: is)
    | _, _ => none

/-- `json.Unmarshal(raw, &Identifiers{})` -/
def decodeIdents : CJson → Option (List (GoString × GoString))
  | .null => some []
  | .arr _ items => identItems items
  | _ => none

/-! ### `any` -/

/-- `m[k] = v` on a map listed by sorted key -/
def metaSet (m : List (GoString × Json)) (k : GoString) (v : Json) : List (GoString × Json) :=
  match m with
  | [] => [(k, v)]
  | (k', v') :: rest =>
    if k < k' then (k, v) :: (k', v') :: rest
    else if k = k' then (k, v) :: rest
    else (k', v') :: metaSet rest k v

/-- the entries in source order into the map -/
def metaInto (cur : List (GoString × Json)) (l : List (GoString × Json)) : List (GoString × Json) :=
  l.foldl (fun m p => metaSet m p.1 p.2) cur

mutual
/-- `json.Unmarshal(raw, &x)` with `x any`, as the tree `json.Marshal(x)` writes -/
def anyOf (nc : GoString → Option GoString) : CJson → Option Json
  | .null => some .null
  | .bool b => some (.bool b)
  | .num lit => (nc lit).map Json.num
  | .str r => some (.str (unquote r))
  | .arr _ items => (anyItems nc items).map Json.arr
  | .obj _ ms => (anyMembers nc ms).map (fun l => Json.obj (metaInto [] l))
def anyItems (nc : GoString → Option GoString) : List CItem → Option (List Json)
  | [] => some []
  | (_, v, _) :: rest =>
    match anyOf nc v, anyItems nc rest with
    | some a, some b => some (a :: b)
    | _, _ => none
/-- the members in source order, each value decoded -/
def anyMembers (nc : GoString → Option GoString) : List CMember → Option (List (GoString × Json))
  | [] => some []
  | (_, k, _, v, _) :: rest =>
    match anyOf nc v, anyMembers nc rest with
    | some a, some b => some ((unquote k, a) :: b)
    | _, _ => none
end

/-- a `map[string]any` field (`Meta`, `Error.Source`) reads a value -/
def mergeMeta (nc : GoString → Option GoString) (cur : Meta) : CJson → Option Meta
  | .null => some []
  | .obj _ ms => (anyMembers nc ms).map (metaInto cur)
  | _ => none

/-! ### base64 -/

/-- value of a byte of the standard base64 alphabet -/
def b64Val? (c : UInt8) : Option Nat :=
  if 65 ≤ c ∧ c ≤ 90 then some (c.toNat - 65)
  else if 97 ≤ c ∧ c ≤ 122 then some (c.toNat - 71)
  else if 48 ≤ c ∧ c ≤ 57 then some (c.toNat + 4)
  else if c = 43 then some 62
  else if c = 47 then some 63
  else none

/-- quanta of four bytes; the last one may end in `==` or `=` (trailing bits not checked) -/
def goB64Groups : GoString → Option (List UInt8)
  | [] => some []
  | a :: b :: c :: d :: rest =>
    match b64Val? a, b64Val? b with
    | some x, some y =>
      if c = 61 then
        (if d = 61 ∧ rest = [] then some [UInt8.ofNat ((x * 64 + y) / 16)] else none)
      else
        match b64Val? c with
        | none => none
        | some z =>
          if d = 61 then
            (if rest = [] then
              some [UInt8.ofNat ((x * 4096 + y * 64 + z) / 1024),
                    UInt8.ofNat ((x * 4096 + y * 64 + z) / 4 % 256)]
            else none)
          else
            match b64Val? d with
            | none => none
            | some w =>
              match goB64Groups rest with
              | none => none
              | some tl =>
                some (UInt8.ofNat ((x * 262144 + y * 4096 + z * 64 + w) / 65536) ::
                  UInt8.ofNat ((x * 262144 + y * 4096 + z * 64 + w) / 256 % 256) ::
                  UInt8.ofNat ((x * 262144 + y * 4096 + z * 64 + w) % 256) :: tl)
    | _, _ => none
  | _ => none

/-- `base64.StdEncoding.Decode` as `encoding/json` calls it for a `[]byte`: `\r` and `\n` are
ignored wherever they are -/
def goB64 (s : GoString) : Option (List UInt8) :=
  goB64Groups (s.filter (fun c => c ≠ 10 ∧ c ≠ 13))

/-! ### `resourceSkeleton` -/

/-- a value of the `attributes` map with the three decodes the library may ask for -/
def rawValOf (D : Delegated) (v : CJson) : RawVal :=
  { bytes := v.raw,
    decStr := (match v with
      | .str r => some (unquote r)
      | .null => some []
      | _ => none),
    decTime := D.decTime v.raw,
    decBytes := (match v with
      | .str r => (goB64 (unquote r)).map some
      | .null => some none
      | _ => none) }

def attrsInto (D : Delegated) (cur : GoMap RawVal) : List CMember → GoMap RawVal
  | [] => cur
  | (_, k, _, v, _) :: ms => attrsInto D (cur.set (unquote k) (rawValOf D v)) ms

def isObjOrNull : CJson → Bool
  | .null => true
  | .obj _ _ => true
  | _ => false

def relFields : List GoString := [DK.data, DK.links, DK.meta']

/-- the members of a relationship object: the last `data` value; `links` and `meta` are
`map[string]json.RawMessage` -/
def relMembers (acc : Option CJson) : List CMember → Option (Option CJson)
  | [] => some acc
  | (_, k, _, v, _) :: ms =>
    match fieldIdx relFields (unquote k) with
    | some 0 => relMembers (some v) ms
    | some 1 => if isObjOrNull v then relMembers acc ms else none
    | some 2 => if isObjOrNull v then relMembers acc ms else none
    | _ => relMembers acc ms

/-- what the library reads of a `relationshipSkeleton` with the given `Data` -/
def relRawOf : Option CJson → RelRaw
  | none => { present := false, isNull := false, decIdent := none, decIdents := none }
  | some v =>
    { present := true,
      isNull := (match v with
        | .null => true
        | _ => false),
      decIdent := decodeIdent v, decIdents := decodeIdents v }

/-- a value of the `relationships` map, decoded into a zero `relationshipSkeleton` -/
def decodeRel : CJson → Option RelRaw
  | .null => some (relRawOf none)
  | .obj _ ms => (relMembers none ms).map relRawOf
  | _ => none

def relsInto (cur : GoMap RelRaw) : List CMember → Option (GoMap RelRaw)
  | [] => some cur
  | (_, k, _, v, _) :: ms =>
    match decodeRel v with
    | none => none
    | some r => relsInto (cur.set (unquote k) r) ms

def resFields : List GoString := [DK.id, DK.type, DK.attributes, DK.relationships, DK.meta']

def resMembers (D : Delegated) (acc : ResSke) : List CMember → Option ResSke
  | [] => some acc
  | (_, k, _, v, _) :: ms =>
    match fieldIdx resFields (unquote k) with
    | some 0 => (match setStrC acc.id v with
      | some s => resMembers D { acc with id := s } ms
      | none => none)
    | some 1 => (match setStrC acc.typ v with
      | some s => resMembers D { acc with typ := s } ms
      | none => none)
    | some 2 => (match v with
      | .null => resMembers D { acc with attrs := [] } ms
      | .obj _ as => resMembers D { acc with attrs := attrsInto D acc.attrs as } ms
      | _ => none)
    | some 3 => (match v with
      | .null => resMembers D { acc with rels := [] } ms
      | .obj _ rs => (match relsInto acc.rels rs with
        | some m => resMembers D { acc with rels := m } ms
        | none => none)
      | _ => none)
    | some 4 => (match mergeMeta D.numCanon acc.smeta v with
      | some m => resMembers D { acc with smeta := m } ms
      | none => none)
    | _ => resMembers D acc ms

def ResSke.zero : ResSke := { id := [], typ := [], attrs := [], rels := [], smeta := [] }

/-- `json.Unmarshal(raw, &resourceSkeleton{})` -/
def decodeRes (D : Delegated) : CJson → ResSke?
  | .null => some ResSke.zero
  | .obj _ ms => resMembers D ResSke.zero ms
  | _ => none

/-! ### `Error` and the `errors` slice -/

def linksInto (cur : GoMap GoString) : List CMember → Option (GoMap GoString)
  | [] => some cur
  | (_, k, _, v, _) :: ms =>
    match setStrC [] v with
    | none => none
    | some s => linksInto (cur.set (unquote k) s) ms

def errFields : List GoString :=
  [DK.id, DK.code, DK.status, DK.title, DK.detail, DK.links, DK.source, DK.meta']

def errMembers (D : Delegated) (acc : ErrorObj) : List CMember → Option ErrorObj
  | [] => some acc
  | (_, k, _, v, _) :: ms =>
    match fieldIdx errFields (unquote k) with
    | some 0 => (match setStrC acc.id v with
      | some s => errMembers D { acc with id := s } ms
      | none => none)
    | some 1 => (match setStrC acc.code v with
      | some s => errMembers D { acc with code := s } ms
      | none => none)
    | some 2 => (match setStrC acc.status v with
      | some s => errMembers D { acc with status := s } ms
      | none => none)
    | some 3 => (match setStrC acc.title v with
      | some s => errMembers D { acc with title := s } ms
      | none => none)
    | some 4 => (match setStrC acc.detail v with
      | some s => errMembers D { acc with detail := s } ms
      | none => none)
    | some 5 => (match v with
      | .null => errMembers D { acc with links := [] } ms
      | .obj _ ls => (match linksInto acc.links ls with
        | some m => errMembers D { acc with links := m } ms
        | none => none)
      | _ => none)
    | some 6 => (match mergeMeta D.numCanon acc.source v with
      | some m => errMembers D { acc with source := m } ms
      | none => none)
    | some 7 => (match mergeMeta D.numCanon acc.emeta v with
      | some m => errMembers D { acc with emeta := m } ms
      | none => none)
    | _ => errMembers D acc ms

/-- an element of `errors` reads a value, starting from the element already there -/
def decodeErrInto (D : Delegated) (cur : ErrorObj) : CJson → Option ErrorObj
  | .null => some cur
  | .obj _ ms => errMembers D cur ms
  | _ => none

/-- The `[]Error` field: its backing array (`buf.length` is the capacity) and its length. -/
structure ErrBuf where
  buf : List ErrorObj := []
  len : Nat := 0
deriving Inhabited

/-- capacity after `reflect.Value.Grow(1)` of a full `[]Error` (104-byte elements) -/
def growCap (c : Nat) : Nat :=
  if c = 0 then 1 else if c = 8 then 17 else if c = 17 then 39 else 2 * c

/-- element `i`, `i+1`, … of the array into the slice -/
def errItems (D : Delegated) (b : ErrBuf) (i : Nat) : List CItem → Option (ErrBuf × Nat)
  | [] => some (b, i)
  | (_, v, _) :: rest =>
    let b1 : ErrBuf :=
      if b.buf.length ≤ i then
        { buf := b.buf.take b.len ++ List.replicate (growCap b.buf.length - b.len) {}, len := b.len }
      else b
    let b2 : ErrBuf := if b1.len ≤ i then { b1 with len := i + 1 } else b1
    match decodeErrInto D (b2.buf.getD i {}) v with
    | none => none
    | some e => errItems D { b2 with buf := b2.buf.set i e } (i + 1) rest

/-- the `errors` field reads a value -/
def decodeErrors (D : Delegated) (b : ErrBuf) : CJson → Option ErrBuf
  | .null => some {}
  | .arr _ items =>
    (match errItems D b 0 items with
      | none => none
      | some (b', n) => if n = 0 then some {} else some { b' with len := n })
  | _ => none

/-! ### `payloadSkeleton` -/

structure DocAcc where
  data : Option CJson := none
  errs : ErrBuf := {}
  inc : List CJson := []
  dmeta : Meta := []

def docFields : List GoString := [DK.data, DK.errors, DK.included, DK.meta']

def docMembers (D : Delegated) (acc : DocAcc) : List CMember → Option DocAcc
  | [] => some acc
  | (_, k, _, v, _) :: ms =>
    match fieldIdx docFields (unquote k) with
    | some 0 => docMembers D { acc with data := some v } ms
    | some 1 => (match decodeErrors D acc.errs v with
      | some b => docMembers D { acc with errs := b } ms
      | none => none)
    | some 2 => (match v with
      | .null => docMembers D { acc with inc := [] } ms
      | .arr _ items => docMembers D { acc with inc := items.map (fun p => p.2.1) } ms
      | _ => none)
    | some 3 => (match mergeMeta D.numCanon acc.dmeta v with
      | some m => docMembers D { acc with dmeta := m } ms
      | none => none)
    | _ => docMembers D acc ms

/-- what `UnmarshalDocument` makes of `ske.Data` -/
def dataSkeOf (D : Delegated) : Option CJson → DataSke
  | none => .absent
  | some .null => .null
  | some (.obj ws ms) => .res (decodeRes D (.obj ws ms))
  | some (.arr _ items) => .col (some (items.map (fun p => decodeRes D p.2.1)))
  | some _ => .other

def docSkeOf (D : Delegated) (a : DocAcc) : DocSke :=
  { data := dataSkeOf D a.data,
    errors := a.errs.buf.take a.errs.len,
    included := a.inc.map (fun v => ((decodeIdent v).isSome, decodeRes D v)),
    dmeta := a.dmeta }

/-- `json.Unmarshal(payload, &payloadSkeleton{})` and the decodes `UnmarshalDocument` makes of
its raw members -/
def decodeDoc (D : Delegated) : CJson → Option DocSke
  | .null => some (docSkeOf D {})
  | .obj _ ms => (docMembers D {} ms).map (docSkeOf D)
  | _ => none

/-- `json.Unmarshal(payload, &[]json.RawMessage{})` -/
def decodeRaws : CJson → Option (List CJson)
  | .null => some []
  | .arr _ items => some (items.map (fun p => p.2.1))
  | _ => none

/-! ### the entry points, from bytes -/

/-- `UnmarshalResource(payload, schema)` -/
def unmarshalResourceBytes (D : Delegated) (σ : SSchema) (bytes : GoString) : Res AnyRes :=
  match parseJsonC bytes with
  | none => .err
  | some j =>
    match decodeRes D j with
    | none => .err
    | some sk => unmarshalResource σ sk

/-- `UnmarshalPartialResource(payload, schema)` -/
def unmarshalPartialResourceBytes (D : Delegated) (σ : SSchema) (bytes : GoString) : Res Soft :=
  match parseJsonC bytes with
  | none => .err
  | some j =>
    match decodeRes D j with
    | none => .err
    | some sk => unmarshalPartialResource σ sk

/-- `UnmarshalCollection(payload, schema)` -/
def unmarshalCollectionBytes (D : Delegated) (σ : SSchema) (bytes : GoString) : Res (List AnyRes) :=
  match parseJsonC bytes with
  | none => .err
  | some j =>
    match decodeRaws j with
    | none => .err
    | some l => unmarshalList σ (l.map (decodeRes D))

/-- `UnmarshalDocument(payload, schema)` -/
def unmarshalDocumentBytes (D : Delegated) (σ : SSchema) (bytes : GoString) : Res UDoc :=
  match parseJsonC bytes with
  | none => .err
  | some j => unmarshalDocument σ (decodeDoc D j)

/-- `UnmarshalIdentifier(payload, schema)` -/
def unmarshalIdentifierBytes (σ : Option SSchema) (bytes : GoString) : Res (GoString × GoString) :=
  match parseJsonC bytes with
  | none => .err
  | some j => unmarshalIdentifier σ (decodeIdent j)

/-- `UnmarshalIdentifiers(payload, schema)` -/
def unmarshalIdentifiersBytes (σ : Option SSchema) (bytes : GoString) :
    Res (List (GoString × GoString)) :=
  match parseJsonC bytes with
  | none => .err
  | some j => unmarshalIdentifiers σ ((decodeRaws j).map (fun l => l.map decodeIdent))

end Jsonapi
