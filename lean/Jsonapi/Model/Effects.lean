/-
Effect model for C12 (a built schema can be shared by concurrent requests).

The operations a request runs against the shared *Schema are pure functions of the
schema in the model (they return no new schema). What the Go functions do to the
schema's memory is read from the regenerated write facts (Facts.writesThrough: does a
function assign through a *Schema / *Type receiver or parameter, or through a Type
value obtained from the schema, directly or via a call): an operation whose Go code
involves a writing function performs a write access on the shared schema.
-/
import Jsonapi.Model.Schema
import Jsonapi.Generated.Facts
namespace Jsonapi

/-- The operations of the property: read-only requests and queries. -/
inductive ROp where
  | getType | hasType | check | rels
  | parseURL            -- NewURLFromRaw / NewSimpleURL+NewURL / NewParams
  | unmarshalDocument   -- UnmarshalDocument (UnmarshalResource, UnmarshalCollection)
  | unmarshalPartial    -- UnmarshalPartialResource
  | unmarshalIdentifiers
  | newRequest
  | newResource         -- Type.New on a type looked up in the schema
  | marshalOwnDocument  -- marshaling a thread-local document (does not take the schema)
deriving DecidableEq, Repr

def ROp.all : List ROp :=
  [.getType, .hasType, .check, .rels, .parseURL, .unmarshalDocument, .unmarshalPartial,
   .unmarshalIdentifiers, .newRequest, .newResource, .marshalOwnDocument]

/-- The Go functions that touch the shared schema when the operation runs. -/
def ROp.goFuncs : ROp → List String
  | .getType => ["Schema.GetType"]
  | .hasType => ["Schema.HasType"]
  | .check => ["Schema.Check", "Schema.GetType"]
  | .rels => ["Schema.Rels", "Schema.buildRels"]
  | .parseURL => ["NewURLFromRaw", "NewURL", "NewParams", "Schema.GetType", "Schema.HasType", "Type.Fields"]
  | .unmarshalDocument => ["UnmarshalDocument", "UnmarshalCollection", "UnmarshalResource", "Schema.GetType", "Type.New"]
  | .unmarshalPartial => ["UnmarshalPartialResource", "Schema.GetType"]
  | .unmarshalIdentifiers => ["UnmarshalIdentifiers", "UnmarshalIdentifier", "Schema.HasType"]
  | .newRequest => ["NewRequest", "NewURL", "NewParams", "UnmarshalDocument", "UnmarshalCollection", "UnmarshalResource",
                    "Schema.GetType", "Schema.HasType", "Type.Fields", "Type.New"]
  | .newResource => ["Schema.GetType", "Type.New"]
  | .marshalOwnDocument => []

/-- Does the Go code of the operation write to the shared schema? A function the
extractor does not know (removed or renamed) counts as writing. -/
def ROp.writes (op : ROp) : Bool :=
  op.goFuncs.any (fun f => Facts.writesThrough.lookup f ≠ some false)

/-- One memory access to the shared schema by a thread. -/
structure Access where
  thread : Nat
  write : Bool
deriving DecidableEq, Repr

/-- The accesses a thread performs when it runs an operation: reads, and a write when
the Go code writes. -/
def ROp.accesses (t : Nat) (op : ROp) : List Access :=
  if op.goFuncs.isEmpty then [] else
  { thread := t, write := false } :: (if op.writes then [{ thread := t, write := true }] else [])

/-- A data race in an execution (there is no synchronisation in the library): two
accesses to the schema by different threads, at least one of them a write. -/
def hasRace (e : List Access) : Prop :=
  ∃ a ∈ e, ∃ b ∈ e, a.thread ≠ b.thread ∧ (a.write = true ∨ b.write = true)

/-- `e` is an interleaving of the lists `ts`: every element comes from one of them
(order preserved per thread is irrelevant for the existence of a race). -/
def fromThreads (ts : List (List Access)) (e : List Access) : Prop :=
  ∀ a ∈ e, ∃ t ∈ ts, a ∈ t

end Jsonapi
