/-
Model of the JSON codec of the `filter` query parameter (filter.go `Filter`, `filter`,
`Filter.UnmarshalJSON`; url.go `json.Marshal(u.Params.Filter)` / `json.Marshal(label)`;
simple_url.go `json.Unmarshal([]byte("\"" + v + "\""), &label)` and
`json.Unmarshal([]byte(v), filter)`), on the tree the JSON reader makes of the text.

What is modelled (each rule checked against the real code by the `filterjson` suite):

* `json.Unmarshal(text, &Filter{})` calls `Filter.UnmarshalJSON(text)` for every valid text,
  `null` included (the pointer handed to Unmarshal is not settable, so encoding/json does not
  stop at it for `null`); `UnmarshalJSON` decodes the text into the internal struct `filter`.
* decoding into `filter` (encoding/json's struct rules): `null` is a no-op (all fields stay
  zero), any other non-object is an error; a member is matched to a field by its exact name,
  else by ASCII case folding (`F` is `f`; no non-ASCII letter folds to `f o v c`), later
  members overwrite earlier ones; for `f o c` the value must be a string, or `null` which
  leaves the field as it is, anything else is an error (encoding/json records it and goes on,
  the call fails in the end); `v` is a `json.RawMessage`: the raw text of the value (`null`
  included), absent = empty; unknown members are skipped.
* op `and` / `or`: Field is cleared and `v` is decoded into a `[]*Filter`: absent `v` is the
  error "unexpected end of JSON input", `null` gives the nil slice, an array gives a slice
  whose elements are nil for `null`, the recursively decoded filter for any other element
  (`UnmarshalJSON` on it: an error unless it is an object); anything else is an error.
* any other op: `v` is decoded into the `any` field `Val`, and the error is dropped; absent
  `v` leaves `Val` nil. On a text that is valid JSON the only possible error is a number
  outside float64 (`1e999`), which leaves nil in its place: that is outside the model (the
  number formatter `numCanon` is a parameter).
* `json.Unmarshal` into `any` (`decodeAny`): objects become maps (a repeated key keeps its
  last value) which `json.Marshal` writes with their keys sorted bytewise; numbers become
  float64 and are written as Go formats the float64: `numCanon lit`, a parameter; strings,
  booleans, null as they are; arrays element-wise.
* `json.Marshal(Filter)`: the struct fields in declaration order `f o v c`, none omitted; a
  nil `Val` and a nil `[]*Filter` are `null`, a nil element is `null`.

Not modelled: whitespace between tokens and surrogate escapes (the reader `Spec.parseJson`
is strict compact JSON), bytes that are not valid UTF-8 in the text that is read (Go replaces
each by U+FFFD; the model copies them: `utf8Valid` is the domain of the comparison). Go's
writer of a string with that replacement is `goStrBody`, for the label.
-/
import Jsonapi.Model.JsonText
import Jsonapi.Spec.JsonParse
import Jsonapi.Model.Url
namespace Jsonapi

/-! ### decoded values -/

/-- A value decoded into a Go `any` and normalised: the JSON tree `json.Marshal` writes for
it (object members sorted by key without repeats, numbers as Go prints the float64). -/
abbrev AnyVal := Json

mutual
/-- What `Filter.UnmarshalJSON` can leave in a `Filter`. -/
inductive FilterVal where
  | mk (field op col : GoString) (val : FVal)
/-- The dynamic value of `Filter.Val`: a `[]*Filter` (`none`: the nil slice; an element
`none`: a nil pointer) after `and` / `or`, else what `json.Unmarshal` stores in an `any`. -/
inductive FVal where
  | filters (l : Option (List (Option FilterVal)))
  | any (v : AnyVal)
end

instance : Inhabited FVal := ⟨.any .null⟩
instance : Inhabited FilterVal := ⟨.mk [] [] [] (.any .null)⟩

namespace FilterVal
def field : FilterVal → GoString | .mk f _ _ _ => f
def op : FilterVal → GoString | .mk _ o _ _ => o
def col : FilterVal → GoString | .mk _ _ c _ => c
def val : FilterVal → FVal | .mk _ _ _ v => v
end FilterVal

/-- the zero `Filter` -/
def FilterVal.zero : FilterVal := .mk [] [] [] (.any .null)

/-! ### `json.Unmarshal` into an `any`, re-marshaled -/

/-- `m[k] = v` seen from the end of the member list: a key that a later member already set
keeps that later value; otherwise the member takes its place in bytewise key order. -/
def insAbsent (k : GoString) (v : Json) : List (GoString × Json) → List (GoString × Json)
  | [] => [(k, v)]
  | (k', v') :: rest =>
    if k < k' then (k, v) :: (k', v') :: rest
    else if k = k' then (k', v') :: rest
    else (k', v') :: insAbsent k v rest

mutual
/-- `json.Unmarshal(raw, &x)` with `x any`, as the tree `json.Marshal(x)` writes.
`numCanon lit`: the text Go prints for the float64 the literal denotes. -/
def decodeAny (numCanon : GoString → GoString) : Json → AnyVal
  | .null => .null
  | .bool b => .bool b
  | .num lit => .num (numCanon lit)
  | .str s => .str s
  | .arr l => .arr (decodeAnyList numCanon l)
  | .obj ms => .obj (decodeAnyMembers numCanon ms)
def decodeAnyList (numCanon : GoString → GoString) : List Json → List Json
  | [] => []
  | v :: vs => decodeAny numCanon v :: decodeAnyList numCanon vs
/-- the map of an object, listed by sorted key: last value of a repeated key -/
def decodeAnyMembers (numCanon : GoString → GoString) :
    List (GoString × Json) → List (GoString × Json)
  | [] => []
  | (k, v) :: ms => insAbsent k (decodeAny numCanon v) (decodeAnyMembers numCanon ms)
end

/-! ### `Filter.UnmarshalJSON` -/

def sAnd : GoString := [97, 110, 100]   -- "and"
def sOr : GoString := [111, 114]        -- "or"

/-- `case "and", "or"` -/
def isAndOr (op : GoString) : Bool := op = sAnd || op = sOr

/-- The internal struct `filter` while its members are read, together with what decoding the
current `v` into a `[]*Filter` gives (computed when the member is read, so that the
recursion is structural; only used for `and` / `or`). -/
structure RawFilter where
  field : GoString := []
  op : GoString := []
  col : GoString := []
  /-- `json.RawMessage`: the tree of the raw text; `none`: empty (no `v` member) -/
  val : Option Json := none
  /-- `json.Unmarshal(Val, &[]*Filter{})`; absent `v`: unexpected end of JSON input -/
  slice : Res (Option (List (Option FilterVal))) := .err

inductive Slot where
  | f | o | v | c
deriving DecidableEq, Repr

/-- The field of `filter` an object key names: the exact tag, else the ASCII case-folded
tag (encoding/json's `byExactName`, then `byFoldedName`; both give the same field here). -/
def keySlot (key : GoString) : Option Slot :=
  if key = [102] then some .f
  else if key = [111] then some .o
  else if key = [118] then some .v
  else if key = [99] then some .c
  else if key = [70] then some .f
  else if key = [79] then some .o
  else if key = [86] then some .v
  else if key = [67] then some .c
  else none

/-- a string field of `filter` reads a member value: a string sets it, `null` leaves it,
anything else is an `UnmarshalTypeError` -/
def setStr (cur : GoString) : Json → Res GoString
  | .str s => .ok s
  | .null => .ok cur
  | _ => .err

/-- one member of the object read into `filter` (`sl`: what the member's value decodes to as
a `[]*Filter`, used when the key is `v`) -/
def rawStep (acc : RawFilter) (key : GoString) (v : Json)
    (sl : Res (Option (List (Option FilterVal)))) : Res RawFilter :=
  match keySlot key with
  | none => .ok acc
  | some .f => match setStr acc.field v with
    | .ok s => .ok { acc with field := s }
    | .err => .err
    | .panic => .panic
  | some .o => match setStr acc.op v with
    | .ok s => .ok { acc with op := s }
    | .err => .err
    | .panic => .panic
  | some .c => match setStr acc.col v with
    | .ok s => .ok { acc with col := s }
    | .err => .err
    | .panic => .panic
  | some .v => .ok { acc with val := some v, slice := sl }

/-- the rest of `UnmarshalJSON` once `filter` is filled -/
def finishFilter (numCanon : GoString → GoString) (raw : RawFilter) : Res FilterVal :=
  if isAndOr raw.op then
    match raw.slice with
    | .ok l => .ok (.mk [] raw.op raw.col (.filters l))
    | .err => .err
    | .panic => .panic
  else
    .ok (.mk raw.field raw.op raw.col
      (.any (match raw.val with
        | none => .null
        | some v => decodeAny numCanon v)))

mutual
/-- `Filter.UnmarshalJSON` on the tree of its argument -/
def filterOfJson (numCanon : GoString → GoString) : Json → Res FilterVal
  | .null => .ok FilterVal.zero
  | .obj ms => match readMembers numCanon {} ms with
    | .ok raw => finishFilter numCanon raw
    | .err => .err
    | .panic => .panic
  | _ => .err
/-- the members of the object, in order, into `filter` -/
def readMembers (numCanon : GoString → GoString) (acc : RawFilter) :
    List (GoString × Json) → Res RawFilter
  | [] => .ok acc
  | (k, v) :: ms =>
    match rawStep acc k v (sliceOfJson numCanon v) with
    | .ok acc' => readMembers numCanon acc' ms
    | .err => .err
    | .panic => .panic
/-- `json.Unmarshal(raw, &filters)` with `filters := []*Filter{}` -/
def sliceOfJson (numCanon : GoString → GoString) : Json → Res (Option (List (Option FilterVal)))
  | .null => .ok none
  | .arr l => match elemsOfJson numCanon l with
    | .ok es => .ok (some es)
    | .err => .err
    | .panic => .panic
  | _ => .err
/-- the elements of the array: `null` is a nil pointer, anything else goes to
`UnmarshalJSON` of a new `Filter` -/
def elemsOfJson (numCanon : GoString → GoString) : List Json → Res (List (Option FilterVal))
  | [] => .ok []
  | .null :: rest => match elemsOfJson numCanon rest with
    | .ok es => .ok (none :: es)
    | .err => .err
    | .panic => .panic
  | v :: rest => match filterOfJson numCanon v with
    | .ok f => match elemsOfJson numCanon rest with
      | .ok es => .ok (some f :: es)
      | .err => .err
      | .panic => .panic
    | .err => .err
    | .panic => .panic
end

/-! ### `json.Marshal` of a `Filter` -/

mutual
/-- `json.Marshal(f)`: the struct fields in declaration order, none omitted -/
def filterToJson : FilterVal → Json
  | .mk field op col val =>
    .obj [([102], .str field), ([111], .str op), ([118], fvalToJson val), ([99], .str col)]
def fvalToJson : FVal → Json
  | .any v => v
  | .filters none => .null
  | .filters (some l) => .arr (elemsToJson l)
def elemsToJson : List (Option FilterVal) → List Json
  | [] => []
  | none :: rest => .null :: elemsToJson rest
  | some f :: rest => filterToJson f :: elemsToJson rest
end

/-- the bytes `json.Marshal` writes for the filter -/
def renderFilter (f : FilterVal) : GoString := (filterToJson f).render

/-! ### the codecs of the `filter` parameter -/

/-- `json.Unmarshal(text, &Filter{})` then `json.Marshal`: the canonical text of the filter
the text denotes, `none` when it is rejected -/
def filterDec (numCanon : GoString → GoString) (text : GoString) : Option GoString :=
  match Spec.parseJson text with
  | none => none
  | some j =>
    match filterOfJson numCanon j with
    | .ok f => some (renderFilter f)
    | _ => none

/-- `json.Marshal(label)` without the two quotes -/
def labelBody (l : GoString) : GoString := renderStrBody l

/-- `json.Unmarshal([]byte("\"" + v + "\""), &label)` -/
def labelDec (v : GoString) : Option GoString :=
  match Spec.parseJson (34 :: (v ++ [34])) with
  | some (.str s) => some s
  | _ => none

/-- the label body as `URL.String` writes it into the `filter` parameter: `json.Marshal(label)`
without the quotes, a leading `{` rewritten to backslash-u-0-0-7-b (url.go; `rewriteBrace` of
Model/Url.lean) so that `NewSimpleURL` does not take the value for a filter object -/
def labelBodyEmitted (l : GoString) : GoString := rewriteBrace (labelBody l)

/-! ### domains of the comparison with the real code -/

/-- `utf8.Valid`: the bytes are well-formed UTF-8 (no overlong forms, no surrogates, at most
U+10FFFF). Go replaces every other byte by U+FFFD when it reads or writes a JSON string. -/
def utf8Valid : GoString → Bool
  | [] => true
  | b :: rest =>
    if b < 0x80 then utf8Valid rest
    else if 0xC2 ≤ b ∧ b ≤ 0xDF then
      match rest with
      | c :: r => (0x80 ≤ c && c ≤ 0xBF) && utf8Valid r
      | _ => false
    else if 0xE0 ≤ b ∧ b ≤ 0xEF then
      match rest with
      | c :: d :: r =>
        ((if b = 0xE0 then 0xA0 else 0x80) ≤ c && c ≤ (if b = 0xED then 0x9F else 0xBF)) &&
        (0x80 ≤ d && d ≤ 0xBF) && utf8Valid r
      | _ => false
    else if 0xF0 ≤ b ∧ b ≤ 0xF4 then
      match rest with
      | c :: d :: e :: r =>
        ((if b = 0xF0 then 0x90 else 0x80) ≤ c && c ≤ (if b = 0xF4 then 0x8F else 0xBF)) &&
        (0x80 ≤ d && d ≤ 0xBF) && (0x80 ≤ e && e ≤ 0xBF) && utf8Valid r
      | _ => false
    else false

/-! ### `json.Marshal` of a string, with Go's replacement of bytes that are not UTF-8 -/

/-- backslash-u-f-f-f-d: what `encoding/json` writes for a byte that `utf8.DecodeRune` does not
accept (it then goes on with the next byte) -/
def escFFFD : GoString := [92, 117, 102, 102, 102, 100]

/-- Go's `appendString(…, escapeHTML = true)` on any bytes: as `renderStrBody` on well-formed
UTF-8 (`goStrBody_valid`), and backslash-u-f-f-f-d for every byte that starts no well-formed
sequence (the conditions are those of `utf8Valid`). -/
def goStrBody : GoString → GoString
  | [] => []
  | b :: rest =>
    if b < 0x80 then escByte b ++ goStrBody rest
    else if 0xC2 ≤ b ∧ b ≤ 0xDF then
      match rest with
      | c :: r =>
        if (0x80 ≤ c && c ≤ 0xBF) = true then b :: c :: goStrBody r
        else escFFFD ++ goStrBody (c :: r)
      | [] => escFFFD
    else if 0xE0 ≤ b ∧ b ≤ 0xEF then
      match rest with
      | c :: d :: r =>
        if (((if b = 0xE0 then 0xA0 else 0x80) ≤ c && c ≤ (if b = 0xED then 0x9F else 0xBF)) &&
            (0x80 ≤ d && d ≤ 0xBF)) = true then
          (if b = 0xE2 ∧ c = 0x80 ∧ d = 0xA8 then [92, 117, 50, 48, 50, 56] ++ goStrBody r
           else if b = 0xE2 ∧ c = 0x80 ∧ d = 0xA9 then [92, 117, 50, 48, 50, 57] ++ goStrBody r
           else b :: c :: d :: goStrBody r)
        else escFFFD ++ goStrBody (c :: d :: r)
      | [c] => escFFFD ++ goStrBody [c]
      | [] => escFFFD
    else if 0xF0 ≤ b ∧ b ≤ 0xF4 then
      match rest with
      | c :: d :: e :: r =>
        if (((if b = 0xF0 then 0x90 else 0x80) ≤ c && c ≤ (if b = 0xF4 then 0x8F else 0xBF)) &&
            (0x80 ≤ d && d ≤ 0xBF) && (0x80 ≤ e && e ≤ 0xBF)) = true then
          b :: c :: d :: e :: goStrBody r
        else escFFFD ++ goStrBody (c :: d :: e :: r)
      | [c, d] => escFFFD ++ goStrBody [c, d]
      | [c] => escFFFD ++ goStrBody [c]
      | [] => escFFFD
    else escFFFD ++ goStrBody rest

/-- `json.Marshal(label)` without the two quotes, for any bytes -/
def goLabelBody (l : GoString) : GoString := goStrBody l

/-- `-?(0|[1-9][0-9]*)` -/
def isIntNumeral (lit : GoString) : Bool :=
  let ds := match lit with
    | 45 :: t => t
    | t => t
  match ds with
  | [] => false
  | [48] => true
  | c :: t => (49 ≤ c && c ≤ 57) && t.all (fun d => 48 ≤ d && d ≤ 57)

/-- value of a digit string -/
def digitsNat (s : GoString) : Nat := s.foldl (fun acc c => acc * 10 + (c.toNat - 48)) 0

/-- a canonical integer numeral of absolute value at most 2^53: float64 holds it exactly and
Go prints it back as the same text -/
def isSafeInt (lit : GoString) : Bool :=
  isIntNumeral lit &&
    digitsNat (match lit with
      | 45 :: t => t
      | t => t) ≤ 9007199254740992

mutual
/-- every number literal of the tree is a canonical integer numeral within ±2^53 -/
def Json.safeNums : Json → Bool
  | .num lit => isSafeInt lit
  | .arr l => Json.safeNumsList l
  | .obj ms => Json.safeNumsMembers ms
  | _ => true
def Json.safeNumsList : List Json → Bool
  | [] => true
  | v :: vs => v.safeNums && Json.safeNumsList vs
def Json.safeNumsMembers : List (GoString × Json) → Bool
  | [] => true
  | (_, v) :: ms => v.safeNums && Json.safeNumsMembers ms
end

end Jsonapi
