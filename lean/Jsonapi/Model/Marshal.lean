/-
Model of resource.go MarshalResource, link.go, collection.go MarshalCollection,
document.go Include / MarshalDocument, error.go Error.MarshalJSON.
Output is a JSON tree (object members sorted by key, as encoding/json does for maps).
-/
import Jsonapi.Model.Json
namespace Jsonapi

namespace K
def id : GoString := [105, 100]
def type : GoString := [116, 121, 112, 101]
def attributes : GoString := [97, 116, 116, 114, 105, 98, 117, 116, 101, 115]
def relationships : GoString := [114, 101, 108, 97, 116, 105, 111, 110, 115, 104, 105, 112, 115]
def links : GoString := [108, 105, 110, 107, 115]
def self : GoString := [115, 101, 108, 102]
def related : GoString := [114, 101, 108, 97, 116, 101, 100]
def data : GoString := [100, 97, 116, 97]
def kmeta : GoString := [109, 101, 116, 97]
def errors : GoString := [101, 114, 114, 111, 114, 115]
def included : GoString := [105, 110, 99, 108, 117, 100, 101, 100]
def jsonapi : GoString := [106, 115, 111, 110, 97, 112, 105]
def version : GoString := [118, 101, 114, 115, 105, 111, 110]
def v10 : GoString := [49, 46, 48]
def code : GoString := [99, 111, 100, 101]
def status : GoString := [115, 116, 97, 116, 117, 115]
def title : GoString := [116, 105, 116, 108, 101]
def detail : GoString := [100, 101, 116, 97, 105, 108]
def source : GoString := [115, 111, 117, 114, 99, 101]
def href : GoString := [104, 114, 101, 102]
def slash : GoString := [47]
def slashRelationships : GoString := [47] ++ relationships ++ [47]
end K

/-- link.go `buildSelfLink` -/
def buildSelfLink (r : ResView) (prepath : GoString) : GoString :=
  let link := if prepath.getLast? = some 47 then prepath else prepath ++ K.slash
  if r.id ≠ [] ∧ r.typeName ≠ [] then link ++ r.typeName ++ K.slash ++ r.id else link

/-- link.go `buildRelationshipLinks` (a `map[string]string`: keys sorted on output) -/
def buildRelationshipLinks (r : ResView) (prepath rel : GoString) : Json :=
  .obj [(K.related, .str (buildSelfLink r prepath ++ K.slash ++ rel)),
        (K.self, .str (buildSelfLink r prepath ++ K.slashRelationships ++ rel))]

def identifierJson (id typ : GoString) : Json := .obj [(K.id, .str id), (K.type, .str typ)]

/-- Meta of a resource / document: an opaque JSON object given by its members. -/
abbrev Meta := List (GoString × Json)

/-- One relationship object of MarshalResource. Returns the object and, for a to-many
relationship whose data is requested, the ID list sorted (Go sorts it in place). -/
def marshalRel (r : ResView) (prepath : GoString) (rel : Rel) (wantData : Bool) :
    Res (Json × Option (List GoString)) :=
  let links := buildRelationshipLinks r prepath rel.fromName
  if rel.toOne then
    if wantData then
      match r.get rel.fromName with
      | .val .string (.s id) =>
        .ok (.obj [(K.data, if id ≠ [] then identifierJson id rel.toType else .null), (K.links, links)], none)
      | _ => .panic
    else .ok (.obj [(K.links, links)], none)
  else
    if wantData then
      match r.get rel.fromName with
      | .strs ids =>
        let sorted := Typ.sortStrings ids
        .ok (.obj [(K.data, .arr (sorted.map (fun id => identifierJson id rel.toType))), (K.links, links)],
             some sorted)
      | _ => .panic
    else .ok (.obj [(K.links, links)], none)

/-- The JSON value of an attribute in a resource object: `encoding/json`'s encoding,
except that a nil byte slice, held by value or behind a non-nil pointer, is the empty
string (never null). -/
def encodeAttr : GoVal → Json
  | .val _ (.bs none) => .str []
  | .ptr _ (some (.bs none)) => .str []
  | v => encodeVal v

/-- resource.go `MarshalResource`. `fields` is the sparse fieldset of the resource's
type, `relData` the document's map type ↦ relationships whose data is wanted.
Returns the JSON object and the resource as it is afterwards (to-many lists sorted). -/
def marshalResource (r : ResView) (prepath : GoString) (fields : List GoString)
    (relData : GoMap (List GoString)) (rmeta : Meta := []) : Res (Json × ResView) :=
  -- attributes: a Go map keyed by attr.Name; a later attribute with the same Name overwrites
  let attrs : List (GoString × Json) :=
    r.attrs.foldl (fun m p => if fields.contains p.2.name then GoMap.set m p.2.name (encodeAttr (r.get p.2.name)) else m) []
  let want := (relData.get? r.typeName).getD []
  let relsRes : Res (List (GoString × Json) × ResView) :=
    r.rels.foldl (fun acc p =>
      match acc with
      | .ok (m, r') =>
        if fields.contains p.2.fromName then
          match marshalRel r' prepath p.2 (want.contains p.2.fromName) with
          | .ok (j, none) => .ok (GoMap.set m p.2.fromName j, r')
          | .ok (j, some sorted) =>
            .ok (GoMap.set m p.2.fromName j, { r' with vals := GoMap.set r'.vals p.2.fromName (.strs sorted) })
          | .err => .err
          | .panic => .panic
        else .ok (m, r')
      | e => e) (.ok ([], r))
  match relsRes with
  | .ok (rels, r') =>
    let members :=
      [(K.id, Json.str r.id), (K.type, Json.str r.typeName),
       (K.links, Json.obj [(K.self, .str (buildSelfLink r prepath))])] ++
      (if attrs.isEmpty then [] else [(K.attributes, Json.obj (sortMembers attrs))]) ++
      (if rels.isEmpty then [] else [(K.relationships, Json.obj (sortMembers rels))]) ++
      (if rmeta.isEmpty then [] else [(K.kmeta, Json.obj rmeta)])
    .ok (.obj (sortMembers members), r')
  | .err => .err
  | .panic => .panic

/-- collection.go `MarshalCollection`: fields per member's own type name. -/
def marshalCollection (c : List ResView) (prepath : GoString) (fields : GoMap (List GoString))
    (relData : GoMap (List GoString)) : Res (Json × List ResView) :=
  let acc : Res (List Json × List ResView) :=
    c.foldl (fun (acc : Res (List Json × List ResView)) r =>
      match acc with
      | .ok (js, rs) =>
        (match marshalResource r prepath ((fields.get? r.typeName).getD []) relData with
          | .ok (j, r') => .ok (js ++ [j], rs ++ [r'])
          | .err => .err
          | .panic => .panic)
      | e => e) (.ok ([], []))
  match acc with
  | .ok (js, rs) => .ok (.arr js, rs)
  | .err => .err
  | .panic => .panic

/-! ### Documents -/

/-- error.go `Error` and its MarshalJSON: only non-empty members. -/
structure ErrorObj where
  id : GoString := []
  code : GoString := []
  status : GoString := []
  title : GoString := []
  detail : GoString := []
  links : List (GoString × GoString) := []
  source : Meta := []
  emeta : Meta := []
deriving Repr, Inhabited

def ErrorObj.toJson (e : ErrorObj) : Json :=
  .obj (sortMembers (
    (if e.id ≠ [] then [(K.id, Json.str e.id)] else []) ++
    (if e.code ≠ [] then [(K.code, Json.str e.code)] else []) ++
    (if e.status ≠ [] then [(K.status, Json.str e.status)] else []) ++
    (if e.title ≠ [] then [(K.title, Json.str e.title)] else []) ++
    (if e.detail ≠ [] then [(K.detail, Json.str e.detail)] else []) ++
    (if e.links.isEmpty then [] else [(K.links, Json.obj (sortMembers (e.links.map (fun p => (p.1, Json.str p.2)))))]) ++
    (if e.source.isEmpty then [] else [(K.source, Json.obj e.source)]) ++
    (if e.emeta.isEmpty then [] else [(K.kmeta, Json.obj e.emeta)])))

/-- The `Data any` member of a Document. `col` carries the collection's own type name
(`Resources.GetType()` is the zero Type: empty name) and its members. -/
inductive DocData where
  | none                                        -- nil
  | res (r : ResView)
  | col (typeName : GoString) (members : List ResView)
  | ident (id typ : GoString)
  | idents (isNil : Bool) (l : List (GoString × GoString))
  | other                                       -- any other Go value
deriving Repr, Inhabited

/-- link.go `Link` -/
structure LinkObj where
  href : GoString
  lmeta : Meta := []
deriving Repr, Inhabited

def LinkObj.toJson (l : LinkObj) : Json :=
  if l.lmeta.isEmpty then .str l.href else .obj [(K.href, .str l.href), (K.kmeta, .obj l.lmeta)]

structure Document where
  data : DocData := .none
  included : List ResView := []
  links : List (GoString × LinkObj) := []
  relData : GoMap (List GoString) := []
  dmeta : Meta := []
  errors : List ErrorObj := []
  prePath : GoString := []
deriving Repr, Inhabited

def resKey (r : ResView) : GoString := r.id ++ [32] ++ r.typeName

/-- document.go `Include` -/
def Document.include (d : Document) (r : ResView) : Document :=
  let key := resKey r
  let inPrimary : Bool :=
    match d.data with
    | .res p => resKey p = key
    | .col tn ms => (tn = [] || tn = r.typeName) && ms.any (fun m => resKey m = key)
    | _ => false
  if inPrimary then d
  else if d.included.any (fun x => resKey x = key) then d
  else { d with included := d.included ++ [r] }

/-- stable insertion sort of the included resources by ID (`sort.Slice`; ties only
between resources of different types) -/
def sortById (l : List ResView) : List ResView :=
  l.foldr (fun x acc =>
    let rec ins : List ResView → List ResView
      | [] => [x]
      | y :: ys => if y.id < x.id then y :: ins ys else x :: y :: ys
    ins acc) []

/-- document.go `MarshalDocument`. `fields` is `url.Params.Fields`, `selfHref` is
`doc.PrePath + url.String()`. Returns the tree and the document as it is afterwards. -/
def marshalDocument (doc : Document) (fields : GoMap (List GoString)) (selfHref : GoString) :
    Res (Json × Document) :=
  -- data
  let dataRes : Res (Option Json × DocData) :=
    match doc.data with
    | .res r =>
      (match marshalResource r doc.prePath ((fields.get? r.typeName).getD []) doc.relData with
        | .ok (j, r') => .ok (some j, .res r')
        | .err => .err | .panic => .panic)
    | .col tn ms =>
      (match marshalCollection ms doc.prePath fields doc.relData with
        | .ok (j, ms') => .ok (some j, .col tn ms')
        | .err => .err | .panic => .panic)
    | .ident id typ => .ok (some (identifierJson id typ), doc.data)
    | .idents _ l => .ok (some (.arr (l.map (fun p => identifierJson p.1 p.2))), doc.data)
    | .other =>
      -- `err` is set, but a document with errors overwrites it with the (nil) result of
      -- marshaling the errors
      if doc.errors.isEmpty then .err else .ok (none, doc.data)
    | .none => .ok (if doc.errors.isEmpty then some .null else none, doc.data)
  match dataRes with
  | .ok (data, data') =>
    let errors : Option Json := if doc.errors.isEmpty then none else some (.arr (doc.errors.map ErrorObj.toJson))
    -- included
    let incSorted := if doc.included.isEmpty then [] else sortById doc.included
    let incRes : Res (List Json × List ResView) :=
      if incSorted.isEmpty ∨ data.isNone then .ok ([], incSorted)
      else incSorted.foldl (fun acc r =>
        match acc with
        | .ok (js, rs) =>
          (match marshalResource r doc.prePath ((fields.get? r.typeName).getD []) doc.relData with
            | .ok (j, r') => .ok (js ++ [j], rs ++ [r'])
            | .err => .err | .panic => .panic)
        | e => e) (.ok ([], []))
    (match incRes with
      | .ok (incs, incs') =>
        let body : List (GoString × Json) :=
          match errors, data with
          | some e, _ => [(K.errors, e)]
          | none, some dj => [(K.data, dj)] ++ (if incs.isEmpty then [] else [(K.included, .arr incs)])
          | none, none => []
        let links := (doc.links.filter (fun p => p.1 ≠ K.self)).map (fun p => (p.1, p.2.toJson)) ++
                     [(K.self, Json.str selfHref)]
        let members := body ++
          (if doc.dmeta.isEmpty then [] else [(K.kmeta, Json.obj doc.dmeta)]) ++
          [(K.links, Json.obj (sortMembers links)),
           (K.jsonapi, Json.obj [(K.version, .str K.v10)])]
        .ok (.obj (sortMembers members), { doc with data := data', included := incs' })
      | .err => .err
      | .panic => .panic)
  | .err => .err
  | .panic => .panic

end Jsonapi
