/-
JSON trees and what `encoding/json` does to the Go values the library hands to it:
decimal printing, base64, RFC 3339 (time.Time.MarshalJSON), and `encodeVal`.
The tree is what the property statements talk about; that `encoding/json` renders a
tree as syntactically valid bytes and sorts map keys is delegated (checked on every
generated case by the harness's own tokenizer).
-/
import Jsonapi.Model.Value
namespace Jsonapi

/-- A JSON value. Numbers keep their literal text; strings are the decoded bytes;
object members are kept in order (the model emits them sorted by key, as
`encoding/json` does for maps). -/
inductive Json where
  | null
  | bool (b : Bool)
  | num (lit : GoString)
  | str (s : GoString)
  | arr (l : List Json)
  | obj (members : List (GoString × Json))
deriving Repr, Inhabited

namespace Json
/-- member lookup on an object (first match) -/
def get? : Json → GoString → Option Json
  | obj ms, k => (ms.find? (fun p => p.1 = k)).map (·.2)
  | _, _ => none
def has (j : Json) (k : GoString) : Bool := (j.get? k).isSome
def isObj : Json → Bool
  | obj _ => true
  | _ => false
end Json

/-! ### decimal printing -/

def digitChar (d : Nat) : UInt8 := UInt8.ofNat (48 + d % 10)

/-- decimal digits of a natural number, most significant first ("0" for 0) -/
def printNat (n : Nat) : GoString :=
  if n < 10 then [digitChar n] else printNat (n / 10) ++ [digitChar (n % 10)]
termination_by n
decreasing_by omega

/-- `strconv.Itoa` / `FormatInt(_, 10)` -/
def printInt (i : Int) : GoString :=
  if i < 0 then 45 :: printNat i.natAbs else printNat i.natAbs

/-- zero-padded to `w` digits -/
def pad (w : Nat) (n : Nat) : GoString :=
  let s := printNat n
  List.replicate (w - s.length) 48 ++ s

/-! ### base64 (StdEncoding, with padding) -/

def b64Char (n : Nat) : UInt8 :=
  if n < 26 then UInt8.ofNat (65 + n)
  else if n < 52 then UInt8.ofNat (97 + (n - 26))
  else if n < 62 then UInt8.ofNat (48 + (n - 52))
  else if n = 62 then 43 else 47

def b64enc : List UInt8 → GoString
  | [] => []
  | [a] =>
    let n := a.toNat
    [b64Char (n / 4), b64Char ((n % 4) * 16), 61, 61]
  | [a, b] =>
    let n := a.toNat * 256 + b.toNat
    [b64Char (n / 1024), b64Char ((n / 16) % 64), b64Char ((n % 16) * 4), 61]
  | a :: b :: c :: rest =>
    let n := a.toNat * 65536 + b.toNat * 256 + c.toNat
    b64Char (n / 262144) :: b64Char ((n / 4096) % 64) :: b64Char ((n / 64) % 64) :: b64Char (n % 64) :: b64enc rest

/-! ### RFC 3339 (time.Time.MarshalJSON: RFC3339Nano) -/

/-- civil date (year, month, day) of a day number counted from 1970-01-01 -/
def civilFromDays (z0 : Int) : Int × Int × Int :=
  let z := z0 + 719468
  let era := z / 146097
  let doe := z - era * 146097
  let yoe := (doe - doe / 1460 + doe / 36524 - doe / 146096) / 365
  let y := yoe + era * 400
  let doy := doe - (365 * yoe + yoe / 4 - yoe / 100)
  let mp := (5 * doy + 2) / 153
  let d := doy - (153 * mp + 2) / 5 + 1
  let m := if mp < 10 then mp + 3 else mp - 9
  (if m ≤ 2 then y + 1 else y, m, d)

/-- fractional seconds: ".d…" with trailing zeros removed, nothing when zero -/
def fracText (nsec : Nat) : GoString :=
  if nsec = 0 then []
  else
    let digits := pad 9 nsec
    46 :: (digits.reverse.dropWhile (· = 48)).reverse

def zoneText (off : Int) : GoString :=
  if off = 0 then [90]   -- "Z"
  else
    let a := off.natAbs / 60   -- minutes (seconds of offset are dropped)
    (if off < 0 then 45 else 43) :: (pad 2 (a / 60) ++ [58] ++ pad 2 (a % 60))

def formatTime (t : Time) : GoString :=
  let loc := t.sec + t.off
  let days := loc / 86400
  let sod := (loc % 86400).toNat
  let (y, m, d) := civilFromDays days
  pad 4 y.toNat ++ [45] ++ pad 2 m.toNat ++ [45] ++ pad 2 d.toNat ++ [84] ++
  pad 2 (sod / 3600) ++ [58] ++ pad 2 ((sod / 60) % 60) ++ [58] ++ pad 2 (sod % 60) ++
  fracText t.nsec ++ zoneText t.off

/-! ### values -/

def encodePay : Pay → Json
  | .s v => .str v
  | .i v => .num (printInt v)
  | .b v => .bool v
  | .t v => .str (formatTime v)
  | .bs none => .null
  | .bs (some v) => .str (b64enc v)

/-- `json.Marshal(v)` for a value read from a resource -/
def encodeVal : GoVal → Json
  | .val _ p => encodePay p
  | .ptr _ none => .null
  | .ptr _ (some p) => encodePay p
  | .strs l => .arr (l.map .str)
  | .nil => .null
  | .other _ => .null

/-- sort object members by key (what `encoding/json` does to a Go map) -/
def sortMembers (ms : List (GoString × Json)) : List (GoString × Json) :=
  ms.mergeSort (fun a b => !(decide (b.1 < a.1)))

end Jsonapi
