/-
request.go `NewRequest`: the URL of the request through NewSimpleURL/NewURL, and for POST and
PATCH the body through UnmarshalDocument. Reading the body (`ioutil.ReadAll`) and decoding it
into the payload skeleton are delegated: `bodyRead` says whether the read succeeded, `sk` is
what `encoding/json` made of the bytes (none: not decodable).
-/
import Jsonapi.Model.Url
import Jsonapi.Model.Unmarshal
namespace Jsonapi

structure Request where
  method : GoString
  url : URL
  doc : Option UDoc
deriving Inhabited

def mPOST : GoString := [80, 79, 83, 84]
def mPATCH : GoString := [80, 65, 84, 67, 72]

def newRequest (σ : SSchema) (method : GoString) (bodyRead : Bool)
    (path : GoString) (values : GoMap (List GoString)) (fd : FilterDec)
    (sk : Option DocSke) : Res Request :=
  if !bodyRead then .err
  else
    match newURLFrom σ.toSchema (some (path, values, fd)) with
    | .ok u =>
      if method = mPOST ∨ method = mPATCH then
        (match unmarshalDocument σ sk with
          | .ok d => .ok { method := method, url := u, doc := some d }
          | .err => .err
          | .panic => .panic)
      else .ok { method := method, url := u, doc := none }
    | .err => .err
    | .panic => .panic

end Jsonapi
