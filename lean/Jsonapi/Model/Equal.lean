/-
Model of resource.go `Equal` / `EqualStrict`.
-/
import Jsonapi.Model.Value
namespace Jsonapi

/-- insertion sort of a map's entries by a string key (the model's `sort.Slice`; names
within one map are distinct, so the sorted order is unique). -/
def sortOn {β} (key : β → GoString) (l : List β) : List β :=
  l.foldr (fun x acc =>
    let rec ins : List β → List β
      | [] => [x]
      | y :: ys => if key x < key y ∨ key x = key y then x :: y :: ys else y :: ins ys
    ins acc) []

/-- `isNilValue`: untyped nil or a nil pointer. -/
def GoVal.isNilValue : GoVal → Bool
  | .nil => true
  | .ptr _ none => true
  | _ => false

/-- a non-pointer byte slice of length 0 (nil or empty) -/
def GoVal.isEmptyBytes : GoVal → Bool
  | .val _ (.bs none) => true
  | .val _ (.bs (some [])) => true
  | _ => false

/-- `reflect.DeepEqual` on two values read from resources (times: same instant and
zone; the identity of `*time.Location` is not modelled). -/
def deepEqual (a b : GoVal) : Bool := a = b

/-- resource.go `Equal` -/
def equal (r1 r2 : ResView) : Res Bool :=
  if r1.typeName ≠ r2.typeName then .ok false
  else
    let a1 := sortOn (fun a : Attr => a.name) r1.attrs.vals
    let a2 := sortOn (fun a : Attr => a.name) r2.attrs.vals
    if a1.length ≠ a2.length then .ok false
    else if (a1.zip a2).any (fun p =>
        !deepEqual (r1.get p.1.name) (r2.get p.2.name) &&
        !((r1.get p.1.name).isNilValue && (r2.get p.2.name).isNilValue) &&
        !((r1.get p.1.name).isEmptyBytes && (r2.get p.2.name).isEmptyBytes)) then .ok false
    else
      let l1 := sortOn (fun r : Rel => r.fromName) r1.rels.vals
      let l2 := sortOn (fun r : Rel => r.fromName) r2.rels.vals
      if l1.length ≠ l2.length then .ok false
      else
        (l1.zip l2).foldl (fun acc p =>
          match acc with
          | .ok true =>
            if p.1.fromName ≠ p.2.fromName ∨ p.1.toOne ≠ p.2.toOne then .ok false
            else if p.1.toOne then
              (match r1.get p.1.fromName, r2.get p.2.fromName with
                | .val .string (.s x), .val .string (.s y) => .ok (x = y)
                | _, _ => .panic)
            else
              (match r1.get p.1.fromName, r2.get p.2.fromName with
                | .strs x, .strs y => .ok (if x.length ≠ 0 ∨ y.length ≠ 0 then x = y else true)
                | _, _ => .panic)
          | e => e) (.ok true)

/-- resource.go `EqualStrict` -/
def equalStrict (r1 r2 : ResView) : Res Bool :=
  if r1.id ≠ r2.id then .ok false else equal r1 r2

end Jsonapi
