/-
Model of filter.go: Filter.IsAllowed, checkVal and the per-class comparison helpers.
Type assertions that can fail are explicit `Res.panic` outcomes.
-/
import Jsonapi.Model.Value
import Jsonapi.Generated.Facts
namespace Jsonapi

/-- A filter tree. In Go an and/or node holds `[]*Filter` in `Val`; any other filter
holds a plain value. -/
inductive Filter where
  | leaf (field op : GoString) (val : GoVal)
  | node (isAnd : Bool) (children : List Filter)
deriving Repr, Inhabited

namespace Op
def eq : GoString := [61]         -- "="
def ne : GoString := [33, 61]     -- "!="
def lt : GoString := [60]         -- "<"
def le : GoString := [60, 61]     -- "<="
def gt : GoString := [62]         -- ">"
def ge : GoString := [62, 61]     -- ">="
def in_ : GoString := [105, 110]  -- "in"
def has : GoString := [104, 97, 115] -- "has"
def and_ : GoString := [97, 110, 100]
def or_ : GoString := [111, 114]
end Op

/-- The six-way `switch op` shared by checkStr/checkInt/checkUint/checkTime/checkBytes,
given the three basic relations of the class. -/
def cmpOps (op : GoString) (eq lt gt : Bool) : Bool :=
  if op = Op.eq then eq
  else if op = Op.ne then !eq
  else if op = Op.lt then lt
  else if op = Op.le then lt || eq
  else if op = Op.gt then gt
  else if op = Op.ge then gt || eq
  else false

/-- nil and empty byte slices have length 0 and no elements: the loops cannot tell. -/
def Pay.bytesOf : Option (List UInt8) → List UInt8
  | some l => l
  | none => []

/-- checkStr / checkInt / checkUint / checkBool / checkTime / checkBytes on two payloads
of the same class; `none` when the classes differ (cannot happen after the Go type
assertion succeeded). -/
def cmpPay (op : GoString) : Pay → Pay → Option Bool
  | .s a, .s b => some (cmpOps op (a = b) (a < b) (b < a))
  | .i a, .i b => some (cmpOps op (a = b) (a < b) (b < a))
  | .b a, .b b => some (if op = Op.eq then a = b else if op = Op.ne then a ≠ b else false)
  | .t a, .t b => some (cmpOps op (a.equal b) (a.before b) (a.after b))
  | .bs a, .bs b =>
    let x := Pay.bytesOf a; let y := Pay.bytesOf b
    some (cmpOps op (x = y) (x < y) (y < x))
  | _, _ => none

/-- filter.go `checkSlice` -/
def checkSlice (op : GoString) (a b : List GoString) : Bool :=
  let equal := a.length = b.length ∧ Typ.sortStrings a = Typ.sortStrings b
  if op = Op.eq then equal else if op = Op.ne then !equal else false

/-- filter.go `checkVal`: a type switch on the resource's value, then a type assertion on
the filter's value. A Go type without a case (table regenerated from the source) falls
to `default: return false`. -/
def checkVal (op : GoString) (rval cval : GoVal) : Res Bool :=
  let tn := if rval.goType = "[]uint8" then "[]byte" else if rval.goType = "*[]uint8" then "*[]byte" else rval.goType
  if tn ∉ Facts.checkValCases then .ok false
  else match rval, cval with
  | .val k p, .val k' p' =>
    if k = k' then (match cmpPay op p p' with | some b => .ok b | none => .panic) else .panic
  | .ptr k p, .ptr k' p' =>
    if k ≠ k' then .panic
    else match p, p' with
      | none, none => .ok (if op = Op.eq then true else false)
      | none, some _ => .ok (if op = Op.ne then true else false)
      | some _, none => .ok (if op = Op.ne then true else false)
      | some a, some b => (match cmpPay op a b with | some r => .ok r | none => .panic)
  | .strs a, .strs b => .ok (checkSlice op a b)
  | .nil, _ => .ok false
  | .other _, _ => .ok false
  | _, _ => .panic

/-- filter.go `getAttrVal`: an untyped nil read from a nullable attribute becomes the
typed nil pointer of the attribute's kind. -/
def getAttrVal (r : ResView) (key : GoString) : GoVal :=
  match r.get key with
  | .nil => match r.attrs.get? key with
    | some a => if a.nullable then (match Kind.ofCode? a.ty with
        | some k => .ptr k none
        | none => .nil) else .nil
    | none => .nil
  | v => v

/-- The value `IsAllowed` looks at: the attribute's value, overwritten by the
relationship's value (with its type assertion) when the field is a relationship. -/
def fieldVal (r : ResView) (field : GoString) : Res GoVal :=
  let v := if r.attrs.has field then getAttrVal r field else .nil
  match r.rels.get? field with
  | some rel =>
    if rel.toOne then
      (match r.get field with | .val .string (.s id) => .ok (.val .string (.s id)) | _ => .panic)
    else
      (match r.get field with | .strs l => .ok (.strs l) | _ => .panic)
  | none => .ok v

mutual
/-- filter.go `Filter.IsAllowed` -/
def isAllowed (r : ResView) : Filter → Res Bool
  | .node true fs => allAllowed r fs
  | .node false fs => anyAllowed r fs
  | .leaf field op val =>
    match fieldVal r field with
    | .ok v =>
      if op = Op.and_ ∨ op = Op.or_ then .panic   -- f.Val.([]*Filter) on a plain value
      else if op = Op.in_ then
        (match v, val with
          | .val .string (.s id), .strs ids => .ok (ids.contains id)
          | _, _ => .panic)
      else if op = Op.has then
        (match val, v with
          | .val .string (.s id), .strs ids => .ok (ids.contains id)
          | _, _ => .panic)
      else checkVal op v val
    | .err => .err
    | .panic => .panic
/-- the `and` loop: stop at the first child that does not allow -/
def allAllowed (r : ResView) : List Filter → Res Bool
  | [] => .ok true
  | f :: fs => match isAllowed r f with
    | .ok true => allAllowed r fs
    | .ok false => .ok false
    | .err => .err
    | .panic => .panic
/-- the `or` loop: stop at the first child that allows -/
def anyAllowed (r : ResView) : List Filter → Res Bool
  | [] => .ok false
  | f :: fs => match isAllowed r f with
    | .ok true => .ok true
    | .ok false => anyAllowed r fs
    | .err => .err
    | .panic => .panic
end

end Jsonapi
