/-
Model of simple_url.go (NewSimpleURL, parseCommaList, parseFragments), params.go
(NewParams), url.go (NewURL, URL.String).

`url.Parse` and `Query()` on the raw string are delegated: the model starts from any
decoded path and any values map (so the theorems quantify over everything they can
return). Decoding the filter parameter (a JSON string body for a label, a Filter object
otherwise) is delegated too; a decoded filter is carried as its canonical JSON text.
-/
import Jsonapi.Model.Unmarshal
namespace Jsonapi

/-- `strings.Split(s, sep)` for a one-byte separator -/
def splitOn (sep : UInt8) (s : GoString) : List GoString :=
  let rec go (cur : GoString) : GoString → List GoString
    | [] => [cur.reverse]
    | c :: rest => if c = sep then cur.reverse :: go [] rest else go (c :: cur) rest
  go [] s

/-- simple_url.go `parseCommaList`: split on ',' and drop empty items -/
def parseCommaList (s : GoString) : List GoString := (splitOn 44 s).filter (· ≠ [])

/-- simple_url.go `parseFragments`: split on '/' and drop empty items -/
def parseFragments (path : GoString) : List GoString := (splitOn 47 path).filter (· ≠ [])

inductive PageVal where
  | int (n : Int)
  | str (s : GoString)
deriving DecidableEq, Repr, Inhabited

/-- What the standard library decodes the filter parameter's value to. -/
structure FilterDec where
  label : Option GoString      -- json.Unmarshal("\"" + v + "\"", &string)
  filter : Option GoString     -- json.Unmarshal(v, &Filter{}) ok: canonical JSON text of the filter
deriving Repr, Inhabited

structure SimpleURL where
  fragments : List GoString
  fields : GoMap (List GoString)
  filterLabel : GoString
  filter : Option GoString
  sortingRules : List GoString
  page : GoMap PageVal
  incl : List GoString
deriving Repr, Inhabited

def sFieldsOpen : GoString := [102, 105, 101, 108, 100, 115, 91]  -- "fields["
def sPageOpen : GoString := [112, 97, 103, 101, 91]               -- "page["
def sFilter : GoString := [102, 105, 108, 116, 101, 114]
def sSort : GoString := [115, 111, 114, 116]
def sInclude : GoString := [105, 110, 99, 108, 117, 100, 101]

/-- `values.Get(name)`: first value or "" -/
def firstVal (vs : List GoString) : GoString := vs.head?.getD []

/-- One iteration of the `for name := range values` loop of NewSimpleURL. -/
def simpleStep (fd : FilterDec) (su : SimpleURL) (name : GoString) (vs : List GoString) : Res SimpleURL :=
  if hasPrefix name sFieldsOpen && name.getLast? = some 93 && name.length > 8 then
    let resType := (name.drop 7).dropLast
    .ok { su with fields := su.fields.set resType (parseCommaList (firstVal vs)) }
  else if hasPrefix name sPageOpen && name.getLast? = some 93 && name.length > 6 then
    let arg := (name.drop 5).dropLast
    let v := firstVal vs
    if v = [] then .ok su
    else match parseInt 64 v with
      | some n => .ok { su with page := su.page.set arg (.int n) }
      | none => .ok { su with page := su.page.set arg (.str v) }
  else if name = sFilter then
    let v := firstVal vs
    if v = [] then .err
    else if v.head? ≠ some 123 then
      (match fd.label with
        | some l => .ok { su with filterLabel := l }
        | none => .err)
    else
      (match fd.filter with
        | some f => .ok { su with filter := some f }
        | none => .err)
  else if name = sSort then
    .ok { su with sortingRules := su.sortingRules ++ vs.flatMap parseCommaList }
  else if name = sInclude then
    .ok { su with incl := su.incl ++ vs.flatMap parseCommaList }
  else .err

/-- simple_url.go `NewSimpleURL` from the decoded path and values map (list order =
map iteration order). -/
def newSimpleURL (path : GoString) (values : GoMap (List GoString)) (fd : FilterDec) : Res SimpleURL :=
  values.foldl (fun acc p =>
    match acc with
    | .ok su => simpleStep fd su p.1 p.2
    | e => e)
    (.ok { fragments := parseFragments path, fields := [], filterLabel := [], filter := none,
           sortingRules := [], page := [], incl := [] })

/-! ### Params -/

structure Params where
  fields : GoMap (List GoString)
  filterLabel : GoString
  filter : Option GoString
  sortingRules : List GoString
  page : GoMap PageVal
  incl : List (List Rel)
deriving Repr, Inhabited

/-- is `a` a path prefix of `b` (equal, or `a ++ "."` a prefix of `b`) -/
def extendsPath (b a : GoString) : Bool := b = a || hasPrefix b (a ++ [46])

/-- params.go: the right-to-left loop that drops an include extended by the next one
(`incs` is sorted). -/
def pruneIncludes : List GoString → List GoString
  | [] => []
  | a :: rest =>
    match pruneIncludes rest with
    | [] => [a]
    | b :: rest' => if extendsPath b a then b :: rest' else a :: b :: rest'

/-- one inclusion path resolved against the schema: the relationships along it, or
`none` when a word is no relationship of the current type or a type is missing -/
def resolvePath (σ : Schema) (resType : GoString) (words : List GoString) : Option (List Rel) :=
  let rec go (cur : GoString) : List GoString → Option (List Rel)
    | [] => some []
    | w :: ws =>
      let typ := σ.getType cur
      match typ.rels.get? w with
      | some rel =>
        if typ.name = [] || !σ.hasType rel.toType then none
        else (go rel.toType ws).map (fun l => rel :: l)
      | none => none
  go resType words

/-- params.go "Check inclusions": the loop registers a (for now empty) field selection
for every type reached along a valid path, removes an invalid include and — as the Go
loop does — then skips the element that moved into its place. Returns the registered
type names. -/
def checkInclusions (σ : Schema) (resType : GoString) : List GoString → List GoString
  | [] => []
  | inc :: rest =>
    -- types registered while walking this include (also the valid prefix of an invalid one)
    let rec walk (cur : GoString) : List GoString → List GoString × Bool
      | [] => ([], true)
      | w :: ws =>
        let typ := σ.getType cur
        if typ.name = [] then
          -- missing current type: the Go loop ignores the word and goes on with the same type
          walk cur ws
        else match typ.rels.get? w with
          | some rel =>
            if σ.hasType rel.toType then
              let (ts, ok) := walk rel.toType ws
              (rel.toType :: ts, ok)
            else ([], false)
          | none => ([], false)
    let (ts, ok) := walk resType (splitOn 46 inc)
    if ok then ts ++ checkInclusions σ resType rest
    else ts ++ (match rest with
      | [] => []
      | _ :: rest' => checkInclusions σ resType rest')   -- the next element is skipped
termination_by l => l.length

/-- params.go `NewParams` -/
def newParams (σ : Schema) (su : SimpleURL) (resType : GoString) : Res Params :=
  let incs := pruneIncludes (Typ.sortStrings su.incl)
  let registered := checkInclusions σ resType incs
  let fields0 : GoMap (List GoString) := registered.foldl (fun m t => m.set t []) []
  let incl := incs.filterMap (fun inc => resolvePath σ resType (splitOn 46 inc))
  let fields1 := if resType ≠ [] then fields0.set resType [] else fields0
  -- Fields
  let fieldsRes : Res (GoMap (List GoString)) := su.fields.foldl (fun acc p =>
    match acc with
    | .ok m =>
      let typ := σ.getType p.1
      if p.1 ≠ resType ∧ typ.name = [] then .err
      else if typ.name ≠ [] then
        let sel := p.2.flatMap (fun f => if f = idName then [idName] else typ.fields.filter (· = f))
        if sel.eraseDups.length ≠ sel.length then .err else .ok (m.set p.1 sel)
      else .ok m
    | e => e) (.ok fields1)
  match fieldsRes with
  | .ok fm =>
    let fields := fm.map (fun p => if p.2.isEmpty then (p.1, (σ.getType p.1).fields) else p)
    -- sorting
    let isCol : Bool :=
      if su.fragments.length = 1 then true
      else if su.fragments.length ≥ 3 then
        let typ := σ.getType (su.fragments.head?.getD [])
        match typ.rels.get? (su.fragments.getLast?.getD []) with
        | some rel => !rel.toOne
        | none => true   -- zero Rel: ToOne is false
      else false
    let rules : List GoString :=
      if isCol then
        let typ := σ.getType resType
        let attrNames := typ.attrs.vals.map (·.name)
        let kept := su.sortingRules.filter (fun rule =>
          let u := match rule with | 45 :: r => r | r => r
          u = idName || attrNames.contains u)
        let idFound := su.sortingRules.any (fun rule => (match rule with | 45 :: r => r | r => r) = idName)
        let rest := Typ.sortStrings (attrNames.filter (fun a =>
          !kept.any (fun rule => (match rule with | 45 :: r => r | r => r) = a)))
        kept ++ rest ++ (if idFound then [] else [idName])
      else []
    .ok { fields := fields, filterLabel := su.filterLabel, filter := su.filter,
          sortingRules := rules, page := su.page, incl := incl }
  | .err => .err
  | .panic => .panic

/-! ### URL -/

structure URL where
  fragments : List GoString
  isCol : Bool
  resType : GoString
  resID : GoString
  rel : Rel
  params : Params
deriving Repr, Inhabited

/-- url.go `NewURL` -/
def newURL (σ : Schema) (su : SimpleURL) : Res URL :=
  match su.fragments with
  | [] => .err
  | f0 :: _ =>
    let typ := σ.getType f0
    if typ.name = [] then .err
    else
      let n := su.fragments.length
      let base : URL := { fragments := su.fragments, isCol := n = 1,
                          resType := if n ≤ 2 then typ.name else [],
                          resID := if n = 2 then (su.fragments[1]?.getD []) else [],
                          rel := default, params := default }
      let urlRes : Res URL :=
        if n ≥ 3 then
          match typ.rels.get? (su.fragments.getLast?.getD []) with
          | some rel =>
            if !σ.hasType rel.toType then .err
            else .ok { base with rel := rel, isCol := !rel.toOne, resType := rel.toType }
          | none => .err
        else .ok base
      match urlRes with
      | .ok u =>
        (match newParams σ su u.resType with
          | .ok p => .ok { u with params := p }
          | .err => .err
          | .panic => .panic)
      | e => e

/-- `NewURLFromRaw` after `url.Parse` (`none`: the raw string does not parse). -/
def newURLFrom (σ : Schema) (parsed : Option (GoString × GoMap (List GoString) × FilterDec)) : Res URL :=
  match parsed with
  | none => .err
  | some (path, values, fd) =>
    match newSimpleURL path values fd with
    | .ok su => newURL σ su
    | .err => .err
    | .panic => .panic

/-! ### String -/

def hexUpper (n : Nat) : UInt8 := if n < 10 then UInt8.ofNat (48 + n) else UInt8.ofNat (55 + n)

def pctEncode (c : UInt8) : GoString := [37, hexUpper (c.toNat / 16), hexUpper (c.toNat % 16)]

def isUnreserved (c : UInt8) : Bool :=
  (65 ≤ c && c ≤ 90) || (97 ≤ c && c ≤ 122) || (48 ≤ c && c ≤ 57) || c = 45 || c = 95 || c = 46 || c = 126

/-- `url.QueryEscape` -/
def queryEscape (s : GoString) : GoString :=
  s.flatMap (fun c => if isUnreserved c then [c] else if c = 32 then [43] else pctEncode c)

/-- `url.PathEscape`: additionally leaves `$ & + : = @` unescaped -/
def pathEscape (s : GoString) : GoString :=
  s.flatMap (fun c =>
    if isUnreserved c || c = 36 || c = 38 || c = 43 || c = 58 || c = 61 || c = 64 then [c] else pctEncode c)

def joinWith (sep : GoString) : List GoString → GoString
  | [] => []
  | [x] => x
  | x :: xs => x ++ sep ++ joinWith sep xs

def pct2C : GoString := [37, 50, 67]   -- "%2C"

/-- `"\"" + json body + "\""` of a label: `json.Marshal(label)` without the quotes is
delegated; the model takes it as a parameter of `URL.string` (the body as `json.Marshal`
writes it: the rewrite of a leading `{` is `rewriteBrace`, part of the model). -/
structure StringEnv where
  labelBody : GoString   -- json.Marshal(u.Params.FilterLabel)[1:len-1]

/-- url.go, `URL.String`: `if label[0] == '{' { label = append([]byte("\\u007b"), label[1:]...) }`:
a label body that starts with a curly bracket (which `NewSimpleURL` would take for a filter
object) gets its first byte written as the JSON escape backslash-u-0-0-7-b. (`label[0]` is
only evaluated for a non-empty label, whose JSON body is non-empty; on `[]` the model
returns `[]`.) -/
def rewriteBrace : GoString → GoString
  | 123 :: t => [92, 117, 48, 48, 55, 98] ++ t
  | b => b

def PageVal.text : PageVal → GoString
  | .int n => printInt n
  | .str s => s

/-- url.go `URL.String` -/
def URL.string (u : URL) (env : StringEnv) : GoString :=
  let path :=
    match u.fragments with
    | [] => []          -- "/"[:0]
    | fs => [47] ++ joinWith [47] (fs.map pathEscape)
  let fieldKeys := Typ.sortStrings u.params.fields.keys
  let fieldParams := fieldKeys.map (fun t =>
    let fs := Typ.sortStrings ((u.params.fields.get? t).getD [])
    let param := gs "fields%5B" ++ queryEscape t ++ gs "%5D=" ++ (fs.flatMap (fun f => queryEscape f ++ pct2C))
    param.take (param.length - 3))   -- cuts into "%5D=" when the list is empty
  let filterParams :=
    match u.params.filter with
    | some f => [gs "filter=" ++ queryEscape f]
    | none =>
      if u.params.filterLabel ≠ [] then [gs "filter=" ++ queryEscape (rewriteBrace env.labelBody)]
      else []
  let pageParams :=
    if u.isCol then (Typ.sortStrings u.params.page.keys).map (fun k =>
      gs "page%5B" ++ queryEscape k ++ gs "%5D=" ++ queryEscape (((u.params.page.get? k).map PageVal.text).getD []))
    else []
  let sortParams :=
    if u.params.sortingRules.isEmpty then []
    else [gs "sort=" ++ joinWith pct2C (u.params.sortingRules.map queryEscape)]
  let all := fieldParams ++ filterParams ++ pageParams ++ sortParams
  path ++ (if all.isEmpty then [] else [63] ++ joinWith [38] all)

end Jsonapi
