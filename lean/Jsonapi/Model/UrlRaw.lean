/-
`NewURLFromRaw` from the RAW STRING: `url.Parse` + `Query()` are the modelled
`Spec.goUrlParse` (Spec/UrlFull.lean, net/url of go1.23.5), then Model/Url.lean's
`newURLFrom`. Composition only.

The decode of the `filter` parameter is the parameter `fdOf` (what simple_url.go computes from
the values map). `rawFd labelDec filterDec` is its shape: both decoders applied to the first
value of `filter`; `newURLFromRawReal` instantiates it with the modelled JSON codec of
Model/FilterJson.lean (`labelDec`, `filterDec numCanon`), which is the real one on the domain
`filterInDomain` (well-formed UTF-8, no whitespace, no surrogate escapes, integer numerals
within ±2^53); outside it the decode stays a parameter (the driver is handed the real one).
-/
import Jsonapi.Model.Url
import Jsonapi.Model.FilterJson
import Jsonapi.Spec.UrlFull
namespace Jsonapi

/-- `NewURLFromRaw(schema, raw)` -/
def newURLFromRaw (σ : Schema) (fdOf : GoMap (List GoString) → FilterDec) (raw : GoString) : Res URL :=
  newURLFrom σ ((Spec.goUrlParse raw).map (fun p => (p.1, p.2, fdOf p.2)))

/-- the two decodes of simple_url.go on `values.Get("filter")` -/
def rawFd (labelDec filterDec : GoString → Option GoString) (values : GoMap (List GoString)) :
    FilterDec :=
  { label := labelDec (firstVal ((values.get? sFilter).getD [])),
    filter := filterDec (firstVal ((values.get? sFilter).getD [])) }

/-- `NewURLFromRaw` with the modelled JSON codec of the `filter` parameter -/
def newURLFromRawReal (numCanon : GoString → GoString) (σ : Schema) (raw : GoString) : Res URL :=
  newURLFromRaw σ (rawFd labelDec (filterDec numCanon)) raw

/-- `\u` followed by `d` or `D` somewhere: a surrogate escape may be present -/
def hasSurrogateEsc : GoString → Bool
  | [] => false
  | 92 :: 117 :: c :: rest => c = 100 || c = 68 || hasSurrogateEsc (c :: rest)
  | _ :: rest => hasSurrogateEsc rest

/-- the domain on which the modelled codec is validated against encoding/json (suite
`filterjson`): well-formed UTF-8, no whitespace byte, no surrogate escape, and — when the text
is JSON — integer numerals within ±2^53 only -/
def filterInDomain (v : GoString) : Bool :=
  utf8Valid v && !v.any (fun c => c = 32 || c = 9 || c = 10 || c = 13) && !hasSurrogateEsc v &&
  (match Spec.parseJson v with | some j => j.safeNums | none => true)

end Jsonapi
