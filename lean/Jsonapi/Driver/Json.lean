/- Driver glue: JSON trees on the wire. -/
import Jsonapi.Driver.Value
import Jsonapi.Model.Json
namespace Jsonapi.Driver
open Jsonapi

partial def encJson : Json → Sx
  | .null => .atom "null"
  | .bool b => .list [.atom "b", Sx.ofBool b]
  | .num l => .list [.atom "n", Sx.ofBytes l]
  | .str s => .list [.atom "s", Sx.ofBytes s]
  | .arr l => .list (.atom "a" :: l.map encJson)
  | .obj ms => .list (.atom "o" :: ms.map (fun p => .list [Sx.ofBytes p.1, encJson p.2]))

partial def decJson : Sx → Json
  | .atom "null" => .null
  | .list [.atom "b", b] => .bool b.bool!
  | .list [.atom "n", l] => .num l.bytes!
  | .list [.atom "s", s] => .str s.bytes!
  | .list (.atom "a" :: l) => .arr (l.map decJson)
  | .list (.atom "o" :: ms) => .obj (ms.filterMap (fun p => match p.items with
      | [k, v] => some (k.bytes!, decJson v)
      | _ => none))
  | _ => .null

def decMeta (x : Sx) : List (GoString × Json) :=
  match decJson x with
  | .obj ms => ms
  | _ => []

end Jsonapi.Driver
