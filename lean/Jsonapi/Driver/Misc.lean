/-
Driver glue for the `misc` suite (harness/suite_misc.go): Resources / WrapperCollection op
sequences, NewIdentifiers / IDs, Type.Equal / Copy / Fields, the error constructors and
Error(), the meta getters, and the two modelled stdlib helpers (strconv.Quote on ASCII,
encoding/json's UTF-8 coercion).
-/
import Jsonapi.Driver.Json
import Jsonapi.Model.Misc
namespace Jsonapi.Driver
open Jsonapi

/-- `(name attrs|nil rels|nil hasNew)` -/
def decTypeV (x : Sx) : TypeV :=
  match x.items with
  | [n, as, rs, nf] =>
    let aNil := match as with | .atom "nil" => true | _ => false
    let rNil := match rs with | .atom "nil" => true | _ => false
    { typ := { name := n.bytes!, attrs := decPairs decAttr as, rels := decPairs decRel rs },
      attrsNil := aNil, relsNil := rNil, hasNew := nf.bool! }
  | _ => TypeV.zero

def encTypeV (t : TypeV) : Sx :=
  .list [Sx.ofBytes t.name,
    (if t.attrsNil then .atom "nil"
     else .list ((sortByKey t.attrs).map (fun p => .list [Sx.ofBytes p.1, encAttr p.2]))),
    (if t.relsNil then .atom "nil"
     else .list ((sortByKey t.rels).map (fun p => .list [Sx.ofBytes p.1, encRel p.2]))),
    Sx.ofBool t.hasNew]

structure MiscState where
  rs : RColl String := {}
  wc : Option (WColl String) := none

def decArg (tok w : Sx) : RArg String :=
  if w.bool! then .wrapper tok.atom! else .other tok.atom!

def decMetaVal (x : Sx) : MetaVal :=
  match x with
  | .atom "nil" => .nil
  | .list [.atom "b", b] => .bool b.bool!
  | .list [.atom "s", s] => .str s.bytes!
  | .list [.atom "i", i] => .int i.int!
  | .list [.atom "other", n] => .other n.nat!
  | _ => .other 0

def decTimeOpt (x : Sx) : Option Time :=
  match x.items with
  | [.atom "t", a, b, c] => some { sec := a.int!, nsec := b.nat!, off := c.int! }
  | _ => none

def encTime (t : Time) : Sx := .list [.atom "t", Sx.ofInt t.sec, Sx.ofNat t.nsec, Sx.ofInt t.off]

def encIdents (l : Option (List Ident)) : Sx :=
  match l with
  | none => .atom "nil"
  | some l => .list (l.map (fun i => .list [Sx.ofBytes i.id, Sx.ofBytes i.typ]))

def encStrsOpt (l : Option (List GoString)) : Sx :=
  match l with
  | none => .atom "nil"
  | some l => Sx.ofStrs l

def decStrsOpt (x : Sx) : Option (List GoString) :=
  match x with
  | .atom _ => none
  | .list l => some (l.map Sx.bytes!)

def decIdentsOpt (x : Sx) : Option (List Ident) :=
  match x with
  | .atom _ => none
  | .list l => some (l.map (fun p => match p.items with
      | [i, t] => { id := i.bytes!, typ := t.bytes! }
      | _ => default))

def stepMisc (st : MiscState) (args : List Sx) : MiscState × String :=
  match args with
  -- 1. Resources
  | [.atom "rs", .atom "new"] =>
    let c : RColl String := {}
    ({ st with rs := c }, (encTypeV c.getType).toStr ++ " " ++ toString c.len)
  | [.atom "rs", .atom "add", tok, w] =>
    let c := st.rs.add (decArg tok w)
    ({ st with rs := c }, toString c.len)
  | [.atom "rs", .atom "at", i] =>
    (st, match st.rs.at? i.int! with
      | some (.wrapper t) => t
      | some (.other t) => t
      | none => "nil")
  -- 1. WrapperCollection
  | [.atom "wc", .atom "new", t] =>
    let sample : Option TypeV := match t with | .atom _ => none | _ => some (decTypeV t)
    (match (WColl.wrap sample : Res (WColl String)) with
      | .ok c => ({ st with wc := some c }, "ok " ++ (encTypeV c.getType).toStr ++ " " ++ toString c.len)
      | _ => ({ st with wc := none }, "panic"))
  | [.atom "wc", .atom "add", tok, w] =>
    (match st.wc with
      | some c =>
        let c' := c.add (decArg tok w)
        ({ st with wc := some c' }, toString c'.len)
      | none => (st, "no-collection"))
  | [.atom "wc", .atom "at", i] =>
    (st, match st.wc with
      | some c => (match c.at? i.int! with
        | .ok (some t) => t
        | .ok none => "nil"
        | .err => "err"
        | .panic => "panic")
      | none => "no-collection")
  | [.atom "wc", .atom "type"] =>
    (st, match st.wc with
      | some c => (encTypeV c.getType).toStr ++ " " ++ toString c.len
      | none => "no-collection")
  -- 2. identifiers
  | [.atom "idents", t, ids] =>
    let l := newIdentifiers t.bytes! (decStrsOpt ids)
    (st, (encIdents l).toStr ++ " " ++ (encStrsOpt (identIDs l)).toStr)
  | [.atom "ids", l] => (st, (encStrsOpt (identIDs (decIdentsOpt l))).toStr)
  -- 3. Type.Equal / Copy / Fields
  | [.atom "type", a, b] =>
    let t := decTypeV a
    let u := decTypeV b
    (st, (Sx.list [Sx.ofBool (t.equal u), Sx.ofBool (u.equal t), Sx.ofBool (t.equal t),
          encTypeV t.copy, Sx.ofStrs t.fields, Sx.ofBool (t.equal t.copy),
          Sx.ofStrs t.copy.fields]).toStr)
  -- 4. errors
  | [.atom "err", .atom name, as, qs] =>
    let args := as.strs!
    let deleg : GoString → GoString := fun s =>
      ((decPairs Sx.bytes! qs).find? (fun p => p.1 = s)).map (·.2) |>.getD []
    (st, match ErrCtor.find? name with
      | none => "unknown-constructor"
      | some c =>
        if c.arity ≠ args.length then "bad-arity"
        else
          let e := c.build (goQuote deleg) args
          (Sx.list [Sx.ofBytes e.status, Sx.ofBytes e.title, Sx.ofBytes e.detail,
            encJson (.obj e.source), encJson (.obj e.emeta),
            Sx.ofBytes (e.errorString httpStatusText), encJson e.toJson.coerce]).toStr)
  | [.atom "err", .atom "NewError"] =>
    let e := newError
    (st, (Sx.list [Sx.ofBytes e.status, Sx.ofBytes e.title, Sx.ofBytes e.detail,
            encJson (.obj e.source), encJson (.obj e.emeta),
            Sx.ofBytes (e.errorString httpStatusText), encJson e.toJson.coerce]).toStr)
  | [.atom "errstr", s, t, d] =>
    let e : ErrorObj := { status := s.bytes!, title := t.bytes!, detail := d.bytes! }
    (st, (Sx.ofBytes (e.errorString httpStatusText)).toStr)
  | [.atom "atoi", s] => (st, toString (goAtoi s.bytes!))
  | [.atom "quote", s] => (st, (Sx.ofBytes (quoteAscii s.bytes!)).toStr)
  | [.atom "coerce", s] => (st, (Sx.ofBytes (utf8Coerce s.bytes!)).toStr)
  -- 5. meta getters
  | [.atom "meta", m, k, p] =>
    let mm : MetaMap := decPairs decMetaVal m
    let key := k.bytes!
    let parsed := decTimeOpt p
    (st, (Sx.list [Sx.ofBool (mm.has key),
          (match mm.getString key with | some s => Sx.ofBytes s | none => .atom "-"),
          Sx.ofInt (mm.getInt key), Sx.ofBool (mm.getBool key),
          encTime (mm.getTime (fun _ => parsed) key)]).toStr)
  | _ => (st, "bad-op")

end Jsonapi.Driver
