/- Driver glue for the `alias` suite (heap model, C18). -/
import Jsonapi.Driver.Value
import Jsonapi.Model.Heap
import Jsonapi.Model.Soft
namespace Jsonapi.Driver
open Jsonapi

structure AliasState where
  heap : Heap := Heap.empty
  rs : List (HRes × Bool × List GoString) := []   -- resource, wrapped?, keys set at creation

def toHVal (h : Heap) (v : GoVal) : Heap × HVal :=
  match v with
  | .val .bytes (.bs (some l)) => let (h', a) := h.alloc (.bytes l); (h', .bytes (some a))
  | .val .bytes (.bs none) => (h, .bytes none)
  | .ptr .bytes none => (h, .ptrBytes none)
  | .ptr .bytes (some (.bs none)) => (h, .ptrBytes (some none))
  | .ptr .bytes (some (.bs (some l))) => let (h', a) := h.alloc (.bytes l); (h', .ptrBytes (some (some a)))
  | .strs l => let (h', a) := h.alloc (.strs l); (h', .strs (some a))
  | v => (h, .scalar v)

def canonOut (h : Heap) (v : HVal) : String :=
  let bytesAt (a : Option Addr) : List UInt8 := match a with
    | some x => (match h.read x with | some (.bytes l) => l | _ => [])
    | none => []
  match v with
  | .bytes a => (encVal (.val .bytes (.bs (some (bytesAt a))))).toStr
  | .ptrBytes none => "nil"
  | .ptrBytes (some a) => (encVal (.ptr .bytes (some (.bs (some (bytesAt a)))))).toStr
  | .strs a => (encVal (.strs (match a with
      | some x => (match h.read x with | some (.strs l) => l | _ => [])
      | none => []))).toStr
  | .scalar (.ptr _ none) => "nil"
  | .scalar x => (encVal x).toStr

def typOf (h : Heap) (r : HRes) : Typ := match h.read r.typ with | some (.typ t) => t | _ => Typ.empty

def aliasObs (st : AliasState) : String :=
  "(" ++ " ".intercalate (st.rs.map (fun (r, _, keys) =>
    let t := typOf st.heap r
    let vals := keys.filterMap (fun k =>
      if t.fields.contains k then
        (match r.data.get? k with
          | some v => some ("(" ++ (Sx.ofBytes k).toStr ++ " " ++ canonOut st.heap v ++ ")")
          | none => none)
      else none)
    "(" ++ (Sx.ofStrs t.fields).toStr ++ " " ++ (Sx.ofBytes r.id).toStr ++ " (" ++ " ".intercalate vals ++ "))")) ++ ")"

def modeOf (wrapped : Bool) : String → StoreMode := if wrapped then wrappedStoreMode else softStoreMode

def updRes (st : AliasState) (i : Nat) (h : Heap) (r : HRes) : AliasState :=
  { heap := h, rs := st.rs.mapIdx (fun j x => if j = i then (r, x.2.1, x.2.2) else x) }

def stepAlias (st : AliasState) (args : List Sx) : AliasState × String :=
  match args with
  | [.atom "new", w, t, vals] =>
    let (h1, ta) := Heap.empty.alloc (.typ (decTyp t))
    let (h2, data) := (decPairs decVal vals).foldl (fun (acc : Heap × GoMap HVal) p =>
      let (h', hv) := toHVal acc.1 p.2
      (h', acc.2 ++ [(p.1, hv)])) (h1, [])
    let st' : AliasState := { heap := h2, rs := [({ typ := ta, id := [49], data := data }, w.bool!, data.keys)] }
    (st', aliasObs st')
  | [.atom "copy", i] =>
    (match st.rs[i.nat!]? with
      | some (r, w, keys) =>
        let (h', c) := r.copy (modeOf w) st.heap
        let st' : AliasState := { heap := h', rs := st.rs ++ [(c, w, keys)] }
        (st', aliasObs st')
      | none => (st, "bad-index"))
  | [.atom "newof", i] =>
    (match st.rs[i.nat!]? with
      | some (r, w, _) =>
        let (h', c) := r.new st.heap
        let st' : AliasState := { heap := h', rs := st.rs ++ [(c, w, [])] }
        (st', aliasObs st')
      | none => (st, "bad-index"))
  | [.atom "op", i, op] =>
    (match st.rs[i.nat!]? with
      | some (r, _, _) =>
        let t := typOf st.heap r
        let ops : List HOp := match op.items with
          | [.atom "writebytes", k, idx, b] => [.writeBytes k.bytes! idx.nat! (UInt8.ofNat b.nat!)]
          | [.atom "writestr", k, idx, s] => [.writeStr k.bytes! idx.nat! s.bytes!]
          | [.atom "marshal"] =>
            (t.rels.filter (fun p => !p.2.toOne)).map (fun p => HOp.sortStrs p.2.fromName)
          | [.atom "filter", k] => [.sortStrs k.bytes!]
          | [.atom "setbytes", k, v] => [.setBytes k.bytes! (some v.bytes!)]
          | [.atom "setid", v] => [.setID v.bytes!]
          | [.atom "removefield", f] =>
            [.editType (fun t => { t with attrs := t.attrs.del f.bytes!, rels := t.rels.del f.bytes! })]
          | [.atom "addattr", a] =>
            let a := decAttr a
            [.editType (fun t => if (Soft.fields t).contains a.name then t else { t with attrs := t.attrs.set a.name a })]
          | _ => []
        let (h', r') := r.applyAll st.heap ops
        let st' := updRes st i.nat! h' r'
        (st', aliasObs st')
      | none => (st, "bad-index"))
  | _ => (st, "bad-op")

end Jsonapi.Driver
