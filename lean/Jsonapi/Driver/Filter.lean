/- Driver glue for the `filter` suite. -/
import Jsonapi.Driver.Value
import Jsonapi.Spec.Filter
namespace Jsonapi.Driver
open Jsonapi

partial def decFilter (x : Sx) : Filter :=
  match x.items with
  | [.atom "leaf", f, op, v] => .leaf f.bytes! op.bytes! (decVal v)
  | [.atom "node", a, cs] => .node a.bool! (cs.items.map decFilter)
  | _ => .node true []

def resBool : Res Bool → String
  | .ok b => "ok:" ++ (if b then "1" else "0")
  | .err => "err"
  | .panic => "panic"

def stepFilter (args : List Sx) : String × String × Bool :=
  match args with
  | [.atom "eval", rv, f] =>
    let r := decResView rv
    let f := decFilter f
    (resBool (isAllowed r f), "ok:" ++ (if Spec.eval r f then "1" else "0"), r.wf && wellTyped r f)
  | _ => ("bad-op", "-", false)

end Jsonapi.Driver
