/- Driver glue: the byte-level rendering of a JSON tree and the modelled parser (op `json`). -/
import Jsonapi.Driver.Json
import Jsonapi.Model.JsonText
import Jsonapi.Spec.JsonParse
namespace Jsonapi.Driver
open Jsonapi

/-- `(json text <tree>)`: the text the model renders for the tree, and whether the model's
parser reads that text back as the same tree (compared through their renderings).
`(json parse x<bytes> <tree>)`: whether the model's parser reads the real bytes as a tree
that renders like the given one. dom: every number literal is a JSON number. -/
def stepJson (args : List Sx) : String × String × Bool :=
  match args with
  | [.atom "text", t] =>
    let j := decJson t
    let txt := j.render
    let back := match Spec.parseJson txt with
      | some j' => if j'.render = txt then "ok" else "other-tree"
      | none => "rejected"
    ((Sx.list [Sx.ofBytes txt, .atom back]).toStr, "-", j.numsOk)
  | [.atom "parse", b, t] =>
    let j := decJson t
    (match Spec.parseJson b.bytes! with
      | some j' => if j'.render = j.render then "same-tree" else "other-tree"
      | none => "rejected", "-", j.numsOk)
  | _ => ("bad-op", "-", false)

end Jsonapi.Driver
