/- Driver glue: decoding/encoding of Go values and resource views. -/
import Jsonapi.Driver.Schema
import Jsonapi.Model.Value
namespace Jsonapi.Driver
open Jsonapi

def decPay (x : Sx) : Pay :=
  match x.items with
  | [.atom "s", v] => .s v.bytes!
  | [.atom "i", v] => .i v.int!
  | [.atom "b", v] => .b v.bool!
  | [.atom "t", a, b, c] => .t { sec := a.int!, nsec := b.nat!, off := c.int! }
  | [.atom "bs", .atom "nil"] => .bs none
  | [.atom "bs", v] => .bs (some v.bytes!)
  | _ => .i 0

def encPay : Pay → Sx
  | .s v => .list [.atom "s", Sx.ofBytes v]
  | .i v => .list [.atom "i", Sx.ofInt v]
  | .b v => .list [.atom "b", Sx.ofBool v]
  | .t v => .list [.atom "t", Sx.ofInt v.sec, Sx.ofNat v.nsec, Sx.ofInt v.off]
  | .bs none => .list [.atom "bs", .atom "nil"]
  | .bs (some v) => .list [.atom "bs", Sx.ofBytes v]

def decKind (x : Sx) : Kind := (Kind.ofCode? x.nat!).getD .string

def decVal (x : Sx) : GoVal :=
  match x with
  | .atom "nil" => .nil
  | .list [.atom "val", k, p] => .val (decKind k) (decPay p)
  | .list [.atom "ptr", k, .atom "nil"] => .ptr (decKind k) none
  | .list [.atom "ptr", k, p] => .ptr (decKind k) (some (decPay p))
  | .list [.atom "strs", l] => .strs l.strs!
  | .list [.atom "other", n] => .other n.nat!
  | _ => .other 0

def encVal : GoVal → Sx
  | .nil => .atom "nil"
  | .val k p => .list [.atom "val", Sx.ofNat k.code, encPay p]
  | .ptr k none => .list [.atom "ptr", Sx.ofNat k.code, .atom "nil"]
  | .ptr k (some p) => .list [.atom "ptr", Sx.ofNat k.code, encPay p]
  | .strs l => .list [.atom "strs", Sx.ofStrs l]
  | .other n => .list [.atom "other", Sx.ofNat n]

def decPairs {β} (f : Sx → β) (x : Sx) : GoMap β :=
  x.items.filterMap (fun p => match p.items with
    | [k, v] => some (k.bytes!, f v)
    | _ => none)

/-- `(typeName id (attrs) (rels) (vals))` -/
def decResView (x : Sx) : ResView :=
  match x.items with
  | [tn, id, as, rs, vs] =>
    { typeName := tn.bytes!, id := id.bytes!, attrs := decPairs decAttr as,
      rels := decPairs decRel rs, vals := decPairs decVal vs }
  | _ => default

def encResView (r : ResView) : Sx :=
  .list [Sx.ofBytes r.typeName, Sx.ofBytes r.id,
    .list ((sortByKey r.attrs).map (fun p => .list [Sx.ofBytes p.1, encAttr p.2])),
    .list ((sortByKey r.rels).map (fun p => .list [Sx.ofBytes p.1, encRel p.2])),
    .list ((sortByKey r.vals).map (fun p => .list [Sx.ofBytes p.1, encVal p.2]))]

end Jsonapi.Driver
