/- Driver glue for the `marshal` and `document` suites. -/
import Jsonapi.Driver.Json
import Jsonapi.Driver.Filter
import Jsonapi.Spec.Marshal
namespace Jsonapi.Driver
open Jsonapi

def decFieldsMap (x : Sx) : GoMap (List GoString) :=
  x.items.filterMap (fun p => match p.items with
    | [k, v] => some (k.bytes!, v.strs!)
    | _ => none)

/-- In the marshal suites the domain is: well-formed resource view with distinct,
key = name field names. -/
def resDom (r : ResView) : Bool :=
  r.wf && r.attrs.all (fun p => p.1 = p.2.name) && r.rels.all (fun p => p.1 = p.2.fromName) &&
  (r.attrs.keys ++ r.rels.keys).eraseDups.length = (r.attrs.keys ++ r.rels.keys).length

def stepMarshal (args : List Sx) : String × String × Bool :=
  match args with
  | [.atom "res", rv, pre, fields, relData, m] =>
    let r := decResView rv
    let mt := decMeta m
    let model := match marshalResource r pre.bytes! fields.strs! (decFieldsMap relData) mt with
      | .ok (j, _) => (encJson j).toStr
      | .err => "err"
      | .panic => "panic"
    (model, (encJson (Spec.resourceObject r pre.bytes! fields.strs! (decFieldsMap relData) mt)).toStr, resDom r)
  | _ => ("bad-op", "-", false)

end Jsonapi.Driver

namespace Jsonapi.Driver
open Jsonapi

-- decErrorObj lives in Driver/Unmarshal; the document decoder needs its own copy of the
-- small pieces to keep the import order simple.
def decErrorObjM (x : Sx) : ErrorObj :=
  match x.items with
  | [id, code, status, title, detail, links, source, m] =>
    { id := id.bytes!, code := code.bytes!, status := status.bytes!, title := title.bytes!,
      detail := detail.bytes!, links := decPairs Sx.bytes! links, source := decMeta source, emeta := decMeta m }
  | _ => default

def decDocData (x : Sx) : DocData :=
  match x with
  | .atom "none" => .none
  | .atom "other" => .other
  | .list [.atom "res", r] => .res (decResView r)
  | .list [.atom "col", tn, l] => .col tn.bytes! (l.items.map decResView)
  | .list [.atom "ident", id, t] => .ident id.bytes! t.bytes!
  | .list [.atom "idents", n, l] => .idents n.bool! (l.items.filterMap (fun p => match p.items with
      | [a, b] => some (a.bytes!, b.bytes!) | _ => none))
  | _ => .other

def decDocument (x : Sx) : Document :=
  match x.items with
  | [d, incs, links, rd, m, errs, pre] =>
    { data := decDocData d, included := incs.items.map decResView,
      links := links.items.filterMap (fun p => match p.items with
        | [k, h, lm] => some (k.bytes!, { href := h.bytes!, lmeta := decMeta lm }) | _ => none),
      relData := decFieldsMap rd, dmeta := decMeta m, errors := errs.items.map decErrorObjM,
      prePath := pre.bytes! }
  | _ => default

def docDom (d : Document) : Bool :=
  (match d.data with
    | .res r => resDom r
    | .col _ ms => ms.all resDom
    | _ => true) && d.included.all resDom

def stepMarshalDoc (args : List Sx) : String × String × Bool :=
  match args with
  | [dx, fields, self] =>
    let d := decDocument dx
    let model := match marshalDocument d (decFieldsMap fields) self.bytes! with
      | .ok (j, _) => (encJson j).toStr
      | .err => "err"
      | .panic => "panic"
    let spec := match Spec.documentTree d (decFieldsMap fields) self.bytes! with
      | some j => (encJson j).toStr
      | none => "err"
    (model, spec, docDom d)
  | _ => ("bad-op", "-", false)

end Jsonapi.Driver
