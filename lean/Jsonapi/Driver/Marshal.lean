/- Driver glue for the `marshal` and `document` suites. -/
import Jsonapi.Driver.Json
import Jsonapi.Driver.Filter
import Jsonapi.Spec.Marshal
namespace Jsonapi.Driver
open Jsonapi

def decFieldsMap (x : Sx) : GoMap (List GoString) :=
  x.items.filterMap (fun p => match p.items with
    | [k, v] => some (k.bytes!, v.strs!)
    | _ => none)

/-- In the marshal suites the domain is: well-formed resource view with distinct,
key = name field names. -/
def resDom (r : ResView) : Bool :=
  r.wf && r.attrs.all (fun p => p.1 = p.2.name) && r.rels.all (fun p => p.1 = p.2.fromName) &&
  (r.attrs.keys ++ r.rels.keys).eraseDups.length = (r.attrs.keys ++ r.rels.keys).length

def stepMarshal (args : List Sx) : String × String × Bool :=
  match args with
  | [.atom "res", rv, pre, fields, relData, m] =>
    let r := decResView rv
    let mt := decMeta m
    let model := match marshalResource r pre.bytes! fields.strs! (decFieldsMap relData) mt with
      | .ok (j, _) => (encJson j).toStr
      | .err => "err"
      | .panic => "panic"
    (model, (encJson (Spec.resourceObject r pre.bytes! fields.strs! (decFieldsMap relData) mt)).toStr, resDom r)
  | _ => ("bad-op", "-", false)

end Jsonapi.Driver
