/- Driver glue for the `structs` suite. -/
import Jsonapi.Driver.Value
import Jsonapi.Model.Struct
namespace Jsonapi.Driver
open Jsonapi

def decGoTy (x : Sx) : GoTy :=
  match x with
  | .atom "strs" => .strs
  | .list [.atom "a", k, n] => .attr (decKind k) n.bool!
  | .list [.atom "o", n, sk] => .other n.nat! sk.bool!
  | _ => .other 0 false

def decDecl (x : Sx) : StructDecl :=
  x.items.filterMap (fun f => match f.items with
    | [n, t, j, a] => some { name := n.bytes!, ty := decGoTy t, json := j.bytes!, api := a.bytes! }
    | _ => none)

def wrappedView (w : Wrapped) : String :=
  match w.view with
  | some v => (encResView v).toStr
  | none => "panic"

/-- run the `use` script on a zero instance -/
def runUse (d : StructDecl) (ops : List Sx) : String :=
  match wrap d (Wrapped.zeroVals d) with
  | .ok w0 =>
    let rec go (w : Wrapped) (ops : List Sx) (acc : List String) : List String :=
      match ops with
      | [] => acc.reverse
      | op :: rest =>
        match op with
        | .list [.atom "get", k] =>
          (match w.get k.bytes! with
            | .ok v => go w rest ((encVal v).toStr :: acc)
            | _ => ("panic" :: acc).reverse)
        | .list [.atom "set", k, v] =>
          (match w.set k.bytes! (decVal v) with
            | .ok w' => go w' rest ("ok" :: acc)
            | _ => ("panic" :: acc).reverse)
        | .atom "copy" =>
          (match w.copy with
            | .ok c => if c.view.isSome then go w rest (wrappedView c :: acc) else ("panic" :: acc).reverse
            | _ => ("panic" :: acc).reverse)
        | .atom "new" =>
          (match w.new with
            | .ok c => if c.view.isSome then go w rest (wrappedView c :: acc) else ("panic" :: acc).reverse
            | _ => ("panic" :: acc).reverse)
        | _ => ("bad-op" :: acc).reverse
    "(" ++ " ".intercalate (go w0 ops []) ++ ")"
  | _ => "panic"

def stepStruct (args : List Sx) : String × String × Bool :=
  match args with
  | [.atom "check", d] => (if checkStruct (decDecl d) then "1" else "0", "-", true)
  | [.atom "build", d] =>
    (match buildType (decDecl d) with
      | .ok t => "ok " ++ (encTyp t).toStr
      | .err => "err"
      | .panic => "panic", "-", true)
  | [.atom "wrap", d] =>
    (match wrap (decDecl d) (Wrapped.zeroVals (decDecl d)) with
      | .ok w => "ok " ++ (encTyp { name := w.typ, attrs := w.attrs, rels := w.rels }).toStr
      | _ => "panic", "-", true)
  | [.atom "use", d, ops] => (runUse (decDecl d) ops.items, "-", true)
  | _ => ("bad-op", "-", false)

end Jsonapi.Driver
