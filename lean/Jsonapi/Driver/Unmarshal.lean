/- Driver glue for the `bytes` / `literals` suites (unmarshaling from skeletons). -/
import Jsonapi.Driver.Marshal
import Jsonapi.Driver.Resource
import Jsonapi.Model.Unmarshal
namespace Jsonapi.Driver
open Jsonapi

def decSSchema (x : Sx) : SSchema :=
  x.items.filterMap (fun p => match p.items with
    | [t, b] => some { typ := decTyp t, backed := b.bool! }
    | _ => none)

def decOk {β} (f : Sx → β) (x : Sx) : Option β :=
  match x with
  | .list [.atom "ok", v] => some (f v)
  | _ => none

def decRawVal (x : Sx) : RawVal :=
  match x.items with
  | [.atom "raw", b, s, t, bs] =>
    { bytes := b.bytes!,
      decStr := decOk Sx.bytes! s,
      decTime := (match t with
        | .list [.atom "ok", a, n, o] => some { sec := a.int!, nsec := n.nat!, off := o.int! }
        | _ => none),
      decBytes := (match bs with
        | .list [.atom "ok", .atom "nil"] => some none
        | .list [.atom "ok", v] => some (some v.bytes!)
        | _ => none) }
  | _ => default

def decIdentPair (x : Sx) : GoString × GoString :=
  match x.items with
  | [a, b] => (a.bytes!, b.bytes!)
  | _ => ([], [])

def decRelRaw (x : Sx) : RelRaw :=
  match x.items with
  | [.atom "rel", p, n, i, is] =>
    { present := p.bool!, isNull := n.bool!, decIdent := decOk decIdentPair i,
      decIdents := decOk (fun l => l.items.map decIdentPair) is }
  | _ => default

def decResSke (x : Sx) : ResSke? :=
  match x.items with
  | [.atom "ske", id, ty, as, rs, m] =>
    some { id := id.bytes!, typ := ty.bytes!, attrs := decPairs decRawVal as,
           rels := decPairs decRelRaw rs, smeta := decMeta m }
  | _ => none

def decErrorObj (x : Sx) : ErrorObj :=
  match x.items with
  | [id, code, status, title, detail, links, source, m] =>
    { id := id.bytes!, code := code.bytes!, status := status.bytes!, title := title.bytes!,
      detail := detail.bytes!, links := decPairs Sx.bytes! links, source := decMeta source, emeta := decMeta m }
  | _ => default

def encErrorObj (e : ErrorObj) : Sx :=
  .list [Sx.ofBytes e.id, Sx.ofBytes e.code, Sx.ofBytes e.status, Sx.ofBytes e.title, Sx.ofBytes e.detail,
    .list ((sortByKey e.links).map (fun p => .list [Sx.ofBytes p.1, Sx.ofBytes p.2])),
    encJson (.obj e.source), encJson (.obj e.emeta)]

def decDocSke (x : Sx) : Option DocSke :=
  match x.items with
  | [.atom "doc", d, errs, incs, m] =>
    let data : DataSke := match d with
      | .atom "absent" => .absent
      | .atom "null" => .null
      | .atom "other" => .other
      | .list [.atom "res", r] => .res (decResSke r)
      | .list [.atom "col", .atom "none"] => .col none
      | .list [.atom "col", l] => .col (some (l.items.map decResSke))
      | _ => .other
    some { data := data, errors := errs.items.map decErrorObj,
           included := incs.items.filterMap (fun p => match p.items with
             | [ok, r] => some (ok.bool!, decResSke r) | _ => none),
           dmeta := decMeta m }
  | _ => none

def anyResView (r : AnyRes) : String :=
  match r.view? with
  | some v => (encResView v).toStr
  | none => "panic"

def resOut : Res AnyRes → String
  | .ok r => "ok " ++ anyResView r
  | .err => "err"
  | .panic => "panic"

def udocView (d : UDoc) : String :=
  let data := match d.data with
    | .none => "none"
    | .res r => "(res " ++ anyResView r ++ ")"
    | .col l => "(col (" ++ " ".intercalate (l.map anyResView) ++ "))"
  "(" ++ data ++ " (" ++ " ".intercalate (d.included.map anyResView) ++ ") " ++
    (Sx.list (d.errors.map encErrorObj)).toStr ++ " " ++ (encJson (.obj d.dmeta)).toStr ++ ")"

def stepUnm (args : List Sx) : String × String × Bool :=
  match args with
  | [.atom "res", sc, sk] => (resOut (unmarshalRes? (decSSchema sc) (decResSke sk)), "-", true)
  | [.atom "partial", sc, sk] =>
    (match decResSke sk with
      | none => "err"
      | some s => (match unmarshalPartialResource (decSSchema sc) s with
        | .ok r => "ok " ++ (encResView r.view).toStr
        | .err => "err"
        | .panic => "panic"), "-", true)
  | [.atom "doc", sc, sk] =>
    (match unmarshalDocument (decSSchema sc) (decDocSke sk) with
      | .ok d => "ok " ++ udocView d
      | .err => "err"
      | .panic => "panic", "-", true)
  | [.atom "ident", sc, d] =>
    (match unmarshalIdentifier (some (decSSchema sc)) (decOk decIdentPair d) with
      | .ok (id, ty) => "ok (" ++ (Sx.ofBytes id).toStr ++ " " ++ (Sx.ofBytes ty).toStr ++ ")"
      | .err => "err"
      | .panic => "panic", "-", true)
  | [.atom "idents", sc, d] =>
    (match unmarshalIdentifiers (some (decSSchema sc)) (decOk (fun l => l.items.map (decOk decIdentPair)) d) with
      | .ok l => "ok " ++ (Sx.list (l.map (fun p => .list [Sx.ofBytes p.1, Sx.ofBytes p.2]))).toStr
      | .err => "err"
      | .panic => "panic", "-", true)
  | [.atom "request-verdict-only"] => ("-", "-", true)
  | _ => ("bad-op", "-", false)

end Jsonapi.Driver
