/- Driver glue for the `url` suite. -/
import Jsonapi.Driver.Marshal
import Jsonapi.Model.Url
import Jsonapi.Spec.Url
namespace Jsonapi.Driver
open Jsonapi

def decParsed (x : Sx) : Option (GoString × GoMap (List GoString) × FilterDec) :=
  match x.items with
  | [p, vs, ld, fd] =>
    some (p.bytes!, vs.items.filterMap (fun e => match e.items with
        | [k, l] => some (k.bytes!, l.strs!) | _ => none),
      { label := (match ld with | .list [.atom "ok", v] => some v.bytes! | _ => none),
        filter := (match fd with | .list [.atom "ok", v] => some v.bytes! | _ => none) })
  | _ => none

def encFieldsMap (m : GoMap (List GoString)) : Sx :=
  .list ((sortByKey m).map (fun p => .list [Sx.ofBytes p.1, Sx.ofStrs p.2]))

def encPage (m : GoMap PageVal) : Sx :=
  .list ((sortByKey m).map (fun p => .list [Sx.ofBytes p.1, match p.2 with
    | .int n => .list [.atom "int", Sx.ofInt n]
    | .str s => .list [.atom "str", Sx.ofBytes s]]))

def encURL (u : URL) : Sx :=
  .list [Sx.ofStrs u.fragments, Sx.ofBool u.isCol, Sx.ofBytes u.resType, Sx.ofBytes u.resID, encRel u.rel,
    encFieldsMap u.params.fields, Sx.ofStrs u.params.sortingRules, encPage u.params.page,
    Sx.ofBytes u.params.filterLabel,
    (match u.params.filter with | some f => Sx.ofBytes f | none => .atom "none"),
    .list (u.params.incl.map (fun path => .list (path.map encRel)))]

def stepUrl (args : List Sx) : String × String × Bool :=
  match args with
  | [.atom "parse", _tags, sc, _raw, parsed, lb] =>
    (match newURLFrom (decSchema sc) (decParsed parsed) with
      | .ok u => "ok " ++ (encURL u).toStr ++ " " ++ (Sx.ofBytes (u.string { labelBody := lb.bytes! })).toStr
      | .err => "err"
      | .panic => "panic", "-", true)
  | [.atom "reparse", str] =>
    (match Spec.parseRaw str.bytes! with
      | some (p, vs) => (Sx.list [Sx.ofBytes p, .list ((sortByKey vs).map (fun e => .list [Sx.ofBytes e.1, Sx.ofStrs e.2]))]).toStr
      | none => "none", "-", true)
  | _ => ("bad-op", "-", false)

end Jsonapi.Driver
