/- Driver glue for the `range` suite. -/
import Jsonapi.Driver.Filter
import Jsonapi.Spec.Range
namespace Jsonapi.Driver
open Jsonapi

/-- What is observed of a page: per element, the values the rules look at (the ID when
`id` is a rule). With ties and no `id` rule the elements themselves are not determined,
their sort keys are. -/
def pageKeys (rules : List GoString) (l : List ResView) : Sx :=
  let rules' := if rules.isEmpty then [idName] else rules
  .list (l.map (fun r => .list (rules'.map (fun rule =>
    let name := (splitRule rule).2
    if name = idName then Sx.ofBytes r.id else encVal (r.get name)))))

def rangeDom (c : List ResView) (f : Option Filter) (rules : List GoString) (size num : Nat) : Bool :=
  c.all (fun r => r.wf) &&
  (c.map (·.id)).eraseDups.length = c.length &&
  (match f with | none => true | some flt => c.all (fun r => wellTyped r flt)) &&
  rules.all (fun rule => let n := (splitRule rule).2; n = idName || c.all (fun r => r.attrs.has n)) &&
  decide (num * size < 2^63)

def stepRange (args : List Sx) : String × String × Bool :=
  match args with
  | [.atom "run", _tags, col, ids, f, rules, size, num] =>
    let c := col.items.map decResView
    let ids := ids.strs!
    let f := match f with | .atom "none" => none | x => some (decFilter x)
    let rules := rules.strs!
    let size := size.nat!; let num := num.nat!
    let m := match range mergeSorter c ids f rules size num with
      | .ok p => "ok " ++ (pageKeys rules p).toStr
      | .err => "err"
      | .panic => "panic"
    let dom := rangeDom c f rules size num && (ids.eraseDups.length = ids.length)
    (m, "ok " ++ (pageKeys rules (Spec.range c ids f rules size num)).toStr, dom)
  | _ => ("bad-op", "-", false)

end Jsonapi.Driver
