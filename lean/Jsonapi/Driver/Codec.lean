/- Driver glue: the modelled codecs (encoder and decoder) on one value, for suite `codec`. -/
import Jsonapi.Driver.Value
import Jsonapi.Model.Json
import Jsonapi.Spec.Codec
namespace Jsonapi.Driver
open Jsonapi

/-- `(codec time sec nsec off)`: the text the model's encoder writes and what the model's
decoder reads back from it; `(codec b64 x…)` likewise for base64. dom: inside the domain
on which the decoder law is proved. -/
def stepCodec (args : List Sx) : String × String × Bool :=
  match args with
  | [.atom "time", a, b, c] =>
    let t : Time := { sec := a.int!, nsec := b.nat!, off := c.int! }
    let txt := formatTime t
    let back := match Spec.parseRFC3339 txt with
      | some t' => Sx.list [.atom "ok", Sx.ofInt t'.sec, Sx.ofNat t'.nsec, Sx.ofInt t'.off]
      | none => .atom "none"
    ((Sx.list [Sx.ofBytes txt, back]).toStr, "-", decide (Spec.TimeDom t))
  | [.atom "b64", v] =>
    let txt := b64enc v.bytes!
    let back := match Spec.b64decode txt with
      | some l => Sx.list [.atom "ok", Sx.ofBytes l]
      | none => .atom "none"
    ((Sx.list [Sx.ofBytes txt, back]).toStr, "-", true)
  | _ => ("bad-op", "-", false)

end Jsonapi.Driver
