/- Driver glue for `NewRequest` (suite `bytes`, op `request`). -/
import Jsonapi.Driver.Unmarshal
import Jsonapi.Driver.Url
import Jsonapi.Model.Request
namespace Jsonapi.Driver
open Jsonapi

/-- `(request <method> <schema> <parsed url> <payload skeleton>)` -/
def stepRequest (args : List Sx) : String × String × Bool :=
  match args with
  | [m, sc, parsed, sk] =>
    (match decParsed parsed with
      | none => "bad-op"
      | some (path, values, fd) =>
        (match newRequest (decSSchema sc) m.bytes! true path values fd (decDocSke sk) with
          | .ok req =>
            "ok (" ++ (Sx.ofBytes req.method).toStr ++ " " ++ (encURL req.url).toStr ++ " " ++
              (match req.doc with | some d => udocView d | none => "nodoc") ++ ")"
          | .err => "err"
          | .panic => "panic"), "-", true)
  | _ => ("bad-op", "-", false)

end Jsonapi.Driver
