/- Driver glue for the `resource` and `collection` suites. -/
import Jsonapi.Driver.Struct
import Jsonapi.Model.Soft
import Jsonapi.Model.Equal
namespace Jsonapi.Driver
open Jsonapi

structure ResState where
  soft : Soft := default
  wrapped : Option Wrapped := none

def resObs (st : ResState) : String :=
  (encResView st.soft.view).toStr ++ " " ++
  (match st.wrapped with | some w => wrappedView w | none => "panic")

def stepRes (st : ResState) (args : List Sx) : ResState × String × String × Bool :=
  match args with
  | [.atom "new", t] =>
    let t := decTyp t
    let d := declOfTyp t
    let st' : ResState := { soft := { typ := t, id := [], data := [] },
                            wrapped := match wrap d (Wrapped.zeroVals d) with | .ok w => some w | _ => none }
    (st', resObs st', "-", true)
  | [.atom "set", k, v] =>
    let v := decVal v
    let st' : ResState := { soft := st.soft.set k.bytes! v,
                            wrapped := match st.wrapped with
                              | some w => (match w.set k.bytes! v with | .ok w' => some w' | _ => none)
                              | none => none }
    (st', resObs st', "-", true)
  -- type edits of the soft resource alone (a wrapped struct cannot change its type)
  | [.atom "soft", .atom "addattr", a] =>
    let st' := { st with soft := st.soft.addAttr (decAttr a) }
    (st', (encResView st'.soft.view).toStr, "-", true)
  | [.atom "soft", .atom "addrel", r] =>
    let st' := { st with soft := st.soft.addRel (decRel r) }
    (st', (encResView st'.soft.view).toStr, "-", true)
  | [.atom "soft", .atom "removefield", f] =>
    let st' := { st with soft := st.soft.removeField f.bytes! }
    (st', (encResView st'.soft.view).toStr, "-", true)
  | [.atom "soft", .atom "settype", t] =>
    let st' := { st with soft := st.soft.setType (decTyp t) }
    (st', (encResView st'.soft.view).toStr, "-", true)
  | [.atom "soft", .atom "settype-unread", t] =>
    ({ st with soft := st.soft.setType (decTyp t) }, "-", "-", true)
  | [.atom "soft", .atom "set", k, v] =>
    let st' := { st with soft := st.soft.set k.bytes! (decVal v) }
    (st', (encResView st'.soft.view).toStr, "-", true)
  | [.atom "equal", _tags, a, b] =>
    let a := decResView a; let b := decResView b
    let o := match equal a b, equalStrict a b with
      | .ok x, .ok y => (if x then "1" else "0") ++ " " ++ (if y then "1" else "0")
      | _, _ => "panic"
    (st, o, "-", true)
  | _ => (st, "bad-op", "-", false)

end Jsonapi.Driver

namespace Jsonapi.Driver
open Jsonapi

def colDump (c : SColl) : String :=
  (encTyp c.typ).toStr ++ " " ++
  (Sx.list (c.col.map (fun row => encResView (c.soft row).view))).toStr

partial def stepCol (c : SColl) (args : List Sx) : SColl × String × String × Bool :=
  match args with
  | .atom "quiet" :: rest => let (c', _, _, _) := stepCol c rest; (c', "-", "-", true)
  | [.atom "reset", t] =>
    let c' : SColl := { typ := decTyp t, col := [] }
    (c', colDump c', "-", true)
  | [.atom "add", r] =>
    (match c.add (decResView r) with
      | .ok c' => (c', colDump c', "-", true)
      | _ => (c, "panic", "-", true))
  | [.atom "remove", id] => let c' := c.remove id.bytes!; (c', colDump c', "-", true)
  | [.atom "addattr", a] => let c' := (c.addAttr (decAttr a)).1; (c', colDump c', "-", true)
  | [.atom "addrel", r] => let c' := (c.addRel (decRel r)).1; (c', colDump c', "-", true)
  | [.atom "settype", t] => let c' := c.setType (decTyp t); (c', colDump c', "-", true)
  | [.atom "at", i] =>
    (c, match c.at? i.int! with | some s => (encResView s.view).toStr | none => "nil", "-", true)
  | [.atom "resource", id] =>
    (c, match c.resource? id.bytes! with | some s => (encResView s.view).toStr | none => "nil", "-", true)
  | _ => (c, "bad-op", "-", false)

end Jsonapi.Driver
