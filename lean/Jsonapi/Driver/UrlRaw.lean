/- Driver glue for the `urlraw` suite: net/url on arbitrary raw strings, inside the model. -/
import Jsonapi.Driver.Url
import Jsonapi.Model.UrlRaw
namespace Jsonapi.Driver
open Jsonapi

/-- the handed-over decode of the filter parameter: `(ld fd)` as in the `url` suite -/
def decFd (ld fd : Sx) : FilterDec :=
  { label := (match ld with | .list [.atom "ok", v] => some v.bytes! | _ => none),
    filter := (match fd with | .list [.atom "ok", v] => some v.bytes! | _ => none) }

/-- `(urlraw parse x<raw>)`: `err` or `ok x<path> (<values, keys sorted>)`.
`(urlraw url <tags> <schema> x<raw> <ld> <fd> x<labelBody>)`: the whole `NewURLFromRaw` on the raw
string, printed like `url parse`. The filter value is decoded by the modelled codec when it
is in the codec's validated domain, by the handed-over real decode otherwise. -/
def stepUrlRaw (args : List Sx) : String × String × Bool :=
  match args with
  | [.atom "parse", raw] =>
    (match Spec.goUrlParse raw.bytes! with
      | some (p, vs) => "ok " ++ (Sx.ofBytes p).toStr ++ " " ++
          (Sx.list ((sortByKey vs).map (fun e => .list [Sx.ofBytes e.1, Sx.ofStrs e.2]))).toStr
      | none => "err", "-", true)
  | [.atom "url", _tags, sc, raw, ld, fd, lb] =>
    let fdOf : GoMap (List GoString) → FilterDec := fun vs =>
      if filterInDomain (firstVal ((vs.get? sFilter).getD [])) then rawFd labelDec (filterDec id) vs
      else decFd ld fd
    (match newURLFromRaw (decSchema sc) fdOf raw.bytes! with
      | .ok u => "ok " ++ (encURL u).toStr ++ " " ++ (Sx.ofBytes (u.string { labelBody := lb.bytes! })).toStr
      | .err => "err"
      | .panic => "panic", "-", true)
  | _ => ("bad-op", "-", false)

end Jsonapi.Driver
