/-
Driver glue for suite `bytes2`: the six entry points run FROM THE PAYLOAD BYTES
(`Model/Decode.lean`: full-grammar reader, struct decoding of the skeletons, then the existing
model of the entry point). Op lines `(bytes2 <entry> <schema> x<payload>)`, entries `res`,
`partial`, `col`, `doc`, `ident`, `idents`; the observation format is the one of suite `bytes`
(`Driver/Unmarshal.lean`'s printers).

The two delegated decoders are instantiated here:

* `decTime`: the modelled RFC 3339 reader `Spec.parseRFC3339` on the texts on which
  `time.Time.UnmarshalJSON` takes its strict fast path (`strictTime`: the exact layout with
  every field in range, 1..9 fraction digits), an error for a value that is not a string and for
  a string whose first byte is not a digit (`time.Parse(RFC3339, …)` needs a four-digit year
  first). A string that starts with a digit and is not in the strict layout may still be taken
  by Go's lenient fallback parser: such a value in a time attribute puts the case outside the
  domain (`skip`, dom = 0; the Go side computes the same flag from the real skeleton).
* `numCanon`: the identity; a case with a number under a `meta` / `source` member that is not a
  canonical integer within ±2^53 is outside the domain (`skip`; float64 formatting is not
  modelled).
-/
import Jsonapi.Driver.Unmarshal
import Jsonapi.Model.Decode
import Jsonapi.Model.FilterJson
import Jsonapi.Spec.Codec
namespace Jsonapi.Driver
open Jsonapi Spec

/-! ### the time decoder and its domain -/

def dig2 (a b : UInt8) : Option Nat :=
  if isDig a && isDig b then some ((a.toNat - 48) * 10 + (b.toNat - 48)) else none

def daysIn (y m : Nat) : Nat :=
  if m = 2 then (if y % 4 = 0 ∧ (y % 100 ≠ 0 ∨ y % 400 = 0) then 29 else 28)
  else if m = 4 ∨ m = 6 ∨ m = 9 ∨ m = 11 then 30 else 31

/-- the zone part: `Z` or `±hh:mm` with hh ≤ 23, mm ≤ 59, up to the end -/
def strictZone : GoString → Bool
  | [90] => true
  | [s, a, b, c, d, e] =>
    (s = 43 || s = 45) && c = 58 &&
      (match dig2 a b, dig2 d e with
        | some hh, some mm => hh ≤ 23 && mm ≤ 59
        | _, _ => false)
  | _ => false

/-- the text between the quotes is in the layout of Go's strict RFC 3339 fast path -/
def strictTime (s : GoString) : Bool :=
  match s with
  | y1 :: y2 :: y3 :: y4 :: d1 :: m1 :: m2 :: d2 :: a1 :: a2 :: t :: h1 :: h2 :: c1 :: i1 :: i2 :: c2 ::
      s1 :: s2 :: rest =>
    d1 = 45 && d2 = 45 && t = 84 && c1 = 58 && c2 = 58 &&
    (match dig2 y1 y2, dig2 y3 y4, dig2 m1 m2, dig2 a1 a2, dig2 h1 h2, dig2 i1 i2, dig2 s1 s2 with
      | some ya, some yb, some m, some d, some hh, some mi, some ss =>
        1 ≤ m && m ≤ 12 && 1 ≤ d && d ≤ daysIn (ya * 100 + yb) m && hh ≤ 23 && mi ≤ 59 && ss ≤ 59
      | _, _, _, _, _, _, _ => false) &&
    (match rest with
      | 46 :: f =>
        let ds := f.takeWhile isDig
        1 ≤ ds.length && ds.length ≤ 9 && strictZone (f.dropWhile isDig)
      | z => strictZone z)
  | _ => false

/-- the text between the quotes of a raw value that is a string literal -/
def quotedBody (raw : GoString) : Option GoString :=
  match raw with
  | 34 :: r => if r.getLast? = some 34 then some r.dropLast else none
  | _ => none

/-- the raw value may be accepted by Go's lenient time parser in a way the model does not know -/
def timeUncertain (raw : GoString) : Bool :=
  match quotedBody raw with
  | none => false
  | some body => !strictTime body && (match body with
    | c :: _ => isDig c
    | [] => false)

def drvDelegated : Delegated :=
  { decTime := fun raw => match quotedBody raw with
      | none => none
      | some body => if strictTime body then parseRFC3339 body else none,
    numCanon := fun lit => some lit }

/-! ### the domain of a case -/

/-- some attribute of kind time of the resource payload carries an uncertain value -/
def resUncertain (σ : SSchema) : ResSke? → Bool
  | none => false
  | some sk =>
    match σ.getType sk.typ with
    | none => false
    | some st => sk.attrs.any (fun p => match st.typ.attrs.get? p.1 with
      | some a => Kind.ofCode? a.ty == some Kind.time && timeUncertain p.2.bytes
      | none => false)

def docUncertain (σ : SSchema) : Option DocSke → Bool
  | none => false
  | some d =>
    (match d.data with
      | .res r => resUncertain σ r
      | .col (some l) => l.any (resUncertain σ)
      | _ => false) || d.included.any (fun p => resUncertain σ p.2)

mutual
/-- every number literal of the value is a canonical integer numeral within ±2^53 -/
def cSafeNums : CJson → Bool
  | .num lit => isSafeInt lit
  | .arr _ items => cSafeNumsItems items
  | .obj _ ms => cSafeNumsMembers ms
  | _ => true
def cSafeNumsItems : List CItem → Bool
  | [] => true
  | (_, v, _) :: rest => cSafeNums v && cSafeNumsItems rest
def cSafeNumsMembers : List CMember → Bool
  | [] => true
  | (_, _, _, v, _) :: rest => cSafeNums v && cSafeNumsMembers rest
end

def kMETA : GoString := [77, 69, 84, 65]
def kSOURCE : GoString := [83, 79, 85, 82, 67, 69]

mutual
/-- under every member whose key folds to `meta` or `source`, wherever it is, all numbers are
safe (a conservative, schema-free over-approximation of "every number decoded into an `any`") -/
def metaNumsOk : CJson → Bool
  | .arr _ items => metaNumsOkItems items
  | .obj _ ms => metaNumsOkMembers ms
  | _ => true
def metaNumsOkItems : List CItem → Bool
  | [] => true
  | (_, v, _) :: rest => metaNumsOk v && metaNumsOkItems rest
def metaNumsOkMembers : List CMember → Bool
  | [] => true
  | (_, k, _, v, _) :: rest =>
    (if foldKey (unquote k) = kMETA ∨ foldKey (unquote k) = kSOURCE then cSafeNums v else true) &&
      metaNumsOk v && metaNumsOkMembers rest
end

/-! ### the op -/

def listOut : Res (List AnyRes) → String
  | .ok l => "ok (" ++ " ".intercalate (l.map anyResView) ++ ")"
  | .err => "err"
  | .panic => "panic"

def skipOut : String × String × Bool := ("skip", "-", false)

def stepBytes2 (args : List Sx) : String × String × Bool :=
  match args with
  | [.atom entry, sc, x] =>
    let σ := decSSchema sc
    let bytes := x.bytes!
    let D := drvDelegated
    match parseJsonC bytes with
    | none => ("err", "-", true)
    | some j =>
      if !metaNumsOk j then skipOut
      else if entry == "res" then
        (if resUncertain σ (decodeRes D j) then skipOut
         else (resOut (unmarshalResourceBytes D σ bytes), "-", true))
      else if entry == "partial" then
        (if resUncertain σ (decodeRes D j) then skipOut
         else (match unmarshalPartialResourceBytes D σ bytes with
          | .ok r => "ok " ++ (encResView r.view).toStr
          | .err => "err"
          | .panic => "panic", "-", true))
      else if entry == "col" then
        (if (match decodeRaws j with
            | some l => l.any (fun v => resUncertain σ (decodeRes D v))
            | none => false) then skipOut
         else (listOut (unmarshalCollectionBytes D σ bytes), "-", true))
      else if entry == "doc" then
        (if docUncertain σ (decodeDoc D j) then skipOut
         else (match unmarshalDocumentBytes D σ bytes with
          | .ok d => "ok " ++ udocView d
          | .err => "err"
          | .panic => "panic", "-", true))
      else if entry == "ident" then
        (match unmarshalIdentifierBytes (some σ) bytes with
          | .ok (id, ty) => "ok (" ++ (Sx.ofBytes id).toStr ++ " " ++ (Sx.ofBytes ty).toStr ++ ")"
          | .err => "err"
          | .panic => "panic", "-", true)
      else if entry == "idents" then
        (match unmarshalIdentifiersBytes (some σ) bytes with
          | .ok l => "ok " ++ (Sx.list (l.map (fun p => .list [Sx.ofBytes p.1, Sx.ofBytes p.2]))).toStr
          | .err => "err"
          | .panic => "panic", "-", true)
      else ("bad-op", "-", false)
  | _ => ("bad-op", "-", false)

end Jsonapi.Driver
