/-
Driver glue for the `schema*` suites: decode ops, run the model, print observations
in the same canonical text as harness/suite_schema.go.
-/
import Jsonapi.Basic.Sx
import Jsonapi.Model.Schema
namespace Jsonapi.Driver
open Jsonapi

def decRel (x : Sx) : Rel :=
  match x.items with
  | [a, b, c, d, e, f] =>
    { fromType := a.bytes!, fromName := b.bytes!, toOne := c.bool!,
      toType := d.bytes!, toName := e.bytes!, fromOne := f.bool! }
  | _ => default

def encRel (r : Rel) : Sx :=
  .list [Sx.ofBytes r.fromType, Sx.ofBytes r.fromName, Sx.ofBool r.toOne,
         Sx.ofBytes r.toType, Sx.ofBytes r.toName, Sx.ofBool r.fromOne]

def decAttr (x : Sx) : Attr :=
  match x.items with
  | [a, b, c] => { name := a.bytes!, ty := b.nat!, nullable := c.bool! }
  | _ => default

def encAttr (a : Attr) : Sx := .list [Sx.ofBytes a.name, Sx.ofNat a.ty, Sx.ofBool a.nullable]

/-- Negative Go ints cannot be valid kinds; `nat!` maps them to 0 (also invalid). -/
def decTyp (x : Sx) : Typ :=
  match x.items with
  | [n, as, rs] =>
    { name := n.bytes!,
      attrs := as.items.map (fun p => match p.items with
        | [k, a] => (k.bytes!, decAttr a) | _ => ([], default)),
      rels := rs.items.map (fun p => match p.items with
        | [k, r] => (k.bytes!, decRel r) | _ => ([], default)) }
  | _ => Typ.empty

def sortByKey {β} (m : GoMap β) : GoMap β :=
  m.mergeSort (fun a b => !(decide (b.1 < a.1)))

def encTyp (t : Typ) : Sx :=
  .list [Sx.ofBytes t.name,
    .list ((sortByKey t.attrs).map (fun p => .list [Sx.ofBytes p.1, encAttr p.2])),
    .list ((sortByKey t.rels).map (fun p => .list [Sx.ofBytes p.1, encRel p.2]))]

def decSchema (x : Sx) : Schema := { types := x.items.map decTyp }
def encSchema (s : Schema) : Sx := .list (s.types.map encTyp)

def resStr : Res Unit → String
  | .ok _ => "ok"
  | .err => "err"
  | .panic => "panic"

/-- One op of the schema suites. Returns new state, model observation, spec observation
("-" when the property verdict is evaluated on the Go side), in-domain flag. -/
def stepSchema (s : Schema) (args : List Sx) : Schema × String × String × Bool :=
  let mut_ (p : Schema × Res Unit) : Schema × String × String × Bool :=
    (p.1, resStr p.2 ++ " " ++ (encSchema p.1).toStr, "-", true)
  match args with
  | [.atom "reset"] => (Schema.empty, "ok", "-", true)
  | [.atom "addtype", t] => mut_ (s.addType (decTyp t))
  | [.atom "removetype", n] => mut_ (s.removeType n.bytes!, .ok ())
  | [.atom "addattr", n, a] => mut_ (s.addAttr n.bytes! (decAttr a))
  | [.atom "removeattr", n, a] => mut_ (s.removeAttr n.bytes! a.bytes!, .ok ())
  | [.atom "addrel", n, r] => mut_ (s.addRel n.bytes! (decRel r))
  | [.atom "removerel", n, a] => mut_ (s.removeRel n.bytes! a.bytes!, .ok ())
  | [.atom "addtwoway", r] => mut_ (s.addTwoWayRel (decRel r))
  | [.atom "check", sc] =>
    (s, toString (decSchema sc).checkCount, "-", true)
  | [.atom "norm", r] =>
    let r := decRel r
    (s, (Sx.list [encRel r.normalize, Sx.ofBytes r.string, encRel r.invert]).toStr, "-", true)
  | [.atom "rels", sc] =>
    (s, (Sx.list ((decSchema sc).relsSorted.map encRel)).toStr, "-", true)
  | _ => (s, "bad-op", "-", false)

end Jsonapi.Driver
